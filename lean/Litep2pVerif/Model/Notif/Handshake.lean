import Litep2pVerif.Model.Notif.Peer
/-!
`HandshakeService` (src/protocol/notification/negotiation.rs): the handshake I/O of the substreams under
negotiation.

* `substreams : HashMap<(PeerId, Direction), (Substream, Delay, HandshakeState)>` = `Service.entries`
  (association list, at most one entry per key), `ready : VecDeque<…>` = `Service.ready`;
* `negotiate_outbound` / `read_handshake` / `send_handshake` = `Service.insert` (a `HashMap::insert`: an entry
  with the same key is replaced), `remove_outbound` / `remove_inbound` = `Service.remove` (the entry AND the
  results queued for it: repaired defect, see `Service.removeOld` for the code as it was);
* `Stream::poll_next` = `poll`: `pop_event` first; then every entry in the hash map's iteration order (an
  argument: any order), for each entry the timer first, then the state loop `ioLoop`; an error returns at
  once, a completed entry is pushed to `ready` and the scan goes on; finally one `ready` item is returned.

The substream is reduced to frames (`Sub`): the unsigned-varint codec with its `max_size` is C04's; here only
its two size checks matter — `start_send` refuses a payload above the maximum (`check_size!`), `poll_next`
answers `Some(Err(ReadFailure))` to a length prefix above the maximum without reading the payload.
-/
namespace Litep2pVerif.NotifHs
open Litep2pVerif.Notif

/-- `HandshakeState` -/
inductive HsState | sendHandshake | sinkReady | handshakeSent | readHandshake
  deriving DecidableEq, Repr

/-- The substream of one entry as the service sees it. -/
structure Sub where
  /-- complete frames written by the remote and not yet read -/
  toLocal : List (List Nat) := []
  remoteClosed : Bool := false
  reset : Bool := false
  localClosed : Bool := false
  /-- `start_send` done, not yet flushed -/
  outBuf : List (List Nat) := []
  /-- written to the transport -/
  toRemote : List (List Nat) := []
  deriving DecidableEq, Repr

structure Entry where
  peer : Nat
  dir : Dir
  sub : Sub := {}
  /-- the entry's `Delay::new(NEGOTIATION_TIMEOUT)` has fired -/
  expired : Bool := false
  state : HsState
  deriving DecidableEq, Repr

inductive Res | pending | ready (hs : List Nat) | error
  deriving DecidableEq, Repr

/-- The inner `loop` of `poll_next` for one entry (at most four state changes). -/
def ioLoop (maxSize : Nat) (hsLocal : List Nat) (e : Entry) : Nat → Entry × Res
  | 0 => (e, .pending)
  | fuel + 1 =>
    match e.state with
    | .sendHandshake =>
      -- `poll_ready`: nothing is buffered in a substream handed to the service, so it is ready
      ioLoop maxSize hsLocal { e with state := .sinkReady } fuel
    | .sinkReady =>
      -- `start_send(handshake.read().clone())`: the handshake is read HERE, not when the entry was made
      if hsLocal.length > maxSize then (e, .error)
      else ioLoop maxSize hsLocal
        { e with state := .handshakeSent, sub := { e.sub with outBuf := e.sub.outBuf ++ [hsLocal] } } fuel
    | .handshakeSent =>
      if e.sub.reset || e.sub.localClosed then (e, .error)
      else
        match e.dir with
        | .outbound =>
          ioLoop maxSize hsLocal
            { e with state := .readHandshake,
                     sub := { e.sub with toRemote := e.sub.toRemote ++ e.sub.outBuf, outBuf := [] } } fuel
        | .inbound =>
          ({ e with sub := { e.sub with toRemote := e.sub.toRemote ++ e.sub.outBuf, outBuf := [] } }, .ready [])
    | .readHandshake =>
      if e.sub.reset then (e, .error)
      else
        match e.sub.toLocal with
        | f :: rest =>
          if f.length > maxSize then (e, .error)
          else ({ e with sub := { e.sub with toLocal := rest } }, .ready f)
        | [] => if e.sub.remoteClosed then (e, .error) else (e, .pending)

/-- One entry in one `poll_next`: the timer is looked at first. -/
def entryPoll (maxSize : Nat) (hsLocal : List Nat) (e : Entry) : Entry × Res :=
  if e.expired then (e, .error) else ioLoop maxSize hsLocal e 4

abbrev Key := Nat × Dir

def Entry.key (e : Entry) : Key := (e.peer, e.dir)

structure Service where
  entries : List Entry := []
  ready : List (Key × List Nat) := []
  deriving Repr

inductive Event
  | negotiated (peer : Nat) (dir : Dir) (hs : List Nat)
  | error (peer : Nat) (dir : Dir)
  /-- `.expect("peer to exist")` failed -/
  | bug
  deriving DecidableEq, Repr

def Service.has (s : Service) (k : Key) : Bool := s.entries.any (·.key = k)

def Service.find (s : Service) (k : Key) : Option Entry := s.entries.find? (·.key = k)

/-- `HashMap::insert` -/
def Service.insert (s : Service) (e : Entry) : Service :=
  { s with entries := s.entries.filter (·.key ≠ e.key) ++ [e] }

def Service.put (s : Service) (e : Entry) : Service :=
  { s with entries := s.entries.map fun x => if x.key = e.key then e else x }

/-- `remove_outbound` / `remove_inbound` (repaired): the entry and the results queued for it. -/
def Service.remove (s : Service) (k : Key) : Service :=
  { entries := s.entries.filter (·.key ≠ k), ready := s.ready.filter (·.1 ≠ k) }

/-- `remove_outbound` / `remove_inbound` before the repair: queued results stay. -/
def Service.removeOld (s : Service) (k : Key) : Service :=
  { s with entries := s.entries.filter (·.key ≠ k) }

/-- `pop_event`: results whose entry is gone are skipped. -/
def popEvent (entries : List Entry) : List (Key × List Nat) → Service × Option Event
  | [] => ({ entries := entries, ready := [] }, none)
  | (k, hs) :: rest =>
    if entries.any (·.key = k) then
      ({ entries := entries.filter (·.key ≠ k), ready := rest }, some (.negotiated k.1 k.2 hs))
    else popEvent entries rest

/-- The `for` loop over the hash map; `order` = its iteration order. -/
def scan (maxSize : Nat) (hsLocal : List Nat) (s : Service) : List Key → Service × Option Event
  | [] => (s, none)
  | k :: rest =>
    match s.find k with
    | none => scan maxSize hsLocal s rest
    | some e =>
      match (entryPoll maxSize hsLocal e).2 with
      | .error => (s.put (entryPoll maxSize hsLocal e).1, some (.error k.1 k.2))
      | .ready hs =>
        scan maxSize hsLocal
          { entries := (s.put (entryPoll maxSize hsLocal e).1).entries, ready := s.ready ++ [(k, hs)] } rest
      | .pending => scan maxSize hsLocal (s.put (entryPoll maxSize hsLocal e).1) rest

/-- The tail of `poll_next`: `ready.pop_front()` + `substreams.remove(..).expect(..)`. -/
def popFront (s : Service) : Service × Option Event :=
  match s.ready with
  | [] => (s, none)
  | (k, hs) :: rest =>
    if s.has k then ({ entries := s.entries.filter (·.key ≠ k), ready := rest }, some (.negotiated k.1 k.2 hs))
    else ({ s with ready := rest }, some .bug)

/-- The service after `pop_event` and the scan of one `poll_next` (before the final `pop_front`). -/
def scanned (maxSize : Nat) (hsLocal : List Nat) (s : Service) (order : List Key) : Service × Option Event :=
  match (popEvent s.entries s.ready).2 with
  | some ev => ((popEvent s.entries s.ready).1, some ev)
  | none =>
    if s.entries.isEmpty then ((popEvent s.entries s.ready).1, none)
    else scan maxSize hsLocal (popEvent s.entries s.ready).1 order

/-- `Stream::poll_next`. -/
def poll (maxSize : Nat) (hsLocal : List Nat) (s : Service) (order : List Key) : Service × Option Event :=
  match (popEvent s.entries s.ready).2 with
  | some ev => ((popEvent s.entries s.ready).1, some ev)
  | none =>
    if s.entries.isEmpty then ((popEvent s.entries s.ready).1, none)
    else
      match (scan maxSize hsLocal (popEvent s.entries s.ready).1 order).2 with
      | some ev => ((scan maxSize hsLocal (popEvent s.entries s.ready).1 order).1, some ev)
      | none => popFront (scan maxSize hsLocal (popEvent s.entries s.ready).1 order).1

/-- The substreams as this poll left them, including the substream of an entry the poll handed out: those of the
service after the scan where there was one, else (an event popped first: no I/O) unchanged. -/
def subsAfter (maxSize : Nat) (hsLocal : List Nat) (s : Service) (order : List Key) : List Entry :=
  match (popEvent s.entries s.ready).2 with
  | some _ => s.entries
  | none => if s.entries.isEmpty then s.entries else (scan maxSize hsLocal (popEvent s.entries s.ready).1 order).1.entries

end Litep2pVerif.NotifHs
