import Litep2pVerif.Model.Notif.Sys
/-!
`NotificationHandle` (src/protocol/notification/handle.rs), command side: the batch variants of
`open_substream` / `close_substream`, the bounded command channel to the protocol, and the protocol's loop
over the peer set of one command (`for peer in peers { self.on_open_substream(peer) }` — the set is a
`HashSet`, its iteration order is an argument here).

`view` = the keys of `NotificationHandle::peers` (peers whose stream the handle has seen opened).
-/
namespace Litep2pVerif.NotifHandle
open Litep2pVerif.Notif

/-- Collecting into a `HashSet`. -/
def dedup (l : List Nat) : List Nat :=
  l.foldl (fun acc p => if acc.contains p then acc else acc ++ [p]) []

/-- `NotificationCommand` -/
inductive Cmd
  | openSet (ps : List Nat)
  | closeSet (ps : List Nat)
  | forceClose (p : Nat)
  deriving DecidableEq, Repr

inductive BatchRes
  | ok
  /-- `Err(to_ignore)` of `open_substream_batch`: the command WAS sent -/
  | ignored (ps : List Nat)
  /-- the future is pending: the command channel is full -/
  | blocked
  /-- `Err(peers)` of the `try_` variants: the command was NOT sent -/
  | full (ps : List Nat)
  /-- `Err(HashSet::new())` of `try_close_substream_batch`: nothing to close -/
  | none
  deriving DecidableEq, Repr

def toAdd (view peers : List Nat) : List Nat := dedup (peers.filter fun p => !view.contains p)
def toIgnore (view peers : List Nat) : List Nat := dedup (peers.filter fun p => view.contains p)

/-- `open_substream_batch`; `full` = the command channel has no capacity. -/
def openBatch (view peers : List Nat) (full : Bool) : Option Cmd × BatchRes :=
  if full then (none, .blocked)
  else (some (.openSet (toAdd view peers)),
        if (toIgnore view peers).isEmpty then .ok else .ignored (toIgnore view peers))

/-- `try_open_substream_batch`: the peers that already have a stream are not reported at all. -/
def tryOpenBatch (view peers : List Nat) (full : Bool) : Option Cmd × BatchRes :=
  if full then (none, .full (toAdd view peers)) else (some (.openSet (toAdd view peers)), .ok)

/-- `close_substream_batch` -/
def closeBatch (view peers : List Nat) (full : Bool) : Option Cmd × BatchRes :=
  if (toIgnore view peers).isEmpty then (none, .ok)
  else if full then (none, .blocked)
  else (some (.closeSet (toIgnore view peers)), .ok)

/-- `try_close_substream_batch` -/
def tryCloseBatch (view peers : List Nat) (full : Bool) : Option Cmd × BatchRes :=
  if (toIgnore view peers).isEmpty then (none, .none)
  else if full then (none, .full (toIgnore view peers))
  else (some (.closeSet (toIgnore view peers)), .ok)

/-- The protocol's per-peer worlds. -/
abbrev Multi := List (Nat × PeerSys)

def getP (ms : Multi) (p : Nat) : PeerSys := (ms.lookup p).getD {}

def setP (ms : Multi) (p : Nat) (s : PeerSys) : Multi := (p, s) :: ms.filter (·.1 ≠ p)

/-- What `on_open_substream(p)` finds when it runs: config, result of `service.dial`, result of
`service.open_substream` and the id it would hand out. -/
structure OpenArgs where
  shouldDial : Bool
  dialOk : Bool
  openOk : Bool
  newSid : Sid
  deriving Repr

def OpenArgs.act (a : OpenArgs) : Act := .cmdOpen a.shouldDial a.dialOk a.openOk a.newSid

/-- `NotificationCommand::OpenSubstream { peers }` in the protocol loop: one `on_open_substream` per peer, in
the iteration order of the set. -/
def batchOpen (ms : Multi) : List (Nat × OpenArgs) → Multi
  | [] => ms
  | (p, a) :: rest => batchOpen (setP ms p (step (getP ms p) a.act)) rest

/-- `NotificationCommand::CloseSubstream { peers }`. -/
def batchClose (ms : Multi) : List Nat → Multi
  | [] => ms
  | p :: rest => batchClose (setP ms p (step (getP ms p) .cmdClose)) rest

end Litep2pVerif.NotifHandle
