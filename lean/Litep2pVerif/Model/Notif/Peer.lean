/-!
Per-peer state machine of `NotificationProtocol` (src/protocol/notification/mod.rs): all peer states and
every handler, in the code's order of checks. A handler works on the peer's slot in `peers`
(`none` = the peer is not in the map) and returns the new slot and the list of effects it performed, in
program order. `debug_assert!(false)` branches are explicit `Out.bug` effects; the state left behind is
the one a release build leaves (`Poisoned` where the code forgets to restore the state).

Substreams are identified by the number of the in-memory pipe that carries them, handshakes by an
opaque token, connection tasks (and their shutdown oneshot) by a task number.
-/
namespace Litep2pVerif.Notif

abbrev Sid := Nat
abbrev Pipe := Nat
abbrev Hs := Nat
abbrev Tid := Nat

inductive ConnSt | opn | clo
  deriving DecidableEq, Repr

inductive Dir | inbound | outbound
  deriving DecidableEq, Repr

/-- `OutboundState` -/
inductive OutSt
  | closed | init (s : Sid) | neg | opn (hs : Hs) (pipe : Pipe)
  deriving DecidableEq, Repr

/-- `InboundState` -/
inductive InSt
  | closed | reading | validating (pipe : Pipe) | sending | opn (pipe : Pipe)
  deriving DecidableEq, Repr

/-- `PeerState` -/
inductive PState
  | poisoned
  | valPending (c : ConnSt)
  | closed (pend : Option Sid)
  | dialing
  | outInit (s : Sid)
  | validating (out : OutSt) (inb : InSt) (dir : Dir)
  | opn (task : Tid)
  deriving DecidableEq, Repr

inductive Err | rejected | noconn | valpending | dialfail
  deriving DecidableEq, Repr

/-- Effects of a handler. -/
inductive Out
  -- events sent to the user (`NotificationEventHandle`)
  | opened (dir : Dir) (hs : Hs) (task : Tid)
  | fail (e : Err)
  | validate (hs : Hs) (pipe : Pipe)
  -- `TransportService` calls
  | callOpen (s : Sid) | callDial | forceClose
  -- `HandshakeService` commands
  | negOut (pipe : Pipe) | readHs (pipe : Pipe) | sendHs (pipe : Pipe) | rmOut | rmIn
  -- `substream.close().await` / substream dropped
  | closePipe (pipe : Pipe)
  -- connection task spawned / its shutdown oneshot fired or dropped
  | spawn (task : Tid) (inPipe outPipe : Pipe) | shutdown (task : Tid)
  -- futures pushed to `timers` / `pending_validations`
  | timer | validation (pipe : Pipe)
  -- `pending_outbound`
  | pendIns (s : Sid) | pendRm (s : Sid) | pendRetain
  -- `debug_assert!(false)`
  | bug
  -- ghost markers (no effect in the code): an inbound substream was accepted by the user / automatically /
  -- rejected by the user
  | accepted (pipe : Pipe) | autoAccepted (pipe : Pipe) | rejected (pipe : Pipe)
  deriving DecidableEq, Repr

def OutSt.pendingOpen : OutSt → Option Sid
  | .init s => some s
  | _ => none

/-- Dropping an `Open` state drops its shutdown sender, which the connection task observes like a fired
oneshot. -/
def PState.dropped : PState → List Out
  | .opn t => [.shutdown t]
  | _ => []

abbrev Slot := Option PState
abbrev Res := Slot × List Out

/-- `on_open_substream`. `shouldDial`: config; `dialOk`: result of `service.dial`;
`pendHas`: `pending_outbound.contains_key(pending_open)` (the pending substream is still being opened);
`openRes`: result of `service.open_substream` (`some` fresh id / `none` = error). -/
def onOpenSubstream (slot : Slot) (shouldDial dialOk pendHas : Bool) (openRes : Option Sid) : Res :=
  match slot with
  | none =>
    if !shouldDial then (none, [.fail .dialfail])
    else if !dialOk then (none, [.callDial, .fail .dialfail])
    else (some .dialing, [.callDial])
  | some (.closed pend) =>
    match pend, pendHas with
    | some s, true => (some (.outInit s), [.pendIns s])
    | _, _ =>
      match openRes with
      | some s => (some (.outInit s), [.callOpen s, .pendIns s])
      | none => (some (.closed none), [.fail .noconn])
  | some (.valPending c) => (some (.valPending c), [.fail .valpending])
  | some st => (some st, [])

/-- `on_connection_established` -/
def onConnEstablished (slot : Slot) (openRes : Option Sid) : Res :=
  match slot with
  | none => (some (.closed none), [])
  | some .dialing => onOpenSubstream (some (.closed none)) true true false openRes
  | some (.valPending c) => (some (.valPending .opn), if c = .clo then [] else [.bug])
  | some st => (some .poisoned, st.dropped ++ [.bug])

/-- `on_connection_closed` -/
def onConnClosed (slot : Slot) : Res :=
  match slot with
  | none => (none, [.pendRetain, .bug])
  | some st =>
    let pre := [Out.pendRetain, .rmOut, .rmIn]
    match st with
    | .outInit _ => (none, pre ++ [.fail .rejected])
    | .opn t => (none, pre ++ [.shutdown t])
    | .validating out inb _ =>
      match out, inb with
      | .closed, .validating _ => (some (.valPending .clo), pre)
      | .closed, _ => (none, pre)
      | _, _ => (none, pre ++ [.fail .rejected])
    | .valPending _ => (some (.valPending .clo), pre)
    | _ => (none, pre)

/-- `on_outbound_substream`; `pendOk`: `pending_outbound.remove(id) == Some(peer)`. -/
def onOutboundSubstream (slot : Slot) (sid : Sid) (pipe : Pipe) (pendOk : Bool) : Res :=
  match slot with
  | none => (none, [.bug])
  | some st =>
    let pre := [Out.pendRm sid]
    match st with
    | .outInit s =>
      (some (.validating .neg .closed .outbound),
        pre ++ (if s = sid ∧ pendOk then [] else [.bug]) ++ [.negOut pipe])
    | .validating out inb dir =>
      match inb with
      | .sending | .opn _ => (some (.validating .neg inb dir), pre ++ [.negOut pipe])
      | _ =>
        match out with
        | .init s =>
          (some (.validating .neg inb dir), pre ++ (if s = sid then [] else [.bug]) ++ [.negOut pipe])
        | _ => (some .poisoned, pre ++ [.closePipe pipe, .bug])
    | .closed (some s) =>
      if s = sid then (some (.closed none), pre ++ [.closePipe pipe])
      else (some .poisoned, pre ++ [.closePipe pipe, .bug])
    | st => (some .poisoned, pre ++ st.dropped ++ [.closePipe pipe, .bug])

/-- `on_inbound_substream` -/
def onInboundSubstream (slot : Slot) (pipe : Pipe) : Res :=
  match slot with
  | none => (none, [.bug])
  | some (.valPending c) => (some (.valPending c), [.closePipe pipe])
  | some (.closed (some s)) => (some (.closed (some s)), [.closePipe pipe])
  | some (.closed none) => (some (.validating .closed .reading .inbound), [.readHs pipe])
  | some (.validating out .closed dir) => (some (.validating out .reading dir), [.readHs pipe])
  | some (.outInit s) => (some (.validating (.init s) .reading .outbound), [.readHs pipe])
  | some (.validating .closed (.validating p0) _) =>
    (some (.valPending .opn), [.closePipe pipe, .closePipe p0])
  | some st => (some st, [.closePipe pipe])

/-- `on_substream_open_failure`, after `pending_outbound.remove(id)` found this peer
(`pendFound = false`: the id was unknown, the handler returns at once). -/
def onSubstreamOpenFailure (slot : Slot) (sid : Sid) (pendFound : Bool) : Res :=
  if !pendFound then (slot, [.bug]) else
  match slot with
  | none => (none, [.pendRm sid, .bug])
  | some st =>
    let pre := [Out.pendRm sid]
    match st with
    | .outInit _ => (some (.closed none), pre ++ [.fail .rejected])
    | .validating out _ _ =>
      match out with
      | .closed => (some (.closed none), pre ++ [.rmIn, .rmOut])
      | .init s => (some (.closed (some s)), pre ++ [.rmIn, .rmOut, .fail .rejected])
      | _ => (some (.closed none), pre ++ [.rmIn, .rmOut, .fail .rejected])
    | .closed pend => (some (.closed none), pre ++ (if pend = some sid then [] else [.bug]))
    | .opn t => (some (.closed none), pre ++ [.shutdown t, .bug])
    | _ => (some (.closed none), pre ++ [.bug])

/-- `on_close_substream` -/
def onCloseSubstream (slot : Slot) : Res :=
  match slot with
  | some (.opn t) => (some (.closed none), [.shutdown t])
  | s => (s, [])

/-- `on_validation_result` -/
def onValidationResult (slot : Slot) (accept : Bool) (openRes : Option Sid) : Res :=
  match slot with
  | none => (none, [])
  | some (.validating out (.validating pipe) dir) =>
    if !accept then
      (some (.closed out.pendingOpen), [.rejected pipe, .closePipe pipe, .rmOut, .rmIn])
    else
      match out with
      | .closed =>
        match openRes with
        | some s =>
          (some (.validating (.init s) .sending dir), [.accepted pipe, .callOpen s, .sendHs pipe, .pendIns s])
        | none => (some (.closed none), [.accepted pipe, .closePipe pipe, .fail .rejected])
      | _ => (some (.validating out .sending dir), [.accepted pipe, .sendHs pipe])
  | some (.valPending .opn) => (some (.closed none), if accept then [.fail .rejected] else [])
  | some (.valPending .clo) => (none, if accept then [.fail .noconn] else [])
  | some st => (some st, [])

/-- The tail of `on_handshake_event`: both substreams open ⇒ start the connection task and report the
stream; otherwise arm a timer. -/
def hsFinal (st : PState) (task : Tid) : Res :=
  match st with
  | .validating (.opn hs po) (.opn pi) dir =>
    (some (.opn task), [.spawn task pi po, .opened dir hs task])
  | st => (some st, [.timer])

/-- `on_handshake_event`, `HandshakeEvent::Negotiated`. -/
def onHsNegotiated (slot : Slot) (d : Dir) (hs : Hs) (pipe : Pipe) (auto : Bool) (task : Tid) : Res :=
  match slot with
  | none => (none, [.bug])
  | some st =>
    match d with
    | .outbound =>
      match st with
      | .validating .neg inb dir =>
        let r := hsFinal (.validating (.opn hs pipe) inb dir) task
        (r.1, [.rmOut] ++ r.2)
      | st => (some .poisoned, [.rmOut] ++ st.dropped ++ [.bug, .timer])
    | .inbound =>
      match st with
      | .validating out .reading dir =>
        if out ≠ .closed ∧ auto then
          (some (.validating out .sending dir), [.rmIn, .autoAccepted pipe, .sendHs pipe])
        else
          (some (.validating out (.validating pipe) dir), [.rmIn, .validation pipe, .validate hs pipe, .timer])
      | .validating out .sending dir =>
        let r := hsFinal (.validating out (.opn pipe) dir) task
        (r.1, [.rmIn] ++ r.2)
      | st => (some .poisoned, [.rmIn] ++ st.dropped ++ [.bug, .timer])

/-- `on_handshake_event`, `HandshakeEvent::NegotiationError`. -/
def onHsError (slot : Slot) : Res :=
  match slot with
  | none => (none, [.bug])
  | some (.validating out _ _) =>
    if out ≠ .closed then (some (.closed out.pendingOpen), [.rmOut, .rmIn, .fail .rejected])
    else (some (.closed none), [.rmOut, .rmIn, .timer])
  | some st => (some .poisoned, [.rmOut, .rmIn] ++ st.dropped ++ [.bug, .timer])

/-- `on_dial_failure` -/
def onDialFailure (slot : Slot) : Res :=
  match slot with
  | some .dialing => (none, [.fail .dialfail])
  | s => (s, [])

/-- The shutdown notice of a connection task (`shutdown_rx` branch of `next_event`). Overwriting an
`Open` state drops its shutdown sender, which the task observes like a fired oneshot. -/
def onShutdownNotice (slot : Slot) : Res :=
  match slot with
  | none => (none, [])
  | some (.opn t) => (some (.closed none), [.shutdown t])
  | some _ => (some (.closed none), [])

/-- A negotiation timer fired (`timers` branch of `next_event`). -/
def onTimer (slot : Slot) : Res :=
  match slot with
  | some (.validating (.opn _ po) .closed _) =>
    (some (.closed none), [.closePipe po, .fail .rejected, .forceClose])
  | s => (s, [])

/-- Inputs of the per-peer machine (with the environment's answers to the calls a handler makes). -/
inductive Ev
  | connEst (openRes : Option Sid)
  | connClosed
  | outbound (sid : Sid) (pipe : Pipe) (pendOk : Bool)
  | inbound (pipe : Pipe)
  | openFailure (sid : Sid) (pendFound : Bool)
  | cmdOpen (shouldDial dialOk pendHas : Bool) (openRes : Option Sid)
  | cmdClose
  | validation (accept : Bool) (openRes : Option Sid)
  | hsNegotiated (d : Dir) (hs : Hs) (pipe : Pipe) (auto : Bool) (task : Tid)
  | hsError
  | dialFailure
  | notice
  | timer
  deriving Repr

def handle (slot : Slot) : Ev → Res
  | .connEst r => onConnEstablished slot r
  | .connClosed => onConnClosed slot
  | .outbound s p ok => onOutboundSubstream slot s p ok
  | .inbound p => onInboundSubstream slot p
  | .openFailure s f => onSubstreamOpenFailure slot s f
  | .cmdOpen sd dk ph r => onOpenSubstream slot sd dk ph r
  | .cmdClose => onCloseSubstream slot
  | .validation a r => onValidationResult slot a r
  | .hsNegotiated d hs p a t => onHsNegotiated slot d hs p a t
  | .hsError => onHsError slot
  | .dialFailure => onDialFailure slot
  | .notice => onShutdownNotice slot
  | .timer => onTimer slot

end Litep2pVerif.Notif
