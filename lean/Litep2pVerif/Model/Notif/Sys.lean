import Litep2pVerif.Model.Notif.Peer
/-!
The notification protocol composed with its environment, per peer (`PeerSys`), as a labelled
transition system.

Components besides the peer's slot in `peers`: the `pending_outbound` entries of the peer, the outbound
substream requests the transport still has to answer, the handshake-service entries, the `Connection`
tasks (with the two-step close: notify the protocol, then report `NotificationStreamClosed`), the
shutdown notices in flight, the validation futures waiting for the user's answer, and the (ghost) log of
everything sent to the user plus ghost markers.

The handlers do not couple different peers (all maps are keyed by peer or by a fresh substream id), so
the whole protocol is the product of its `PeerSys` components; the driver (Driver/C11.lean) keeps one
`PeerSys` per peer and changes it only through `PeerSys.step`.
-/
namespace Litep2pVerif.Notif

inductive TaskPhase
  | running                    -- polling its substreams and queues
  | closing (notify : Bool)    -- inside `close_connection`, before the notice
  | noticed                    -- notice sent (if any); `NotificationStreamClosed` not yet reported
  deriving DecidableEq, Repr

structure Task where
  id : Tid
  inPipe : Pipe
  outPipe : Pipe
  phase : TaskPhase := .running
  /-- the shutdown oneshot was fired or its sender dropped -/
  signalled : Bool := false
  deriving DecidableEq, Repr

/-- What the user is sent, in channel order, plus ghost markers. -/
inductive UEv
  | opened (dir : Dir) (hs : Hs) (task : Tid) (inPipe : Pipe)
  | closed
  | fail (e : Err)
  | validate (hs : Hs) (pipe : Pipe)
  | accepted (pipe : Pipe)       -- ghost: the user's Accept was applied to the inbound substream `pipe`
  | autoAccepted (pipe : Pipe)   -- ghost
  | rejected (pipe : Pipe)       -- ghost: the user's Reject was applied to the inbound substream `pipe`; nothing is
                                 -- reported for it, not even when the user's own open request dies with it
  | request                      -- ghost: the protocol took up an open request (or an accepted substream) it must answer
  | bug                          -- ghost: a `debug_assert!(false)` fired
  deriving DecidableEq, Repr

structure PeerSys where
  slot : Slot := none
  connected : Bool := false
  /-- `pending_outbound` entries of this peer -/
  pending : List Sid := []
  /-- outbound substream requests not yet answered by the transport -/
  requested : List Sid := []
  /-- the transport manager was asked to dial and has not answered -/
  dialing : Bool := false
  /-- handshake service: outbound entry (pipe), inbound entry (pipe, sending?) -/
  hsOut : Option Pipe := none
  hsIn : Option (Pipe × Bool) := none
  tasks : List Task := []
  /-- shutdown notices in the channel -/
  notices : Nat := 0
  /-- validation futures: the inbound pipe each was created for -/
  validations : List Pipe := []
  timers : Nat := 0
  log : List UEv := []
  deriving Repr

/-- Does the handler's effect list owe the user an answer afterwards? (`owed` ledger, see Props.) -/
def owed : Slot → Nat
  | some .dialing => 1
  | some (.outInit _) => 1
  | some (.validating out _ _) => if out = .closed then 0 else 1
  | _ => 0

def signalTask (t : Tid) (ts : List Task) : List Task :=
  ts.map fun k => if k.id = t then { k with signalled := true } else k

/-- Apply one handler effect to the environment components. -/
def applyOut (s : PeerSys) : Out → PeerSys
  | .opened d hs t =>
    let ip := match s.tasks.find? (·.id = t) with | some k => k.inPipe | none => 0
    { s with log := s.log ++ [.opened d hs t ip] }
  | .fail e => { s with log := s.log ++ [.fail e] }
  | .validate hs p => { s with log := s.log ++ [.validate hs p] }
  | .callOpen sid => { s with requested := s.requested ++ [sid] }
  | .callDial => { s with dialing := true }
  | .forceClose => s
  | .negOut p => { s with hsOut := some p }
  | .readHs p => { s with hsIn := some (p, false) }
  | .sendHs p => { s with hsIn := some (p, true) }
  | .rmOut => { s with hsOut := none }
  | .rmIn => { s with hsIn := none }
  | .closePipe _ => s
  | .spawn t pi po => { s with tasks := s.tasks ++ [{ id := t, inPipe := pi, outPipe := po }] }
  | .shutdown t => { s with tasks := signalTask t s.tasks }
  | .timer => { s with timers := s.timers + 1 }
  | .validation p => { s with validations := s.validations ++ [p] }
  | .pendIns sid => { s with pending := if sid ∈ s.pending then s.pending else s.pending ++ [sid] }
  | .pendRm sid => { s with pending := s.pending.filter (· ≠ sid) }
  | .pendRetain => { s with pending := [] }
  | .bug => { s with log := s.log ++ [.bug] }
  | .accepted p => { s with log := s.log ++ [.accepted p] }
  | .autoAccepted p => { s with log := s.log ++ [.autoAccepted p] }
  | .rejected p => { s with log := s.log ++ [.rejected p] }

/-- Run a handler on the slot and apply its effects; a ghost `request` marker is logged when the
protocol's debt to the user (`owed`) goes from 0 to 1, or when it answers at once. -/
def runHandler (s : PeerSys) (ev : Ev) : PeerSys :=
  let r := handle s.slot ev
  let answered := r.2.any fun o => match o with | .opened .. => true | .fail _ => true | _ => false
  let takesUp := (owed s.slot = 0 ∧ owed r.1 = 1) ∨ (owed s.slot = 0 ∧ owed r.1 = 0 ∧ answered)
  let s1 := if takesUp then { s with log := s.log ++ [.request] } else s
  r.2.foldl applyOut { s1 with slot := r.1 }

/-- Labels. -/
inductive Act
  -- transport (C08 grammar: the guards are in `enabled`)
  | connEst (openOk : Bool) (newSid : Sid)
  | connClosed
  | dialFailure
  | subOpened (sid : Sid) (pipe : Pipe)
  | subFailed (sid : Sid)
  | subInbound (pipe : Pipe)
  -- handshake service
  | hsNegotiated (d : Dir) (hs : Hs) (auto : Bool) (newTask : Tid)
  | hsError (d : Dir)
  -- protocol-internal channels
  | notice
  | timer
  | validation (pipe : Pipe) (accept : Bool) (openOk : Bool) (newSid : Sid)
  -- user commands
  | cmdOpen (shouldDial dialOk : Bool) (openOk : Bool) (newSid : Sid)
  | cmdClose
  -- connection tasks
  | taskSeesSignal (t : Tid)       -- `rx` ready ⇒ `CloseConnection{notify: No}`
  | taskSeesClose (t : Tid)        -- substream closed/failed, sink dropped ⇒ `CloseConnection{notify: Yes}`
  | taskNotice (t : Tid)           -- substreams closed; notice sent if required
  | taskReport (t : Tid)           -- `NotificationStreamClosed` reported; task ends
  deriving Repr

def setPhase (t : Tid) (ph : TaskPhase) (ts : List Task) : List Task :=
  ts.map fun k => if k.id = t then { k with phase := ph } else k

def hasTask (s : PeerSys) (t : Tid) (p : Task → Bool) : Bool :=
  s.tasks.any fun k => k.id = t ∧ p k

/-- A substream / task id is fresh for this peer. -/
def freshSid (s : PeerSys) (sid : Sid) : Bool :=
  !(s.pending.contains sid) && !(s.requested.contains sid) &&
    (match s.slot with
     | some (.closed (some x)) => x != sid
     | some (.outInit x) => x != sid
     | some (.validating (.init x) _ _) => x != sid
     | _ => true)

def freshTask (s : PeerSys) (t : Tid) : Bool := !(s.tasks.any (·.id = t))

/-- Guards: what the environment may do (C08 grammar for the transport; an entry must exist for a
handshake event; a future must exist for a validation answer; tasks move along their phases). -/
def enabled (s : PeerSys) : Act → Bool
  | .connEst _ sid => !s.connected && freshSid s sid
  | .connClosed => s.connected
  | .dialFailure => !s.connected && s.dialing
  | .subOpened sid _ => s.connected && s.requested.contains sid
  | .subFailed sid => s.connected && s.requested.contains sid
  | .subInbound _ => s.connected
  | .hsNegotiated d _ _ t =>
    freshTask s t && (match d with | .outbound => s.hsOut.isSome | .inbound => s.hsIn.isSome)
  | .hsError d => (match d with | .outbound => s.hsOut.isSome | .inbound => s.hsIn.isSome)
  | .notice => s.notices > 0
  | .timer => true      -- a negotiation timer may fire at any time (over-approximation)
  | .validation p _ _ sid => s.validations.contains p && freshSid s sid
  | .cmdOpen _ _ _ sid => freshSid s sid
  | .cmdClose => true
  | .taskSeesSignal t => hasTask s t fun k => k.phase = .running && k.signalled
  -- `poll_next` looks at the shutdown oneshot first: a task whose oneshot has fired (or whose sender was
  -- dropped) before a poll starts closes quietly in that poll, whatever else it could see
  | .taskSeesClose t => hasTask s t fun k => k.phase = .running && !k.signalled
  | .taskNotice t => hasTask s t fun k => match k.phase with | .closing _ => true | _ => false
  | .taskReport t => hasTask s t fun k => k.phase = .noticed

/-- The handler event a (non-task) label stands for, with the environment bookkeeping done before the
handler runs. -/
def evOf (s : PeerSys) : Act → Option (PeerSys × Ev)
  | .connEst ok sid => some (s, .connEst (if ok then some sid else none))
  | .connClosed => some (s, .connClosed)
  | .dialFailure => some (s, .dialFailure)
  | .subOpened sid pipe =>
    some ({ s with requested := s.requested.filter (· ≠ sid) }, .outbound sid pipe (s.pending.contains sid))
  | .subFailed sid =>
    some ({ s with requested := s.requested.filter (· ≠ sid) }, .openFailure sid (s.pending.contains sid))
  | .subInbound pipe => some (s, .inbound pipe)
  | .hsNegotiated d hs auto t =>
    match d with
    | .outbound => s.hsOut.map fun p => (s, .hsNegotiated .outbound hs p auto t)
    | .inbound => s.hsIn.map fun (p, _) => (s, .hsNegotiated .inbound hs p auto t)
  | .hsError _ => some (s, .hsError)
  | .notice => some ({ s with notices := s.notices - 1 }, .notice)
  | .timer => some (s, .timer)
  | .validation p accept ok sid =>
    some ({ s with validations := s.validations.erase p },
      .validation accept (if ok && s.connected then some sid else none))
  | .cmdOpen sd dk ok sid =>
    let pendHas := match s.slot with
      | some (.closed (some x)) => s.pending.contains x
      | _ => false
    some (s, .cmdOpen sd dk pendHas (if ok && s.connected then some sid else none))
  | .cmdClose => some (s, .cmdClose)
  | _ => none

/-- Environment bookkeeping after the handler ran. -/
def post (r : PeerSys) : Act → PeerSys
  | .connEst _ _ => { r with connected := true, dialing := false }
  | .connClosed => { r with connected := false, requested := [] }
  | .dialFailure => { r with dialing := false }
  | _ => r

def taskStep (s : PeerSys) : Act → PeerSys
  | .taskSeesSignal t => { s with tasks := setPhase t (.closing false) s.tasks }
  | .taskSeesClose t => { s with tasks := setPhase t (.closing true) s.tasks }
  | .taskNotice t =>
    let notify := s.tasks.any fun k => k.id = t ∧ k.phase = .closing true
    { s with tasks := setPhase t .noticed s.tasks, notices := if notify then s.notices + 1 else s.notices }
  | .taskReport t => { s with tasks := s.tasks.filter (·.id ≠ t), log := s.log ++ [.closed] }
  | _ => s

def step (s : PeerSys) (a : Act) : PeerSys :=
  match evOf s a with
  | some (s1, ev) => post (runHandler s1 ev) a
  | none => taskStep s a

/-- The handler effects of a step (what the environment gets to see). -/
def outsOf (s : PeerSys) (a : Act) : List Out :=
  match evOf s a with
  | some (s1, ev) => (handle s1.slot ev).2
  | none => []

/-- Reachable states of one peer's world, for every schedule and every environment behaviour allowed by
the guards. -/
inductive Reach : PeerSys → Prop
  | init : Reach {}
  | step {s : PeerSys} (a : Act) : Reach s → enabled s a = true → Reach (step s a)

/-- A connection task of the peer is past `running` or has been signalled: it is about to close. -/
def Busy (s : PeerSys) : Bool :=
  s.tasks.any fun k => k.phase ≠ .running || k.signalled

def Act.isTask : Act → Bool
  | .taskSeesSignal _ | .taskSeesClose _ | .taskNotice _ | .taskReport _ => true
  | _ => false

/-- A connection task of the peer is inside `close_connection` (it has decided to close and has not yet
reported `NotificationStreamClosed`). -/
def InClose (s : PeerSys) : Bool :=
  s.tasks.any fun k => k.phase ≠ .running

def quietOuts (outs : List Out) : Bool :=
  outs.all fun o => match o with | .opened .. => false | .fail _ => false | _ => true

/-- The step reports neither `opened` nor an open failure to the user. -/
def quietAct (s : PeerSys) (a : Act) : Bool := quietOuts (outsOf s a)

/-- Scheduling hypothesis of the `_partial` theorems, in two parts.

1. A connection task that has entered `close_connection` finishes (notice delivered, if any, and
   `NotificationStreamClosed` reported) before the protocol handles anything else for that peer. Only the
   task's own steps and the delivery of its notice are allowed meanwhile. (That a notice already in the
   channel is taken before later transport events and user commands is what the biased `select!` of
   `next_event` does; that the task gets from "closing" to "notice sent" in time is the genuine assumption:
   it fails when `Substream::close()` stays pending. Finding `stale-connection-task`.)
2. A connection task whose shutdown oneshot has fired (or was dropped) but which the executor has not polled
   since — it is still `running` here — may stay unpolled while the protocol handles ANY further events of
   that peer (disconnect, reconnect, a new negotiation …), as long as the protocol does not report `opened`
   or an open failure for that peer before the task has run: then the task's `NotificationStreamClosed`
   would come late on the user channel. (Pure executor fairness; finding `late-closed-report`. Nothing is
   assumed about a task that has not been polled yet beyond this.) -/
def prompt (s : PeerSys) (a : Act) : Bool :=
  if InClose s || s.notices > 0 then
    a.isTask || (match a with | .notice => true | _ => false)
  else if Busy s then
    a.isTask || quietAct s a
  else true

/-- Usage hypothesis of `inbound_after_accept_partial`: a validation answer reaches the protocol only
while the inbound substream it was given for is still the one being validated (or none is). -/
def freshAnswer (s : PeerSys) : Act → Bool
  | .validation p _ _ _ =>
    match s.slot with
    | some (.validating _ (.validating q) _) => p = q
    | _ => true
  | _ => true

/-- The reachable states of the restricted system: `Reach` minus the known findings. -/
inductive ReachP : PeerSys → Prop
  | init : ReachP {}
  | step {s : PeerSys} (a : Act) :
      ReachP s → enabled s a = true → prompt s a = true → freshAnswer s a = true → ReachP (step s a)

theorem ReachP.reach {s : PeerSys} (h : ReachP s) : Reach s := by
  induction h with
  | init => exact .init
  | step a _ he _ _ ih => exact .step a ih he

end Litep2pVerif.Notif
