import Litep2pVerif.Model.ReqResp.Ledger
/-!
# The user-facing side of the request-response protocol (C13)

Mirror of `src/protocol/request_response/handle.rs` (`RequestResponseHandle`) and of the places in
`mod.rs` where an internal outcome is translated into what the user sees:

* `FutOutcome`: how the per-request future of `on_outbound_substream` can end (two stages: the
  write under a timeout, then `select!` of cancel / timeout / read), and `FutOutcome.result`, the
  `RequestResponseError` the future returns for each of them;
* `openFailureError`: the translation in `on_substream_open_failure`;
* `InnerEvent` / `UserEvent` and `Handle.poll`: `impl Stream for RequestResponseHandle` (the
  `From<InnerRequestResponseEvent>` impl panics on `RequestReceived`; `poll_next` handles that variant
  before it converts);
* the command channel (`try_send_*` fail with `ChannelClogged` when it is full, after the request id
  has been taken from the shared counter) and `pending_responses`
  (`send_response` / `send_response_with_feedback` / `reject_request` consume the entry).

Core Lean only.
-/
namespace Litep2pVerif.ReqResp

/-! ## Internal outcomes of a request future and their translation -/

/-- How the future pushed by `on_outbound_substream` ends. -/
inductive FutOutcome
  /-- `timeout(send_framed)` elapsed -/
  | sendTimeout
  /-- `send_framed` failed with `IoError(PermissionDenied)`: the codec refused the size -/
  | sendTooLarge
  /-- `send_framed` failed otherwise -/
  | sendError (e : SubErr)
  /-- the cancel channel fired -/
  | canceled
  /-- `sleep(request_timeout)` elapsed -/
  | responseTimeout
  /-- `substream.next()` = `Some(Ok(response))` -/
  | response (p : Payload)
  /-- `substream.next()` = `Some(Err(error))` -/
  | readError (e : SubErr)
  /-- `substream.next()` = `None` -/
  | eof
deriving DecidableEq, Repr

/-- The value the future returns. -/
def FutOutcome.result : FutOutcome → FutResult
  | .sendTimeout => .error .timeout
  | .sendTooLarge => .error .tooLargePayload
  | .sendError e => .error (.rejected (.ofSubErr e))
  | .canceled => .error .canceled
  | .responseTimeout => .error .timeout
  | .response p => .response p
  | .readError e => .error (.rejected (.ofSubErr e))
  | .eof => .error (.rejected .substreamClosed)

/-- What `on_substream_event` hands to the user for an active request whose future ended with
`res`: a response, a failure, or nothing for `Canceled`. -/
def terminalEvents (peer : Peer) (rid : Rid) : FutResult → List Event
  | .response p => [.responseReceived peer rid p]
  | .error .canceled => []
  | .error e => [.requestFailed peer rid e]

/-- The error reported by `on_substream_open_failure`. -/
def openFailureError : SubErr → RrError
  | .unsupported => .unsupportedProtocol
  | e => .rejected (.ofSubErr e)

/-- The `SubstreamError` shapes that `impl From<SubstreamError> for RejectReason` turns into
`ConnectionClosed`. -/
def SubErr.isNotConnected : SubErr → Bool
  | .notConnected | .yamuxNotConnected | .negotiationNotConnected | .msNotConnected => true
  | _ => false

/-! ## Events: what the protocol sends and what the user receives -/

/-- `InnerRequestResponseEvent` (fallback protocol names are numbered; the `response_tx` of
`RequestReceived` is identified with the request id it is filed under). -/
inductive InnerEvent
  | requestReceived (peer : Peer) (fallback : Option Nat) (rid : Rid) (request : Payload)
  | responseReceived (peer : Peer) (fallback : Option Nat) (rid : Rid) (response : Payload)
  | requestFailed (peer : Peer) (rid : Rid) (error : RrError)
deriving DecidableEq, Repr

/-- `RequestResponseEvent`. -/
inductive UserEvent
  | requestReceived (peer : Peer) (fallback : Option Nat) (rid : Rid) (request : Payload)
  | responseReceived (peer : Peer) (rid : Rid) (fallback : Option Nat) (response : Payload)
  | requestFailed (peer : Peer) (rid : Rid) (error : RrError)
deriving DecidableEq, Repr

/-- `impl From<InnerRequestResponseEvent> for RequestResponseEvent`; `none` = `panic!("unhandled
event")`. -/
def InnerEvent.convert : InnerEvent → Option UserEvent
  | .responseReceived p fb r resp => some (.responseReceived p r fb resp)
  | .requestFailed p r e => some (.requestFailed p r e)
  | .requestReceived _ _ _ _ => none

/-- The model's event (which carries no protocol name) with the fallback protocol the substream was
negotiated with. -/
def Event.toInner (fallback : Option Nat) : Event → InnerEvent
  | .requestReceived p r req => .requestReceived p fallback r req
  | .responseReceived p r resp => .responseReceived p fallback r resp
  | .requestFailed p r e => .requestFailed p r e

def UserEvent.terminalFor (r : Rid) : UserEvent → Bool
  | .responseReceived _ rid _ _ => rid == r
  | .requestFailed _ rid _ => rid == r
  | .requestReceived _ _ _ _ => false

def InnerEvent.terminalFor (r : Rid) : InnerEvent → Bool
  | .responseReceived _ _ rid _ => rid == r
  | .requestFailed _ rid _ => rid == r
  | .requestReceived _ _ _ _ => false

/-! ## The handle -/

/-- `RequestResponseCommand`. -/
inductive Command
  | sendRequest (peer : Peer) (rid : Rid) (request : Payload) (opts : DialOptions)
  | sendRequestWithFallback (peer : Peer) (rid : Rid) (request : Payload) (fallback : Nat × Payload)
      (opts : DialOptions)
  | cancelRequest (rid : Rid)
deriving DecidableEq, Repr

structure Handle where
  /-- keys of `pending_responses` -/
  pendingResponses : List Rid := []
  /-- commands in the channel towards the protocol -/
  queue : List Command := []
  /-- capacity of that channel (`DEFAULT_CHANNEL_SIZE`) -/
  capacity : Nat
  /-- ghost: inbound requests whose `oneshot` was used (`true`) or dropped (`false`) by the user -/
  answered : List (Rid × Bool) := []

/-- `Stream::poll_next` for one received event. `none` = panic. -/
def Handle.poll (h : Handle) : InnerEvent → Handle × Option UserEvent
  | .requestReceived p fb r req =>
    ({ h with pendingResponses := r :: h.pendingResponses.erase r }, some (.requestReceived p fb r req))
  | ev => (h, ev.convert)

/-- The user drains a batch of events. -/
def Handle.pollAll (h : Handle) : List InnerEvent → Handle × List (Option UserEvent)
  | [] => (h, [])
  | ev :: rest =>
    let r := h.poll ev
    let rs := r.1.pollAll rest
    (rs.1, r.2 :: rs.2)

/-- `try_send_request` / `try_send_request_with_fallback`: the id is taken from the shared counter
first; the command is queued unless the channel is full. Returns the handle, the counter and the
result (`none` = `Error::ChannelClogged`). -/
def Handle.trySend (h : Handle) (nextRid : Nat) (mk : Rid → Command) : Handle × Nat × Option Rid :=
  if h.queue.length < h.capacity then
    ({ h with queue := h.queue ++ [mk nextRid] }, nextRid + 1, some nextRid)
  else (h, nextRid + 1, none)

/-- `n` requests handed over back to back (the protocol does not run in between): how many were
queued. -/
def Handle.trySendMany (h : Handle) (nextRid : Nat) (mk : Rid → Command) : Nat → Handle × Nat × Nat
  | 0 => (h, nextRid, 0)
  | n + 1 =>
    let r := h.trySend nextRid mk
    let rs := r.1.trySendMany r.2.1 mk n
    (rs.1, rs.2.1, rs.2.2 + (if r.2.2.isSome then 1 else 0))

/-- `send_response` / `send_response_with_feedback`: `true` iff the response went into the oneshot
channel of a pending inbound request. -/
def Handle.sendResponse (h : Handle) (rid : Rid) : Handle × Bool :=
  if rid ∈ h.pendingResponses then
    ({ h with pendingResponses := h.pendingResponses.erase rid, answered := h.answered ++ [(rid, true)] }, true)
  else (h, false)

/-- `reject_request`: `true` iff the oneshot sender of a pending inbound request was dropped. -/
def Handle.rejectRequest (h : Handle) (rid : Rid) : Handle × Bool :=
  if rid ∈ h.pendingResponses then
    ({ h with pendingResponses := h.pendingResponses.erase rid, answered := h.answered ++ [(rid, false)] }, true)
  else (h, false)

/-- The protocol takes the commands out of the channel. -/
def Handle.drained (h : Handle) : Handle := { h with queue := [] }

end Litep2pVerif.ReqResp
