import Litep2pVerif.Model.ReqResp.Ledger
/-!
# What the transport manager owes the request-response protocol (C13)

The protocol parks a request in `pending_dials` when `TransportService::dial` answers `Ok`, and
relies on the transport manager to conclude that dial (C05: `ConnectionEstablished` or
`DialFailure` follows). Whether a dial *is* owed is a fact about the manager, not about the
protocol's bookkeeping: the manager's view of a peer and the protocol's can differ (connections
report `ConnectionClosed` to the protocols first and to the manager afterwards, so for a while
`dial()` answers `AlreadyConnected` for a peer the protocol has already dropped; the same holds for a
peer the protocol never registered because every substream open failed).

`EnvState` runs an observer beside the protocol model: `dialsOwed` is the list of peers for which
the protocol made a `dial` call that was answered `Ok` (read off the ghost call log, so the observer
does not restate the handler's branch conditions) and to which neither `ConnectionEstablished` nor
`DialFailure` has been delivered since. The answers of `dial` stay arbitrary inputs
(`Ok` — a dial was started or is in progress —, `AlreadyConnected`, `TriedToDialSelf`,
`NoAddressAvailable`, `ChannelClogged`, `TaskClosed`).

Core Lean only.
-/
namespace Litep2pVerif.ReqResp

/-- Peers named by the `dial` calls that were answered `Ok`. -/
def dialOks : List Call → List Peer
  | [] => []
  | .dial p (.ok _) :: rest => p :: dialOks rest
  | _ :: rest => dialOks rest

/-- The transport events that conclude a dial of a peer. -/
def Input.concludesDial : Input → Option Peer
  | .connectionEstablished p _ => some p
  | .dialFailure p => some p
  | _ => none

structure EnvState where
  s : State
  /-- dials the transport manager accepted (or reported as in progress) and has not concluded -/
  dialsOwed : List Peer := []

/-- One step of the protocol with the observer: first the event discharges what it concludes
(a state that hit a `debug_assert!` is a crash and keeps its obligations), then the `dial` calls
the protocol made during the step and that were answered `Ok` are added. -/
def stepE (e : EnvState) (i : Input) : EnvState :=
  let s' := step e.s i
  let kept := match i.concludesDial with
    | some p => if s'.panicked then e.dialsOwed else e.dialsOwed.filter (fun q => q != p)
    | none => e.dialsOwed
  ⟨s', kept ++ dialOks (s'.calls.drop e.s.calls.length)⟩

def initE (maxInbound : Option Nat) : EnvState := ⟨init maxInbound, []⟩

/-- Reachable states of protocol + observer (same step relation as `Reach`). -/
inductive ReachE (maxInbound : Option Nat) : EnvState → Prop
  | init : ReachE maxInbound (initE maxInbound)
  | step {e : EnvState} (i : Input) : ReachE maxInbound e → e.s.panicked = false → Allowed e.s i →
      ReachE maxInbound (stepE e i)

/-- The environment owes the protocol nothing: the transport manager has no dial to conclude, no
substream open is waited for and no request future is running. Unlike `Quiescent` this does not
read `pending_dials`: a request parked there without a dial being owed is stuck. -/
def EnvQuiescent (e : EnvState) : Prop :=
  e.dialsOwed = [] ∧ e.s.pendingOutbound = [] ∧ e.s.pendingInbound = []

end Litep2pVerif.ReqResp
