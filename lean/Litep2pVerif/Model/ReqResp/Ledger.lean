/-!
# Request-response protocol: operational model of `RequestResponseProtocol` (C13)

Mirror of `src/protocol/request_response/mod.rs` (after the per-peer dial queue fix, DESIGN §8-k):
same state components, same handlers, same order of checks.

* `HashMap`s are association lists whose operations touch the first entry with the key;
  `HashSet<RequestId>` is a list with insert-if-absent / erase.
* The three future sets are multisets (lists) of obligations. The completion of a future is an
  input (`Input.futureDone`, `Input.inboundRead`, `Input.responseDone`) carrying the result the
  runtime produced (response | timeout | cancelled | error …).
* Calls on the `TransportService` return what the environment answers; the answers are inputs
  (`dialAns`, `openAns`) and the calls made are recorded in `State.calls`.
* `debug_assert!`s are an explicit `panicked` flag (the state is otherwise left as the code leaves
  it before the assertion).
* Ghost components (`log`, `issued`, `cancelSent`, `cancelDone`, `opened`, `sentOn`, `written`,
  `wire`, `calls`) are never read by the handlers. `opened` records every substream id `open_substream`
  handed out together with the request it was opened for, `sentOn` every substream on which a
  request future was started, `written` the payload that future writes on it (once), `wire` what
  the responder wrote on a substream.

Core Lean only (the model driver links against this file).
-/
namespace Litep2pVerif.ReqResp

abbrev Peer := Nat
abbrev Rid := Nat
abbrev Sid := Nat

/-- A message: `(len, fill)`; the model never looks inside. -/
structure Payload where
  len : Nat
  fill : Nat
deriving DecidableEq, Repr, Inhabited

/-- `ImmediateDialError` (the variants `TransportManagerHandle::dial` produces, `other` for the
rest). -/
inductive DialErr
  | noAddress | alreadyConnected | clogged | triedToDialSelf | taskClosed | other
deriving DecidableEq, Repr

/-- `SubstreamError`, by the shapes `impl From<SubstreamError> for RejectReason` and
`on_substream_open_failure` distinguish: `notConnected` = `IoError(NotConnected)`,
`yamuxNotConnected` = `YamuxError(Io(e), _)` with `e.kind() == NotConnected`,
`negotiationNotConnected` = `NegotiationError(IoError(NotConnected))`, `msNotConnected` =
`NegotiationError(MultistreamSelectError(ProtocolError(IoError(e))))` with `e.kind() == NotConnected`,
`unsupported` = `NegotiationError(MultistreamSelectError(Failed))`; `io` / `yamux` / `negotiation`
are the same shapes with any other content. -/
inductive SubErr
  | closed | clogged | noPeer | readFailure | negotiationTimeout | notConnected | unsupported | other
  | yamuxNotConnected | negotiationNotConnected | msNotConnected | io | yamux | negotiation | writeFailure
deriving DecidableEq, Repr

inductive RejectReason
  | substreamOpenError (e : SubErr)
  | connectionClosed
  | substreamClosed
  | dialFailed (e : Option DialErr)
deriving DecidableEq, Repr

/-- `impl From<SubstreamError> for RejectReason`. -/
def RejectReason.ofSubErr : SubErr → RejectReason
  | .notConnected => .connectionClosed
  | .yamuxNotConnected => .connectionClosed
  | .negotiationNotConnected => .connectionClosed
  | .msNotConnected => .connectionClosed
  | e => .substreamOpenError e

inductive RrError
  | rejected (r : RejectReason)
  | canceled
  | timeout
  | notConnected
  | tooLargePayload
  | unsupportedProtocol
deriving DecidableEq, Repr

/-- Events towards the user handle. -/
inductive Event
  | requestReceived (peer : Peer) (rid : Rid) (request : Payload)
  | responseReceived (peer : Peer) (rid : Rid) (response : Payload)
  | requestFailed (peer : Peer) (rid : Rid) (error : RrError)
deriving DecidableEq, Repr

/-- Calls on the transport service. -/
inductive Call
  | dial (peer : Peer) (ans : Except DialErr Unit)
  | openSubstream (peer : Peer) (ans : Except SubErr Sid)

inductive DialOptions
  | dial | reject
deriving DecidableEq, Repr

/-- A request as handed to the protocol: the payload for the main protocol and, for
`send_request_with_fallback`, the fallback protocol (names are numbered) with its own payload. -/
structure Request where
  main : Payload
  fallback : Option (Nat × Payload) := none
deriving DecidableEq, Repr

/-- What the request future writes on a substream negotiated with `negotiated` as fallback protocol
(`on_outbound_substream`: the fallback request iff the negotiated fallback is the request's). -/
def Request.payloadFor (r : Request) (negotiated : Option Nat) : Payload :=
  match negotiated, r.fallback with
  | some n, some (fn, fr) => if n = fn then fr else r.main
  | _, _ => r.main

/-- `RequestContext`. -/
structure Ctx where
  peer : Peer
  rid : Rid
  request : Request
deriving DecidableEq, Repr

/-- `PeerContext`. -/
structure PeerCtx where
  active : List Rid := []
  activeInbound : List Rid := []
deriving Repr

/-- A future of `pending_inbound`: the outbound request `rid` travelling on substream `sid`. -/
structure Fut where
  peer : Peer
  rid : Rid
  sid : Sid
deriving DecidableEq, Repr

/-- A future of `pending_inbound_requests` (reads the request) or of
`pending_outbound_responses` (waits for the user's answer). -/
structure InFut where
  peer : Peer
  rid : Rid
deriving DecidableEq, Repr

/-- Result of a `pending_inbound` future. -/
inductive FutResult
  | response (p : Payload)
  | error (e : RrError)
deriving DecidableEq, Repr

structure State where
  peers : List (Peer × PeerCtx) := []
  pendingDials : List (Peer × List Ctx) := []
  pendingOutbound : List (Sid × Ctx) := []
  pendingCancels : List Rid := []
  pendingInbound : List Fut := []
  pendingInboundRequests : List InFut := []
  pendingOutboundResponses : List InFut := []
  nextRid : Nat := 0
  maxInbound : Option Nat := none
  panicked : Bool := false
  -- ghost
  log : List Event := []
  calls : List Call := []
  issued : List Ctx := []
  cancelSent : List Rid := []
  cancelDone : List Rid := []
  opened : List (Sid × Ctx) := []
  sentOn : List (Sid × Ctx) := []
  written : List (Sid × Payload) := []
  wire : List (Sid × Payload) := []

/-! ## Association lists (first entry with the key) -/

def alFind {β : Type} (k : Nat) : List (Nat × β) → Option β
  | [] => none
  | (q, v) :: rest => if q = k then some v else alFind k rest

def alTake {β : Type} (k : Nat) : List (Nat × β) → Option β × List (Nat × β)
  | [] => (none, [])
  | (q, v) :: rest =>
    if q = k then (some v, rest) else ((alTake k rest).1, (q, v) :: (alTake k rest).2)

def alModify {β : Type} (k : Nat) (f : β → β) : List (Nat × β) → List (Nat × β)
  | [] => []
  | (q, v) :: rest => if q = k then (q, f v) :: rest else (q, v) :: alModify k f rest

/-- `HashSet::insert`. -/
def setInsert (r : Rid) (l : List Rid) : List Rid := if r ∈ l then l else r :: l

/-- `pending_dials.entry(peer).or_default().push(ctx)`. -/
def pushDial (p : Peer) (c : Ctx) : List (Peer × List Ctx) → List (Peer × List Ctx)
  | [] => [(p, [c])]
  | (q, cs) :: rest => if q = p then (q, cs ++ [c]) :: rest else (q, cs) :: pushDial p c rest

def emit (s : State) (e : Event) : State := { s with log := s.log ++ [e] }

/-! ## Handlers -/

/-- `on_send_request` followed by `report_request_failure` on error (`handle_user_command`).
`dialAns` / `openAns` are the answers the service gives if it is called. -/
def onSendRequest (s : State) (peer : Peer) (rid : Rid) (request : Request) (opts : DialOptions)
    (dialAns : Except DialErr Unit) (openAns : Except SubErr Sid) : State :=
  let s := { s with issued := s.issued ++ [⟨peer, rid, request⟩] }
  match alFind peer s.peers with
  | none =>
    match opts with
    | .reject => emit s (.requestFailed peer rid .notConnected)
    | .dial =>
      let s := { s with calls := s.calls ++ [.dial peer dialAns] }
      match dialAns with
      | .ok _ => { s with pendingDials := pushDial peer ⟨peer, rid, request⟩ s.pendingDials }
      | .error e => emit s (.requestFailed peer rid (.rejected (.dialFailed (some e))))
  | some ctx =>
    let s := { s with calls := s.calls ++ [.openSubstream peer openAns] }
    match openAns with
    | .ok sid =>
      if rid ∈ ctx.active then
        -- `debug_assert!(unique_request_id)`
        { s with panicked := true }
      else
        { s with
          peers := alModify peer (fun c => { c with active := setInsert rid c.active }) s.peers
          pendingOutbound := (sid, ⟨peer, rid, request⟩) :: (alTake sid s.pendingOutbound).2
          opened := s.opened ++ [(sid, ⟨peer, rid, request⟩)] }
    | .error e => emit s (.requestFailed peer rid (.rejected (.ofSubErr e)))

/-- The loop of `on_connection_established` over the requests that waited for the dial: returns
the new peer's `active`, the new `pending_outbound`, the failures and the calls, in call order. -/
def openAll (peer : Peer) (openAns : Nat → Except SubErr Sid) :
    List Ctx → Nat → List Rid → List (Sid × Ctx) → List (Rid × SubErr) → List Call →
    List Rid × List (Sid × Ctx) × List (Rid × SubErr) × List Call
  | [], _, active, outbound, failed, calls => (active, outbound, failed, calls)
  | c :: rest, i, active, outbound, failed, calls =>
    match openAns i with
    | .ok sid =>
      openAll peer openAns rest (i + 1) (setInsert c.rid active)
        ((sid, c) :: (alTake sid outbound).2) failed (calls ++ [.openSubstream peer (.ok sid)])
    | .error e =>
      openAll peer openAns rest (i + 1) active outbound (failed ++ [(c.rid, e)])
        (calls ++ [.openSubstream peer (.error e)])

/-- Ghost: the substreams the loop of `on_connection_established` opens, with their requests
(`openAll` inserts exactly these into `pending_outbound`). -/
def openedBy (openAns : Nat → Except SubErr Sid) : List Ctx → Nat → List (Sid × Ctx)
  | [], _ => []
  | c :: rest, i =>
    match openAns i with
    | .ok sid => (sid, c) :: openedBy openAns rest (i + 1)
    | .error _ => openedBy openAns rest (i + 1)

def reportFailures (peer : Peer) : List (Rid × SubErr) → State → State
  | [], s => s
  | (rid, e) :: rest, s =>
    reportFailures peer rest (emit s (.requestFailed peer rid (.rejected (.ofSubErr e))))

/-- `on_connection_established`. `openAns i` answers the `i`-th `open_substream` call. -/
def onConnectionEstablished (s : State) (peer : Peer) (openAns : Nat → Except SubErr Sid) : State :=
  match alFind peer s.peers with
  | some _ => { s with panicked := true }     -- `debug_assert!(false)`: peer already exists
  | none =>
    match alTake peer s.pendingDials with
    | (none, _) => { s with peers := (peer, {}) :: s.peers }
    | (some ctxs, dials) =>
      let r := openAll peer openAns ctxs 0 [] s.pendingOutbound [] s.calls
      let s := { s with pendingDials := dials, pendingOutbound := r.2.1, calls := r.2.2.2,
                        opened := s.opened ++ openedBy openAns ctxs 0 }
      -- the peer is only registered if a substream could be opened to it
      let s := if r.1.isEmpty then s else { s with peers := (peer, { active := r.1 }) :: s.peers }
      reportFailures peer r.2.2.1 s

def failAll (peer : Peer) : List Rid → State → State
  | [], s => s
  | rid :: rest, s => failAll peer rest (emit s (.requestFailed peer rid (.rejected .connectionClosed)))

/-- `on_connection_closed`. -/
def onConnectionClosed (s : State) (peer : Peer) : State :=
  let s := { s with pendingOutbound := s.pendingOutbound.filter (fun e => e.2.peer != peer) }
  match alTake peer s.peers with
  | (none, _) => s
  | (some ctx, peers) => failAll peer ctx.active { s with peers := peers }

/-- `on_outbound_substream`: the future is pushed; it writes the request (or the fallback request,
if the substream was negotiated with the request's fallback protocol) on the substream. -/
def onOutboundSubstream (s : State) (peer : Peer) (sid : Sid) (fallback : Option Nat) : State :=
  match alTake sid s.pendingOutbound with
  | (none, _) => { s with panicked := true }    -- `debug_assert!(false)`
  | (some ctx, outbound) =>
    { s with
      pendingOutbound := outbound
      pendingCancels := ctx.rid :: s.pendingCancels.erase ctx.rid
      pendingInbound := s.pendingInbound ++ [⟨peer, ctx.rid, sid⟩]
      sentOn := s.sentOn ++ [(sid, ⟨peer, ctx.rid, ctx.request⟩)]
      written := s.written ++ [(sid, ctx.request.payloadFor fallback)] }

/-- `on_substream_open_failure`. -/
def onSubstreamOpenFailure (s : State) (sid : Sid) (error : SubErr) : State :=
  match alTake sid s.pendingOutbound with
  | (none, _) => { s with panicked := true }    -- `debug_assert!(false)`
  | (some ctx, outbound) =>
    let s := { s with
      pendingOutbound := outbound
      peers := alModify ctx.peer (fun c => { c with active := c.active.erase ctx.rid }) s.peers }
    emit s (.requestFailed ctx.peer ctx.rid
      (match error with
       | .unsupported => .unsupportedProtocol
       | e => .rejected (.ofSubErr e)))

def failDials (peer : Peer) : List Ctx → State → State
  | [], s => s
  | c :: rest, s =>
    let s := { s with peers := alModify peer (fun pc => { pc with active := pc.active.erase c.rid }) s.peers }
    failDials peer rest (emit s (.requestFailed peer c.rid (.rejected (.dialFailed none))))

/-- `on_dial_failure`. -/
def onDialFailure (s : State) (peer : Peer) : State :=
  match alTake peer s.pendingDials with
  | (none, _) => s
  | (some ctxs, dials) => failDials peer ctxs { s with pendingDials := dials }

/-- One completion of a `pending_inbound` future: `on_substream_event`, then
`pending_outbound_cancels.remove(&request_id)` (the `run` loop). -/
def onSubstreamEvent (s : State) (f : Fut) (res : FutResult) : State :=
  let s := { s with pendingInbound := s.pendingInbound.erase f }
  let s' := { s with pendingCancels := s.pendingCancels.erase f.rid }
  match alFind f.peer s.peers with
  | none => s'                                   -- `Error::PeerDoesntExist`
  | some ctx =>
    if f.rid ∈ ctx.active then
      let s' := { s' with peers := alModify f.peer (fun c => { c with active := c.active.erase f.rid }) s'.peers }
      match res with
      | .response p => emit s' (.responseReceived f.peer f.rid p)
      | .error .canceled => { s' with cancelDone := s'.cancelDone ++ [f.rid] }
      | .error e => emit s' (.requestFailed f.peer f.rid e)
    else s'                                      -- `Error::InvalidState`

/-- `on_cancel_request`. -/
def onCancelRequest (s : State) (rid : Rid) : State :=
  if rid ∈ s.pendingCancels then
    { s with pendingCancels := s.pendingCancels.erase rid, cancelSent := s.cancelSent ++ [rid] }
  else s

/-- `on_inbound_substream`. -/
def onInboundSubstream (s : State) (peer : Peer) : State :=
  let full := match s.maxInbound with
    | some m => decide (m ≤ s.pendingInboundRequests.length + s.pendingOutboundResponses.length)
    | none => false
  if full then s                                  -- substream closed, nothing else
  else
    let rid := s.nextRid
    let s := { s with nextRid := s.nextRid + 1 }
    match alFind peer s.peers with
    | none => s                                   -- `Error::PeerDoesntExist` (the id is consumed)
    | some _ =>
      { s with
        peers := alModify peer (fun c => { c with activeInbound := rid :: c.activeInbound.erase rid }) s.peers
        pendingInboundRequests := s.pendingInboundRequests ++ [⟨peer, rid⟩] }

/-- Completion of a `pending_inbound_requests` future, then `on_inbound_request`.
`request = none`: the read failed. -/
def onInboundRequest (s : State) (f : InFut) (request : Option Payload) : State :=
  let s := { s with pendingInboundRequests := s.pendingInboundRequests.erase f }
  match alFind f.peer s.peers with
  | none => s                                     -- `Error::PeerDoesntExist`
  | some ctx =>
    if f.rid ∈ ctx.activeInbound then
      let s := { s with peers := alModify f.peer (fun c => { c with activeInbound := c.activeInbound.erase f.rid }) s.peers }
      match request with
      | none => s                                 -- `Error::InvalidData`
      | some req =>
        emit { s with pendingOutboundResponses := s.pendingOutboundResponses ++ [f] }
          (.requestReceived f.peer f.rid req)
    else s                                        -- `Error::InvalidState`

/-- Completion of a `pending_outbound_responses` future (answered, rejected or failed). -/
def onResponseDone (s : State) (f : InFut) : State :=
  { s with pendingOutboundResponses := s.pendingOutboundResponses.erase f }

/-! ## Inputs and the step function -/

inductive Input
  /-- `RequestResponseHandle::send_request` + `SendRequest` command: the id is allocated from the
  shared counter. -/
  | send (peer : Peer) (request : Request) (opts : DialOptions)
      (dialAns : Except DialErr Unit) (openAns : Except SubErr Sid)
  | cancel (rid : Rid)
  | connectionEstablished (peer : Peer) (openAns : Nat → Except SubErr Sid)
  | connectionClosed (peer : Peer)
  | dialFailure (peer : Peer)
  | outboundSubstream (peer : Peer) (sid : Sid) (fallback : Option Nat)
  | substreamOpenFailure (sid : Sid) (error : SubErr)
  | inboundSubstream (peer : Peer)
  | futureDone (f : Fut) (res : FutResult)
  | inboundRead (f : InFut) (request : Option Payload)
  | responseDone (f : InFut)
  /-- ghost: the responder of substream `sid` writes a complete response. -/
  | responderWrites (sid : Sid) (response : Payload)
  /-- `try_send_request` / `try_send_request_with_fallback` with a full command channel: the handle
  has taken an id from the shared counter, the command is not delivered (`Error::ChannelClogged`). -/
  | clogged

def step (s : State) : Input → State
  | .send peer request opts dialAns openAns =>
    onSendRequest { s with nextRid := s.nextRid + 1 } peer s.nextRid request opts dialAns openAns
  | .cancel rid => onCancelRequest s rid
  | .connectionEstablished peer openAns => onConnectionEstablished s peer openAns
  | .connectionClosed peer => onConnectionClosed s peer
  | .dialFailure peer => onDialFailure s peer
  | .outboundSubstream peer sid fallback => onOutboundSubstream s peer sid fallback
  | .substreamOpenFailure sid error => onSubstreamOpenFailure s sid error
  | .inboundSubstream peer => onInboundSubstream s peer
  | .futureDone f res => onSubstreamEvent s f res
  | .inboundRead f request => onInboundRequest s f request
  | .responseDone f => onResponseDone s f
  | .responderWrites sid response => { s with wire := s.wire ++ [(sid, response)] }
  | .clogged => { s with nextRid := s.nextRid + 1 }

/-- What the environment may do in state `s` (the hypotheses of all theorems):
* substream ids handed out by `open_substream` are fresh (shared `fetch_add` counter): not the id
  of a substream opened before (`opened`; in particular not one still waited for or in use);
* a `SubstreamOpened`/`SubstreamOpenFailure` for an outbound substream names the peer the
  substream was opened to;
* only futures that exist complete; a request future completes with `Canceled` only if its
  cancel channel fired, and with a response only if the responder wrote that response on the
  future's substream. -/
def Allowed (s : State) : Input → Prop
  | .send _ _ _ _ openAns =>
    ∀ sid, openAns = .ok sid →
      alFind sid s.pendingOutbound = none ∧ (∀ e ∈ s.sentOn, e.1 ≠ sid) ∧ (∀ e ∈ s.opened, e.1 ≠ sid)
  | .connectionEstablished _ openAns =>
    (∀ i sid, openAns i = .ok sid →
      alFind sid s.pendingOutbound = none ∧ (∀ e ∈ s.sentOn, e.1 ≠ sid) ∧ (∀ e ∈ s.opened, e.1 ≠ sid)) ∧
    (∀ i j sid, openAns i = .ok sid → openAns j = .ok sid → i = j)
  | .outboundSubstream peer sid _ => ∀ ctx, alFind sid s.pendingOutbound = some ctx → ctx.peer = peer
  | .futureDone f res =>
    f ∈ s.pendingInbound ∧
    (res = .error .canceled → f.rid ∈ s.cancelSent) ∧
    (∀ p, res = .response p → (f.sid, p) ∈ s.wire)
  | .inboundRead f _ => f ∈ s.pendingInboundRequests
  | .responseDone f => f ∈ s.pendingOutboundResponses
  | _ => True

def init (maxInbound : Option Nat) : State := { maxInbound := maxInbound }

/-- States reachable from `init` by allowed inputs, in any interleaving. A panicked state
(`debug_assert!`) has no successors. -/
inductive Reach (maxInbound : Option Nat) : State → Prop
  | init : Reach maxInbound (init maxInbound)
  | step {s : State} (i : Input) : Reach maxInbound s → s.panicked = false → Allowed s i →
      Reach maxInbound (step s i)

/-! ## Observations used by the theorems -/

def Event.terminalFor (r : Rid) : Event → Bool
  | .responseReceived _ rid _ => rid == r
  | .requestFailed _ rid _ => rid == r
  | .requestReceived _ _ _ => false

/-- Number of terminal events (`ResponseReceived` / `RequestFailed`) for request `r`. -/
def terminals (log : List Event) (r : Rid) : Nat := log.countP (Event.terminalFor r)

def ctxCount (r : Rid) (l : List Ctx) : Nat := l.countP (fun c => c.rid == r)

/-- Requests waiting for a dial. -/
def dialCount (s : State) (r : Rid) : Nat := (s.pendingDials.map (fun e => ctxCount r e.2)).sum

/-- Requests registered in some peer's `active` set. -/
def activeCount (s : State) (r : Rid) : Nat := (s.peers.map (fun e => e.2.active.count r)).sum

def issuedCount (s : State) (r : Rid) : Nat := ctxCount r s.issued

/-- Entries (substream, request) for request `r`. -/
def pairCount (r : Rid) (l : List (Sid × Ctx)) : Nat := l.countP (fun e => e.2.rid == r)

/-- Substreams ever opened for request `r`. -/
def openedCount (s : State) (r : Rid) : Nat := pairCount r s.opened

/-- Request futures ever started for request `r` (each writes the request once on its substream). -/
def sentCount (s : State) (r : Rid) : Nat := pairCount r s.sentOn

def Event.receivedFor (r : Rid) : Event → Bool
  | .requestReceived _ rid _ => rid == r
  | _ => false

/-- Number of `RequestReceived` events for the inbound request `r`. -/
def receivedCount (log : List Event) (r : Rid) : Nat := log.countP (Event.receivedFor r)

/-- Inbound requests still being read. -/
def inReadCount (s : State) (r : Rid) : Nat := s.pendingInboundRequests.countP (fun f => f.rid == r)

/-- Inbound requests waiting for the user's answer. -/
def awaitCount (s : State) (r : Rid) : Nat := s.pendingOutboundResponses.countP (fun f => f.rid == r)

/-- The environment owes the protocol nothing: no dial, no substream open, no request future. -/
def Quiescent (s : State) : Prop :=
  s.pendingDials = [] ∧ s.pendingOutbound = [] ∧ s.pendingInbound = []

end Litep2pVerif.ReqResp
