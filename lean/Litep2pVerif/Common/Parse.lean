/-!
Line-protocol helpers shared by all drivers. Core Lean only (no imports), so that the driver
links as a `lean_exe`.
-/
namespace Litep2pVerif.Parse

/-- Split a line into its non-empty blank-separated tokens. -/
def tokens (line : String) : List String :=
  (line.trimAscii.toString.splitOn " ").filter (fun s => !s.isEmpty)

def hexDigit? (c : Char) : Option Nat :=
  if '0' ≤ c ∧ c ≤ '9' then some (c.toNat - '0'.toNat)
  else if 'a' ≤ c ∧ c ≤ 'f' then some (c.toNat - 'a'.toNat + 10)
  else if 'A' ≤ c ∧ c ≤ 'F' then some (c.toNat - 'A'.toNat + 10)
  else none

/-- Hex string to natural number (big endian). -/
def hexNat? (s : String) : Option Nat :=
  s.toList.foldl (fun acc c => match acc, hexDigit? c with
    | some a, some d => some (a * 16 + d)
    | _, _ => none) (some 0)

def hexBytesAux : List Char → Option (List Nat)
  | [] => some []
  | [_] => none
  | a :: b :: rest =>
    match hexDigit? a, hexDigit? b, hexBytesAux rest with
    | some x, some y, some r => some ((x * 16 + y) :: r)
    | _, _, _ => none

/-- Hex string to bytes. -/
def hexBytes? (s : String) : Option (List Nat) := hexBytesAux s.toList

def hexDigitChar (n : Nat) : Char :=
  if n < 10 then Char.ofNat ('0'.toNat + n) else Char.ofNat ('a'.toNat + (n - 10))

def byteHex (b : Nat) : String :=
  String.ofList [hexDigitChar (b / 16 % 16), hexDigitChar (b % 16)]

def bytesHex (bs : List Nat) : String :=
  String.join (bs.map byteHex)

/-- Injective encoding of a hex byte string as a number (a leading 1 keeps leading zeros). -/
def keyNat? (s : String) : Option Nat := hexNat? ("1" ++ s)

def joinWith (sep : String) : List String → String
  | [] => ""
  | [x] => x
  | x :: xs => x ++ sep ++ joinWith sep xs

/-- `k=v` lookup among tokens. -/
def arg? (k : String) (ts : List String) : Option String :=
  ts.findSome? (fun t => match t.splitOn "=" with
    | [k', v] => if k' = k then some v else none
    | _ => none)

end Litep2pVerif.Parse
