import Litep2pVerif.Proofs.Kad.Table
import Litep2pVerif.Proofs.Kad.TableWiring
import Litep2pVerif.Generated.Consts
/-!
# C14 — Kademlia routing table places and returns peers by XOR distance

Property theorems only (helper lemmas live in `Proofs/Kad/Table.lean`, the model in
`Model/Kad/{Key,Bucket,Table}.lean`). `run K NB lk ops` is the table reached from a fresh table with
local key `lk` by an arbitrary history `ops` of `add_known_peer` / `on_connection_established` /
`on_dial_failure` / disconnect / bare `entry` calls (each with an arbitrary placeholder key `rnd`).
`K` and `NB` are the bucket capacity and `NUM_BUCKETS` regenerated from the Rust sources on every
run. Every theorem is followed by a non-vacuity example; the file ends with the axiom audit.
-/
namespace Litep2pVerif.Props.C14
open Litep2pVerif Litep2pVerif.Kad.Key Litep2pVerif.Kad.Bucket Litep2pVerif.Kad.Table

/-- Bucket capacity: the literal in `KBucket::entry`. -/
abbrev K : Nat := Consts.KBUCKET_CAPACITY
/-- `NUM_BUCKETS`. -/
abbrev NB : Nat := Consts.NUM_BUCKETS

/-- A small history used by the non-vacuity examples: local key `0x50`; peers in bucket 0 (distance
1), bucket 1, bucket 8; a connect of an unknown peer (leaves a placeholder in bucket 4). -/
def demoOps : List Op :=
  [.add 1 0x51 1 .connected 0, .add 2 0x52 1 .canConnect 0, .add 3 0x150 2 .notConnected 0,
   .connected 0x41 true 7, .add 4 0x50 1 .connected 0, .disconnected 0x52 0]

def demo : Table := run K NB 0x50 demoOps

/-- **Placement.** After every history, every stored peer (not a placeholder) sits in the bucket
whose index is `log2 (local xor key)`; in particular its distance to the local key is not 0. -/
theorem bucket_placement (lk : Nat) (ops : List Op) (i : Nat) (p : Peer)
    (h : Slot.real p ∈ (run K NB lk ops).buckets.getD i []) :
    lk ^^^ p.key ≠ 0 ∧ (lk ^^^ p.key).log2 = i := by
  have hp := mem_bucket_of_tinv (run_tinv K NB lk ops) h
  rw [run_localKey] at hp
  unfold bucketIndex distance at hp
  split at hp
  · simp at hp
  · rename_i hne
    exact ⟨hne, Option.some.inj hp⟩

example : Slot.real ⟨3, 0x150, 2, .notConnected⟩ ∈ demo.buckets.getD 8 [] ∧ (0x50 ^^^ 0x150).log2 = 8 := by
  decide +kernel

/-- **The local node is never stored**, whatever is added (`demoOps` adds peer 4 with the local key). -/
theorem local_never_stored (lk : Nat) (ops : List Op) (i : Nat) (p : Peer)
    (h : Slot.real p ∈ (run K NB lk ops).buckets.getD i []) : p.key ≠ lk := by
  intro e
  have := (bucket_placement lk ops i p h).1
  rw [e, Nat.xor_self] at this
  exact this rfl

example : Op.add 4 0x50 1 .connected 0 ∈ demoOps ∧
    ∀ b ∈ demo.buckets, ∀ s ∈ b, s.key ≠ 0x50 := by
  decide +kernel

/-- **Bucket bound.** After every history there are `NB` buckets and none holds more than `K` nodes
(placeholders included). -/
theorem bucket_bound (lk : Nat) (ops : List Op) :
    (run K NB lk ops).buckets.length = NB ∧
    ∀ i, ((run K NB lk ops).buckets.getD i []).length ≤ K :=
  ⟨(run_tinv K NB lk ops).1, fun i => ((run_tinv K NB lk ops).2 i).len⟩

/-- Non-vacuity: 25 distinct `NotConnected` peers for bucket 8 fill it to exactly `K`. -/
example :
    ((run K NB 0 ((List.range 25).map fun n => Op.add n (0x100 + n) 1 .connected 0)).buckets.getD 8 []).length = K := by
  decide +kernel

/-- The constants the statement of C14 names: twenty nodes per bucket, 256 buckets (re-checked against
the Rust sources on every run). -/
theorem capacity_is_twenty : K = 20 ∧ NB = 256 := by
  decide

/-- `self.buckets[index]` is never out of range: for 256-bit keys the bucket index is below
`NUM_BUCKETS` (so the model's "do nothing when out of range" is never exercised). -/
theorem index_in_range (lk key : Nat) (hl : lk < 2 ^ 256) (hk : key < 2 ^ 256) (i : Nat)
    (h : bucketIndex (distance lk key) = some i) : i < NB := by
  unfold bucketIndex at h
  split at h
  · simp at h
  · rename_i hne
    have hi : (distance lk key).log2 = i := Option.some.inj h
    rw [← hi]
    have hnb : NB = 256 := by decide
    rw [hnb]
    exact (Nat.log2_lt hne).2 (Nat.xor_lt_two_pow hl hk)

example : bucketIndex (distance 0 (2 ^ 256 - 1)) = some 255 := by
  decide +kernel

/-- **A connected peer is never displaced.** If after a history the node in slot `si` of bucket `bi` is
a peer whose connection is `Connected` or `CanConnect`, then after any further operation the same slot
still holds the same peer (same id, same key). -/
theorem connected_not_evicted (lk : Nat) (ops : List Op) (op : Op) (bi si : Nat) (p : Peer)
    (h : ((run K NB lk ops).buckets.getD bi [])[si]? = some (.real p))
    (hc : p.conn = .connected ∨ p.conn = .canConnect) :
    ∃ p', ((run K NB lk (ops ++ [op])).buckets.getD bi [])[si]? = some (.real p') ∧
      p'.peer = p.peer ∧ p'.key = p.key := by
  have : run K NB lk (ops ++ [op]) = step K (run K NB lk ops) op := by
    simp [run, List.foldl_append]
  rw [this]
  exact step_protected K _ op h hc

/-- Non-vacuity: a full bucket of `Connected` peers plus one `NotConnected`; a newcomer takes the slot of
the `NotConnected` one (slot 19), the connected peer in slot 0 stays. -/
example :
    let fill := ((List.range 19).map fun n => Op.add n (0x100 + n) 1 .connected 0) ++ [.add 19 0x113 1 .notConnected 0]
    ((run K NB 0 fill).buckets.getD 8 [])[0]? = some (.real ⟨0, 0x100, 1, .connected⟩) ∧
    ((run K NB 0 (fill ++ [.add 77 0x1ff 1 .connected 0])).buckets.getD 8 [])[0]? = some (.real ⟨0, 0x100, 1, .connected⟩) ∧
    ((run K NB 0 (fill ++ [.add 77 0x1ff 1 .connected 0])).buckets.getD 8 [])[19]? = some (.real ⟨77, 0x1ff, 1, .connected⟩) := by
  decide +kernel

/-- **Placeholders are invisible.** A placeholder has no address, and whatever `closest` returns is a
stored peer with at least one address (never a placeholder). -/
theorem junk_invisible (lk : Nat) (ops : List Op) (target k : Nat) :
    (∀ key, Slot.hasAddr (.junk key) = false) ∧
    ∀ s ∈ (run K NB lk ops).closest NB target k, ∃ p, s = .real p ∧ p.addrs ≠ 0 := by
  refine ⟨fun _ => rfl, fun s hs => ?_⟩
  have hs' : s ∈ closestAll NB (run K NB lk ops) target := List.mem_of_mem_take hs
  obtain ⟨i, _, hi⟩ := List.mem_flatMap.1 hs'
  have ha := (mem_closestIter.1 hi).2
  cases s with
  | junk key => simp [Slot.hasAddr] at ha
  | real p => exact ⟨p, rfl, by simpa [Slot.hasAddr] using ha⟩

/-- Non-vacuity: `demo` contains a placeholder (bucket 4), and `closest` does not return it. -/
example : Slot.junk 7 ∈ demo.buckets.getD 4 [] ∧
    (demo.closest NB 0x41 60).map Slot.key = [0x51, 0x52, 0x150] := by
  decide +kernel

/-- **What `ClosestBucketsIter` yields**, for every distance `d` and every number of buckets: the
start index (`log2 d`, or 0 for `d = 0`), then the lower indices whose bit of `d` is 1 in decreasing
order, then 0, then the indices `1 … nb-1` whose bit of `d` is 0 in increasing order. -/
theorem iter_order (nb d : Nat) :
    iterList nb d =
      (bucketIndex d).getD 0 :: ((List.range ((bucketIndex d).getD 0)).reverse.filter fun i => d.testBit i) ++
      0 :: (List.range' 1 (nb - 1)).filter fun i => !d.testBit i := by
  rw [iterList_eq, onesBelow_eq_filter, zerosFrom_eq_filter]
  rfl

/-- The unit test `closest_buckets_iterator_set_lsb` of routing_table.rs. -/
example : (iterList 256 0b10011011).take 10 = [7, 4, 3, 1, 0, 0, 2, 5, 6, 8] := by
  decide +kernel

/-- **Which buckets are visited.** For a 256-bit distance the iterator yields exactly the indices
below `NB`; it yields one of them twice iff `d` is odd or `d < 2` (it is bucket 0, twice in a row);
after `closest` skips the repeated index every bucket is visited exactly once. -/
theorem iter_visits (d : Nat) (hd : d < 2 ^ 256) :
    (∀ i, i ∈ iterList NB d ↔ i < NB) ∧
    ((iterList NB d).Nodup ↔ ¬ (d % 2 = 1 ∨ d < 2)) ∧
    (visited NB d).Perm (List.range NB) := by
  have hnb : NB = 256 := by decide
  have hd' : d < 2 ^ NB := by rw [hnb]; exact hd
  have hpos : 0 < NB := by rw [hnb]; decide
  have hperm := visited_perm hpos hd'
  refine ⟨fun i => ?_, ?_, hperm⟩
  · rw [← List.mem_range, ← hperm.mem_iff, mem_visited, iterList_eq]
    show i ∈ headPart d ++ 0 :: zerosFrom d 1 (NB - 1) ↔ _
    simp only [List.mem_append, List.mem_cons]
  · rw [iterList_nodup_iff, mem_headPart]
    have h0 : d.testBit 0 = decide (d % 2 = 1) := Nat.testBit_zero d
    constructor
    · rintro h (h1 | h1)
      · exact h (Or.inr (by rw [h0]; exact decide_eq_true h1))
      · rcases Nat.eq_zero_or_pos d with h2 | h2
        · exact h (Or.inl ⟨h2, rfl⟩)
        · have : d = 1 := by omega
          exact h (Or.inr (by rw [this]; rfl))
    · rintro h (⟨h1, _⟩ | h1)
      · exact h (Or.inr (by omega))
      · rw [h0] at h1
        exact h (Or.inl (of_decide_eq_true h1))

example : (iterList NB 0b1011).take 5 = [3, 1, 0, 0, 2] ∧ (visited NB 0b1011).take 4 = [3, 1, 0, 2] ∧
    (iterList NB 0b1010).take 4 = [3, 1, 0, 2] := by
  decide +kernel

/-- **Key lemma: earlier-visited buckets hold strictly closer peers.** Let `v` be the list of bucket
indices `closest` visits for a target. If a key belongs (by the placement rule) to the bucket visited
at position `a` and another key to the bucket visited at a later position `b`, then the first key is
strictly closer to the target. Holds for every bit pattern of local key, target and keys. -/
theorem bucket_order (nb lk target pk qk a b : Nat) (hab : a < b)
    (hb : b < (visited nb (distance lk target)).length)
    (hp : bucketIndex (distance lk pk) = some (visited nb (distance lk target))[a])
    (hq : bucketIndex (distance lk qk) = some (visited nb (distance lk target))[b]) :
    distance target pk < distance target qk := by
  have hbef := List.pairwise_iff_getElem.1 (visited_pairwise nb (distance lk target)) a b (by omega) hb hab
  have := xor_lt_of_before hp hq hbef
  unfold distance at this ⊢
  rw [xor_swap, xor_swap] at this
  exact this

/-- Non-vacuity: local `0x50`, target `0x41` (distance `0b10001`): bucket 4 is visited first, bucket 0
second; `0x41` (bucket 4) is closer to the target than `0x51` (bucket 0). -/
example : (visited NB (distance 0x50 0x41)).take 3 = [4, 0, 1] ∧
    bucketIndex (distance 0x50 0x41) = some 4 ∧ bucketIndex (distance 0x50 0x51) = some 0 ∧
    distance 0x41 0x41 < distance 0x41 0x51 := by
  decide +kernel

/-- **`closest` is correct** (for the code repaired by
`fix: kademlia: visit each k-bucket once in RoutingTable::closest`). After every history, for every
256-bit local key and target and every `k`, with `stored` = the stored nodes that have a known address:
the result is strictly increasing in distance to the target (sorted, no duplicates), consists of
stored addressed peers, has `min k |stored|` elements, and every stored addressed peer that is left out
is strictly farther from the target than every returned one. -/
theorem closest_correct (lk target : Nat) (hl : lk < 2 ^ 256) (ht : target < 2 ^ 256) (ops : List Op) (k : Nat) :
    let t := run K NB lk ops
    let out := t.closest NB target k
    let stored := t.buckets.flatMap fun b => b.filter Slot.hasAddr
    out.Pairwise (fun x y => distance target x.key < distance target y.key) ∧
    (∀ s ∈ out, s ∈ stored) ∧
    out.length = min k stored.length ∧
    (∀ s ∈ stored, s ∉ out → ∀ r ∈ out, distance target r.key < distance target s.key) := by
  intro t out stored
  have hnb : NB = 256 := by decide
  have hpos : 0 < NB := by rw [hnb]; decide
  have hd : distance t.localKey target < 2 ^ NB := by
    rw [run_localKey, hnb]; exact Nat.xor_lt_two_pow hl ht
  exact closest_spec (run_tinv K NB lk ops) hpos hd k

/-- Non-vacuity: bucket 0 populated and an odd distance to the target — the case in which the
unrepaired code returned a duplicate; `k = 2` cuts the list. -/
example : (demo.closest NB 0x51 60).map Slot.key = [0x51, 0x52, 0x150] ∧
    (demo.closest NB 0x51 2).map Slot.key = [0x51, 0x52] ∧
    (demo.buckets.flatMap fun b => b.filter Slot.hasAddr).length = 3 := by
  decide +kernel

/-- **Witness of the repaired defect** (DESIGN §8-l). On the code before the fix (`closestUnfixed`:
every index the iterator yields is visited) the same table and target return the bucket-0 peer twice,
so the full statement was false there; the repaired `closest` returns it once. -/
theorem closest_dup_witness :
    (demo.closestUnfixed NB 0x51 60).map Slot.key = [0x51, 0x51, 0x52, 0x150] ∧
    (demo.closest NB 0x51 60).map Slot.key = [0x51, 0x52, 0x150] := by
  decide +kernel

/-! ## Coordinator level: the event handlers of `Kademlia` on top of the table (`Model/Kad/TableWiring.lean`)

`wrun K NB lk evs` is the coordinator (routing table + the key set of `Kademlia::peers`) after the event history `evs`
(`AddKnownPeer` commands / peers of responses, `ConnectionEstablished`, `ConnectionClosed`, `DialFailure`, inbound
substreams). -/
section Coordinator
open Litep2pVerif.Kad.Wiring

/-- **The coordinator's table is a table history**: its routing table after `evs` is the table model run on the
operations the handlers performed, so every theorem above (placement, bound, `connected_not_evicted`, `closest`)
holds for coordinator histories. -/
theorem coordinator_table_is_table_run (lk : Nat) (evs : List Ev) :
    (wrun K NB lk evs).table = run K NB lk (opsOf K { table := Table.new NB lk } evs) :=
  wrun_table K NB lk evs

example : opsOf K { table := Table.new NB 0 } [.addKnown 1 0x101 1, .inbound 1, .addKnown 1 0x101 1, .closed 1 0x101] =
    [.add 1 0x101 1 .notConnected 0, .add 1 0x101 1 .connected 0, .disconnected 0x101 0] := by decide +kernel

/-- **A connected peer stays `Connected` in the table and keeps its slot.** If after a history the node in slot `si`
of bucket `bi` is a peer marked `Connected`, then after ANY further events — dial failures (also stale ones for that
very peer), connections and disconnections of other peers, adds of other peers filling its bucket past capacity,
inbound substreams — except the close of its own connection and an `add_known_peer` with addresses for it, the same
slot holds the same peer, still `Connected`. (Full statement "a peer whose connection is open is `Connected`": false
for `add_known_peer` on a peer without `PeerContext`, see `add_known_peer_downgrades_witness`; the exact condition is
in `connected_peer_kept_by_event`.) -/
theorem connected_peer_stays_connected_in_table (lk : Nat) (evs more : List Ev) (bi si : Nat) (p : Peer)
    (h : ((wrun K NB lk evs).table.buckets.getD bi [])[si]? = some (.real p)) (hc : p.conn = .connected)
    (hm : ∀ e ∈ more, e.harmless p.key) :
    ∃ p', ((wrun K NB lk (evs ++ more)).table.buckets.getD bi [])[si]? = some (.real p') ∧ p'.peer = p.peer ∧
      p'.key = p.key ∧ p'.conn = .connected :=
  wrun_keeps_connected K NB lk more evs h hc hm

/-- Non-vacuity (the seeded history): peer 1 is in the table, connects inbound with nothing pending, a stale
`DialFailure` for it arrives, its bucket fills up with 19 more connected peers, a 21st peer of the bucket is added:
peer 1 is still `Connected` in slot 0 and the newcomer found no slot. -/
example :
    let pre : List Ev := [.addKnown 1 0x101 1, .established 1 0x101 false false]
    let more : List Ev := [.dialFailure 1 0x101 1] ++
      ((List.range 19).flatMap fun n => [Ev.addKnown (n + 2) (0x102 + n) 1, .established (n + 2) (0x102 + n) true false]) ++
      [.addKnown 21 0x1f0 1]
    ((wrun K NB 0 pre).table.buckets.getD 8 [])[0]? = some (.real ⟨1, 0x101, 1, .connected⟩) ∧
    (∀ e ∈ more, e.harmless 0x101) ∧
    ((wrun K NB 0 (pre ++ more)).table.buckets.getD 8 [])[0]? = some (.real ⟨1, 0x101, 2, .connected⟩) ∧
    ((wrun K NB 0 (pre ++ more)).table.buckets.getD 8 []).length = K ∧
    (wrun K NB 0 (pre ++ more)).peers = [] := by
  decide +kernel

/-- **One event, exact condition**: a `Connected` entry loses neither slot nor flag unless the event closes that
peer's connection, or is an `add_known_peer` with addresses for it while the peer has no `PeerContext`
(`peers` is not the set of open connections). -/
theorem connected_peer_kept_by_event (lk : Nat) (evs : List Ev) (e : Ev) (bi si : Nat) (p : Peer)
    (h : ((wrun K NB lk evs).table.buckets.getD bi [])[si]? = some (.real p)) (hc : p.conn = .connected)
    (hclose : ∀ q, e ≠ .closed q p.key)
    (hadd : ∀ q n, e = .addKnown q p.key n → q ∈ (wrun K NB lk evs).peers ∨ n = 0) :
    ∃ p', ((wrun K NB lk (evs ++ [e])).table.buckets.getD bi [])[si]? = some (.real p') ∧ p'.peer = p.peer ∧
      p'.key = p.key ∧ p'.conn = .connected := by
  rw [wrun_append]
  exact wstep_keeps_connected K _ e h hc hclose hadd

/-- Non-vacuity: after an inbound substream (the peer has a `PeerContext`) `add_known_peer` keeps it `Connected`. -/
example :
    let pre : List Ev := [.addKnown 1 0x101 1, .established 1 0x101 false false, .inbound 1]
    (wrun K NB 0 pre).peers = [1] ∧
    ((wrun K NB 0 (pre ++ [.addKnown 1 0x101 2])).table.buckets.getD 8 [])[0]? = some (.real ⟨1, 0x101, 3, .connected⟩) := by
  decide +kernel

/-- **Witness of the finding** (`known_findings`: add-known-peer-downgrades-open-connection): a peer that connected
while nothing was pending for it (so it has no `PeerContext`) is marked `NotConnected` by an `add_known_peer` for it
although its connection is open, and the next peer of its full bucket takes its slot. -/
theorem add_known_peer_downgrades_witness :
    let pre : List Ev := [.addKnown 1 0x101 1, .established 1 0x101 false false, .addKnown 1 0x101 1] ++
      ((List.range 19).flatMap fun n => [Ev.addKnown (n + 2) (0x102 + n) 1, .established (n + 2) (0x102 + n) true false])
    ((wrun K NB 0 pre).table.buckets.getD 8 [])[0]? = some (.real ⟨1, 0x101, 2, .notConnected⟩) ∧
    ((wrun K NB 0 (pre ++ [.addKnown 21 0x1f0 1])).table.buckets.getD 8 [])[0]? =
      some (.real ⟨21, 0x1f0, 1, .notConnected⟩) := by
  decide +kernel

end Coordinator

#print axioms bucket_placement
#print axioms local_never_stored
#print axioms bucket_bound
#print axioms capacity_is_twenty
#print axioms index_in_range
#print axioms connected_not_evicted
#print axioms junk_invisible
#print axioms iter_order
#print axioms iter_visits
#print axioms bucket_order
#print axioms closest_correct
#print axioms closest_dup_witness
#print axioms coordinator_table_is_table_run
#print axioms connected_peer_stays_connected_in_table
#print axioms connected_peer_kept_by_event
#print axioms add_known_peer_downgrades_witness

end Litep2pVerif.Props.C14
