import Litep2pVerif.Proofs.Service.KeepAlive
import Litep2pVerif.Generated.Consts
/-!
# C09 — Idle connections close after the keep-alive timeout, busy ones are kept

Property theorems only. Model: `Model/Service/KeepAlive.lean`; lemmas:
`Proofs/Service/KeepAlive.lean`. A connection's loop ends by the idle mechanism iff `exits s c`
(no strong sender of its command channel is left). The idle mechanism is "time passes and every
protocol polls its keep-alive tracker": `(s.advance dt).pollAll`.
-/
namespace Litep2pVerif.Props.C09
open Litep2pVerif Litep2pVerif.Service Litep2pVerif.Service.KA

/-- A system with a keep-alive (`Yes`) and a ping-like (`No`) protocol, timeout 100, one
connection `10` to peer `1` announced to both at time 0. -/
def twoProtocols : Sys :=
  let s0 : Sys := { svcs := [{ ka := true, T := 100 }, { ka := false, T := 100 }] }
  (((s0.established 1 10).drain 0).1.drain 1).1

/-- **Busy connections are kept.** While a substream of a keep-alive protocol on `c` exists or is
being opened — its command is queued or being negotiated, its `SubstreamOpened` is in flight, or
the protocol holds the substream (lifetime permit) — no amount of elapsed time and keep-alive
polling makes the connection's loop exit. -/
theorem held_not_closed (s : Sys) (c : Nat) (h : Busy s c) (dts : List Nat) :
    exits (dts.foldl (fun s dt => (s.advance dt).pollAll) s) c = false := by
  induction dts generalizing s with
  | nil =>
    have := busy_permits s c h
    simp [exits, strong]; omega
  | cons dt rest ih => exact ih _ (busy_tick s dt c h)

/-- Non-vacuity: the keep-alive protocol opens a substream at time 50, the task receives the
command; five timeouts later both handles are downgraded but the loop does not exit; once the
task fails the open (permit dropped) it does. -/
example :
    let s1 := ((twoProtocols.advance 50).open 0 1).1
    let s2 := (s1.recv 10).1
    let s3 := (s2.advance 500).pollAll
    Busy s2 10 ∧ handles s3.svcs 10 = 0 ∧ exits s3 10 = false ∧
      ((s3.subFail 10 0).map (fun s => exits s 10)) = some true := by
  refine ⟨Or.inr (Or.inl ⟨⟨0, 0, 10, true⟩, by decide, rfl⟩), by decide, by decide, by decide⟩

/-- **Idle connections close exactly at `max_p (last_activity_p) + T`** (partial: the hypotheses
`Armed` are not derived from reachability). Let no permit of `c` be around, and let every protocol
either hold no active handle of `c` or track `c` with a started sleep that completes by
`last_activity + T` (true whenever the protocol polled its service after the activity). When all
protocols poll at time `now`, the loop exits iff for every protocol that still held `c` the timeout
has elapsed since ITS last activity — i.e. exactly from `max` over the holders of
`last_activity + T` on, and not before. -/
theorem idle_closed_at_partial (s : Sys) (c : Nat) (hperm : permits s c = 0)
    (hd : ∀ svc ∈ s.svcs, ∀ e ∈ svc.conns, Distinct e.2)
    (harmed : ∀ svc ∈ s.svcs, svc.holds c = 0 ∨ Armed svc c s.now) :
    exits s.pollAll c = true ↔
      ∀ svc ∈ s.svcs, svc.holds c = 0 ∨ ∃ la, aget svc.tr.last c = some la ∧ la + svc.T ≤ s.now := by
  rw [exits_pollAll s c hperm]
  constructor
  · intro h svc hs
    have h0 := h svc hs
    rcases harmed svc hs with hz | ⟨la, hla, hle, ht⟩
    · exact Or.inl hz
    · obtain ⟨k1, _⟩ := svc_poll_armed svc c s.now la (hd svc hs) hla hle ht
      by_cases hlt : s.now < la + svc.T
      · left; rw [← k1 hlt]; exact h0
      · right; exact ⟨la, hla, by omega⟩
  · intro h svc hs
    rcases h svc hs with hz | ⟨la, hla, hge⟩
    · have := svc_poll_le svc c s.now (hd svc hs); omega
    · rcases harmed svc hs with hz | ⟨la', hla', hle, ht⟩
      · have := svc_poll_le svc c s.now (hd svc hs); omega
      · rw [hla] at hla'; cases hla'
        exact (svc_poll_armed svc c s.now la (hd svc hs) hla hle ht).2 hge

/-- Non-vacuity: activity of the keep-alive protocol at 50 (a failed open). The ping-like protocol
lets go at 100, the keep-alive one at 150: at 149 the loop is still running, at 150 it exits. -/
example :
    let s1 := ((twoProtocols.advance 50).open 0 1).1
    let s2 := (((s1.recv 10).1.subFail 10 0).map (fun s => (s.drain 0).1)).getD s1
    let at149 := (s2.advance 99).pollAll
    let at150 := (at149.advance 1).pollAll
    permits s2 10 = 0 ∧ exits at149 10 = false ∧ handles at149.svcs 10 = 1 ∧ exits at150 10 = true := by
  decide

/-- **Ping/identify-style traffic does not prolong.** For a protocol with
`SubstreamKeepAlive::No`, neither `open_substream` (any outcome) nor a reported substream changes
the protocol's state at all — `last_activity`, timers and handle activity stay as they are — and the
substream the connection task builds carries no lifetime permit, so the only holder such traffic
adds is the opening permit, gone when the protocol has processed the substream. -/
theorem ping_no_prolong (s : Svc) (hka : s.ka = false) (p c now sid : Nat) (up : Bool) (send : SendRes) :
    (s.openSubstream p now up send sid).1 = s ∧ s.onSubstreamOpened p c now = s ∧
    lifetimePermit s.ka = false ∧
    (∀ d life, life = lifetimePermit s.ka → msgHolds c (.subOpened p d c life) = 1) := by
  refine ⟨?_, ?_, by simp [lifetimePermit, hka], ?_⟩
  · unfold Svc.openSubstream
    cases aget s.conns p with
    | none => rfl
    | some ctx =>
      by_cases h : (ctx.primary.active || up) = false
      · simp [h]
      · cases send <;> simp [h, hka]
  · simp [Svc.onSubstreamOpened, hka]
  · intro d life hl; simp [hl, lifetimePermit, hka, msgHolds]

/-- Non-vacuity: the ping-like protocol opens and receives a substream at 90 and keeps it; the
connection still closes at 100. -/
example :
    let s1 := ((twoProtocols.advance 90).open 1 1).1
    let s2 := (((s1.recv 10).1.subOpen 10 0).map (fun s => (s.drain 1).1)).getD s1
    let s3 := (s2.advance 10).pollAll
    s2.subs = [(1, 10, false)] ∧ exits s2 10 = false ∧ exits s3 10 = true := by
  decide

/-- **Primary and secondary alike.** Whichever slot of the `ConnectionContext` holds connection
`c`, a keep-alive expiry deactivates exactly that handle and substream activity re-activates exactly
that handle; handles of other connections are untouched. (The tracker and the strong-sender count
are keyed by connection id and never look at the slot.) -/
theorem primary_secondary (ctx : KCtx) (c : Nat) (hd : Distinct ctx)
    (hin : ctx.primary.id = c ∨ ∃ h, ctx.secondary = some h ∧ h.id = c) :
    (ctx.downgrade c).activeFor c = false ∧ (ctx.tryUpgrade c true).activeFor c = true ∧
    ∀ d, d ≠ c → (ctx.downgrade c).activeFor d = ctx.activeFor d ∧
      (ctx.tryUpgrade c true).activeFor d = ctx.activeFor d := by
  obtain ⟨⟨pid, pact⟩, sec⟩ := ctx
  rcases hin with hp | ⟨h, hs, hid⟩
  · simp only at hp
    subst hp
    cases sec with
    | none =>
      refine ⟨by simp [KCtx.downgrade, KCtx.activeFor, Handle.close],
        by cases pact <;> simp [KCtx.tryUpgrade, KCtx.activeFor, Handle.tryUpgrade], ?_⟩
      intro d hne
      have : ¬ pid = d := fun h => hne h.symm
      constructor
      · simp [KCtx.downgrade, KCtx.activeFor, Handle.close, this]
      · cases pact <;> simp [KCtx.tryUpgrade, KCtx.activeFor, Handle.tryUpgrade, this]
    | some s =>
      have hne' : ¬ s.id = pid := hd s rfl
      refine ⟨by simp [KCtx.downgrade, KCtx.activeFor, Handle.close, hne'],
        by cases pact <;> simp [KCtx.tryUpgrade, KCtx.activeFor, Handle.tryUpgrade], ?_⟩
      intro d hne
      have : ¬ pid = d := fun h => hne h.symm
      constructor
      · simp [KCtx.downgrade, KCtx.activeFor, Handle.close, this]
      · cases pact <;> simp [KCtx.tryUpgrade, KCtx.activeFor, Handle.tryUpgrade, this]
  · subst hs
    have hne' : ¬ pid = c := fun h' => hd h rfl (hid.trans h'.symm)
    obtain ⟨sid, sact⟩ := h
    simp only at hid
    subst hid
    refine ⟨by simp [KCtx.downgrade, KCtx.activeFor, Handle.close, hne'],
      by cases sact <;> simp [KCtx.tryUpgrade, KCtx.activeFor, Handle.tryUpgrade, hne'], ?_⟩
    intro d hne
    have : ¬ sid = d := fun h => hne h.symm
    constructor
    · simp [KCtx.downgrade, KCtx.activeFor, Handle.close, hne', this]
    · cases sact <;> simp [KCtx.tryUpgrade, KCtx.activeFor, Handle.tryUpgrade, hne', this]

/-- Non-vacuity: a secondary connection `11` kept alive by an inbound keep-alive substream while the
primary `10` idles out; the substream is dropped at 200 and `11` closes `T` after its last activity. -/
example :
    let s0 : Sys := { svcs := [{ ka := true, T := 100 }] }
    let s1 := ((((s0.established 1 10).established 1 11).drain 0).1.advance 50)
    let s2 := ((s1.subInbound 11 0).1.drain 0).1
    let s3 := (s2.advance 60).pollAll
    let s4 := ((s3.advance 90).dropSub 0 0).getD s3
    (s3.svcs.map (·.conns)) = [[(1, ⟨⟨10, false⟩, some ⟨11, true⟩⟩)]] ∧
    exits s3 10 = true ∧ exits s3 11 = false ∧ exits s4.pollAll 11 = true := by
  decide

/-- The default timeout (regenerated from `src/transport/mod.rs`) is positive, so a fresh
connection always gets a grace period. -/
example : 0 < Consts.KEEP_ALIVE_TIMEOUT_SECS := by decide

end Litep2pVerif.Props.C09

#print axioms Litep2pVerif.Props.C09.held_not_closed
#print axioms Litep2pVerif.Props.C09.idle_closed_at_partial
#print axioms Litep2pVerif.Props.C09.ping_no_prolong
#print axioms Litep2pVerif.Props.C09.primary_secondary
