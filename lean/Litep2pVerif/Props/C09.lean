import Litep2pVerif.Proofs.Service.KeepAliveReach
import Litep2pVerif.Proofs.Node.Wiring
import Litep2pVerif.Generated.Consts
import Litep2pVerif.Proofs.Conn.Permits
import Litep2pVerif.Proofs.Conn.Outbound
/-!
# C09 — Idle connections close after the keep-alive timeout, busy ones are kept

Property theorems only. Model: `Model/Service/KeepAlive.lean`; lemmas:
`Proofs/Service/KeepAlive.lean`. A connection's loop ends by the idle mechanism iff `exits s c`
(no strong sender of its command channel is left). The idle mechanism is "time passes and every
protocol polls its keep-alive tracker": `(s.advance dt).pollAll`.
-/
namespace Litep2pVerif.Props.C09
open Litep2pVerif Litep2pVerif.Service Litep2pVerif.Service.KA

/-- A system with a keep-alive (`Yes`) and a ping-like (`No`) protocol, timeout 100, one
connection `10` to peer `1` announced to both at time 0. -/
def twoProtocols : Sys :=
  let s0 : Sys := { svcs := [{ ka := true, T := 100 }, { ka := false, T := 100 }] }
  (((s0.established 1 10).drain 0).1.drain 1).1

/-- **Busy connections are kept.** While a substream of a keep-alive protocol on `c` exists or is
being opened — its command is queued or being negotiated, its `SubstreamOpened` is in flight, or
the protocol holds the substream (lifetime permit) — no amount of elapsed time and keep-alive
polling makes the connection's loop exit. -/
theorem held_not_closed (s : Sys) (c : Nat) (h : Busy s c) (dts : List Nat) :
    exits (dts.foldl (fun s dt => (s.advance dt).pollAll) s) c = false := by
  induction dts generalizing s with
  | nil =>
    have := busy_permits s c h
    simp [exits, strong]; omega
  | cons dt rest ih => exact ih _ (busy_tick s dt c h)

/-- Non-vacuity: the keep-alive protocol opens a substream at time 50, the task receives the
command; five timeouts later both handles are downgraded but the loop does not exit; once the
task fails the open (permit dropped) it does. -/
example :
    let s1 := ((twoProtocols.advance 50).open 0 1).1
    let s2 := (s1.recv 10).1
    let s3 := (s2.advance 500).pollAll
    Busy s2 10 ∧ handles s3.svcs 10 = 0 ∧ exits s3 10 = false ∧
      ((s3.subFail 10 0).map (fun s => exits s 10)) = some true := by
  refine ⟨Or.inr (Or.inl ⟨⟨0, 0, 10, true⟩, by decide, rfl⟩), by decide, by decide, by decide⟩

/-- **Idle connections close exactly at `last keep-alive activity + T`, not before and not later.**

Quantified over every state reachable (`Reach`) from a system without connections by the real operations
— a connection task announcing / closing a connection, taking a command, reporting an outbound or
inbound substream or an open failure; a protocol calling `open_substream`, processing the next message
of its channel, dropping a substream, polling its keep-alive tracker; the logical clock advancing — in
any order and any number (`Sys.step` in `Model/Service/KeepAlive.lean`), for primary and secondary
connections alike (nothing in the statement looks at the slot).

**Environment hypothesis** (the guard of the `advance` step, `timersSettled`; fairness of the executor
under a logical clock): the clock does not move while a protocol's tracker holds a sleep future that has
been pushed but not polled yet, nor past the deadline of a started one — i.e. a protocol task is polled
when it has a new timer and when a timer wakes it. Messages may wait in the channels for any length of
time. This is what "at `t₀ + T`" means for the code as it is: `KeepAliveTracker` creates the
`tokio::time::sleep` at the FIRST POLL of the pushed future, so the sleep for activity at `t₀` ends at
`(first poll after t₀) + T`; under the hypothesis the first poll is at `t₀` (true for `TransportService`:
`substream_activity` is only called inside `poll_next`, which goes on to poll the tracker or returns an
event to the protocol's loop that polls again; or inside `open_substream`, after which the protocol's
loop polls its service — the second is an assumption about protocol code, recorded in the plugin). A sleep
that completes early relative to a later activity is re-armed with exactly the remaining time.

For every reachable `s` and connection `c`:

1. *never late, per protocol*: a protocol holding an active handle of `c` tracks `c` with
   `last_activity ≤ now ≤ last_activity + T`, and `now < last_activity + T` if it has polled at this instant
   (`Polled`): no handle survives a poll at `last_activity + T`.
2. *never late, connection*: if no permit of `c` exists (no substream of a keep-alive protocol exists or
   is being opened, nothing else in flight), every protocol has polled at this instant and every
   `last_activity` of `c` that any protocol still has is at least that protocol's timeout ago, then the
   loop exits (`rx.recv()` yields `None`).
3. *never early, per protocol*: the only steps after which a protocol that held an active handle of `c`
   holds none are that protocol processing a `ConnectionClosed` (the close path) and that protocol's
   keep-alive poll at a time `≥ last_activity + T`.
4. *never early, connection*: with no permit around, the step that makes the loop exit is one of those
   two for some protocol `i` that held `c` — so the idle exit happens at a time `≥ last_activity_i + T_i`.

Together: with no keep-alive substream existing or being opened after `t₀ =` the last activity, every
protocol `i` keeps its handle exactly until its poll at `last_activity_i + T_i` (3, 1), the last one to
let go is the one with the largest `last_activity_i + T_i = t₀ + T` (all `T_i` are the configured
keep-alive timeout), and the loop exits at that poll (4, 2). -/
theorem idle_closed_at {peer : Nat → Nat} {n : Nat} {s : Sys} (hr : Reach peer n s) (c : Nat) :
    (∀ svc ∈ s.svcs, 0 < svc.holds c →
      ∃ la, aget svc.tr.last c = some la ∧ la ≤ s.now ∧ s.now ≤ la + svc.T ∧
        (Polled svc s.now → s.now < la + svc.T)) ∧
    (permits s c = 0 →
      (∀ svc ∈ s.svcs, Polled svc s.now ∧ ∀ la, aget svc.tr.last c = some la → la + svc.T ≤ s.now) →
      exits s c = true) ∧
    (∀ (l : Label) (n' : Nat) (s' : Sys) (i : Nat) (svc svc' : Svc), s.step peer n l = some (n', s') →
      s.svcs[i]? = some svc → s'.svcs[i]? = some svc' → 0 < svc.holds c → svc'.holds c = 0 →
      (l = .deliver i ∧ ∃ p c', svc' = (svc.onClosed p c').1) ∨
      (l = .poll i ∧ svc' = svc.pollKeepAlive s.now ∧
        ∃ la, aget svc.tr.last c = some la ∧ la + svc.T ≤ s.now)) ∧
    (∀ (l : Label) (n' : Nat) (s' : Sys), s.step peer n l = some (n', s') → permits s c = 0 →
      exits s c = false → exits s' c = true →
      ∃ i svc, s.svcs[i]? = some svc ∧ 0 < svc.holds c ∧
        ((l = .deliver i ∧ ∃ p c', s'.svcs[i]? = some (svc.onClosed p c').1) ∨
         (l = .poll i ∧ ∃ la, aget svc.tr.last c = some la ∧ la + svc.T ≤ s.now))) :=
  ⟨fun svc hsvc hpos => (hr.inv.svc svc hsvc).holder c hpos,
   fun hperm hidle => idle_exits hr c hperm hidle,
   fun l _ _ i svc svc' hst hi hi' hpos hz => never_early hr l hst i svc svc' hi hi' c hpos hz,
   fun l _ _ hst hperm h0 h1 => last_holder_never_early hr l hst c hperm h0 h1⟩

/-- … and the environment hypothesis never blocks the clock for good: a keep-alive poll leaves every
sleep of the protocol started and incomplete, so once every protocol has polled the clock can advance —
up to the earliest deadline. -/
theorem poll_settles {peer : Nat → Nat} {n : Nat} {s : Sys} (hr : Reach peer n s) :
    ∀ svc ∈ s.svcs, Polled (svc.pollKeepAlive s.now) s.now :=
  fun svc hsvc => pollKeepAlive_polled svc (hr.inv.svc svc hsvc)

/-- The example run: protocols 0 (keep-alive) and 1 (ping-like), `T = 100`. Connection `10` is announced
and processed at 0; at 50 protocol 0 opens a substream, the task takes the command and the negotiation
fails; protocol 0 reads the failure. Polls at 100 (protocol 1 lets go), 149 and 150. -/
def exampleRun : List Label :=
  [.established 10, .deliver 0, .poll 0, .deliver 1, .poll 1, .advance 50, .open 0 1, .poll 0, .recv 10,
   .subFail 10 0, .deliver 0, .poll 0, .advance 50, .poll 1, .poll 0, .advance 49, .poll 0, .poll 1]

/-- Non-vacuity of all four parts, and the exact time: the run is enabled step by step (so its end state is
reachable), at 149 nothing is in flight, protocol 0 still holds `10` with `last_activity = 50` and has
polled (part 1: `149 < 150`); the clock can advance by 1 but not by 2 (the environment hypothesis: the
sleep ends at 150); at 150 the poll of protocol 0 is the step that makes the loop exit (parts 3, 4) and
the state after it satisfies the hypotheses of part 2. The sleep of the activity at 50 was pushed when the
first one (pushed at 0) was still pending: no new sleep, the old one completes at 100 and is re-armed with
the remaining 50. -/
example :
    let peer : Nat → Nat := fun _ => 1
    let r := Sys.steps peer 0 (Sys.init [(true, 100), (false, 100)]) exampleRun
    let s149 := (r.map (·.2)).getD {}
    let s150 := ((s149.step peer 11 (.advance 1)).map (·.2)).getD {}
    let s150' := ((s150.step peer 11 (.poll 0)).map (·.2)).getD {}
    (r.map (·.1)) = some 11 ∧ s149.now = 149 ∧ permits s149 10 = 0 ∧
    (s149.svcs.map (·.holds 10)) = [1, 0] ∧ (s149.svcs.map (fun v => aget v.tr.last 10)) = [some 50, none] ∧
    (s149.svcs.map (fun v => v.tr.timers)) = [[⟨10, some 150, 50⟩], []] ∧
    exits s149 10 = false ∧ (s149.step peer 11 (.advance 2)) = none ∧
    s150.now = 150 ∧ exits s150 10 = false ∧ exits s150' 10 = true ∧
    (s150'.svcs.map (fun v => v.tr.timers)) = [[], []] := by
  decide

example : Reach (fun _ => 1) 11
    (((Sys.steps (fun _ => 1) 0 (Sys.init [(true, 100), (false, 100)]) exampleRun).map (·.2)).getD {}) := by
  have h : Sys.steps (fun _ => 1) 0 (Sys.init [(true, 100), (false, 100)]) exampleRun =
      some (11, ((Sys.steps (fun _ => 1) 0 (Sys.init [(true, 100), (false, 100)]) exampleRun).map (·.2)).getD {}) := by
    decide
  exact Reach.steps exampleRun (Reach.init _) h

/-- **Exactly at `max_p (last_activity_p + T)`** — the two directions of `idle_closed_at` put together
along a run. From any reachable state in which no permit of `c` is around (no keep-alive substream exists
or is being opened, nothing in flight), let nothing happen but the idle mechanism — time passing, as far as
the environment hypothesis allows, and keep-alive polls of any protocols, in any order and number — ending
in a state where every protocol has polled. Then the loop has exited **iff** for every protocol that held
`c` at the start its timeout has elapsed since its last activity: not at any earlier time, and at that time
for sure. (Protocols that did not hold `c` at the start have let go at their own `last_activity + T`
earlier, by `idle_closed_at` 1 and 3, so this is `t₀ + T` for `t₀` the last activity of all.) -/
theorem idle_run_closed_at {peer : Nat → Nat} {n n' : Nat} {s s' : Sys} (hr : Reach peer n s) (c : Nat)
    (hperm : permits s c = 0) (ls : List Label) (hall : ∀ l ∈ ls, idleLabel l = true)
    (hst : Sys.steps peer n s ls = some (n', s')) (hpolled : ∀ svc' ∈ s'.svcs, Polled svc' s'.now) :
    exits s' c = true ↔
      ∀ svc ∈ s.svcs, 0 < svc.holds c → ∀ la, aget svc.tr.last c = some la → la + svc.T ≤ s'.now :=
  idle_run_exits_iff hr c hperm ls hall hst hpolled

/-- Non-vacuity: from the state of `exampleRun` at time 100 (right after protocol 1 was downgraded; protocol
0 holds `10` with `last_activity = 50`), idle runs ending at 149 and at 150, every protocol polled: the
first has not exited, the second has; the hypotheses of the theorem hold for both. -/
example :
    let peer : Nat → Nat := fun _ => 1
    let r := Sys.steps peer 0 (Sys.init [(true, 100), (false, 100)]) (List.take 15 exampleRun)
    let s := (r.map (·.2)).getD {}
    let a := ((Sys.steps peer 11 s [.advance 49, .poll 1, .poll 0]).map (·.2)).getD {}
    let b := ((Sys.steps peer 11 s [.advance 49, .poll 0, .advance 1, .poll 0, .poll 1]).map (·.2)).getD {}
    s.now = 100 ∧ permits s 10 = 0 ∧ (s.svcs.map (·.holds 10)) = [1, 0] ∧
    (s.svcs.map (fun v => aget v.tr.last 10)) = [some 50, none] ∧
    a.now = 149 ∧ exits a 10 = false ∧ b.now = 150 ∧ exits b 10 = true ∧
    (b.svcs.map (fun v => v.tr.timers)) = [[], []] ∧ (a.svcs.map (fun v => v.tr.timers)) = [[⟨10, some 150, 50⟩], []] := by
  decide

/-- Non-vacuity, lazily started sleeps and the hypothesis: right after `open_substream` on a connection
whose handle had been downgraded (tracker entry gone) the new sleep is pushed but not started, and the
clock may not advance until the protocol has polled. -/
example :
    let peer : Nat → Nat := fun _ => 1
    let r := Sys.steps peer 0 (Sys.init [(true, 100), (true, 100)])
      [.established 10, .deliver 0, .poll 0, .deliver 1, .poll 1, .advance 60, .open 1 1, .poll 1, .advance 40, .poll 0,
       .poll 1, .advance 10, .open 0 1]
    let s := (r.map (·.2)).getD {}
    (s.svcs.map (fun v => v.tr.timers)).head? = some [⟨10, none, 100⟩] ∧
    s.step peer 11 (.advance 1) = none ∧
    ((s.step peer 11 (.poll 0)).bind fun x => (x.2.step peer 11 (.advance 1)).map (·.2.now)) = some 111 := by
  decide

/-- **Ping/identify-style traffic does not prolong.** For a protocol with
`SubstreamKeepAlive::No`, neither `open_substream` (any outcome) nor a reported substream changes
the protocol's state at all — `last_activity`, timers and handle activity stay as they are — and the
substream the connection task builds carries no lifetime permit, so the only holder such traffic
adds is the opening permit, gone when the protocol has processed the substream. -/
theorem ping_no_prolong (s : Svc) (hka : s.ka = false) (p c now sid : Nat) (up : Bool) (send : SendRes) :
    (s.openSubstream p now up send sid).1 = s ∧ s.onSubstreamOpened p c now = s ∧
    lifetimePermit s.ka = false ∧
    (∀ d life, life = lifetimePermit s.ka → msgHolds c (.subOpened p d c life) = 1) := by
  refine ⟨?_, ?_, by simp [lifetimePermit, hka], ?_⟩
  · unfold Svc.openSubstream
    cases aget s.conns p with
    | none => rfl
    | some ctx =>
      by_cases h : (ctx.primary.active || up) = false
      · simp [h]
      · cases send <;> simp [h, hka]
  · simp [Svc.onSubstreamOpened, hka]
  · intro d life hl; simp [hl, lifetimePermit, hka, msgHolds]

/-- Non-vacuity: the ping-like protocol opens and receives a substream at 90 and keeps it; the
connection still closes at 100. -/
example :
    let s1 := ((twoProtocols.advance 90).open 1 1).1
    let s2 := (((s1.recv 10).1.subOpen 10 0).map (fun s => (s.drain 1).1)).getD s1
    let s3 := (s2.advance 10).pollAll
    s2.subs = [(1, 10, false)] ∧ exits s2 10 = false ∧ exits s3 10 = true := by
  decide

/-- **Primary and secondary alike.** Whichever slot of the `ConnectionContext` holds connection
`c`, a keep-alive expiry deactivates exactly that handle and substream activity re-activates exactly
that handle; handles of other connections are untouched. (The tracker and the strong-sender count
are keyed by connection id and never look at the slot.) -/
theorem primary_secondary (ctx : KCtx) (c : Nat) (hd : Distinct ctx)
    (hin : ctx.primary.id = c ∨ ∃ h, ctx.secondary = some h ∧ h.id = c) :
    (ctx.downgrade c).activeFor c = false ∧ (ctx.tryUpgrade c true).activeFor c = true ∧
    ∀ d, d ≠ c → (ctx.downgrade c).activeFor d = ctx.activeFor d ∧
      (ctx.tryUpgrade c true).activeFor d = ctx.activeFor d := by
  obtain ⟨⟨pid, pact⟩, sec⟩ := ctx
  rcases hin with hp | ⟨h, hs, hid⟩
  · simp only at hp
    subst hp
    cases sec with
    | none =>
      refine ⟨by simp [KCtx.downgrade, KCtx.activeFor, Handle.close],
        by cases pact <;> simp [KCtx.tryUpgrade, KCtx.activeFor, Handle.tryUpgrade], ?_⟩
      intro d hne
      have : ¬ pid = d := fun h => hne h.symm
      constructor
      · simp [KCtx.downgrade, KCtx.activeFor, Handle.close, this]
      · cases pact <;> simp [KCtx.tryUpgrade, KCtx.activeFor, Handle.tryUpgrade, this]
    | some s =>
      have hne' : ¬ s.id = pid := hd s rfl
      refine ⟨by simp [KCtx.downgrade, KCtx.activeFor, Handle.close, hne'],
        by cases pact <;> simp [KCtx.tryUpgrade, KCtx.activeFor, Handle.tryUpgrade], ?_⟩
      intro d hne
      have : ¬ pid = d := fun h => hne h.symm
      constructor
      · simp [KCtx.downgrade, KCtx.activeFor, Handle.close, this]
      · cases pact <;> simp [KCtx.tryUpgrade, KCtx.activeFor, Handle.tryUpgrade, this]
  · subst hs
    have hne' : ¬ pid = c := fun h' => hd h rfl (hid.trans h'.symm)
    obtain ⟨sid, sact⟩ := h
    simp only at hid
    subst hid
    refine ⟨by simp [KCtx.downgrade, KCtx.activeFor, Handle.close, hne'],
      by cases sact <;> simp [KCtx.tryUpgrade, KCtx.activeFor, Handle.tryUpgrade, hne'], ?_⟩
    intro d hne
    have : ¬ sid = d := fun h => hne h.symm
    constructor
    · simp [KCtx.downgrade, KCtx.activeFor, Handle.close, hne', this]
    · cases sact <;> simp [KCtx.tryUpgrade, KCtx.activeFor, Handle.tryUpgrade, hne', this]

/-- Non-vacuity: a secondary connection `11` kept alive by an inbound keep-alive substream while the
primary `10` idles out; the substream is dropped at 200 and `11` closes `T` after its last activity. -/
example :
    let s0 : Sys := { svcs := [{ ka := true, T := 100 }] }
    let s1 := ((((s0.established 1 10).established 1 11).drain 0).1.advance 50)
    let s2 := ((s1.subInbound 11 0).1.drain 0).1
    let s3 := (s2.advance 60).pollAll
    let s4 := ((s3.advance 90).dropSub 0 0).getD s3
    (s3.svcs.map (·.conns)) = [[(1, ⟨⟨10, false⟩, some ⟨11, true⟩⟩)]] ∧
    exits s3 10 = true ∧ exits s3 11 = false ∧ exits s4.pollAll 11 = true := by
  decide

/-- **An inbound substream holds the connection from the moment it is accepted** (model
`Model/Conn/Permits.lean`, tied to the real `TcpConnection::start` loop in the `tcploop` area; this is the
connection task's side of `held_not_closed`, which the C09 adapter used to mimic).

1. `handle_yamux_substream`: if any strong sender of the command channel is left when an inbound yamux
   stream arrives, the loop goes on and the substream enters `pending_substreams` OWNING a permit — before
   multistream-select has said which protocol it is for.
2. That entry stays, with its permit, across every other transition of the system — other substreams
   being accepted, negotiated, failing; commands; every protocol downgrading or dropping its handle;
   deliveries; protocols shutting down — until its own negotiation ends (`TLabel.endsNeg k`: success under a main or
   a fallback name, failure or timeout; or the loop has returned for another reason): and as long as it is there the command channel has a strong sender, so
   `protocol_set.next()` cannot yield `None`: the idle exit is disabled.
3. When its negotiation succeeds for a live protocol `p` the permits travel with the `SubstreamOpened`
   message (`stage = queued`).
4. A substream being negotiated (inbound or outbound), and a delivered substream of a keep-alive
   protocol whether still in the protocol's channel or held by the protocol, keeps the idle exit
   disabled. -/
theorem inbound_negotiation_holds_connection :
    (∀ s : Conn.TLoop, s.running = true → 0 < s.strong →
      (Conn.tstep s .accept).subs = s.subs ++ [⟨true, none, .negotiating⟩] ∧
      (Conn.tstep s .accept).loop.exited = none) ∧
    (∀ (s : Conn.TLoop) (ls : List Conn.TLabel) (k : Nat) (x : Conn.Sub),
      s.subs[k]? = some x → x.stage = .negotiating →
      (∀ l ∈ ls, l.endsNeg k = false) →
      (Conn.trun s ls).loop.exited = none →
        (Conn.trun s ls).subs[k]? = some x ∧ 0 < (Conn.trun s ls).strong ∧
        (Conn.trun s ls).idleEnabled = false ∧
        Conn.tstep (Conn.trun s ls) .idleExit = Conn.trun s ls) ∧
    (∀ (s : Conn.TLoop) (k p : Nat) (x : Conn.Sub), s.running = true →
      s.subs[k]? = some x → x.stage = .negotiating → Conn.protoAlive s p = true →
      (Conn.tstep s (.negOk k p)).loop.exited = none →
        (Conn.tstep s (.negOk k p)).subs[k]? = some { x with proto := some p, stage := .queued }) ∧
    (∀ (s : Conn.TLoop) (x : Conn.Sub), x ∈ s.subs → Conn.Busy s.ka x →
      0 < s.strong ∧ s.idleEnabled = false ∧ Conn.tstep s .idleExit = s) := by
  refine ⟨fun s hr hs => ?_, fun s ls k x hk hx hls hrun => ?_, fun s k p x hr hk hx ha hrun => ?_,
    fun s x hmem hb => ?_⟩
  · have := Conn.accept_with_permit s hr hs
    exact ⟨this.1, this.2.1⟩
  · have h1 := Conn.trun_negotiating ls s k x hk hx hls hrun
    have h2 := Conn.busy_strong_pos _ x (List.mem_of_getElem? h1) (Or.inr (Or.inl hx))
    exact ⟨h1, h2, Conn.idle_disabled _ h2⟩
  · exact Conn.negOk_queues s k p x hr hk hx ha hrun
  · have h2 := Conn.busy_strong_pos s x hmem hb
    exact ⟨h2, Conn.idle_disabled s h2⟩

/-- Non-vacuity (the C09-b2 shape): one keep-alive protocol takes the connection; the remote opens a
substream (accepted: `subs[0]` negotiating) and stalls; the protocol's keep-alive timer fires (`downgrade`).
The hypotheses of part 2 hold for the label sequence, the only strong sender left is the substream's
permit, the idle exit does nothing — as often as it is tried. When the negotiation fails the permit is
gone and the idle exit closes the connection, reports made once. When it succeeds instead, the
substream's lifetime permit keeps the connection until the protocol drops the substream. -/
example :
    let s1 := Conn.trun (Conn.tinit [true] 4) [.recv 0, .accept]
    let s2 := Conn.trun s1 [.downgrade 0, .idleExit, .idleExit]
    let s3 := Conn.trun s2 [.negFail 0, .idleExit]
    let s4 := Conn.trun s2 [.negOk 0 0, .idleExit, .recv 0, .idleExit]
    let s5 := Conn.trun s4 [.dropSub 0, .idleExit]
    s1.subs[0]? = some ⟨true, none, .negotiating⟩ ∧
    s2.strong = 1 ∧ s2.loop.exited = none ∧ s2.subs[0]? = some ⟨true, none, .negotiating⟩ ∧
    s3.loop.exited = some .ok ∧ s3.loop.ps.log = [.proto 0 .closed, .mgr] ∧
    s4.loop.exited = none ∧ s4.subs = [⟨true, some 0, .held⟩] ∧ s4.strong = 1 ∧
    s5.loop.exited = some .ok := by decide

/-- Non-vacuity: for a ping-like protocol the permits end with the delivery (no lifetime permit). -/
example :
    let s := Conn.trun (Conn.tinit [false] 4) [.recv 0, .accept, .downgrade 0, .negOk 0 0, .idleExit, .recv 0]
    s.loop.exited = none ∧ s.strong = 0 ∧ (Conn.tstep s .idleExit).loop.exited = some .ok := by decide

/-- **A half-closed substream holds the connection until the object is dropped** (model `Model/Conn/Permits.lean`,
tied to the real loop and the real `tcp::Substream` in the `tcploop` area: `half_close` = `Sink::poll_close` →
`AsyncWrite::poll_shutdown` on a held substream, the protocol keeps the object and goes on reading).

The lifetime permit is a field of the substream object; shutting down the write half does not touch it.
1. Half-closing the oldest held substream of protocol `i` leaves the same entry in the table — same protocol, now
   `heldHalf` — and changes nothing else (no handle, no command, nothing about the loop).
2. A half-closed substream of a keep-alive protocol is a strong sender of the command channel: `protocol_set.next()`
   cannot yield `None`, the idle exit is disabled and does nothing.
3. It stays there, with its permit, across EVERY other transition of the system — the keep-alive timers of all
   protocols firing (`downgrade`), handles dropped, other substreams accepted / negotiated / failing / half-closed /
   dropped, deliveries, channels filling — until its owner drops the object (`dropSub`) or shuts down (`dropRx`):
   so for every such schedule the idle exit stays disabled, as often as it is tried. -/
theorem half_closed_substream_holds_connection :
    (∀ (s : Conn.TLoop) (i k : Nat), Conn.firstAt s.subs i .heldHalf = none → Conn.firstAt s.subs i .held = some k →
      ∃ x, s.subs[k]? = some x ∧ x.stage = .held ∧ x.proto = some i ∧
        (Conn.tstep s (.halfClose i)).subs[k]? = some { x with stage := .heldHalf } ∧
        (Conn.tstep s (.halfClose i)).loop = s.loop ∧ (Conn.tstep s (.halfClose i)).handles = s.handles ∧
        (Conn.tstep s (.halfClose i)).cmdQ = s.cmdQ) ∧
    (∀ (s : Conn.TLoop) (x : Conn.Sub), x ∈ s.subs → x.stage = .heldHalf → Conn.kaOf s.ka x.proto = true →
      0 < s.strong ∧ s.idleEnabled = false ∧ Conn.tstep s .idleExit = s) ∧
    (∀ (s : Conn.TLoop) (ls : List Conn.TLabel) (k : Nat) (x : Conn.Sub),
      s.subs[k]? = some x → x.stage = .heldHalf → Conn.kaOf s.ka x.proto = true →
      (∀ l ∈ ls, ∀ i, x.proto = some i → l ≠ .dropSub i ∧ l ≠ .dropRx i) →
        (Conn.trun s ls).subs[k]? = some x ∧ 0 < (Conn.trun s ls).strong ∧
        (Conn.trun s ls).idleEnabled = false ∧
        Conn.tstep (Conn.trun s ls) .idleExit = Conn.trun s ls) := by
  refine ⟨Conn.halfClose_keeps, fun s x hmem hx hka => ?_, fun s ls k x hk hx hka hls => ?_⟩
  · have h2 := Conn.busy_strong_pos s x hmem (Or.inr (Or.inr ⟨hka, Or.inr (Or.inr hx)⟩))
    exact ⟨h2, Conn.idle_disabled s h2⟩
  · have h1 := Conn.trun_heldHalf ls s k x hk hx hls
    have hka' : Conn.kaOf (Conn.trun s ls).ka x.proto = true := by rw [Conn.trun_ka]; exact hka
    have h2 := Conn.busy_strong_pos _ x (List.mem_of_getElem? h1) (Or.inr (Or.inr ⟨hka', Or.inr (Or.inr hx)⟩))
    exact ⟨h1, h2, Conn.idle_disabled _ h2⟩

/-- Non-vacuity (the request/response shape): a keep-alive protocol gets an inbound substream, writes its request and
closes its write half, and waits for the reply. Its keep-alive timer fires (`downgrade`): the only strong sender
left is the half-closed substream's lifetime permit; the idle exit does nothing, as often as it is tried. Only when
the protocol drops the object does the connection close (reports made once). For a ping-like protocol the same
substream never held the connection. -/
example :
    let s1 := Conn.trun (Conn.tinit [true] 4) [.recv 0, .accept, .negOk 0 0, .recv 0]
    let s2 := Conn.trun s1 [.halfClose 0]
    let s3 := Conn.trun s2 [.downgrade 0, .idleExit, .halfClose 0, .idleExit]
    let s4 := Conn.trun s3 [.dropSub 0, .idleExit]
    let t := Conn.trun (Conn.tinit [false] 4) [.recv 0, .accept, .negOk 0 0, .recv 0, .halfClose 0, .downgrade 0, .idleExit]
    Conn.firstAt s1.subs 0 .heldHalf = none ∧ Conn.firstAt s1.subs 0 .held = some 0 ∧
    s2.subs = [⟨true, some 0, .heldHalf⟩] ∧ s2.strong = 2 ∧
    s3.subs = [⟨true, some 0, .heldHalf⟩] ∧ s3.strong = 1 ∧ s3.loop.exited = none ∧
    s4.loop.exited = some .ok ∧ s4.loop.ps.log = [.proto 0 .substreamOpened, .proto 0 .closed, .mgr] ∧
    t.loop.exited = some .ok := by decide

/-- **A substream negotiated under a FALLBACK name holds the connection like any other substream of its protocol**
(model `Model/Conn/Permits.lean`; tied to the real `ProtocolSet::new` / `accept_substream` /
`report_substream_open` and the real loop in the `tcploop` area: protocols installed with `fb=`, the remote proposing
`<p>.f<k>`, a remote that only knows a fallback name of what we ask for). The permit rule is per PROTOCOL, whichever
of its names was negotiated:

1. `ProtocolSet::new` builds the name → keep-alive map from the main names and, for every fallback name, the context
   of ITS MAIN protocol: every name `(p, f)` of an installed protocol `p` — main (`f = 0`) or fallback — carries
   `p`'s own keep-alive setting; and `report_substream_open` reports the name to `p`, with the `fallback` field
   naming it exactly when it is a fallback name (C03 `fallback_reported_as_main` is the same rule on byte strings).
2. Hence in the loop the negotiated name does not matter: `negOkFb k p f` is `negOk k p`.
3. An inbound substream negotiated under the `f`-th fallback name of a live protocol `p` goes to `p`'s channel with
   its permits (`stage = queued`, `proto = p`): the same entry that was accepted.
4. From then on — in the protocol's channel, held, or held with its write half shut down — a substream of a
   keep-alive protocol is a strong sender of the command channel in EVERY state in which it exists:
   `protocol_set.next()` cannot yield `None`, the idle exit is disabled and does nothing, until the protocol drops
   it (`inbound_negotiation_holds_connection` covers the time before, `half_closed_substream_holds_connection` the
   schedules after). -/
theorem fallback_name_substream_holds_connection :
    (∀ (ka : List Bool) (fbs : List Nat) (p f : Nat), fbs.length = ka.length → p < ka.length → f ≤ fbs.getD p 0 →
      Conn.nameKa ka fbs (p, f) = some ka[p]? ∧
      Conn.reportTo fbs (p, f) = (p, if f = 0 then none else some (p, f))) ∧
    (∀ (s : Conn.TLoop) (k p f : Nat), Conn.tstep s (.negOkFb k p f) = Conn.tstep s (.negOk k p)) ∧
    (∀ (s : Conn.TLoop) (k p f : Nat) (x : Conn.Sub), s.running = true →
      s.subs[k]? = some x → x.stage = .negotiating → Conn.protoAlive s p = true →
      (Conn.tstep s (.negOkFb k p f)).loop.exited = none →
        (Conn.tstep s (.negOkFb k p f)).subs[k]? = some { x with proto := some p, stage := .queued }) ∧
    (∀ (s : Conn.TLoop) (x : Conn.Sub) (p : Nat), x ∈ s.subs → x.proto = some p → s.ka.getD p false = true →
      (x.stage = .queued ∨ x.stage = .held ∨ x.stage = .heldHalf) →
      0 < s.strong ∧ s.idleEnabled = false ∧ Conn.tstep s .idleExit = s) := by
  refine ⟨fun ka fbs p f hlen hp hf => ⟨Conn.nameKa_eq ka fbs hlen p f hp hf,
      Conn.reportTo_eq fbs p f (by omega) hf⟩, fun _ _ _ _ => rfl,
    fun s k p f x hr hk hx ha hrun => Conn.negOk_queues s k p x hr hk hx ha hrun, fun s x p hmem hpr hka hst => ?_⟩
  have hk : Conn.kaOf s.ka x.proto = true := by rw [hpr]; exact hka
  have h2 := Conn.busy_strong_pos s x hmem (Or.inr (Or.inr ⟨hk, hst⟩))
  exact ⟨h2, Conn.idle_disabled s h2⟩

/-- Non-vacuity (the C09-d1 shape): protocol 0 (keep-alive, fallback names `(0,1)`, `(0,2)`) and protocol 1
(ping-like, one fallback name). The map of `ProtocolSet::new` gives `(0,2)` the setting of protocol 0 and `(1,1)` that
of protocol 1, and reports them to 0 and 1 with the name. The remote opens a substream and negotiates `(0,2)`; both
protocols let go of the connection: the substream's lifetime permit is the only strong sender left and the idle exit
does nothing, as often as it is tried, until protocol 0 drops the substream. Negotiated under the ping-like protocol's
fallback name instead, the same history ends with the connection closed. -/
example :
    let s1 := Conn.trun (Conn.tinit [true, false] 4) [.recv 0, .recv 1, .accept, .negOkFb 0 0 2, .recv 0]
    let s2 := Conn.trun s1 [.downgrade 0, .downgrade 1, .idleExit, .idleExit]
    let s3 := Conn.trun s2 [.dropSub 0, .idleExit]
    let t := Conn.trun (Conn.tinit [true, false] 4)
      [.recv 0, .recv 1, .accept, .negOkFb 0 1 1, .recv 1, .downgrade 0, .downgrade 1, .idleExit]
    Conn.nameKa [true, false] [2, 1] (0, 2) = some (some true) ∧ Conn.nameKa [true, false] [2, 1] (1, 1) = some (some false) ∧
    Conn.reportTo [2, 1] (0, 2) = (0, some (0, 2)) ∧ Conn.reportTo [2, 1] (1, 0) = (1, none) ∧
    Conn.nameKa [true, false] [2, 1] (0, 3) = none ∧
    s1.subs = [⟨true, some 0, .held⟩] ∧ s1.loop.ps.log = [.proto 0 .substreamOpened] ∧
    s2.strong = 1 ∧ s2.loop.exited = none ∧ s2.subs = [⟨true, some 0, .held⟩] ∧
    s3.loop.exited = some .ok ∧ t.loop.exited = some .ok := by decide

/-- **A refused request takes nothing away from the connection.** `open_substream` answered
`ChannelClogged` (the connection's command channel is full: a burst of requests nobody has read yet)
leaves the peer's handles where they were — the primary keeps its id, stays active if it was active
(and is re-activated if a strong sender still exists), the secondary and every other peer's context
are untouched — and the tracker either unchanged or with this attempt recorded as activity (the
deadline only moves forward). So after a clogged open the protocol holds the connection until `T`
after the last keep-alive activity, exactly as without it (`idle_closed_at`). -/
theorem clogged_open_keeps_handle (s : Svc) (p now sid : Nat) (up : Bool) (ctx : KCtx)
    (hctx : aget s.conns p = some ctx) :
    (∃ ctx', aget (s.openSubstream p now up .full sid).1.conns p = some ctx' ∧
        ctx'.primary.id = ctx.primary.id ∧ ctx'.secondary = ctx.secondary ∧
        (ctx.primary.active = true → ctx'.primary.active = true) ∧
        (ctx'.primary.active = true → ctx.primary.active = true ∨ up = true)) ∧
    (∀ q, q ≠ p → aget (s.openSubstream p now up .full sid).1.conns q = aget s.conns q) ∧
    ((s.openSubstream p now up .full sid).1.tr = s.tr ∨
      (s.openSubstream p now up .full sid).1.tr = s.tr.activity ctx.primary.id now s.T) ∧
    ((s.openSubstream p now up .full sid).2.2 = .error .channelClogged ∨
      (s.openSubstream p now up .full sid).2.2 = .error .connectionClosed) := by
  unfold Svc.openSubstream
  rw [hctx]
  by_cases h : (ctx.primary.active || up) = false
  · simp [h, hctx]
    exact Or.inl
  · by_cases hka : s.ka = true
    · have hup : ctx.primary.active = false → up = true := by
        intro ha; simpa [ha] using h
      cases ha : ctx.primary.active <;> simp_all [aget_aput, Handle.tryUpgrade]
    · simp [h, hka, hctx]
      exact Or.inl

/-- Non-vacuity: peer 1's connection 10 was announced at 0; at 60 the command channel is full and the
keep-alive protocol's `open_substream` is answered `ChannelClogged`: the handle is still active and
the attempt is the last activity; with nothing else holding it the connection is kept at 159 and
released at 160. -/
example :
    let s0 : Svc := { ka := true, T := 100, conns := [(1, ⟨⟨10, true⟩, none⟩)], tr := (({} : Tracker).activity 10 0 100) }
    let r := s0.openSubstream 1 60 true .full 7
    (match r.2.2 with | .error .channelClogged => true | _ => false) = true ∧
    aget r.1.conns 1 = some ⟨⟨10, true⟩, none⟩ ∧ aget r.1.tr.last 10 = some 60 ∧
    r.1.holds 10 = 1 := by
  decide

/-- The default timeout (regenerated from `src/transport/mod.rs`) is positive, so a fresh
connection always gets a grace period. -/
example : 0 < Consts.KEEP_ALIVE_TIMEOUT_SECS := by decide

end Litep2pVerif.Props.C09

#print axioms Litep2pVerif.Props.C09.held_not_closed
#print axioms Litep2pVerif.Props.C09.idle_closed_at
#print axioms Litep2pVerif.Props.C09.idle_run_closed_at
#print axioms Litep2pVerif.Props.C09.poll_settles
#print axioms Litep2pVerif.Props.C09.ping_no_prolong
#print axioms Litep2pVerif.Props.C09.primary_secondary
#print axioms Litep2pVerif.Props.C09.inbound_negotiation_holds_connection
#print axioms Litep2pVerif.Props.C09.half_closed_substream_holds_connection
#print axioms Litep2pVerif.Props.C09.clogged_open_keeps_handle

/-! ## Wiring — what `Litep2p::new` hands over (coverage round `node`)

Over the wiring model `Model/Node/Wiring.lean` (`Node.new c` = `Litep2p::new(ConfigBuilder…build())`), which is tied to
the real `ConfigBuilder`/`Litep2p::new` by the `node` area: the adapter prints the ACTUAL registration record of a node built
through the public API, the driver prints the model's, compared field by field on every run. -/
namespace Litep2pVerif.Props.C09.Wiring
open Litep2pVerif Litep2pVerif.Node

/-- A configuration with every kind of protocol (used by the non-vacuity examples). -/
def sample : Config :=
  { keepAliveMs := some 600, limits := some (some 2, none), listen := [1, 2],
    notif := [⟨"/n/a", 1024, "0102", ["/n/old"], 'a', some 64, some 64, none⟩],
    rr := [⟨"/r/a", 256, 800, ["/r/old"], none⟩, ⟨"/r/b", 64, 800, [], some 1⟩],
    user := [⟨"/u/a", .varint none⟩], kad := [⟨[], none, []⟩], ping := some 1, identify := true, bitswap := true,
    known := some [(0, [.listen 0, .closed, .quic, .wrongPeer 0, .noPeer 0])] }

/-- For every configuration, every protocol `Litep2p::new` registers — user and libp2p alike — gets a `TransportService`
that runs with exactly the keep-alive timeout the user configured (the default `KEEP_ALIVE_TIMEOUT` if none was). -/
theorem configured_keep_alive_reaches_service (c : Config) (w : Wired) (h : Node.new c = .ok w) :
    ∀ r ∈ w.regs, r.keepAliveMs = c.keepAliveMs.getD (1000 * Consts.KEEP_ALIVE_TIMEOUT_SECS) := by
  intro r hr
  obtain ⟨_, _, rfl⟩ := wire_ok h
  exact keepAlive_of_mem_registrations _ hr

example : ∃ w, Node.new sample = .ok w ∧ w.regs.length = 8 ∧ ∀ r ∈ w.regs, r.keepAliveMs = 600 :=
  ⟨_, rfl, by decide, by decide⟩
example : ∃ w, Node.new { sample with keepAliveMs := none } = .ok w ∧ ∀ r ∈ w.regs, r.keepAliveMs = 5000 :=
  ⟨_, rfl, by decide⟩

/-- Ping and identify are the registrations whose substreams do not keep a connection alive; notification,
request-response and user protocols are registered with `SubstreamKeepAlive::Yes`. -/
theorem keep_alive_flag_by_protocol_kind (c : Config) (w : Wired) (h : Node.new c = .ok w) :
    (∀ p ∈ (build c).notif, ∃ r ∈ w.regs, r.name = p.name ∧ r.keepAlive = true) ∧
    (∀ p ∈ (build c).rr, ∃ r ∈ w.regs, r.name = p.name ∧ r.keepAlive = true) ∧
    (∀ p ∈ (build c).user, ∃ r ∈ w.regs, r.name = p.name ∧ r.keepAlive = true) ∧
    (c.ping.isSome → ∃ r ∈ w.regs, r.name = pingName ∧ r.keepAlive = false) ∧
    (c.identify = true → ∃ r ∈ w.regs, r.name = identifyName ∧ r.keepAlive = false) := by
  obtain ⟨_, _, rfl⟩ := wire_ok h
  refine ⟨fun p hp => ⟨_, notif_mem_registrations _ hp, rfl, rfl⟩, fun p hp => ⟨_, rr_mem_registrations _ hp, rfl, rfl⟩,
    fun p hp => ⟨_, user_mem_registrations _ hp, rfl, rfl⟩, ?_, ?_⟩
  · intro hp
    refine ⟨⟨pingName, [], .identity Consts.PING_PAYLOAD_SIZE, (build c).keepAliveMs, false⟩, ?_, rfl, rfl⟩
    cases hc : c.ping with
    | none => simp [hc] at hp
    | some v => simp [registrations, build, hc]
  · intro hi
    refine ⟨⟨identifyName, [], .varint (some Consts.IDENTIFY_PAYLOAD_SIZE), (build c).keepAliveMs, false⟩, ?_, rfl, rfl⟩
    simp [registrations, build, hi]

example : ∃ w, Node.new sample = .ok w ∧ (w.regs.filter (fun r => !r.keepAlive)).map (·.name) = [pingName, identifyName] :=
  ⟨_, rfl, by decide⟩

end Litep2pVerif.Props.C09.Wiring

#print axioms Litep2pVerif.Props.C09.Wiring.configured_keep_alive_reaches_service
#print axioms Litep2pVerif.Props.C09.Wiring.keep_alive_flag_by_protocol_kind
#print axioms Litep2pVerif.Props.C09.fallback_name_substream_holds_connection
