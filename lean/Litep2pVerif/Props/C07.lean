import Litep2pVerif.Proofs.Conn.Loop
import Litep2pVerif.Proofs.Conn.Permits
import Litep2pVerif.Proofs.Conn.Established
import Litep2pVerif.Proofs.Conn.Accept
import Litep2pVerif.Proofs.Conn.Wait
/-!
# C07 — A terminated connection is reported closed to everyone exactly once

Property theorems only; models in `Model/Conn/{Close,Loop}.lean`, lemmas in `Proofs/Conn/`.
`cnt ps j m` / `mgrCnt ps` count the enqueues of message `m` to protocol `j` / of the close event to
the manager in the ghost log; `aliveAt ps j` says that protocol `j`'s receiver still exists;
`Fresh ps` is a `ProtocolSet` right after `accept` (nothing reported closed yet, `order` a
permutation of the protocols). Every theorem quantifies over all interleavings of the connection
task with the environment (`EnvOp`: protocols and manager popping messages, dropping their
receiver, channels being full).

Both defects confirmed on the original tree (DESIGN §8 h, i) are repaired by `fix:` commits; the
models mirror the repaired code and the theorems are at full strength.
-/
namespace Litep2pVerif.Props.C07
open Litep2pVerif Litep2pVerif.Conn

/-- **Exactly one close report, whatever the exit.** For every run of the connection event loop —
any sequence of yamux results, negotiation results (for live or dead protocols, with or without a
permit), protocol commands and environment moves — nobody is ever told twice, and once `start()` has
returned (`Ok` or `Err`) the body of `report_connection_closed` has run exactly once: every protocol
whose receiver still exists has exactly one `ConnectionClosed`, and so has the manager. -/
theorem exit_reports_closed_once (s0 : Loop) (h0 : Fresh s0.ps) (hc : s0.cont = none) (hx : s0.exited = none)
    (ls : List Label) :
    let s := run s0 ls
    (∀ j, cnt s.ps j .closed ≤ 1) ∧ mgrCnt s.ps ≤ 1 ∧
    (s.exited.isSome →
      s.ps.closedRuns = 1 ∧ (∀ j, aliveAt s.ps j → cnt s.ps j .closed = 1) ∧
      (s.ps.mgr.alive = true → mgrCnt s.ps = 1)) := by
  intro s
  have hp : PInv s := run_pinv ls s0 (h0.pinv hc hx)
  refine ⟨hp.1.le, hp.1.mle, fun hex => ?_⟩
  obtain ⟨hi, _, hco⟩ := hp
  cases hxe : s.exited with
  | none => rw [hxe] at hex; cases hex
  | some x =>
    rw [hxe] at hco
    cases hcc : s.cont with
    | some c => rw [hcc] at hco; cases c <;> exact absurd hco (by simp [ContOK])
    | none =>
      rw [hcc] at hco
      have hr := (hi.call.rest_of_quiet hco.1).2 hco.2
      exact ⟨hco.2, hr.1, hr.2⟩

/-- Non-vacuity: three protocols, protocol 1 has shut down; an inbound substream for it is negotiated
(the `?` exit of `handle_negotiated_substream`). The loop returns `Err`, protocols 0 and 2 and the
manager each got exactly one close report, protocols first. -/
example :
    let ps : PSet := { chans := [{ cap := 2 }, { cap := 2, alive := false }, { cap := 2 }], order := [2, 0, 1] }
    let s := run { ps := ps } [.loop (.yamuxStream true), .loop (.negotiated (.ok 1))]
    s.exited = some .err ∧ s.ps.log = [.proto 2 .closed, .proto 0 .closed, .mgr] := by decide

/-- Non-vacuity: permit unavailable (the other `?` exit), and a full channel that suspends the report
until the protocol reads. -/
example :
    let ps : PSet := { chans := [{ cap := 1, queue := [.filler] }, { cap := 1 }], order := [0, 1] }
    let s1 := run { ps := ps } [.loop (.yamuxStream false)]
    let s2 := run s1 [.env (.recv 0)]
    s1.exited = none ∧ s1.ps.log = [.proto 1 .closed] ∧
    s2.exited = some .err ∧ s2.ps.log = [.proto 1 .closed, .proto 0 .closed, .mgr] := by decide

/-- **… and the same with the permits computed instead of assumed, from EVERY exit path, however long a protocol stays
busy** (`Model/Conn/Permits.lean`, the model the real `TcpConnection::start` loop is driven against in the `tcploop`
area; formerly `tcploop_exit_reports_closed_once`, extended in the f-round for seeded C07-f1). There the no-permit exit
of `handle_yamux_substream` (`try_get_permit().ok_or(Error::ConnectionClosed)?`) is not an input flag but what happens
when an inbound substream is accepted after the last strong sender is gone, and the idle exit is enabled only then.
For every sequence `ls` of loop events, handle operations of the protocols (downgrade, upgrade, drop, open, force-close,
shut down) and deliveries:

1. nobody is told twice;
2. once `start()` has returned everybody alive has been told exactly once;
3. while a close report has begun — on WHICHEVER exit path: remote close / go-away (`yamuxErr`, `yamuxEof`),
   `ForceClose` (`takeCmd`), all protocols gone (`idleExit`), the no-permit `?` exit (`accept`), a report to a protocol
   that has shut down (`negOk`/`negFail` → `start()`'s error path) — and `start()` has not returned, the loop is
   suspended in exactly that call (`CK .closed`), on a continuation that ends `start()`; every live protocol it is not
   waiting for has its one report, the ones it waits for have none yet, and the manager has none (protocols first);
4. and the wait is not bounded by anything: from such a state (in fact from every state in which the loop is suspended
   in a report) NO sequence `ls'` of events of the connection, commands, handle operations or timers — everything
   except a move of the other end of a channel (`TLabel.isChan`: the busy protocol / the manager taking a message,
   a receiver going away) — changes the loop at all: it neither returns nor gives the report up, however long the
   channel stays full. (A bound on the wait — e.g. a timeout around `report_connection_closed` in one of the handlers
   — would be a transition out of this state that is not a channel move.) With 2: when the busy parties do catch up,
   every running protocol and then the manager are told exactly once. -/
theorem close_report_waits_for_busy_protocol (s0 : TLoop) (h0 : Fresh s0.loop.ps) (hc : s0.loop.cont = none)
    (hx : s0.loop.exited = none) (ls : List TLabel) :
    let s := (trun s0 ls).loop
    (∀ j, cnt s.ps j .closed ≤ 1) ∧ mgrCnt s.ps ≤ 1 ∧
    (s.exited.isSome →
      s.ps.closedRuns = 1 ∧ (∀ j, aliveAt s.ps j → cnt s.ps j .closed = 1) ∧
      (s.ps.mgr.alive = true → mgrCnt s.ps = 1)) ∧
    (s.exited = none → s.ps.closedRuns = 1 →
      (s.cont = some .closeThenExit ∨ s.cont = some .errorExitReport) ∧ CK .closed s.ps.call ∧
      (∀ w e, s.ps.call = .protoSends .closed w e →
        (∀ j, aliveAt s.ps j → j ∉ w → cnt s.ps j .closed = 1) ∧ (∀ j ∈ w, cnt s.ps j .closed = 0) ∧ mgrCnt s.ps = 0) ∧
      (∀ e, s.ps.call = .mgrSend e → (∀ j, aliveAt s.ps j → cnt s.ps j .closed = 1) ∧ mgrCnt s.ps = 0)) ∧
    (s.cont.isSome → ∀ ls', (∀ l ∈ ls', l.isChan = false) → (trun (trun s0 ls) ls').loop = s) := by
  intro s
  have hp : PInv s := trun_pinv ls s0 (h0.pinv hc hx)
  refine ⟨hp.reports.1, hp.reports.2.1, hp.reports.2.2, fun hex hruns => hp.waiting hex hruns, fun hcont ls' hl => ?_⟩
  apply trun_suspended ls' (trun s0 ls) _ hl
  unfold TLoop.running
  cases hcc : (trun s0 ls).loop.cont with
  | none => rw [show s.cont = (trun s0 ls).loop.cont from rfl, hcc] at hcont; cases hcont
  | some c => simp

/-- Non-vacuity of 3 and 4, the C07-f1 shape: two protocols take the connection, protocol 0 is busy (its channel of
capacity 1 is full of somebody else's message), protocol 1 force-closes. The loop is suspended in the close report,
waiting for protocol 0, protocol 1 has been told, the manager has not. Then the remote closes, protocol 1 sends more
commands, releases its handle, pending negotiations time out …: nothing changes. When protocol 0 finally takes the
filler the report goes through: protocol 0, then the manager; `start()` returns `Ok`. -/
example :
    let s := trun (tinit [true, true] 1) [.recv 0, .recv 1, .fill 0, .forceClose 1, .takeCmd]
    let s' := trun s [.yamuxEof, .yamuxErr, .localOpen 1, .takeCmd, .downgrade 1, .idleExit, .negFail 0, .accept]
    let s'' := trun s' [.recv 0]
    s.loop.exited = none ∧ s.loop.ps.closedRuns = 1 ∧ s.loop.cont = some .closeThenExit ∧
    s.loop.ps.call = .protoSends .closed [0] false ∧ s.loop.ps.log = [.proto 1 .closed] ∧
    s'.loop = s.loop ∧
    s''.loop.exited = some .ok ∧ s''.loop.ps.log = [.proto 1 .closed, .proto 0 .closed, .mgr] := by decide

/-- … and the same wait on the error path of `start()`: protocol 1 has shut down, a substream is negotiated for it
while protocol 0 is busy. `run_event_loop` fails, `start()` makes up for the report and waits for protocol 0. -/
example :
    let s := trun (tinit [true, true] 1) [.recv 0, .recv 1, .accept, .fill 0, .dropRx 1, .negOk 0 1]
    let s' := trun s [.yamuxEof, .idleExit, .negFail 0, .accept, .forceClose 0, .takeCmd]
    let s'' := trun s' [.recv 0]
    s.loop.exited = none ∧ s.loop.cont = some .errorExitReport ∧ s.loop.ps.call = .protoSends .closed [0] true ∧
    s'.loop = s.loop ∧ s''.loop.exited = some .err ∧ s''.loop.ps.log = [.proto 0 .closed, .mgr] := by decide

/-- Non-vacuity, the no-permit exit explicitly: two protocols (keep-alive yes / no) take the connection,
one downgrades its handle and the other drops it; a remote substream arrives. No permit can be had: the
substream is counted (`accepted = 1`) but never enters `pending_substreams`, `run_event_loop` fails,
`start()` makes up for the close report and returns `Err`: both protocols, then the manager, told once.
The state `tinit` satisfies the hypotheses of the theorem. -/
example :
    let s := trun (tinit [true, false] 4) [.recv 0, .recv 1, .downgrade 0, .dropHandle 1, .accept]
    Fresh (tinit [true, false] 4).loop.ps ∧
    s.loop.exited = some .err ∧ s.accepted = 1 ∧ s.subs = [] ∧
    s.loop.ps.log = [.proto 0 .closed, .proto 1 .closed, .mgr] :=
  ⟨tinit_fresh _ _, by decide⟩

/-- Non-vacuity, the race the event loop may resolve either way (`select!` picks): with the same state the
idle exit is enabled too; it returns `Ok` with the same reports, the substream is never looked at. -/
example :
    let s := trun (tinit [true, false] 4) [.recv 0, .recv 1, .downgrade 0, .dropHandle 1, .idleExit]
    s.loop.exited = some .ok ∧ s.accepted = 0 ∧
    s.loop.ps.log = [.proto 0 .closed, .proto 1 .closed, .mgr] := by decide

theorem envRun_rel (os : List EnvOp) : ∀ ps, Conn.Inv ps → WF ps →
    Conn.Inv (os.foldl envStep ps) ∧ WF (os.foldl envStep ps) ∧
    (∀ j, aliveAt (os.foldl envStep ps) j → aliveAt ps j) ∧
    (os.foldl envStep ps).closedRuns = ps.closedRuns ∧
    (∀ k, CK k ps.call → CK k (os.foldl envStep ps).call) := by
  induction os with
  | nil => intro ps h hwf; exact ⟨h, hwf, fun _ h => h, rfl, fun _ h => h⟩
  | cons o os ih =>
    intro ps h hwf
    have hr := envStep_rel ps o h hwf
    have := ih (envStep ps o) hr.inv hr.wf
    exact ⟨this.1, this.2.1, fun j hj => hr.alive j (this.2.2.1 j hj), this.2.2.2.1.trans hr.runs,
      fun k hk => this.2.2.2.2 k (hk.follows hr.follows)⟩

/-- **Protocols before the manager.** In `report_connection_closed`, under every interleaving with
the environment, the manager's message is enqueued only after the message of every protocol whose
receiver still exists; and no protocol is told after the manager. -/
theorem protocols_before_manager (ps : PSet) (h0 : Fresh ps) (os : List EnvOp) :
    let ps' := os.foldl envStep (startCall ps .closed)
    (Ev.mgr ∈ ps'.log → ∀ j, aliveAt ps' j → Ev.proto j .closed ∈ ps'.log) ∧
    (∀ j, Ev.mgr ∈ ps'.log → Ev.proto j .closed ∈ ps'.log →
      ps'.log.idxOf (Ev.proto j .closed) < ps'.log.idxOf Ev.mgr) := by
  intro ps'
  have e : ps' = os.foldl envStep (startCall ps .closed) := rfl
  clear_value ps'; subst e
  have hq : quiet ps.call := h0.idle ▸ quiet_idle
  have h1 := startCall_inv ps .closed h0.inv h0.wf hq
  have h2 := startCall_shape ps .closed h0.inv h0.wf hq
  have h3 := envRun_rel os _ h1.1 (h0.wf.of_frame0 h1.2)
  have hruns := h3.2.2.2.1.trans (h2.2.1 rfl)
  refine ⟨fun hm j hj => ?_, h3.1.ord⟩
  have hmc : 0 < mgrCnt (os.foldl envStep (startCall ps .closed)) := List.count_pos_iff.mpr hm
  have hci := h3.1.call
  have hck := h3.2.2.2.2 _ h2.1
  have hone : cnt (os.foldl envStep (startCall ps .closed)) j .closed = 1 := by
    rcases hck with ⟨w, e, hc⟩ | ⟨_, e, hc⟩ | ⟨ok, hc, _⟩
    · unfold CallInv at hci; rw [hc] at hci
      have := (hci.2.1 rfl).2.2.2; omega
    · unfold CallInv at hci; rw [hc] at hci
      have := hci.2.2; omega
    · unfold CallInv at hci; rw [hc] at hci
      exact (hci.2 hruns).1 j hj
  exact List.count_pos_iff.mp (by unfold cnt at hone; omega)

example :
    let ps : PSet := { chans := [{ cap := 1, queue := [.filler] }, { cap := 1 }], order := [1, 0] }
    let a := startCall ps .closed
    let b := [EnvOp.recv 0].foldl envStep a
    a.call = .protoSends .closed [0] false ∧ a.log = [.proto 1 .closed] ∧
    b.call = .result .closed true ∧ b.log = [.proto 1 .closed, .proto 0 .closed, .mgr] := by decide

/-- **A dead protocol stops nobody from being told.** Whatever receivers are gone before or go away
during `report_connection_closed`, once the call has returned every protocol whose receiver exists
has exactly one close message and so has the manager (if its receiver exists). -/
theorem live_protocols_all_told (ps : PSet) (h0 : Fresh ps) (os : List EnvOp) (ok : Bool) :
    let ps' := os.foldl envStep (startCall ps .closed)
    ps'.call = .result .closed ok →
      (∀ j, aliveAt ps' j → cnt ps' j .closed = 1) ∧ (ps'.mgr.alive = true → mgrCnt ps' = 1) := by
  intro ps' hres
  have hq : quiet ps.call := h0.idle ▸ quiet_idle
  have h1 := startCall_inv ps .closed h0.inv h0.wf hq
  have h2 := startCall_shape ps .closed h0.inv h0.wf hq
  have h3 := envRun_rel os _ h1.1 (h0.wf.of_frame0 h1.2)
  have hruns : ps'.closedRuns = 1 := h3.2.2.2.1.trans (h2.2.1 rfl)
  have hci := h3.1.call
  unfold CallInv at hci; rw [hres] at hci
  exact hci.2 hruns

example :
    let ps : PSet := { chans := [{ alive := false }, { cap := 1 }, { cap := 1 }], order := [0, 1, 2] }
    let a := [EnvOp.drop 2].foldl envStep (startCall ps .closed)
    a.call = .result .closed false ∧ a.log = [.proto 1 .closed, .proto 2 .closed, .mgr] := by decide

/-! ### the manager -/

/-- In the application's event list every `ConnectionClosed c` comes after `ConnectionEstablished c`. -/
def AppOrdered (evs : List AppEv) : Prop :=
  ∀ c, AppEv.closed c ∈ evs → AppEv.established c ∈ evs ∧ evs.idxOf (AppEv.established c) < evs.idxOf (AppEv.closed c)

theorem mgrStep_closed_iff (st : PeerState) (c : Nat) :
    ((mgrStep st (.connClosed c)).2 = [AppEv.closed c] ↔
      (c ∈ st.conns ∧ (mgrStep st (.connClosed c)).1.conns = [])) ∧
    ((mgrStep st (.connClosed c)).2 = [AppEv.closed c] ∨ (mgrStep st (.connClosed c)).2 = []) := by
  cases st with
  | connected p sec =>
    by_cases h : p = c
    · subst h
      cases sec with
      | none => simp [mgrStep, PeerState.onClosed, PeerState.conns]
      | dialing d => simp [mgrStep, PeerState.onClosed, PeerState.conns]
      | secondary s => simp [mgrStep, PeerState.onClosed, PeerState.conns]
    · have h' : ¬ c = p := fun e => h e.symm
      cases sec with
      | none => simp [mgrStep, PeerState.onClosed, PeerState.conns, h, h']
      | dialing d => simp [mgrStep, PeerState.onClosed, PeerState.conns, h, h']
      | secondary s =>
        by_cases h2 : s = c
        · subst h2; simp [mgrStep, PeerState.onClosed, PeerState.conns, h, h']
        · simp [mgrStep, PeerState.onClosed, PeerState.conns, h, h', h2]
  | opening d => simp [mgrStep, PeerState.onClosed, PeerState.conns]
  | dialing d => simp [mgrStep, PeerState.onClosed, PeerState.conns]
  | disconnected d => simp [mgrStep, PeerState.onClosed, PeerState.conns]

theorem mgrStep_established (st : PeerState) (c : Nat) (acc : Bool) (hc : c ∉ st.conns) :
    ((mgrStep st (.transportEstablished c acc)).2 = [AppEv.established c] ∨
     (mgrStep st (.transportEstablished c acc)).2 = []) ∧
    (∀ d ∈ (mgrStep st (.transportEstablished c acc)).1.conns,
      d ∈ st.conns ∨ (d = c ∧ (mgrStep st (.transportEstablished c acc)).2 = [AppEv.established c])) := by
  cases acc <;> cases st with
  | connected p sec =>
    cases sec with
    | none =>
      by_cases h : p = c <;> simp_all [mgrStep, PeerState.onEstablished, PeerState.onClosed, PeerState.conns]
    | dialing d =>
      by_cases h : p = c <;> by_cases h2 : d = c <;>
        simp_all [mgrStep, PeerState.onEstablished, PeerState.onClosed, PeerState.conns]
    | secondary s =>
      simp_all [mgrStep, PeerState.onEstablished, PeerState.onClosed, PeerState.conns]
  | opening d => simp [mgrStep, PeerState.onEstablished, PeerState.onClosed, PeerState.conns]
  | dialing d =>
    by_cases h2 : d = c <;> simp [mgrStep, PeerState.onEstablished, PeerState.onClosed, PeerState.conns, h2]
  | disconnected d =>
    cases d with
    | none => simp [mgrStep, PeerState.onEstablished, PeerState.onClosed, PeerState.conns]
    | some d =>
      by_cases h2 : d = c <;> simp [mgrStep, PeerState.onEstablished, PeerState.onClosed, PeerState.conns, h2]

theorem onClosed_conns_subset (st : PeerState) (c d : Nat) (h : d ∈ (st.onClosed c).1.conns) : d ∈ st.conns := by
  cases st with
  | connected p sec =>
    by_cases hp : p = c
    · subst hp
      cases sec <;> simp_all [PeerState.onClosed, PeerState.conns]
    · cases sec with
      | none => simp_all [PeerState.onClosed, PeerState.conns]
      | dialing x => simp_all [PeerState.onClosed, PeerState.conns]
      | secondary s =>
        by_cases h2 : s = c <;> simp_all [PeerState.onClosed, PeerState.conns]
  | opening x => simp_all [PeerState.onClosed, PeerState.conns]
  | dialing x => simp_all [PeerState.onClosed, PeerState.conns]
  | disconnected x => simp_all [PeerState.onClosed, PeerState.conns]

/-- Connection ids are fresh: the transport never announces an id the manager still tracks. -/
def FreshRun : PeerState → List MgrIn → Prop
  | _, [] => True
  | st, x :: xs =>
    (match x with
      | .transportEstablished c _ => c ∉ st.conns
      | .connClosed _ => True) ∧ FreshRun (mgrStep st x).1 xs

theorem appOrdered_append_est {acc : List AppEv} (h : AppOrdered acc) (c : Nat) :
    AppOrdered (acc ++ [AppEv.established c]) := by
  intro d hd
  have hd' : AppEv.closed d ∈ acc := by
    rcases List.mem_append.mp hd with h1 | h1
    · exact h1
    · simp at h1
  obtain ⟨h1, h2⟩ := h d hd'
  refine ⟨List.mem_append_left _ h1, ?_⟩
  rw [List.idxOf_append, List.idxOf_append, if_pos h1, if_pos hd']; exact h2

theorem appOrdered_append_closed {acc : List AppEv} (h : AppOrdered acc) (c : Nat)
    (hc : AppEv.established c ∈ acc) : AppOrdered (acc ++ [AppEv.closed c]) := by
  intro d hd
  by_cases hd' : AppEv.closed d ∈ acc
  · obtain ⟨h1, h2⟩ := h d hd'
    refine ⟨List.mem_append_left _ h1, ?_⟩
    rw [List.idxOf_append, List.idxOf_append, if_pos h1, if_pos hd']; exact h2
  · have hdc : d = c := by
      rcases List.mem_append.mp hd with h1 | h1
      · exact absurd h1 hd'
      · simpa using h1
    subst hdc
    refine ⟨List.mem_append_left _ hc, ?_⟩
    rw [List.idxOf_append, List.idxOf_append, if_pos hc, if_neg hd']
    have := List.idxOf_lt_length_iff.mpr hc
    omega

theorem mgrRun_ordered (xs : List MgrIn) : ∀ (st : PeerState) (acc : List AppEv), FreshRun st xs →
    AppOrdered acc → (∀ d ∈ st.conns, AppEv.established d ∈ acc) →
    AppOrdered (acc ++ (mgrRun st xs).2) := by
  induction xs with
  | nil => intro st acc _ h _; simpa [mgrRun] using h
  | cons x xs ih =>
    intro st acc hf h hg
    simp only [mgrRun]
    rw [← List.append_assoc]
    cases x with
    | transportEstablished c a =>
      have hs := mgrStep_established st c a hf.1
      apply ih _ _ hf.2
      · rcases hs.1 with h1 | h1 <;> rw [h1]
        · exact appOrdered_append_est h c
        · simpa using h
      · intro d hd
        rcases hs.2 d hd with h1 | ⟨h1, h2⟩
        · exact List.mem_append_left _ (hg d h1)
        · rw [h2, h1]; simp
    | connClosed c =>
      have hs := mgrStep_closed_iff st c
      apply ih _ _ hf.2
      · rcases hs.2 with h1 | h1
        · rw [h1]; exact appOrdered_append_closed h c (hg c (hs.1.mp h1).1)
        · rw [h1]; simpa using h
      · intro d hd
        have : d ∈ st.conns := by
          have hd' : d ∈ (st.onClosed c).1.conns := by
            simp only [mgrStep] at hd
            split at hd <;> simp_all
          exact onClosed_conns_subset st c d hd'
        exact List.mem_append_left _ (hg d this)

/-- **The application's view.** (1) Handling a close event emits `ConnectionClosed` exactly when the
closed connection was tracked and no connection to the peer is left, and emits nothing otherwise.
(2) Over every history of transport and close events with fresh connection ids (accepts succeeding
or failing, primary and secondary connections, in any order) every `ConnectionClosed c` the
application sees is preceded by `ConnectionEstablished c`. -/
theorem app_closed_iff_last :
    (∀ st c, ((mgrStep st (.connClosed c)).2 = [AppEv.closed c] ↔
        (c ∈ st.conns ∧ (mgrStep st (.connClosed c)).1.conns = [])) ∧
      ((mgrStep st (.connClosed c)).2 = [AppEv.closed c] ∨ (mgrStep st (.connClosed c)).2 = [])) ∧
    (∀ xs, FreshRun (.disconnected none) xs → AppOrdered (mgrRun (.disconnected none) xs).2) := by
  refine ⟨mgrStep_closed_iff, fun xs hf => ?_⟩
  have := mgrRun_ordered xs (.disconnected none) [] hf (fun c hc => by simp at hc)
    (fun d hd => by simp [PeerState.conns] at hd)
  simpa using this

/-- Non-vacuity: two connections to the peer; closing the first is silent, closing the second is
reported; a failed accept is rolled back silently. -/
example :
    FreshRun (.disconnected none) [.transportEstablished 1 true, .transportEstablished 2 true, .connClosed 1,
      .transportEstablished 3 false, .connClosed 2] ∧
    mgrRun (.disconnected none) [.transportEstablished 1 true, .transportEstablished 2 true, .connClosed 1,
      .transportEstablished 3 false, .connClosed 2] =
    (.disconnected none, [.established 1, .established 2, .closed 2]) := by
  refine ⟨by simp [FreshRun, mgrStep, PeerState.onEstablished, PeerState.onClosed, PeerState.conns], by decide⟩

/-- **One protocol having shut down does not cost the others a new connection.** With any set of
receivers gone before or going away during the call, channels full or not, under every interleaving with
the environment (`os`: protocols and manager popping messages, dropping their receivers, channels being
filled), `report_connection_established`
1. never returns an error (so `accept` never fails and the manager never rolls the connection back after
   some protocols were told);
2. whenever it has returned — at once or after having been suspended on full channels for any length of
   time — every protocol whose receiver exists has been told;
3. and while it is still suspended, every live protocol it is not waiting for has been told already.
(2 and 3 are the invariant `EstInv`, the counterpart of the close path's `CallInv`.) -/
theorem established_survives_dead_protocol (ps : PSet) (h0 : Fresh ps) (os : List EnvOp) :
    let ps' := os.foldl envStep (startCall ps .established)
    ps'.call ≠ .result .established false ∧
    (∀ ok, ps'.call = .result .established ok → ∀ j, aliveAt ps' j → Ev.proto j .established ∈ ps'.log) ∧
    (∀ w e, ps'.call = .protoSends .established w e →
      ∀ j, aliveAt ps' j → j ∉ w → Ev.proto j .established ∈ ps'.log) := by
  intro ps'
  have hq : quiet ps.call := h0.idle ▸ quiet_idle
  have h1 := startCall_inv ps .established h0.inv h0.wf hq
  have h2 := startCall_shape ps .established h0.inv h0.wf hq
  have h3 := envRun_rel os _ h1.1 (h0.wf.of_frame0 h1.2)
  have h4 : EstInv ps' := envRun_est os _ h1.1 (h0.wf.of_frame0 h1.2) (startCall_est ps h0.wf)
  refine ⟨?_, ?_, ?_⟩
  · intro hres
    rcases h3.2.2.2.2 _ h2.1 with ⟨w, e, hc⟩ | ⟨hk, _⟩ | ⟨ok, hc, hok⟩
    · rw [hc] at hres; cases hres
    · cases hk
    · rw [hc] at hres; injection hres with _ h5; rw [hok rfl] at h5; cases h5
  · intro ok hres
    unfold EstInv at h4; rw [hres] at h4; exact h4
  · intro w e hres
    unfold EstInv at h4; rw [hres] at h4; exact h4

/-- Non-vacuity with a suspension: protocol 1 of three is gone, protocol 0's channel is full. The call is
suspended waiting for 0 while 2 has been told (part 3); protocol 2 then shuts down as well, protocol 0
reads: the call returns `Ok` and the one live protocol has been told (part 2). -/
example :
    let ps : PSet := { chans := [{ cap := 1, queue := [.filler] }, { cap := 2, alive := false }, { cap := 2 }],
                       order := [2, 1, 0] }
    let a := startCall ps .established
    let b := [EnvOp.drop 2, EnvOp.recv 0].foldl envStep a
    a.call = .protoSends .established [0] true ∧ a.log = [.proto 2 .established] ∧
    b.call = .result .established true ∧ b.log = [.proto 2 .established, .proto 0 .established] := by decide

/-- **… and the connection stays usable for the live protocols** (permit-aware loop model
`Model/Conn/Permits.lean`, the one the real `TcpConnection::start` is driven against). For every state of
the loop satisfying the reporting invariant (`PInv`: every state reachable from a fresh connection, see
`close_report_waits_for_busy_protocol`) in which the loop is at its `select!`:
1. a protocol `d` shutting down (receiver, handle, substreams dropped) leaves the loop running, every other
   protocol `p` alive, the invariant intact and every negotiation in progress in `pending_substreams`;
2. when afterwards (or in any running state) a negotiation ends for a LIVE protocol `p` —
   `handle_negotiated_substream` → `report_substream_open` — the loop does not return; if `p`'s channel
   has room the `SubstreamOpened` message is enqueued and the loop is back at its `select!`; if the channel
   is full the loop is suspended in exactly that send (back-pressure of `p`'s own channel, nothing to do
   with the dead protocol); either way the substream is handed to `p` (`stage = queued`) with its permits. -/
theorem loop_usable_after_protocol_exit (s : TLoop) (hinv : PInv s.loop) (hr : s.running = true)
    (d k p : Nat) (x : Sub) (hdp : d ≠ p) (hp : protoAlive s p = true)
    (hk : s.subs[k]? = some x) (hx : x.stage = .negotiating) :
    let s1 := tstep s (.dropRx d)
    let s2 := tstep s1 (.negOk k p)
    (s1.running = true ∧ protoAlive s1 p = true ∧ PInv s1.loop ∧ s1.subs[k]? = some x) ∧
    s2.loop.exited = none ∧ s2.subs[k]? = some { x with proto := some p, stage := .queued } ∧
    (hasRoom s1 p → s2.running = true ∧ s2.loop.ps.call = .idle ∧
      s2.loop.ps.log = s1.loop.ps.log ++ [.proto p .substreamOpened]) ∧
    (¬ hasRoom s1 p → s2.loop.cont = some .substreamReport ∧
      s2.loop.ps.call = .protoSends (.substream p true) [p] false ∧ s2.loop.ps.log = s1.loop.ps.log) := by
  intro s1 s2
  obtain ⟨a1, a2, a3⟩ := dropRx_keeps_running s hinv hr d p hdp hp
  have a4 : s1.subs[k]? = some x :=
    negotiating_persists s (.dropRx d) k x hk hx rfl
      ((running_iff _).mp a1).1
  obtain ⟨b1, b2, b3⟩ := negOk_live s1 a1 k p x a4 hx a2
  exact ⟨⟨a1, a2, a3, a4⟩, b1, negOk_queues s1 k p x a1 a4 hx a2 b1,
    fun h => ⟨(b2 h).1, (b2 h).2.2, (b2 h).2.1⟩, b3⟩

/-- Non-vacuity: three protocols take a connection, the remote opens a substream (negotiating), protocol 1
shuts down; the hypotheses hold for `d = 1`, `p = 2`, `k = 0`; the negotiation ends for protocol 2, the
message is enqueued, the loop keeps running; protocol 2 takes the substream. With protocol 2's channel
full instead, the loop waits in that send and goes on as soon as protocol 2 reads. -/
example :
    let s := trun (tinit [true, true, true] 2) [.recv 0, .recv 1, .recv 2, .accept]
    let s2 := trun s [.dropRx 1, .negOk 0 2]
    let s3 := trun s2 [.recv 2]
    let t := trun (tinit [true, true, true] 1) [.recv 0, .recv 1, .accept, .dropRx 1, .negOk 0 2]
    let t2 := trun t [.recv 2]
    PInv s.loop ∧ s.running = true ∧ protoAlive s 2 = true ∧ s.subs[0]? = some ⟨true, none, .negotiating⟩ ∧
    hasRoom (tstep s (.dropRx 1)) 2 ∧
    s2.running = true ∧ s2.loop.ps.log = [.proto 2 .substreamOpened] ∧ s3.subs = [⟨true, some 2, .held⟩] ∧
    ¬ hasRoom (trun (tinit [true, true, true] 1) [.recv 0, .recv 1, .accept, .dropRx 1]) 2 ∧
    t.loop.cont = some .substreamReport ∧ t.loop.exited = none ∧
    t2.running = true ∧ t2.loop.ps.log = [.proto 2 .substreamOpened] := by
  refine ⟨trun_pinv _ _ ((tinit_fresh _ _).pinv rfl rfl), by decide, by decide, by decide,
    ⟨{ cap := 2 }, by decide, by decide⟩, by decide, by decide, by decide, ?_, by decide, by decide, by decide, by decide⟩
  rintro ⟨c, hc, hlt⟩
  have : c = { queue := [.established], cap := 1 } := by
    have h : (trun (tinit [true, true, true] 1) [.recv 0, .recv 1, .accept, .dropRx 1]).loop.ps.chans[2]? =
        some { queue := [.established], cap := 1 } := by decide
    rw [h] at hc; cases hc; rfl
  subst this
  simp at hlt

/-- Non-vacuity: protocol 1 of three has shut down. `accept` resolves `Ok`, protocols 0 and 2 are
told, the loop is spawned and stays usable: a substream for protocol 2 is delivered and the loop
keeps running; and the old behaviour (first error fails the accept) is gone. -/
example :
    let ps : PSet := { chans := [{ cap := 2 }, { cap := 2, alive := false }, { cap := 2 }], order := [0, 1, 2] }
    let r := accept ps
    r.2.2 = some true ∧ r.1.log = [.proto 0 .established, .proto 2 .established] ∧
    (r.2.1.map fun s => (run s [.loop (.yamuxStream true), .loop (.negotiated (.ok 2))]).exited) = some none ∧
    (r.2.1.map fun s => (run s [.loop (.yamuxStream true), .loop (.negotiated (.ok 2))]).ps.log) =
      some [.proto 0 .established, .proto 2 .established, .proto 2 .substreamOpened] := by decide

/-- **Accept: whoever is told "established" is told "closed" exactly once — and an accept is never abandoned midway**
(model `Model/Conn/Accept.lean` of `TcpTransport::accept`: notify the protocols, then spawn the loop, then resolve;
driven against the REAL future in the `tcploop` area, `conn .. via=accept`).

`report_connection_established` notifies the protocols concurrently: while it is suspended on a full channel the
protocols with room HAVE the event (and a strong handle). For every parked connection (any number of protocols, any
channel capacities) and EVERY schedule `ls` — the future being polled; protocols and the manager popping messages,
dropping their receivers, using/downgrading/dropping their handles, sending commands; other senders filling the
channels; and, once the loop exists, every loop event of `tstep`:

1. the future never resolves `Err` (`phase ≠ failed`): in the code as it is, abandoning an accept after some
   protocols were told is IMPOSSIBLE — `report_connection_established` has no error return, and nothing bounds it;
   a full channel only delays it (a bound such as a timeout around it would make `failed` reachable with protocols
   told and no loop to ever tell them "closed");
2. while it is suspended (`notifying`) it is suspended in exactly that call, and every live protocol it is not
   waiting for has been told;
3. as long as the loop has not been spawned nothing has been reported closed and nothing has returned;
4. nobody is ever told "closed" twice;
5. once the spawned loop has returned, the body of `report_connection_closed` has run exactly once: every protocol
   whose receiver exists — in particular every protocol the accept told "established" — has exactly one
   `ConnectionClosed`, and so has the manager. -/
theorem accept_established_then_closed (ka : List Bool) (cap mcap : Nat) (ls : List ALabel) :
    let a := arun (ainit ka cap mcap) ls
    a.phase ≠ .failed ∧
    (a.phase = .notifying → ∃ w e, a.t.loop.ps.call = .protoSends .established w e ∧
      ∀ j, aliveAt a.t.loop.ps j → j ∉ w → Ev.proto j .established ∈ a.t.loop.ps.log) ∧
    (a.phase ≠ .up → a.t.loop.exited = none ∧ (∀ j, cnt a.t.loop.ps j .closed = 0) ∧ mgrCnt a.t.loop.ps = 0) ∧
    ((∀ j, cnt a.t.loop.ps j .closed ≤ 1) ∧ mgrCnt a.t.loop.ps ≤ 1) ∧
    (a.t.loop.exited.isSome → a.phase = .up ∧ a.t.loop.ps.closedRuns = 1 ∧
      (∀ j, aliveAt a.t.loop.ps j → cnt a.t.loop.ps j .closed = 1) ∧
      (a.t.loop.ps.mgr.alive = true → mgrCnt a.t.loop.ps = 1)) := by
  intro a
  have h : AInv a := arun_inv ls _ (ainit_inv ka cap mcap)
  cases hp : a.phase with
  | failed => simp only [AInv, hp] at h
  | parked =>
    simp only [AInv, hp] at h
    obtain ⟨hpre, hidle⟩ := h
    have hr := (hpre.inv.call.rest_of_quiet (hidle ▸ quiet_idle)).1 hpre.runs
    refine ⟨by simp, ?_, ?_, ⟨hpre.inv.le, hpre.inv.mle⟩, ?_⟩
    · intro h; cases h
    · intro _; exact ⟨hpre.exited, hr.1, hr.2⟩
    · intro hex; rw [hpre.exited] at hex; cases hex
  | notifying =>
    simp only [AInv, hp] at h
    obtain ⟨hpre, hest, w, e, hc⟩ := h
    have hci := hpre.inv.call
    unfold CallInv at hci; rw [hc] at hci
    have hr := (hci.2.2 (by simp)).1 hpre.runs
    refine ⟨by simp, ?_, ?_, ⟨hpre.inv.le, hpre.inv.mle⟩, ?_⟩
    · intro _
      refine ⟨w, e, hc, ?_⟩
      unfold EstInv at hest; rw [hc] at hest; exact hest
    · intro _; exact ⟨hpre.exited, hr.1, hr.2⟩
    · intro hex; rw [hpre.exited] at hex; cases hex
  | up =>
    simp only [AInv, hp] at h
    have hr := h.reports
    refine ⟨by simp, ?_, ?_, ⟨hr.1, hr.2.1⟩, ?_⟩
    · intro h; cases h
    · intro h; exact absurd rfl h
    · intro hex
      have := hr.2.2 hex
      exact ⟨rfl, this.1, this.2.1, this.2.2⟩

/-- Non-vacuity: two protocols, channels of capacity 1; protocol 0 is busy (its channel is full of somebody else's
message) when the connection is accepted. The future is suspended waiting for protocol 0 while protocol 1 has been
told — for as long as protocol 0 stays busy, whatever protocol 1 does with its handle in the meantime. When
protocol 0 catches up the future resolves `Ok` and the loop exists; the remote closes the connection: both
protocols, then the manager, are told exactly once. -/
example :
    let a1 := arun (ainit [true, true] 1 4) [.t (.fill 0), .call]
    let a2 := arun a1 [.t (.recv 1), .t (.downgrade 1), .t (.recv 1), .t .recvMgr]
    let a3 := arun a2 [.t (.recv 0)]
    let a4 := arun a3 [.t (.recv 0), .t .yamuxEof]
    a1.phase = .notifying ∧ a1.t.loop.ps.call = .protoSends .established [0] false ∧
    a1.t.loop.ps.log = [.proto 1 .established] ∧
    a2.phase = .notifying ∧ a3.phase = .up ∧ a3.t.loop.ps.log = [.proto 1 .established, .proto 0 .established] ∧
    a4.t.loop.exited = some .ok ∧
    a4.t.loop.ps.log = [.proto 1 .established, .proto 0 .established, .proto 0 .closed, .proto 1 .closed, .mgr] := by
  decide

/-- **Dialable again.** When the loop has returned the manager has the close event (if it is still
running); handling it for the peer's only connection emits `ConnectionClosed` and leaves the peer in
a state in which `dial` is not refused with `AlreadyConnected` — with no dial pending it is `Ok`, the
dial is attempted. -/
theorem redial_after_close (s0 : Loop) (h0 : Fresh s0.ps) (hc : s0.cont = none) (hx : s0.exited = none)
    (ls : List Label) :
    ((run s0 ls).exited.isSome → (run s0 ls).ps.mgr.alive = true → Ev.mgr ∈ (run s0 ls).ps.log) ∧
    (∀ st c, st.conns = [c] →
      (mgrStep st (.connClosed c)).2 = [AppEv.closed c] ∧
      (mgrStep st (.connClosed c)).1.canDial ≠ .alreadyConnected) ∧
    (∀ c, (mgrStep (.connected c .none) (.connClosed c)).1.canDial = .ok) := by
  refine ⟨fun hex hal => ?_, fun st c hst => ?_, fun c => by simp [mgrStep, PeerState.onClosed, PeerState.canDial]⟩
  · have := (exit_reports_closed_once s0 h0 hc hx ls).2.2 hex
    have h1 := this.2.2 hal
    exact List.count_pos_iff.mp (by unfold mgrCnt at h1; omega)
  · cases st with
    | connected p sec =>
      cases sec with
      | none =>
        simp only [PeerState.conns, List.cons.injEq, and_true] at hst; subst hst
        simp [mgrStep, PeerState.onClosed, PeerState.canDial]
      | dialing d =>
        simp only [PeerState.conns, List.cons.injEq, and_true] at hst; subst hst
        simp [mgrStep, PeerState.onClosed, PeerState.canDial]
      | secondary x => simp [PeerState.conns] at hst
    | opening x => simp [PeerState.conns] at hst
    | dialing x => simp [PeerState.conns] at hst
    | disconnected x => simp [PeerState.conns] at hst

example : (mgrStep (.connected 7 .none) (.connClosed 7)) = (.disconnected none, [.closed 7]) ∧
    (PeerState.connected 7 .none).canDial = .alreadyConnected := by decide

end Litep2pVerif.Props.C07

open Litep2pVerif.Props.C07 in
#print axioms exit_reports_closed_once
open Litep2pVerif.Props.C07 in
#print axioms close_report_waits_for_busy_protocol
open Litep2pVerif.Props.C07 in
#print axioms protocols_before_manager
open Litep2pVerif.Props.C07 in
#print axioms live_protocols_all_told
open Litep2pVerif.Props.C07 in
#print axioms app_closed_iff_last
open Litep2pVerif.Props.C07 in
#print axioms established_survives_dead_protocol
open Litep2pVerif.Props.C07 in
#print axioms loop_usable_after_protocol_exit
open Litep2pVerif.Props.C07 in
#print axioms accept_established_then_closed
open Litep2pVerif.Props.C07 in
#print axioms redial_after_close
