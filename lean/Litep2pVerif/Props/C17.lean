import Litep2pVerif.Proofs.Kad.Store
import Litep2pVerif.Proofs.Kad.StoreRefine
import Litep2pVerif.Generated.Consts
import Litep2pVerif.Proofs.Node.Wiring
/-!
# C17 — The DHT record and provider store respects its bounds and freshness rules

Property theorems only (helper lemmas live in `Proofs/Kad/Store.lean`, the model in
`Model/Kad/Store.lean`). Every theorem is followed by a non-vacuity example and the file ends with
the axiom audit.
-/
namespace Litep2pVerif.Props.C17
open Litep2pVerif Litep2pVerif.Kad.Store

/-- **Bounds.** After every sequence of operations on an empty store, for every configuration
(including bounds 0 and 1; per-key provider bound at least 1): records, value sizes, provider keys,
providers per key (strictly sorted by distance) and addresses per provider are within the
configured limits. -/
theorem store_bounds (cfg : Cfg) (hpk : 1 ≤ cfg.maxProvidersPerKey) (ops : List Op) :
    let s := run cfg ops
    s.records.length ≤ cfg.maxRecords ∧
    (∀ r ∈ s.records, r.value.length < cfg.maxRecordSize) ∧
    s.providerKeys.length ≤ cfg.maxProviderKeys ∧
    (∀ kv ∈ s.providerKeys,
      kv.2.length ≤ cfg.maxProvidersPerKey ∧
      kv.2.Pairwise (fun a b => a.dist < b.dist) ∧
      ∀ p ∈ kv.2, p.addrs.length ≤ cfg.maxProviderAddrs) := by
  intro s
  have h : Inv cfg s := foldl_inv hpk ops (inv_empty cfg)
  exact ⟨h.recLen, h.recSize, h.provLen,
    fun kv hkv => ⟨(h.provLists kv hkv).len, (h.provLists kv hkv).sorted, (h.provLists kv hkv).addrs⟩⟩

/-- The default configuration (constants regenerated from `kademlia/config.rs` on every run) meets
the hypothesis of `store_bounds`, so the bounds hold for a default-configured node. -/
theorem default_config_bounds (ttl : Nat) (ops : List Op) :
    let cfg : Cfg := ⟨Consts.DEFAULT_MAX_RECORDS, Consts.DEFAULT_MAX_RECORD_SIZE_BYTES,
      Consts.DEFAULT_MAX_PROVIDER_KEYS, Consts.DEFAULT_MAX_PROVIDER_ADDRESSES,
      Consts.DEFAULT_MAX_PROVIDERS_PER_KEY, ttl⟩
    let s := run cfg ops
    s.records.length ≤ Consts.DEFAULT_MAX_RECORDS ∧
    (∀ kv ∈ s.providerKeys, kv.2.length ≤ Consts.DEFAULT_MAX_PROVIDERS_PER_KEY) := by
  intro cfg s
  have hpk : 1 ≤ Consts.DEFAULT_MAX_PROVIDERS_PER_KEY := by decide
  have h := store_bounds cfg hpk ops
  exact ⟨h.1, fun kv hkv => (h.2.2.2 kv hkv).1⟩

/-- Non-vacuity: a configuration with bounds 1 on which a history fills every bound. -/
example :
    let cfg : Cfg := ⟨1, 4, 1, 2, 1, 10⟩
    let s := run cfg [.put ⟨7, [1, 2, 3], none⟩, .put ⟨8, [1], none⟩, .put ⟨7, [1, 2, 3, 4], none⟩,
      .putProvider 5 1 30 [0, 1, 2] 0, .putProvider 5 2 20 [0] 0, .putProvider 6 2 20 [0] 0]
    s.records = [⟨7, [1, 2, 3], none⟩] ∧ s.providerKeys = [(5, [⟨2, 20, [0], 10⟩])] := by
  decide

/-- **Freshness of records.** `get` never returns an expired record, and returns the record stored
under the requested key. -/
theorem no_expired_record (s : Store) (k now : Nat) (r : Rec) (h : (getRecord s k now).2 = some r) :
    r.expiredAt now = false ∧ r.key = k := by
  unfold getRecord at h
  split at h
  · simp at h
  · rename_i r' hr'
    split at h
    · simp at h
    · rename_i hne
      simp only [Option.some.injEq] at h
      subst h
      exact ⟨by simpa using hne, (lookupRec_some hr').2⟩

example : (getRecord { records := [⟨1, [9], some 5⟩] } 1 5).2 = none ∧
    (getRecord { records := [⟨1, [9], some 5⟩] } 1 4).2 = some ⟨1, [9], some 5⟩ := by decide

/-- **Freshness of providers.** `get_providers` never returns an expired provider. -/
theorem no_expired_provider (s : Store) (k now : Nat) :
    ∀ p ∈ (getProviders s k now).2, p.expiredAt now = false := by
  intro p hp
  unfold getProviders at hp
  split at hp
  · simp at hp
  · simp only at hp
    split at hp
    · simp at hp
    · have := (List.mem_filter.1 hp).2
      simpa using this

example : (getProviders { providerKeys := [(3, [⟨1, 10, [], 5⟩, ⟨2, 20, [], 9⟩])] } 3 7).2 =
    [⟨2, 20, [], 9⟩] := by decide

/-- **TTL monotonicity.** A stored record with an expiry time is not replaced by a record for the
same key that expires earlier: the store is unchanged by such a `put`. -/
theorem ttl_monotone (cfg : Cfg) (s : Store) (old new : Rec) (e e' : Nat)
    (hstored : lookupRec new.key s.records = some old)
    (he : old.expires = some e) (he' : new.expires = some e') (hlt : e' < e) :
    put cfg s new = s := by
  unfold put
  split
  · rfl
  · simp only [hstored, he, he', if_pos hlt]

example : put ⟨4, 4, 4, 4, 4, 4⟩ { records := [⟨1, [9], some 5⟩] } ⟨1, [8], some 4⟩ =
    { records := [⟨1, [9], some 5⟩] } ∧
    put ⟨4, 4, 4, 4, 4, 4⟩ { records := [⟨1, [9], some 5⟩] } ⟨1, [8], some 5⟩ =
    { records := [⟨1, [8], some 5⟩] } := by decide

/-- **Re-announcement updates in place.** If the provider (identified by its distance, which is an
injective function of the peer id for a fixed key) is already in the sorted list at position `i`,
announcing it again replaces exactly that entry and is accepted. -/
theorem reannounce_in_place (m : Nat) (ps : List Prov) (p q : Prov) (i : Nat)
    (hs : ps.Pairwise (fun a b => a.dist < b.dist)) (hq : ps[i]? = some q) (hd : q.dist = p.dist) :
    putProvList m ps p = (ps.set i p, true) := by
  unfold putProvList
  rw [search_of_getElem hs hq hd]

example : putProvList 2 [⟨1, 10, [], 5⟩, ⟨2, 20, [], 5⟩] ⟨2, 20, [7], 9⟩ =
    ([⟨1, 10, [], 5⟩, ⟨2, 20, [7], 9⟩], true) := by decide

/-- **A re-announcement renews the provider's freshness.** If the provider is already stored under the key (position
`i` of the sorted list), announcing it again at time `t` is accepted and the stored entry is the NEW record as a whole:
until `t + ttl` (the expiry of the LAST announcement, whatever the expiry `q.expires` of the earlier one was)
`get_providers` returns the provider with the new addresses; from `t + ttl` on it returns no provider at that
distance. -/
theorem reannounce_renews_expiry (cfg : Cfg) (s : Store) (k peer dist : Nat) (addrs : List Nat) (t : Nat)
    (ps : List Prov) (q : Prov) (i : Nat)
    (hk : lookupProv k s.providerKeys = some ps)
    (hs : ps.Pairwise (fun a b => a.dist < b.dist)) (hq : ps[i]? = some q) (hd : q.dist = dist) :
    let fresh : Prov := ⟨peer, dist, addrs.take cfg.maxProviderAddrs, t + cfg.providerTtl⟩
    let s' := (putProvider cfg s k peer dist addrs t).1
    (putProvider cfg s k peer dist addrs t).2 = true ∧
    lookupProv k s'.providerKeys = some (ps.set i fresh) ∧
    (∀ now, now < t + cfg.providerTtl → fresh ∈ (getProviders s' k now).2) ∧
    (∀ now, t + cfg.providerTtl ≤ now → ∀ p ∈ (getProviders s' k now).2, p.dist ≠ dist) := by
  intro fresh s'
  have hput : putProvider cfg s k peer dist addrs t =
      ({ s with providerKeys := setProvKey k (ps.set i fresh) s.providerKeys }, true) := by
    unfold putProvider
    simp only [hk]
    rw [reannounce_in_place cfg.maxProvidersPerKey ps _ q i hs hq hd]
  have hlook : lookupProv k s'.providerKeys = some (ps.set i fresh) := by
    show lookupProv k (putProvider cfg s k peer dist addrs t).1.providerKeys = _
    rw [hput]; exact lookupProv_setProvKey hk
  have hi : i < ps.length := by
    rcases Nat.lt_or_ge i ps.length with h | h
    · exact h
    · rw [List.getElem?_eq_none h] at hq; cases hq
  have hmem : fresh ∈ ps.set i fresh := List.mem_iff_getElem?.2 ⟨i, by simp [hi]⟩
  have hsorted : (ps.set i fresh).Pairwise (fun a b => a.dist < b.dist) := sorted_set hs hq hd
  refine ⟨by rw [hput], hlook, fun now hnow => ?_, fun now hnow p hp hpd => ?_⟩
  · unfold getProviders
    simp only [hlook]
    have hlive : fresh ∈ (ps.set i fresh).filter (fun p => !p.expiredAt now) := by
      refine List.mem_filter.2 ⟨hmem, ?_⟩
      simp only [Prov.expiredAt, Bool.not_eq_true', decide_eq_false_iff_not, Nat.not_le]
      exact hnow
    split
    · rename_i he
      have := List.isEmpty_iff.1 he
      rw [this] at hlive; cases hlive
    · exact hlive
  · unfold getProviders at hp
    simp only [hlook] at hp
    split at hp
    · cases hp
    · have hpm := List.mem_filter.1 hp
      -- same distance in a strictly sorted list: the same entry
      have heq : p = fresh := by
        rcases List.mem_iff_getElem?.1 hpm.1 with ⟨a, ha⟩
        rcases List.mem_iff_getElem?.1 hmem with ⟨b, hb⟩
        have hrel := List.pairwise_iff_getElem.1 hsorted
        have hal : a < (ps.set i fresh).length := (List.getElem?_eq_some_iff.1 ha).1
        have hbl : b < (ps.set i fresh).length := (List.getElem?_eq_some_iff.1 hb).1
        have hae := (List.getElem?_eq_some_iff.1 ha).2
        have hbe := (List.getElem?_eq_some_iff.1 hb).2
        have hfd : fresh.dist = dist := rfl
        rcases Nat.lt_trichotomy a b with h | h | h
        · have := hrel a b hal hbl h; rw [hae, hbe] at this; omega
        · subst h; rw [ha] at hb; exact Option.some.inj hb
        · have := hrel b a hbl hal h; rw [hae, hbe] at this; omega
      have hexp := hpm.2
      rw [heq] at hexp
      simp only [Prov.expiredAt, fresh, Bool.not_eq_true', decide_eq_false_iff_not, Nat.not_le] at hexp
      omega

/-- Non-vacuity: ttl 10, first announcement at 1000, re-announced at 1006 with other addresses: at 1012 (the first
expiry has passed) the provider is returned with the new addresses, at 1016 it is not. -/
example :
    let cfg : Cfg := ⟨4, 4, 4, 4, 4, 10⟩
    let s1 := (putProvider cfg {} 3 7 20 [1] 1000).1
    let s2 := (putProvider cfg s1 3 7 20 [5, 6] 1006).1
    (getProviders s2 3 1012).2 = [⟨7, 20, [5, 6], 1016⟩] ∧ (getProviders s2 3 1016).2 = [] := by decide

/-- **Only the closest are retained** (one announcement). For a sorted list within the per-key
bound and a provider not yet in it, the new list is the `m` closest of the old providers plus the
new one: the sorted insertion truncated to `m`; the announcement is refused exactly when the new
provider would land beyond the bound. -/
theorem providers_closest_step (m : Nat) (ps : List Prov) (p : Prov)
    (hlen : ps.length ≤ m)
    (hnew : ∀ q ∈ ps, q.dist ≠ p.dist) :
    (putProvList m ps p).1 = (ps.insertIdx (lowerBound p.dist ps) p).take m ∧
    ((putProvList m ps p).2 = false ↔ lowerBound p.dist ps = m) := by
  have hle := lowerBound_le p.dist ps
  unfold putProvList
  split
  · rename_i i hsr
    obtain ⟨q, hq, hd, _⟩ := search_ok hsr
    exact absurd hd (hnew q (List.mem_of_getElem? hq))
  · rename_i i hsr
    obtain ⟨hi, _⟩ := search_error hsr
    subst hi
    split
    · rename_i hmax
      have hl : ps.length = m := by omega
      refine ⟨?_, by simp [hmax]⟩
      subst hl
      rw [hmax, take_insertIdx_length]
    · rename_i hmax
      refine ⟨?_, by simp [hmax]⟩
      simp only
      split
      · rename_i hl
        have hlt : lowerBound p.dist ps < ps.length := by omega
        rw [dropLast_insertIdx hlt, List.dropLast_eq_take, List.length_insertIdx_of_le_length hle]
        simp [hl]
      · rename_i hl
        rw [List.take_of_length_le]
        rw [List.length_insertIdx_of_le_length hle]; omega

example : (putProvList 2 [⟨1, 10, [], 5⟩, ⟨2, 20, [], 5⟩] ⟨3, 15, [], 5⟩).1 =
      [⟨1, 10, [], 5⟩, ⟨3, 15, [], 5⟩] ∧
    (putProvList 2 [⟨1, 10, [], 5⟩, ⟨2, 20, [], 5⟩] ⟨3, 25, [], 5⟩) =
      ([⟨1, 10, [], 5⟩, ⟨2, 20, [], 5⟩], false) := by decide

/-- **Only the closest are retained** (any number of announcements for one key). Folding the
bounded `put_provider` list update over ANY sequence of announcements (new providers and
re-announcements in any order) yields exactly the first `m` entries of the unbounded reference
list, which is strictly sorted by distance and contains precisely the announced distances (i.e.
providers; the latest announcement of each). Hence the retained providers are the `m` closest of
all announced, whatever the order of announcements. -/
theorem providers_closest (m : Nat) (anns : List Prov) :
    anns.foldl (fun l p => (putProvList m l p).1) [] = (anns.foldl insProv []).take m ∧
    (anns.foldl insProv []).Pairwise (fun a b => a.dist < b.dist) ∧
    ∀ d, d ∈ (anns.foldl insProv []).map (·.dist) ↔ d ∈ anns.map (·.dist) := by
  refine ⟨?_, foldl_insProv_sorted anns (by simp [Sorted]), ?_⟩
  · have := foldl_putProvList_take m anns [] (by simp [Sorted])
    simpa using this
  · intro d
    have := foldl_insProv_dists anns [] d
    simpa using this

example : [⟨1, 30, [], 5⟩, ⟨2, 10, [], 5⟩, ⟨3, 20, [], 5⟩, ⟨1, 30, [9], 6⟩, ⟨4, 5, [], 5⟩].foldl
    (fun l p => (putProvList 2 l p).1) ([] : List Prov) = [⟨4, 5, [], 5⟩, ⟨2, 10, [], 5⟩] := by decide


/-- **The record store is a finite map with an admission rule (refinement).** With `lookupRec k s.records`
as the abstract content of key `k`: a `put` sets exactly the record's own key, and only when the admission
rule `putAccepts` (size below the bound; an entry with an expiry is not replaced by one expiring earlier; a
new key only below the record bound) holds — otherwise the store is unchanged; a `get` returns the content
of its key unless expired, removes at most that expired entry and touches no other key; provider operations
never touch a record. Hence what any later `get` returns after any history is determined by the admission
and expiry rules alone. -/
theorem record_store_refines_map (cfg : Cfg) (s : Store) (h : Inv cfg s) :
    (∀ r k, lookupRec k (put cfg s r).records =
        if k = r.key ∧ putAccepts cfg s r = true then some r else lookupRec k s.records) ∧
    (∀ r, putAccepts cfg s r = false → put cfg s r = s) ∧
    (∀ k now, (getRecord s k now).2 = (lookupRec k s.records).filter (fun r => !r.expiredAt now)) ∧
    (∀ k now k', lookupRec k' (getRecord s k now).1.records =
        if k' = k then (lookupRec k s.records).filter (fun r => !r.expiredAt now)
        else lookupRec k' s.records) ∧
    (∀ op, (match op with | .put _ => False | .get _ _ => False | _ => True) →
        (apply cfg s op).records = s.records) := by
  refine ⟨fun r k => put_lookup cfg s r k, ?_, fun k now => get_result s k now,
    fun k now k' => get_lookup h k now k', fun op hop => provider_ops_keep_records cfg s op hop⟩
  intro r hrej
  obtain ⟨rk, rv, re⟩ := r
  unfold putAccepts at hrej
  unfold put
  by_cases hsz : cfg.maxRecordSize ≤ rv.length
  · simp [hsz]
  · have hlt : rv.length < cfg.maxRecordSize := by omega
    simp only [hsz, if_false]
    simp only [hlt, decide_true, Bool.true_and] at hrej
    cases hl : lookupRec rk s.records with
    | none =>
      simp only [hl] at hrej
      have : cfg.maxRecords ≤ s.records.length := by
        have := of_decide_eq_false hrej; omega
      simp [this]
    | some old =>
      obtain ⟨ok, ov, oe⟩ := old
      simp only [hl] at hrej
      cases oe with
      | none => simp at hrej
      | some stored =>
        cases re with
        | none => simp at hrej
        | some new =>
          have : new < stored := by
            have := of_decide_eq_false hrej; omega
          simp [this]

/-- A record the store admitted is what the next `get` of its key returns (until it expires). -/
theorem put_then_get (cfg : Cfg) (s : Store) (r : Rec) (now : Nat)
    (ha : putAccepts cfg s r = true) (hne : r.expiredAt now = false) :
    (getRecord (put cfg s r) r.key now).2 = some r := by
  rw [get_result, put_lookup]
  simp [ha, Option.filter, hne]

/-- Non-vacuity: admission and rejection both occur, and an invariant-satisfying store exists. -/
example :
    let cfg : Cfg := ⟨2, 4, 1, 2, 1, 10⟩
    let s : Store := { records := [⟨1, [9], some 50⟩] }
    putAccepts cfg s ⟨1, [8], some 60⟩ = true ∧ putAccepts cfg s ⟨1, [8], some 40⟩ = false ∧
    putAccepts cfg s ⟨2, [8], none⟩ = true ∧ putAccepts cfg s ⟨2, [1, 2, 3, 4], none⟩ = false ∧
    (getRecord (put cfg s ⟨2, [8], none⟩) 2 1000).2 = some ⟨2, [8], none⟩ ∧
    (getRecord (put cfg s ⟨2, [8], none⟩) 1 50).2 = none := by
  decide

example : Inv ⟨2, 4, 1, 2, 1, 10⟩ { records := [⟨1, [9], some 50⟩] } := by
  constructor <;> simp

end Litep2pVerif.Props.C17

open Litep2pVerif.Props.C17 in
#print axioms store_bounds
open Litep2pVerif.Props.C17 in
#print axioms default_config_bounds
open Litep2pVerif.Props.C17 in
#print axioms no_expired_record
open Litep2pVerif.Props.C17 in
#print axioms no_expired_provider
open Litep2pVerif.Props.C17 in
#print axioms ttl_monotone
open Litep2pVerif.Props.C17 in
#print axioms reannounce_in_place
open Litep2pVerif.Props.C17 in
#print axioms reannounce_renews_expiry
open Litep2pVerif.Props.C17 in
#print axioms providers_closest_step
open Litep2pVerif.Props.C17 in
#print axioms providers_closest
open Litep2pVerif.Props.C17 in
#print axioms record_store_refines_map
open Litep2pVerif.Props.C17 in
#print axioms put_then_get

/-! ## Wiring — the memory-store bounds given to `kademlia::ConfigBuilder` (added after seeded C17-e1)

Over the wiring model `Model/Node/Wiring.lean` (`Node.new c` = `Litep2p::new(ConfigBuilder…build())`, `notes` / `tcpHeld` =
what the constructed protocol objects / the TCP transport hold, `protocolCodec` = `ProtocolSet::protocol_codec`), tied to
the real code by the `node` area: real nodes built through the public API print what the CONSTRUCTED objects hold and what
a connection's `ProtocolSet` answers for every main and fallback name; the driver prints the model's; compared exactly. -/
namespace Litep2pVerif.Props.C17.Wiring
open Litep2pVerif Litep2pVerif.Node

/-- Kademlia setter calls of the sample: a later call overrides an earlier one; zero bounds. -/
def sampleSets : List KadSet := [.maxRecords 5, .replication 3, .maxRecords 0, .maxProviderKeys 0, .validationMode false]

/-- A configuration with fallback names, zero store bounds and non-default transport settings (non-vacuity examples). -/
def sample : Config :=
  { keepAliveMs := some 600, listen := [1],
    notif := [{ name := "/n/new", max := 32, handshake := "01", fallback := ["/n/a"], mode := 'a', sync := some 7, async := none,
                dial := some false }],
    rr := [{ name := "/r/new", max := 256, timeoutMs := 800, fallback := ["/r/a", "/r/b"], maxInbound := some 3 }],
    user := [⟨"/u/a", .identity 8⟩],
    kad := [{ names := ["/k/2", "/k/1"], max := some 2048,
              sets := sampleSets }],
    ping := some 1, identify := true, bitswap := true, maxParallelDials := some 0,
    tcpSets := [.readAhead 3, .parallelDials 7, .writeBuffer 4] }

/-- The `MemoryStore` of every configured Kademlia instance is constructed with exactly the bounds the user's builder calls
leave (`kadBuild`: defaults, then the setters in call order; `build()` passes them on unchanged), and a bound set last to
`n` IS `n` — zero included: a store configured to hold no record / no provider key holds none. -/
theorem store_config_reaches_protocol (c : Config) :
    (∀ k ∈ c.kad, Note.kad (kadBuild k.sets) ∈ notes (build c)) ∧
    ∀ (sets : List KadSet) (n : Nat),
      (kadBuild (sets ++ [.maxRecords n])).store.maxRecords = n ∧
      (kadBuild (sets ++ [.maxRecordSize n])).store.maxRecordSize = n ∧
      (kadBuild (sets ++ [.maxProviderKeys n])).store.maxProviderKeys = n ∧
      (kadBuild (sets ++ [.maxProviderAddresses n])).store.maxProviderAddresses = n ∧
      (kadBuild (sets ++ [.maxProvidersPerKey n])).store.maxProvidersPerKey = n ∧
      (kadBuild (sets ++ [.providerRefresh n])).store.providerRefreshMs = n ∧
      (kadBuild (sets ++ [.providerTtl n])).store.providerTtlMs = n := by
  refine ⟨fun k hk => notes_kad_mem _ hk, fun sets n => ?_⟩
  simp only [kadBuild_append, KadSet.apply, and_self]

example : Note.kad (kadBuild sampleSets) ∈ notes (build sample) ∧ (kadBuild sampleSets).store.maxRecords = 0 ∧
    (kadBuild sampleSets).store.maxProviderKeys = 0 ∧
    (kadBuild sampleSets).store.maxRecordSize = Consts.NODE_KAD_MAX_RECORD_SIZE := by decide

end Litep2pVerif.Props.C17.Wiring

#print axioms Litep2pVerif.Props.C17.Wiring.store_config_reaches_protocol
