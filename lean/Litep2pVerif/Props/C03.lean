import Litep2pVerif.Proofs.Mss.Negotiate
import Litep2pVerif.Proofs.Mss.Flush
import Litep2pVerif.Proofs.Mss.WebRtc
import Litep2pVerif.Generated.Consts
/-!
# C03 — Protocol negotiation agrees on one protocol and is transparent afterwards

Property theorems only (models in `Model/Mss/*.lean`, helper lemmas in `Proofs/Mss/*.lean`). Every
theorem is followed by a non-vacuity example; the file ends with the axiom audit.
-/
namespace Litep2pVerif.Props.C03
open Litep2pVerif Litep2pVerif.Mss

/-- **Message round trip.** `Message::decode (Message::encode m) = Ok(m)` for every well-formed `m`:
a proposed name starts with `/`, contains no line feed and is not `/multistream/1.0.0`; an `ls`
response has at most `MAX_PROTOCOLS` names, each starting with `/` (length within `usize`). -/
theorem msg_roundtrip (m : Msg) (h : m.WellFormed) : Msg.decode m.encode = .ok m :=
  decode_encode m h

/-- Non-vacuity, and the excluded names really fail: a name with a line feed decodes to something
else, a name without `/` is refused, and `/multistream/1.0.0` collides with the header. -/
example :
    Msg.WellFormed (.protocol [47, 97]) ∧ Msg.WellFormed (.protocols [[47, 97], [47, 98, 10, 99]]) ∧
    Msg.decode (Msg.protocol [47, 97, 10, 98]).encode ≠ .ok (.protocol [47, 97, 10, 98]) ∧
    Msg.decode (Msg.protocol [97]).encode ≠ .ok (.protocol [97]) ∧
    Msg.decode (Msg.protocol protoMultistream).encode = .ok .header ∧
    Consts.MSS_MAX_PROTOCOLS = 1000 := by
  decide

/-- **Varint round trip** for the two instances of `decode!` in use (`u16` frame lengths, `usize`
name lengths), whatever follows the encoded value. -/
theorem varint_roundtrip (n : Nat) (rest : Bytes) :
    (n < 2 ^ 16 → uviDecodeU16 (uviEncode n ++ rest) = .ok (n, rest)) ∧
    (n < 2 ^ 64 → uviDecodeUsize (uviEncode n ++ rest) = .ok (n, rest)) :=
  ⟨uviDecodeU16_encode n rest, uviDecodeUsize_encode n rest⟩

example : uviEncode 300 = [172, 2] ∧ uviDecodeU16 [172, 2, 7] = .ok (300, [7]) ∧
    uviDecodeU16 [128, 0] = .error .notMinimal := by
  refine ⟨by rw [uviEncode_two 300 (by omega) (by omega)], by decide, by decide⟩

/-- **Framing is transparent.** Frames `fs` (each at most `MAX_FRAME_SIZE` bytes) are submitted with
`start_send` to a `LengthDelimited` over a carrier that is write-through or WRITE-BEHIND (`wb`: what
`poll_write` accepts is staged and reaches the peer only when the carrier's own flush completes), and
the sink is flushed, polling again after every `Pending`, under ANY schedule `ws` of chunk sizes /
`Pending`s of the inner `poll_write` and ANY schedule `fl` of `Pending`/`Ready` answers of the inner
`poll_flush`. Once that flush has returned `Ready(Ok)`, exactly the frames are visible to the peer
(nothing is left in the write buffer or staged: `into_inner`'s assertion holds), and while it has not,
a write-behind carrier shows the peer nothing. Arbitrary bytes `rest` follow (the application's). For
EVERY schedule of chunk sizes and `Pending`s on the reading side, a reader that polls for `|fs|` frames
gets a prefix of `fs` — never anything else, never an error — and once it has got all of them it has
consumed exactly `Σ |uvi(len)| + len` bytes: what is left in the carrier is exactly `rest`, and the
reader's buffers are empty (so `into_inner` hands the carrier over with the application's bytes
untouched). -/
theorem framing_transparent (fs : List Bytes) (hfs : ∀ f ∈ fs, f.length ≤ maxFrameSize) (rest : Bytes)
    (eof : Bool) (fuel : Nat) (sched : List Nat) (wb : Bool) (ws : List Nat) (fl : List Bool) (polls : Nat) :
    sendAll {} fs = .ok ⟨wire fs⟩ ∧
    ((flushRun polls ⟨⟨wire fs⟩, { wb := wb }, ws, fl⟩).2 = .pending → wb = true →
      (flushRun polls ⟨⟨wire fs⟩, { wb := wb }, ws, fl⟩).1.c.visible = []) ∧
    ((flushRun polls ⟨⟨wire fs⟩, { wb := wb }, ws, fl⟩).2 = .ready →
      (flushRun polls ⟨⟨wire fs⟩, { wb := wb }, ws, fl⟩).1.c.visible = wire fs ∧
      (flushRun polls ⟨⟨wire fs⟩, { wb := wb }, ws, fl⟩).1.c.staged = [] ∧
      (flushRun polls ⟨⟨wire fs⟩, { wb := wb }, ws, fl⟩).1.w.writeBuffer = []) ∧
    ∃ k, k ≤ fs.length ∧
      (readN fs.length fuel Reader.fresh ⟨wire fs ++ rest, eof⟩ sched).1 = (fs.take k).map PollNext.frame ∧
      (k = fs.length →
        (readN fs.length fuel Reader.fresh ⟨wire fs ++ rest, eof⟩ sched).2.1 = Reader.fresh ∧
        (readN fs.length fuel Reader.fresh ⟨wire fs ++ rest, eof⟩ sched).2.2.1 = ⟨rest, eof⟩) := by
  refine ⟨by simpa using sendAll_wire fs {} hfs, ?_, ?_, ?_⟩
  · intro hp hwb
    subst hwb
    exact flushRun_pending_wb polls _ rfl hp
  · intro hr
    obtain ⟨h1, h2, h3⟩ := flushRun_ready polls _ hr
    exact ⟨by simpa [SinkIo.pipeline] using h3, h2, h1⟩
  · cases fs with
    | nil => exact ⟨0, by simp, by simp [readN], by simp [readN, wire]⟩
    | cons f fs =>
      have hlen : ∀ g ∈ f :: fs, g.length < 16384 := by
        intro g hg; have := hfs g hg; rw [maxFrameSize_eq] at this; omega
      have := readN_mid rest fuel f fs Reader.fresh ⟨wire (f :: fs) ++ rest, eof⟩ sched hlen
        (by rw [wire_cons, List.append_assoc]; exact mid_fresh _ _ _)
      simpa using this

/-- Non-vacuity: two frames and two application bytes read in 1-byte chunks with `Pending`s in
between: both frames are returned and exactly `[9, 9]` is left; over a write-behind carrier whose
flush answers `Pending` twice, the peer sees nothing after two polls and all five bytes after the
third; the side condition on the constants holds for the regenerated values. -/
example :
    wire [[1, 2, 3], []] ++ [9, 9] = [3, 1, 2, 3, 0, 9, 9] ∧
    (readN 2 50 Reader.fresh ⟨[3, 1, 2, 3, 0, 9, 9], false⟩ [1, 0, 1, 1, 0, 0, 1, 1, 5]).1 =
      [.frame [1, 2, 3], .frame []] ∧
    (readN 2 50 Reader.fresh ⟨[3, 1, 2, 3, 0, 9, 9], false⟩ [1, 0, 1, 1, 0, 0, 1, 1, 5]).2.2.1.data = [9, 9] ∧
    (flushRun 2 ⟨⟨[3, 1, 2, 3, 0]⟩, { wb := true }, [2, 9], [false, false, true]⟩).2 = .pending ∧
    (flushRun 2 ⟨⟨[3, 1, 2, 3, 0]⟩, { wb := true }, [2, 9], [false, false, true]⟩).1.c.staged = [3, 1, 2, 3, 0] ∧
    (flushRun 3 ⟨⟨[3, 1, 2, 3, 0]⟩, { wb := true }, [2, 9], [false, false, true]⟩).2 = .ready ∧
    (flushRun 3 ⟨⟨[3, 1, 2, 3, 0]⟩, { wb := true }, [2, 9], [false, false, true]⟩).1.c.visible = [3, 1, 2, 3, 0] ∧
    maxFrameSize = 16383 ∧ Consts.MSS_MAX_LEN_BYTES = 2 := by
  refine ⟨by simp [wire, frameBytes, uviEncode_lt], by decide, by decide, by decide, by decide, by decide, by decide,
    by decide, by decide⟩

/-- **Framing makes progress.** The liveness complement of `framing_transparent`. The carrier
"eventually delivers every byte": the schedule contains at least as many non-`Pending` choices (each
delivers at least one byte) as the frames have bytes on the wire, `Pending`s interleaved at will;
the reader polls again after every `Pending` (`fuel` at least the length of the schedule). Then
every frame is returned, the reader is back in its initial state and exactly `rest` is left.
The measure behind it (`pollNext_mid_budget`): the number of frame bytes still in flight — every
non-`Pending` inner `poll_read` decreases it, a `Pending` leaves it unchanged, and while it is
positive the reader is inside a frame (`Mid`) and cannot fail. -/
theorem framing_progress (fs : List Bytes) (hfs : ∀ f ∈ fs, f.length ≤ maxFrameSize) (rest : Bytes)
    (eof : Bool) (fuel : Nat) (sched : List Nat) (hfuel : sched.length ≤ fuel)
    (hdeliver : (wire fs).length ≤ (sched.filter (· ≠ 0)).length) :
    (readN fs.length fuel Reader.fresh ⟨wire fs ++ rest, eof⟩ sched).1 = fs.map PollNext.frame ∧
    (readN fs.length fuel Reader.fresh ⟨wire fs ++ rest, eof⟩ sched).2.1 = Reader.fresh ∧
    (readN fs.length fuel Reader.fresh ⟨wire fs ++ rest, eof⟩ sched).2.2.1 = ⟨rest, eof⟩ := by
  have hout : (readN fs.length fuel Reader.fresh ⟨wire fs ++ rest, eof⟩ sched).1 = fs.map PollNext.frame := by
    cases fs with
    | nil => simp [readN]
    | cons f fs =>
      have hlen : ∀ g ∈ f :: fs, g.length < 16384 := by
        intro g hg; have := hfs g hg; rw [maxFrameSize_eq] at this; omega
      exact readN_progress rest fuel f fs Reader.fresh ⟨wire (f :: fs) ++ rest, eof⟩ sched hlen
        (by rw [wire_cons, List.append_assoc]; exact mid_fresh _ _ _) hfuel
        (by simp only [List.length_append, nz] at hdeliver ⊢; omega)
  obtain ⟨_, _, _, k, hk, hpre, hfin⟩ := framing_transparent fs hfs rest eof fuel sched false [] [] 0
  have hkl : k = fs.length := by
    have := congrArg List.length (hpre.symm.trans hout)
    simp at this; omega
  exact ⟨hout, hfin hkl⟩

/-- Non-vacuity: the 5 bytes of two frames, six `Pending`s and five 1-byte deliveries. With one
delivery fewer the second frame is not returned (the bound is tight). -/
example :
    (wire [[1, 2, 3], []]).length = 5 ∧ ([1, 0, 1, 0, 0, 1, 0, 0, 1, 0, 1].filter (· ≠ 0)).length = 5 ∧
    (readN 2 11 Reader.fresh ⟨wire [[1, 2, 3], []] ++ [9, 9], false⟩ [1, 0, 1, 0, 0, 1, 0, 0, 1, 0, 1]).1 =
      [.frame [1, 2, 3], .frame []] ∧
    (readN 2 11 Reader.fresh ⟨wire [[1, 2, 3], []] ++ [9, 9], false⟩ [1, 0, 1, 0, 0, 1, 0, 0, 1, 0]).1 =
      [.frame [1, 2, 3]] := by
  refine ⟨by simp [wire, frameBytes, uviEncode_lt], by decide, ?_, ?_⟩ <;>
    (rw [show wire [[1, 2, 3], []] = [3, 1, 2, 3, 0] by simp [wire, frameBytes, uviEncode_lt]]; decide)

/-- **The writer loses nothing.** `poll_write_buffer` over a carrier that may stage what it accepts:
for every schedule, the bytes visible to the peer, followed by the bytes staged in the carrier,
followed by the bytes still in the write buffer are the same sequence as before; `Ready` means the
write buffer is empty (the assertion of `into_inner` on the write buffer holds after a flush); what
the peer sees is only ever extended; and on a write-behind carrier writing alone shows the peer
nothing — only a completed inner flush does (`flush_reaches_peer`). -/
theorem framing_writer_exact (sched : List Nat) (w : Writer) (c : WCarrier) :
    (pollWriteBufferC w c sched).2.1.visible ++ (pollWriteBufferC w c sched).2.1.staged ++
        (pollWriteBufferC w c sched).1.writeBuffer = c.visible ++ c.staged ++ w.writeBuffer ∧
    ((pollWriteBufferC w c sched).2.2.2 = .ready → (pollWriteBufferC w c sched).1.writeBuffer = []) ∧
    (c.wb = true → (pollWriteBufferC w c sched).2.1.visible = c.visible) ∧
    (∃ t, (pollWriteBufferC w c sched).2.1.visible = c.visible ++ t) := by
  obtain ⟨h1, h2, h3, h4, _⟩ := pollWriteBufferC_exact sched w c
  exact ⟨h1, h2, h3, h4⟩

example : frameBytes [7, 8] = [2, 7, 8] ∧
    (pollWriteBufferC ⟨[2, 7, 8]⟩ {} [1, 0, 5]).2.1.visible = [2] ∧
    (pollWriteBufferC ⟨[2, 7, 8]⟩ {} [1, 1, 1]).2.1.visible = [2, 7, 8] ∧
    (pollWriteBufferC ⟨[2, 7, 8]⟩ {} [1, 1, 1]).2.2.2 = .ready ∧
    (pollWriteBufferC ⟨[2, 7, 8]⟩ { wb := true } [1, 1, 1]).2.1.visible = [] ∧
    (pollWriteBufferC ⟨[2, 7, 8]⟩ { wb := true } [1, 1, 1]).2.1.staged = [2, 7, 8] := by
  refine ⟨by simp [frameBytes, uviEncode_lt], by decide, by decide, by decide, by decide, by decide⟩

/-- **`Ready` from the flush means the peer has everything.** `Sink::poll_flush` of `LengthDelimited`
(= `poll_write_buffer`, then the inner `poll_flush`, whose answer is returned) over a write-through or
write-behind carrier, from ANY state `s` — frames in the write buffer, bytes already handed to the
carrier and staged there by an earlier poll whose inner flush was `Pending`, an empty write buffer —
under EVERY schedule of inner write choices and EVERY schedule of `Pending`/`Ready` answers of the
inner flush, polled any number of times: when a poll returns `Ready(Ok)`, every byte written before
(visible, staged or buffered at the start, in this order) is visible to the peer, nothing is staged
and the write buffer is empty. In particular a poll that finds the write buffer empty may NOT report
`Ready` unless the inner flush does. -/
theorem flush_reaches_peer (polls : Nat) (s : SinkIo) (h : (flushRun polls s).2 = .ready) :
    (flushRun polls s).1.c.visible = s.c.visible ++ s.c.staged ++ s.w.writeBuffer ∧
    (flushRun polls s).1.c.staged = [] ∧ (flushRun polls s).1.w.writeBuffer = [] := by
  obtain ⟨h1, h2, h3⟩ := flushRun_ready polls s h
  exact ⟨h3, h2, h1⟩

/-- Non-vacuity: the situation of a busy write-behind transport. The first poll hands the frame
`[2, 7, 8]` to the carrier and gets `Pending` from the inner flush; the second poll finds the write
buffer EMPTY and the inner flush `Pending` again — it is `Pending`, and the peer still sees nothing;
the third poll completes. -/
example :
    (sinkPollFlush ⟨⟨[2, 7, 8]⟩, { wb := true }, [9], [false, false, true]⟩) =
      (⟨⟨[]⟩, { wb := true, staged := [2, 7, 8] }, [], [false, true]⟩, .pending) ∧
    (sinkPollFlush ⟨⟨[]⟩, { wb := true, staged := [2, 7, 8] }, [], [false, true]⟩) =
      (⟨⟨[]⟩, { wb := true, staged := [2, 7, 8] }, [], [true]⟩, .pending) ∧
    (sinkPollFlush ⟨⟨[]⟩, { wb := true, staged := [2, 7, 8] }, [], [true]⟩) =
      (⟨⟨[]⟩, { wb := true, visible := [2, 7, 8] }, [], []⟩, .ready) ∧
    (flushRun 3 ⟨⟨[2, 7, 8]⟩, { wb := true }, [9], [false, false, true]⟩).2 = .ready := by
  decide

/-- **A flush that is polled again completes.** The liveness complement, and what the message-level
composition below assumes of the carrier: it takes every byte eventually (the write schedule holds at
least as many non-`Pending` choices as the write buffer has bytes) and it completes a flush
eventually (some answer of the flush schedule is `Ready`); the caller polls again after every
`Pending` (more polls than the two schedules are long — every `Pending` poll uses up a choice or an
answer). Then the flush returns `Ready(Ok)` — and by `flush_reaches_peer` everything is visible. -/
theorem flush_completes (polls : Nat) (s : SinkIo) (hw : s.w.writeBuffer.length ≤ (s.ws.filter (· ≠ 0)).length)
    (hf : true ∈ s.fs) (hpolls : s.ws.length + s.fs.length < polls) :
    (flushRun polls s).2 = .ready ∧
    (flushRun polls s).1.c.visible = s.c.visible ++ s.c.staged ++ s.w.writeBuffer :=
  have h := flushRun_completes polls s hw hf hpolls
  ⟨h, (flushRun_ready polls s h).2.2⟩

/-- Non-vacuity (and the bounds are needed: without a `Ready` answer, or with a poll fewer than
`Pending` answers, the flush is still pending). -/
example :
    (flushRun 6 ⟨⟨[2, 7, 8]⟩, { wb := true }, [1, 0, 1, 1], [false, true]⟩).2 = .ready ∧
    (flushRun 6 ⟨⟨[2, 7, 8]⟩, { wb := true }, [1, 0, 1, 1], [false, true]⟩).1.c.visible = [2, 7, 8] ∧
    (flushRun 9 ⟨⟨[2, 7, 8]⟩, { wb := true }, [1, 0, 1, 1], [false, false]⟩).2 = .pending ∧
    (flushRun 2 ⟨⟨[2, 7, 8]⟩, { wb := true }, [1, 0, 1, 1], [false, true]⟩).2 = .pending := by
  decide

/-- A name the dialer may propose: valid (`ValidName`) and short enough for one frame. -/
def Proposable (p : Bytes) : Prop := ValidName p ∧ p.length + 1 ≤ maxFrameSize

instance (p : Bytes) : Decidable (Proposable p) := by unfold Proposable; infer_instance

theorem proposable_sendable (p : Bytes) (h : Proposable p) : Sendable p := by
  obtain ⟨⟨hh, _, _⟩, hl⟩ := h
  rw [maxFrameSize_eq] at hl
  refine ⟨by simp [protocolTryFrom, hh], ?_⟩
  simp [fitsFrame, Msg.encode, maxFrameSize_eq]
  omega

/-- **Termination, explicit bound.** The composition is at message level: a flush step of a future
(`FlushProtocol`, `Flush`, the deferred flush of `Negotiated::expecting`) hands the buffered messages to
the peer's channel in one transition. Over a write-behind carrier this is exactly what happens —
nothing written is visible before the flush returns `Ready`, everything is afterwards
(`flush_reaches_peer`, `framing_transparent`) — PROVIDED the flush returns `Ready` at all: the carrier
eventually completes a flush that is polled again (`flush_completes`). Under that assumption on the
carrier: every execution of the composed system (any interleaving of dialer and listener steps), for every dialer list of proposable names, every listener list, both
versions and whatever the lazy dialer's application writes, has at most `6·|ps| + 7` transitions:
`6·|ps| + 7 − (transitions made)` is a measure that every transition decreases. -/
theorem negotiate_terminates (v : Version) (ps ls : List Bytes) (junk : Option PErr)
    (hps : ∀ p ∈ ps, Proposable p) (k : Nat) (u : Sys Dialer Listener)
    (h : Exec (dialerProc junk) listenerProc (negInit v ps ls) k u) : k ≤ 6 * ps.length + 7 := by
  obtain ⟨fuel, hf, hag⟩ := canonical junk v (ls.filter (fun n => n.head? = some 47)) ps
    (fun x hx => proposable_sendable x (hps x hx))
  obtain ⟨n, hn, hex⟩ := runSys_exec (dialerProc junk) listenerProc fuel (negInit v ps ls)
  have := (confluent (dialerProc_closeHalts junk) listenerProc_closeHalts k n _ _ u
    (good_init junk v ps _) hex (agreed_final junk hag) h).1
  omega

/-- **Confluence.** Any two maximal executions of the composed system end in the same state after
the same number of transitions: the outcome does not depend on the interleaving. -/
theorem negotiate_confluent (v : Version) (ps ls : List Bytes) (junk : Option PErr)
    (n k : Nat) (t u : Sys Dialer Listener)
    (h1 : Exec (dialerProc junk) listenerProc (negInit v ps ls) n t) (hf1 : Final (dialerProc junk) listenerProc t)
    (h2 : Exec (dialerProc junk) listenerProc (negInit v ps ls) k u) (hf2 : Final (dialerProc junk) listenerProc u) :
    u = t ∧ k = n :=
  (confluent (dialerProc_closeHalts junk) listenerProc_closeHalts k n _ t u (good_init junk v ps _) h1 hf1 h2).2 hf2

/-- **Agreement.** (Carrier assumption as for `negotiate_terminates`: write-through or write-behind, a
flush that is polled again eventually completes.) For all dialer lists `ps` of proposable names and all listener lists `ls`, both
versions (`V1`, and `V1Lazy` including the `Negotiated::expecting` phase), every maximal execution
of the composed system ends with both futures returned, and both report the first `p ∈ ps` that the
listener supports — or both report a failure when there is none. -/
theorem negotiate_agree (v : Version) (ps ls : List Bytes) (junk : Option PErr)
    (hps : ∀ p ∈ ps, Proposable p) (k : Nat) (u : Sys Dialer Listener)
    (h : Exec (dialerProc junk) listenerProc (negInit v ps ls) k u) (hfin : Final (dialerProc junk) listenerProc u) :
    match firstCommon ps ls with
    | some p => u.a.state = .completed p ∧ u.b.state = .done p
    | none => (∃ e, u.a.state = .failed e) ∧ (∃ e, u.b.state = .failed e) := by
  obtain ⟨fuel, hf, hag⟩ := canonical junk v (ls.filter (fun n => n.head? = some 47)) ps
    (fun x hx => proposable_sendable x (hps x hx))
  obtain ⟨n, hn, hex⟩ := runSys_exec (dialerProc junk) listenerProc fuel (negInit v ps ls)
  have := ((confluent (dialerProc_closeHalts junk) listenerProc_closeHalts k n _ _ u
    (good_init junk v ps _) hex (agreed_final junk hag) h).2 hfin).1
  subst this
  have hfc := firstCommon_filter ps ls (fun p hp => (hps p hp).1.1)
  have h3 := hag.2.2
  rw [hfc] at h3
  cases hc : firstCommon ps ls with
  | some p => rw [hc] at h3; exact h3
  | none =>
    rw [hc] at h3
    obtain ⟨⟨e1, h1, _⟩, ⟨e2, h2, _⟩⟩ := h3
    exact ⟨⟨e1, h1⟩, ⟨e2, h2⟩⟩

/-- Non-vacuity: `/a`, `/b` against `/b`, `/c` (and an ignored invalid name) agree on `/b` in both
versions; disjoint lists fail on both sides; the computed executions are maximal. -/
example :
    Proposable [47, 97] ∧ Proposable [47, 98] ∧
    (runSys (dialerProc none) listenerProc 40 (negInit .v1 [[47, 97], [47, 98]] [[47, 98], [47, 99], [120]])).a.state =
      .completed [47, 98] ∧
    (runSys (dialerProc none) listenerProc 40 (negInit .v1 [[47, 97], [47, 98]] [[47, 98], [47, 99], [120]])).b.state =
      .done [47, 98] ∧
    (runSys (dialerProc (some .invalidMessage)) listenerProc 40 (negInit .v1Lazy [[47, 98]] [[47, 98], [47, 99]])).a.state =
      .completed [47, 98] ∧
    (runSys (dialerProc (some .ioInvalidData)) listenerProc 40 (negInit .v1Lazy [[47, 97]] [[47, 98], [47, 99]])).a.state =
      .failed .failed ∧
    (runSys (dialerProc (some .ioInvalidData)) listenerProc 40 (negInit .v1Lazy [[47, 97]] [[47, 98], [47, 99]])).b.state =
      .failed (.protocolError .ioInvalidData) := by
  decide

/-- **`into_inner` is safe.** No maximal execution ends with a failed assertion of
`MessageIO::into_inner` / `MessageReader::into_inner` (read and write buffers are empty where the
futures and `Negotiated` call it). -/
theorem into_inner_safe (v : Version) (ps ls : List Bytes) (junk : Option PErr)
    (hps : ∀ p ∈ ps, Proposable p) (k : Nat) (u : Sys Dialer Listener)
    (h : Exec (dialerProc junk) listenerProc (negInit v ps ls) k u) (hfin : Final (dialerProc junk) listenerProc u) :
    u.a.state ≠ .failed .panic ∧ u.b.state ≠ .failed .panic := by
  obtain ⟨fuel, hf, hag⟩ := canonical junk v (ls.filter (fun n => n.head? = some 47)) ps
    (fun x hx => proposable_sendable x (hps x hx))
  obtain ⟨n, hn, hex⟩ := runSys_exec (dialerProc junk) listenerProc fuel (negInit v ps ls)
  have := ((confluent (dialerProc_closeHalts junk) listenerProc_closeHalts k n _ _ u
    (good_init junk v ps _) hex (agreed_final junk hag) h).2 hfin).1
  subst this
  have h3 := hag.2.2
  rw [negInit_eq]
  split at h3
  · rw [h3.1, h3.2]; simp
  · obtain ⟨⟨e1, h1, hn1⟩, ⟨e2, h2, hn2⟩⟩ := h3
    rw [h1, h2]
    exact ⟨by intro hh; injection hh with hh; exact hn1 hh, by intro hh; injection hh with hh; exact hn2 hh⟩

example : (Dialer.onRecv ⟨.v1, [], .awaitProtocol [47, 97] true, [.header]⟩ (.msg (.protocol [47, 97]))).st.state =
    .failed .panic := by decide

/-- **Message-based variant, safety for arbitrary payloads.** For ALL payloads (well-formed or not),
all states and whatever the peer is: the listener only ever accepts a name it supports, and the
dialer only ever reports success for the name it is currently proposing. -/
theorem webrtc_safe (sup : List Bytes) (payload : Bytes) (hr : Bool) (d : WDialer) :
    (∀ p m, wListen sup payload hr = .ok (.accepted p m) → p ∈ sup) ∧
    (∀ q, (wRegister d payload).2 = .ok (.succeeded q) → q = d.protocol) :=
  ⟨fun p m h => wListen_accepted sup payload hr p m h,
   fun q h => wRegisterLoop_succeeded _ d payload q h⟩

example : wListen [[47, 98]] (wHdr ++ wFrame (.protocol [47, 98])) false =
      .ok (.accepted [47, 98] (wHdr ++ wFrame (.protocol [47, 98]))) ∧
    (wRegister ⟨[47, 98], [], .waitingResponse⟩ (wHdr ++ wFrame (.protocol [47, 98]))).2 = .ok (.succeeded [47, 98]) := by
  decide

/-- **Message-based variant: agreement for every grouping.** `WebRtcDialerState::{propose,
propose_next_fallback, register_response}` against `webrtc_listener_negotiate`, composed as
`transport/webrtc/connection.rs` composes them (`wPair`). For every main name that is valid and at
most `MAX_FRAME_SIZE − 23` bytes long (it travels behind the 20-byte header frame), every list of
valid fallback names of at most `MAX_FRAME_SIZE − 3` bytes, every listener list `sup` and EVERY
grouping of the messages into payloads that can occur (`split` bit 0: header and first proposal
travel as one payload or as two; bit 1: the listener's header + answer travel as one payload or as
two; every later message is alone in flight), the pair ends with the dialer reporting `Succeeded(p)`
and the listener having accepted `p`, where `p` is the first name of `main :: fallbacks` that the
listener supports, or — when there is none — with the dialer failing (`propose_next_fallback`
returned `None`) and the listener never having accepted anything.

The order in which the code tries the names is `main` first, then the fallbacks **in the order
given to `propose`** (`propose` reverses the vector, `propose_next_fallback` pops from its end). -/
theorem webrtc_agree (main : Bytes) (fallbacks sup : List Bytes) (split : Nat)
    (hmain : WProposableMain main) (hfb : ∀ f ∈ fallbacks, WProposable f) :
    wPair main fallbacks sup split =
      match firstCommon (main :: fallbacks) sup with
      | some p => ⟨.succeeded p, some (.ok p)⟩
      | none => ⟨.failed, none⟩ := by
  rw [wPair_agree main fallbacks sup split hmain hfb]
  cases firstCommon (main :: fallbacks) sup <;> rfl

/-- Non-vacuity: `/a` with fallbacks `/b`, `/c` against a listener supporting `/c`, `/b` agrees on
`/b` (the dialer's order decides, not the listener's) for every grouping; disjoint names fail on the
dialer side and the listener never accepts. The length bound is exact: one byte more and `propose`
itself fails. -/
example :
    WProposableMain [47, 97] ∧ (∀ f ∈ [[47, 98], [47, 99]], WProposable f) ∧
    (∀ split ∈ [0, 1, 2, 3], wPair [47, 97] [[47, 98], [47, 99]] [[47, 99], [47, 98]] split =
      ⟨.succeeded [47, 98], some (.ok [47, 98])⟩) ∧
    firstCommon [[47, 97], [47, 98], [47, 99]] [[47, 99], [47, 98]] = some [47, 98] ∧
    wPair [47, 97] [[47, 98]] [[47, 99]] 3 = ⟨.failed, none⟩ ∧
    (∀ p : Bytes, maxFrameSize < p.length + 23 → webrtcEncode (.protocol p) true = none) := by
  refine ⟨by decide, by decide, by decide, by decide, by decide, webrtcEncode_proto_true_too_long⟩

/-- **A fallback name is reported as the main protocol.** `installed` are the protocols given to
`ProtocolSet::new` as `(main name, fallback names)`. If the negotiated name is a fallback name of
`main` — and of no other installed protocol, otherwise hash-map iteration order decides —
`report_substream_open` reports the substream to `main` with `fallback = Some(negotiated)`. A name
that is no fallback name is reported as itself with `fallback = None` if it is installed, and
refused (`ProtocolNotSupported`) if not. -/
theorem fallback_reported_as_main (installed : List (Bytes × List Bytes)) (negotiated : Bytes)
    (hu : ∀ e1 ∈ installed, ∀ e2 ∈ installed, negotiated ∈ e1.2 → negotiated ∈ e2.2 → e1.1 = e2.1) :
    (∀ e ∈ installed, negotiated ∈ e.2 → reportInstalled installed negotiated = some (e.1, some negotiated)) ∧
    ((∀ e ∈ installed, negotiated ∉ e.2) →
      (negotiated ∈ installed.map (·.1) → reportInstalled installed negotiated = some (negotiated, none)) ∧
      (negotiated ∉ installed.map (·.1) → reportInstalled installed negotiated = none)) := by
  constructor
  · intro e he hmem
    have hl := lookup_build installed negotiated
    cases hf : installed.find? (fun e => negotiated ∈ e.2) with
    | none =>
      have := List.find?_eq_none.mp hf e he
      simp [hmem] at this
    | some e' =>
      have he' := List.mem_of_find?_eq_some hf
      have hm' : negotiated ∈ e'.2 := by simpa using List.find?_some hf
      have heq : e'.1 = e.1 := hu e' he' e he hm' hmem
      rw [hf] at hl
      have hin : e.1 ∈ installed.map (·.1) := List.mem_map.mpr ⟨e, he, rfl⟩
      simp only [Option.map_some, heq] at hl
      simp only [reportInstalled, reportSubstreamOpen, hl, hin, if_true]
  · intro hno
    have hl := lookup_build installed negotiated
    have hf : installed.find? (fun e => negotiated ∈ e.2) = none :=
      List.find?_eq_none.mpr (fun e he => by simpa using hno e he)
    rw [hf] at hl
    simp only [Option.map_none] at hl
    constructor
    · intro hin; simp only [reportInstalled, reportSubstreamOpen, hl, hin, if_true]
    · intro hin; simp only [reportInstalled, reportSubstreamOpen, hl, hin, if_false]

/-- Non-vacuity: `/m` with fallbacks `/f`, `/g` and `/x` without any. -/
example :
    reportInstalled [([47, 109], [[47, 102], [47, 103]]), ([47, 120], [])] [47, 103] = some ([47, 109], some [47, 103]) ∧
    reportInstalled [([47, 109], [[47, 102], [47, 103]]), ([47, 120], [])] [47, 109] = some ([47, 109], none) ∧
    reportInstalled [([47, 109], [[47, 102], [47, 103]]), ([47, 120], [])] [47, 120] = some ([47, 120], none) ∧
    reportInstalled [([47, 109], [[47, 102], [47, 103]]), ([47, 120], [])] [47, 122] = none ∧
    unambiguousB [([47, 109], [[47, 102], [47, 103]]), ([47, 120], [])] = true := by decide

end Litep2pVerif.Props.C03

open Litep2pVerif.Props.C03 in
#print axioms msg_roundtrip
open Litep2pVerif.Props.C03 in
#print axioms varint_roundtrip
open Litep2pVerif.Props.C03 in
#print axioms framing_transparent
open Litep2pVerif.Props.C03 in
#print axioms framing_progress
open Litep2pVerif.Props.C03 in
#print axioms framing_writer_exact
open Litep2pVerif.Props.C03 in
#print axioms flush_reaches_peer
open Litep2pVerif.Props.C03 in
#print axioms flush_completes
open Litep2pVerif.Props.C03 in
#print axioms negotiate_terminates
open Litep2pVerif.Props.C03 in
#print axioms negotiate_confluent
open Litep2pVerif.Props.C03 in
#print axioms negotiate_agree
open Litep2pVerif.Props.C03 in
#print axioms into_inner_safe
open Litep2pVerif.Props.C03 in
#print axioms webrtc_safe
open Litep2pVerif.Props.C03 in
#print axioms webrtc_agree
open Litep2pVerif.Props.C03 in
#print axioms fallback_reported_as_main
