import Litep2pVerif.Proofs.Bitswap.Prefix
import Litep2pVerif.Proofs.Bitswap.Batch
import Litep2pVerif.Proofs.Bitswap.Proto
import Litep2pVerif.Proofs.Bitswap.Cmd
import Litep2pVerif.Generated.Consts
import Litep2pVerif.Proofs.Node.Wiring
/-!
# C20 — Bitswap blocks are verified against their content identifier; responses are split within
the size limit

Property theorems only (models: `Model/Bitswap/{Prefix,Batch}.lean`, helper lemmas:
`Proofs/Bitswap/*`). The hash family is a parameter `H : HashFamily` of every statement about the
inbound path. Every theorem is followed by a non-vacuity example; the file ends with the axiom audit.
-/
namespace Litep2pVerif.Props.C20
open Litep2pVerif Litep2pVerif.Bitswap

/-- A toy hash family for the examples: only code 0x12 is supported, the "digest" is 32 copies of
the byte sum. -/
def toyH : HashFamily := ⟨fun c => c == 0x12, fun _ d => List.replicate 32 (d.sum % 256)⟩

/-- **Self-certification.** Every `(cid, data)` in the `Response` event the user receives for an
inbound message stems from a received block `(prefix, data)` with a well-formed prefix naming a
supported hash function, and the CID's multihash is that function applied to the received bytes
(code, version and codec taken from the received prefix). A peer therefore cannot make the node
report data under an identifier that does not hash to it. -/
theorem cid_self_certifying (H : HashFamily) (payload : List (Bytes × Bytes))
    (rs : List (Cid × Bytes)) (hev : inboundEvent H payload = some rs)
    (c : Cid) (data : Bytes) (h : (c, data) ∈ rs) :
    ∃ pfx p, (pfx, data) ∈ payload ∧ Prefix.fromBytes pfx = some p ∧ H.supported p.mhType = true ∧
      c.hashCode = p.mhType ∧ c.digest = H.digest p.mhType data ∧
      c.version = p.version ∧ c.codec = p.codec := by
  unfold inboundEvent at hev
  split at hev
  · simp at hev
  · simp only [Option.some.injEq] at hev
    subst hev
    unfold inboundResponses at h
    obtain ⟨⟨pfx, d⟩, hmem, hb⟩ := List.mem_filterMap.mp h
    obtain ⟨hd, p, hp, hs, hv, hc, hcode, hdig, _⟩ := blockToResponse_some hb
    simp only at hd
    subst hd
    exact ⟨pfx, p, hmem, hp, hs, hcode, hdig, hv, hc⟩

/-- Non-vacuity: a message with a valid block (CIDv1, raw, 0x12), a block with an unsupported hash
and a CIDv0 block: the first and third are delivered under the recomputed identifiers. -/
example : inboundEvent toyH [([1, 0x55, 0x12, 32], [1, 2, 3]), ([1, 0x55, 0x11, 20], [9]),
      ([0, 0x70, 0x12, 32], [7])] =
    some [(⟨1, 0x55, 0x12, List.replicate 32 6⟩, [1, 2, 3]), (⟨0, 0x70, 0x12, List.replicate 32 7⟩, [7])] := by
  decide

/-- **Malformed blocks are dropped, the others are unaffected.** If the prefix does not parse, or
names a hash function the node cannot compute, or the digest does not fit a multihash, or
`Cid::new` rejects the combination (CIDv0 that is not dag-pb/sha2-256/32), the block yields no
response: alone it produces no event at all, and inside a message the event is exactly the one the
message without that block would produce. -/
theorem malformed_dropped (H : HashFamily) (pfx data : Bytes) (pre post : List (Bytes × Bytes))
    (hbad : Prefix.fromBytes pfx = none ∨
      ∃ p, Prefix.fromBytes pfx = some p ∧
        (H.supported p.mhType = false ∨ (H.digest p.mhType data).length > MH_ALLOC ∨
         cidNew p.version p.codec p.mhType (H.digest p.mhType data) = none)) :
    blockToResponse H pfx data = none ∧
    inboundEvent H [(pfx, data)] = none ∧
    inboundEvent H (pre ++ (pfx, data) :: post) = inboundEvent H (pre ++ post) := by
  have h1 : blockToResponse H pfx data = none := by
    unfold blockToResponse
    rcases hbad with h | ⟨p, hp, h⟩
    · simp [h]
    · simp only [hp]
      rcases h with h | h | h
      · simp [h]
      · split
        · rfl
        · simp
      · split
        · rfl
        · split
          · rfl
          · simp [h]
  have h2 : inboundResponses H (pre ++ (pfx, data) :: post) = inboundResponses H (pre ++ post) := by
    simp [inboundResponses, List.filterMap_append, h1]
  refine ⟨h1, ?_, ?_⟩
  · simp [inboundEvent, inboundResponses, h1]
  · simp only [inboundEvent, h2]

/-- Non-vacuity: trailing byte, unsupported code, version 2, CIDv0 with the raw codec — each
dropped, alone and between two valid blocks. -/
example :
    inboundEvent toyH [([1, 0x55, 0x12, 32, 0], [1])] = none ∧
    inboundEvent toyH [([1, 0x55, 0x13, 64], [1])] = none ∧
    inboundEvent toyH [([2, 0x55, 0x12, 32], [1])] = none ∧
    inboundEvent toyH [([0, 0x55, 0x12, 32], [1])] = none ∧
    inboundEvent toyH [([1, 0x55, 0x12, 32], [1]), ([1, 0x55, 0x12], [2]), ([1, 0x55, 0x12, 32], [3])] =
      inboundEvent toyH [([1, 0x55, 0x12, 32], [1]), ([1, 0x55, 0x12, 32], [3])] ∧
    Prefix.fromBytes [1, 0x55, 0x12] = none := by
  decide

/-- **Prefix round trip.** `Prefix::from_bytes(p.to_bytes()) = Some(p)` for every prefix a Rust
`Prefix` can hold (version 0/1, `u64` codec and multihash type, `u8` length). -/
theorem prefix_roundtrip (p : Prefix) (h : p.Representable) : Prefix.fromBytes p.toBytes = some p := by
  obtain ⟨hv, hc, hm, hl⟩ := h
  unfold Prefix.fromBytes Prefix.toBytes
  rw [uvarDec_enc _ _ (by omega)]
  simp only
  rw [uvarDec_enc _ _ hc]
  simp only
  rw [uvarDec_enc _ _ hm]
  simp only
  rw [uvarDec_enc_nil _ (by omega)]
  have h1 : ¬ p.version > 1 := by omega
  have h2 : ¬ p.mhLen > 255 := by omega
  simp [h1, h2]

/-- Non-vacuity: the extreme representable prefix (23 bytes) and the usual one. -/
example : (⟨1, 2 ^ 64 - 1, 2 ^ 64 - 1, 255⟩ : Prefix).Representable ∧
    (Prefix.toBytes ⟨1, 2 ^ 64 - 1, 2 ^ 64 - 1, 255⟩).length = 23 ∧
    Prefix.toBytes ⟨1, 0x55, 0x12, 32⟩ = [1, 0x55, 0x12, 32] ∧
    Prefix.fromBytes [1, 0x55, 0x12, 32] = some ⟨1, 0x55, 0x12, 32⟩ := by
  decide

/-- **Batches partition the fitting blocks.** For every list of blocks (and every limit; the
block-count cap at least 1) the `send_response` loop ends by itself within `|blocks| + 1` iterations;
the batches it forms are, in order, a partition of the blocks whose data fits `maxBatch` (each such
block in exactly one batch, order preserved, oversized blocks in none); every batch is non-empty,
carries at most `maxBatch` bytes of data and at most `cap` blocks, and is turned into a message by
`blocks_message` exactly as `mkStep` says (sent iff the encoding fits `maxMsg`). -/
theorem batches_partition {β : Type} (S : Sized β) (maxBatch cap maxMsg : Nat) (hcap : 1 ≤ cap)
    (blocks : List β) :
    (sendResponse S maxBatch cap maxMsg blocks).2 = true ∧
    ((sendResponse S maxBatch cap maxMsg blocks).1.map (·.batch)).flatten =
      blocks.filter (fun b => decide (S.dataLen b ≤ maxBatch)) ∧
    ∀ st ∈ (sendResponse S maxBatch cap maxMsg blocks).1,
      st.batch ≠ [] ∧ (st.batch.map S.dataLen).sum ≤ maxBatch ∧ st.batch.length ≤ cap ∧
      st = mkStep S maxMsg st.batch :=
  sendLoop_spec S maxBatch cap hcap maxMsg (blocks.length + 1) blocks (by omega)

/-- Non-vacuity (the shapes pinned by the unit tests `extract_next_batch_*`, limit 20): exact fill,
an oversized block in the middle, an oversized block first, an empty block, and the cap. -/
example :
    (sendResponse lenPair 20 8 1000 [(4, 10), (4, 10), (4, 10)]).1.map (·.batch) =
      [[(4, 10), (4, 10)], [(4, 10)]] ∧
    (sendResponse lenPair 20 8 1000 [(4, 10), (4, 101), (4, 10)]).1.map (·.batch) = [[(4, 10)], [(4, 10)]] ∧
    (sendResponse lenPair 20 8 1000 [(4, 21), (4, 0), (4, 20), (4, 1)]).1.map (·.batch) =
      [[(4, 0), (4, 20)], [(4, 1)]] ∧
    (sendResponse lenPair 20 2 1000 [(4, 1), (4, 1), (4, 1)]).1.map (·.batch) = [[(4, 1), (4, 1)], [(4, 1)]] ∧
    (sendResponse lenPair 20 8 30 [(4, 10), (4, 10), (4, 10)]).1.map (·.sent) = [false, true] := by
  decide

/-- **Size bound, conditional form.** A batch of at most `n` blocks with prefixes of at most 23
bytes and at most `maxBatch` bytes of data in total encodes to at most `maxBatch + 35·n + 2` bytes;
so the message respects `maxMsg` whenever the number of blocks per batch is bounded accordingly.
(The full statement "every message the loop builds is within `maxMsg`" is FALSE without such a
bound on the block count — `batch_oversize_witness` — because the batching counts data bytes only.) -/
theorem batch_size_bound_partial {β : Type} (S : Sized β) (maxBatch maxMsg n : Nat) (batch : List β)
    (hp : ∀ b ∈ batch, S.prefixLen b ≤ 23) (hsum : (batch.map S.dataLen).sum ≤ maxBatch)
    (hlen : batch.length ≤ n) (hm : maxBatch + 30 < 268435456) (hbound : maxBatch + 35 * n + 2 ≤ maxMsg)
    (len : Nat) (henc : blocksMessageLen S batch = some len) : len ≤ maxMsg := by
  unfold blocksMessageLen at henc
  split at henc
  · simp at henc
  · simp only [Option.some.injEq] at henc
    subst henc
    have := entries_sum_le S batch (fun b hb =>
      ⟨hp b hb, by have := sum_le_of_mem (List.mem_map_of_mem (f := S.dataLen) hb); omega⟩)
    have : 35 * batch.length ≤ 35 * n := Nat.mul_le_mul_left 35 hlen
    omega

/-- Non-vacuity: three blocks, limits 20 / 200, and the arithmetic on the real constants: with at
most `MAX_BATCH_BLOCKS` blocks per batch the hypothesis `hbound` holds for the real limits. -/
example : blocksMessageLen lenPair [(4, 10), (4, 10), (23, 0)] = some 69 ∧
    Consts.MAX_BATCH_SIZE + 30 < 268435456 ∧
    Consts.MAX_BATCH_SIZE + 35 * Consts.MAX_BATCH_BLOCKS + 2 ≤ Consts.MAX_MESSAGE_SIZE := by
  decide

/-- **Size bound (full, after the repair).** With the node's constants (regenerated from
`bitswap/config.rs`), for every response made of well-formed CIDs (version 0/1, digest at most 64
bytes): every batch the loop forms is encoded into a message of at most `MAX_MESSAGE_SIZE` bytes and
is therefore written to the substream. -/
theorem batch_size_bound (blocks : List (Cid × Bytes))
    (hwf : ∀ b ∈ blocks, b.1.version ≤ 1 ∧ b.1.digest.length ≤ MH_ALLOC) :
    ∀ st ∈ (sendResponse wireBlocks Consts.MAX_BATCH_SIZE Consts.MAX_BATCH_BLOCKS
        Consts.MAX_MESSAGE_SIZE blocks).1,
      ∃ len, st.enc = some len ∧ len ≤ Consts.MAX_MESSAGE_SIZE ∧ st.sent = true := by
  intro st hst
  obtain ⟨_, hflat, hall⟩ := batches_partition wireBlocks Consts.MAX_BATCH_SIZE Consts.MAX_BATCH_BLOCKS
    Consts.MAX_MESSAGE_SIZE (by decide) blocks
  obtain ⟨hne, hsum, hlen, hmk⟩ := hall st hst
  have hsub : ∀ b ∈ st.batch, b ∈ blocks := by
    intro b hb
    have : b ∈ ((sendResponse wireBlocks Consts.MAX_BATCH_SIZE Consts.MAX_BATCH_BLOCKS
        Consts.MAX_MESSAGE_SIZE blocks).1.map (·.batch)).flatten :=
      List.mem_flatten.mpr ⟨st.batch, List.mem_map_of_mem hst, hb⟩
    rw [hflat] at this
    exact (List.mem_filter.mp this).1
  have hp : ∀ b ∈ st.batch, wireBlocks.prefixLen b ≤ 23 := fun b hb =>
    toPrefix_length_le b.1 (hwf b (hsub b hb)).1 (by have := (hwf b (hsub b hb)).2; simp only [MH_ALLOC] at this; omega)
  have hbnd := batch_size_bound_partial wireBlocks Consts.MAX_BATCH_SIZE Consts.MAX_MESSAGE_SIZE
    Consts.MAX_BATCH_BLOCKS st.batch hp hsum hlen (by decide) (by decide)
  rw [hmk]
  unfold mkStep
  split
  · rename_i hnone
    unfold blocksMessageLen at hnone
    split at hnone
    · rename_i he; simp only [List.isEmpty_iff] at he; exact absurd he hne
    · simp at hnone
  · rename_i len hsome
    exact ⟨len, rfl, hbnd len hsome, by simpa using hbnd len hsome⟩

/-- Non-vacuity: a well-formed response of two blocks under a 22-byte prefix (`u64::MAX` codec and
hash code, 64-byte digest); the single batch is encoded in 2 + (1 + 1 + 24 + 3) + (1 + 1 + 24 + 4) = 61
bytes and sent. -/
example :
    let c : Cid := ⟨1, 2 ^ 64 - 1, 2 ^ 64 - 1, List.replicate 64 0⟩
    (c.version ≤ 1 ∧ c.digest.length ≤ MH_ALLOC) ∧
    (sendResponse wireBlocks Consts.MAX_BATCH_SIZE Consts.MAX_BATCH_BLOCKS Consts.MAX_MESSAGE_SIZE
      [(c, [1]), (c, [1, 2])]).1.map (fun st => (st.enc, st.sent)) = [(some 61, true)] := by
  decide

/-- **Every fitting block is sent exactly once, in order.** With the node's constants: the messages
actually written to the substream carry, in order, exactly the blocks whose data is at most
`MAX_BATCH_SIZE` — none lost, none duplicated, none reordered — and the loop terminates. -/
theorem fitting_blocks_sent_once (blocks : List (Cid × Bytes))
    (hwf : ∀ b ∈ blocks, b.1.version ≤ 1 ∧ b.1.digest.length ≤ MH_ALLOC) :
    (sendResponse wireBlocks Consts.MAX_BATCH_SIZE Consts.MAX_BATCH_BLOCKS
        Consts.MAX_MESSAGE_SIZE blocks).2 = true ∧
    (sentBatches (sendResponse wireBlocks Consts.MAX_BATCH_SIZE Consts.MAX_BATCH_BLOCKS
        Consts.MAX_MESSAGE_SIZE blocks).1).flatten =
      blocks.filter (fun b => decide (b.2.length ≤ Consts.MAX_BATCH_SIZE)) := by
  obtain ⟨hterm, hflat, _⟩ := batches_partition wireBlocks Consts.MAX_BATCH_SIZE Consts.MAX_BATCH_BLOCKS
    Consts.MAX_MESSAGE_SIZE (by decide) blocks
  refine ⟨hterm, ?_⟩
  have hall : ∀ st ∈ (sendResponse wireBlocks Consts.MAX_BATCH_SIZE Consts.MAX_BATCH_BLOCKS
      Consts.MAX_MESSAGE_SIZE blocks).1, st.sent = true := fun st hst => by
    obtain ⟨_, _, _, h⟩ := batch_size_bound blocks hwf st hst
    exact h
  unfold sentBatches
  rw [List.filter_eq_self.mpr hall, hflat]
  rfl

/-- Non-vacuity: a response with an empty block, a small block and a CIDv0 block is one message of
2 + 8 + 13 + 12 bytes. -/
example :
    let c1 : Cid := ⟨1, 0x55, 0x12, List.replicate 32 0⟩
    let c0 : Cid := ⟨0, 0x70, 0x12, List.replicate 32 0⟩
    (sendResponse wireBlocks Consts.MAX_BATCH_SIZE Consts.MAX_BATCH_BLOCKS Consts.MAX_MESSAGE_SIZE
      [(c1, []), (c1, [1, 2, 3]), (c0, [1, 2])]).1.map (fun st => (st.batch.length, st.enc, st.sent)) =
      [(3, some 35, true)] := by
  decide

/-- **Witness of the defect (DESIGN §8-p), the code before the repair** (`cap = 2^64`, i.e. no
bound on the block count): a response of 381301 one-byte blocks with the usual 4-byte prefix, each
of which fits a message, forms ONE batch whose encoding has 4194313 > `MAX_MESSAGE_SIZE` bytes; the
loop skips it, so none of the blocks is sent. -/
theorem batch_oversize_witness :
    (∀ b ∈ List.replicate 381301 ((4, 1) : Nat × Nat), lenPair.dataLen b ≤ Consts.MAX_BATCH_SIZE) ∧
    sendResponse lenPair Consts.MAX_BATCH_SIZE (2 ^ 64) Consts.MAX_MESSAGE_SIZE
        (List.replicate 381301 ((4, 1) : Nat × Nat)) =
      ([⟨List.replicate 381301 (4, 1), some 4194313, false⟩], true) ∧
    Consts.MAX_MESSAGE_SIZE < 4194313 := by
  refine ⟨?_, ?_, by decide⟩
  · intro b hb
    rw [List.eq_of_mem_replicate hb]
    decide
  · rw [sendResponse_replicate lenPair Consts.MAX_BATCH_SIZE (2 ^ 64) Consts.MAX_MESSAGE_SIZE 381301 (4, 1)
      (by decide) (by decide) (by decide)]
    have h : lenPair.entryLen (4, 1) = 11 := by decide
    rw [h]
    have h2 : decide (2 + 381301 * 11 ≤ Consts.MAX_MESSAGE_SIZE) = false := by decide
    rw [h2]

/-- The same response under the repaired code is split at `MAX_BATCH_BLOCKS` (first batch shown on
a short list with cap 2: see the `batches_partition` example); here: the arithmetic that the first
batch of the repaired code is within the limit. -/
example : 2 + Consts.MAX_BATCH_BLOCKS * lenPair.entryLen (4, 1) ≤ Consts.MAX_MESSAGE_SIZE := by decide

/-- `send_response` with the node's constants on a substream whose codec accepts frames of up to
`codecMax` bytes (`bitswap/config.rs`: `UnsignedVarint(Some(MAX_MESSAGE_SIZE))`). -/
abbrev nodeRespond {π : Type} (P : PSized π) (codecMax : Nat) (entries : List (Entry π (Cid × Bytes))) :=
  respond P wireBlocks Consts.MAX_BATCH_SIZE Consts.MAX_BATCH_BLOCKS Consts.MAX_MESSAGE_SIZE codecMax entries

/-- **A presence message is written only within the size limit.** Whatever the response and the
codec's limit: if `send_response` writes a presence message at all, it is the first message, it
carries exactly the presence entries of the response (non-empty, in order), its encoding is the one
`presences_message` produces and that has at most `MAX_MESSAGE_SIZE` bytes (regenerated constant);
every other message is a blocks message. -/
theorem presence_within_limit {π : Type} (P : PSized π) (codecMax : Nat)
    (entries : List (Entry π (Cid × Bytes))) (ps : List π) (len : Nat)
    (h : Frame.presences ps len ∈ (nodeRespond P codecMax entries).1) :
    len ≤ Consts.MAX_MESSAGE_SIZE ∧ ps = presencesOf entries ∧ ps ≠ [] ∧
    presencesMessageLen P ps = some len ∧
    ∃ rest, (nodeRespond P codecMax entries).1 = Frame.presences ps len :: rest ∧
      ∀ f ∈ rest, ∃ batch l, f = Frame.blocks batch l := by
  have hblk := respondLoop_blocks_only (π := π) wireBlocks Consts.MAX_BATCH_SIZE Consts.MAX_BATCH_BLOCKS
    Consts.MAX_MESSAGE_SIZE codecMax ((blocksOf entries).length + 1) (blocksOf entries)
  have hno : ∀ {l : List (Frame π (Cid × Bytes))}, (∀ f ∈ l, ∃ batch k, f = Frame.blocks batch k) →
      Frame.presences ps len ∉ l := by
    intro l hl hmem
    obtain ⟨_, _, he⟩ := hl _ hmem
    cases he
  unfold nodeRespond at h ⊢
  rcases respond_cases wireBlocks Consts.MAX_BATCH_SIZE Consts.MAX_BATCH_BLOCKS P Consts.MAX_MESSAGE_SIZE
    codecMax entries with ⟨_, he⟩ | ⟨_, _, _, he⟩ | ⟨l, hl, hle, _, he⟩ | ⟨_, _, _, _, he⟩
  · rw [he] at h; exact absurd h (hno hblk)
  · rw [he] at h; exact absurd h (hno hblk)
  · rw [he] at h ⊢
    simp only [List.mem_cons] at h
    rcases h with h | h
    · simp only [Frame.presences.injEq] at h
      obtain ⟨rfl, rfl⟩ := h
      refine ⟨hle, rfl, ?_, hl, _, rfl, hblk⟩
      intro h0
      rw [h0] at hl
      simp [presencesMessageLen] at hl
    · exact absurd h (hno hblk)
  · rw [he] at h; simp at h

/-- Non-vacuity (small limits so that both outcomes show): two presences (a 36-byte CID with
`DontHave`, 42 bytes, and with `Have`, 40 bytes) and a block; with `maxMsg = 100` the presence message
(84 bytes) is written first, with `maxMsg = 83` it is skipped and only the block goes out; and on the
node's constants the presence message is written. -/
example :
    respond lenPres lenPair 20 8 100 100 [.presence (36, 1), .block (4, 10), .presence (36, 0)] =
      ([.presences [(36, 1), (36, 0)] 84, .blocks [(4, 10)] 22], .ok) ∧
    respond lenPres lenPair 20 8 83 83 [.presence (36, 1), .block (4, 10), .presence (36, 0)] =
      ([.blocks [(4, 10)] 22], .ok) ∧
    (nodeRespond lenPres Consts.MAX_MESSAGE_SIZE [.presence (36, 1), .presence (36, 0)]).1 =
      [.presences [(36, 1), (36, 0)] 84] := by
  decide

/-- **Blocks are sent whatever the presence list.** With the node's constants, on a substream whose
codec accepts every frame of up to `MAX_MESSAGE_SIZE` bytes (the configured codec does), for every
response — any mix of presences and well-formed blocks: `send_response` returns `Ok`; the messages
written are an optional presence message followed by exactly the messages of the block-only response;
the block messages carry, in order, exactly the blocks whose data is at most `MAX_BATCH_SIZE` — none
lost, duplicated or reordered; and every written message has at most `MAX_MESSAGE_SIZE` bytes.

Actual behaviour of the code for an oversized presence list (more than about 10^5 entries): the
presence message is NOT split; it is skipped as a whole with a warning (`respond_cases`, second
case) — the presences are silently lost, the blocks are unaffected. The property speaks about blocks
and message sizes only. The guard matters: without it the write is rejected by the codec and the
function returns before any block is sent (fourth case of `respond_cases`, excluded here because
`len ≤ MAX_MESSAGE_SIZE ≤ codecMax`). -/
theorem blocks_sent_regardless_of_presences {π : Type} (P : PSized π) (codecMax : Nat)
    (hcodec : Consts.MAX_MESSAGE_SIZE ≤ codecMax) (entries : List (Entry π (Cid × Bytes)))
    (hwf : ∀ b ∈ blocksOf entries, b.1.version ≤ 1 ∧ b.1.digest.length ≤ MH_ALLOC) :
    (nodeRespond P codecMax entries).2 = SendResult.ok ∧
    (∃ pre, (nodeRespond P codecMax entries).1 =
        pre ++ (nodeRespond P codecMax ((blocksOf entries).map Entry.block)).1 ∧
      (pre = [] ∨ ∃ len, pre = [Frame.presences (presencesOf entries) len])) ∧
    (blockBatches (nodeRespond P codecMax entries).1).flatten =
      (blocksOf entries).filter (fun b => decide (b.2.length ≤ Consts.MAX_BATCH_SIZE)) ∧
    ∀ f ∈ (nodeRespond P codecMax entries).1, f.len ≤ Consts.MAX_MESSAGE_SIZE := by
  obtain ⟨i1, i2, i3⟩ := respondLoop_spec (π := π) wireBlocks Consts.MAX_BATCH_SIZE Consts.MAX_BATCH_BLOCKS
    Consts.MAX_MESSAGE_SIZE codecMax hcodec ((blocksOf entries).length + 1) (blocksOf entries)
  obtain ⟨hterm, hflat⟩ := fitting_blocks_sent_once (blocksOf entries) hwf
  unfold sendResponse at hterm hflat
  rw [hterm] at i2
  replace i2 : (respondLoop π wireBlocks Consts.MAX_BATCH_SIZE Consts.MAX_BATCH_BLOCKS
      Consts.MAX_MESSAGE_SIZE codecMax ((blocksOf entries).length + 1) (blocksOf entries)).2 = SendResult.ok := by
    simpa using i2
  replace i1 := congrArg List.flatten i1
  rw [hflat] at i1
  have hbo := respond_blocks_only (π := π) wireBlocks Consts.MAX_BATCH_SIZE Consts.MAX_BATCH_BLOCKS P
    Consts.MAX_MESSAGE_SIZE codecMax (blocksOf entries)
  unfold nodeRespond
  rw [hbo]
  have hlen : ∀ f ∈ (respondLoop π wireBlocks Consts.MAX_BATCH_SIZE Consts.MAX_BATCH_BLOCKS
      Consts.MAX_MESSAGE_SIZE codecMax ((blocksOf entries).length + 1) (blocksOf entries)).1,
      f.len ≤ Consts.MAX_MESSAGE_SIZE := fun f hf => (i3 f hf).1
  rcases respond_cases wireBlocks Consts.MAX_BATCH_SIZE Consts.MAX_BATCH_BLOCKS P Consts.MAX_MESSAGE_SIZE
    codecMax entries with ⟨_, he⟩ | ⟨_, _, _, he⟩ | ⟨l, _, hle, _, he⟩ | ⟨l, _, hle, hgt, _⟩
  · rw [he]; exact ⟨i2, ⟨[], rfl, Or.inl rfl⟩, i1, hlen⟩
  · rw [he]; exact ⟨i2, ⟨[], rfl, Or.inl rfl⟩, i1, hlen⟩
  · rw [he]
    refine ⟨i2, ⟨[Frame.presences (presencesOf entries) l], rfl, Or.inr ⟨l, rfl⟩⟩, ?_, ?_⟩
    · simpa only [blockBatches] using i1
    · intro f hf
      simp only [List.mem_cons] at hf
      rcases hf with rfl | hf
      · exact hle
      · exact hlen f hf
  · omega

/-- Non-vacuity: a response of two presences around two blocks under the configured codec; the
arithmetic of an oversized presence list on the real constants (110 000 `DontHave` entries for 36-byte
CIDs need 2 + 110000·42 bytes > `MAX_MESSAGE_SIZE`); and, with small limits, such a list skipped while
the blocks still go out — against the variant of the code without the guard modelled by a guard limit
above the codec's (`maxMsg = 1000`, `codecMax = 83`): the write fails and nothing is sent. -/
example :
    let c : Cid := ⟨1, 0x55, 0x12, List.replicate 32 0⟩
    (Consts.MAX_MESSAGE_SIZE ≤ Consts.MAX_MESSAGE_SIZE) ∧
    ((nodeRespond wirePres Consts.MAX_MESSAGE_SIZE
        [.presence (c, 1), .block (c, [1, 2, 3]), .presence (c, 0), .block (c, [])]).1.map Frame.len,
      (nodeRespond wirePres Consts.MAX_MESSAGE_SIZE
        [.presence (c, 1), .block (c, [1, 2, 3]), .presence (c, 0), .block (c, [])]).2) = ([84, 23], .ok) ∧
    Consts.MAX_MESSAGE_SIZE < 2 + 110000 * presenceEntryLen 36 1 ∧
    respond lenPres lenPair 20 8 83 83 [.presence (36, 1), .block (4, 10), .presence (36, 0), .block (4, 11)] =
      ([.blocks [(4, 10)] 22, .blocks [(4, 11)] 23], .ok) ∧
    respond lenPres lenPair 20 8 1000 83 [.presence (36, 1), .block (4, 10), .presence (36, 0), .block (4, 11)] =
      ([], .writeError) := by
  decide

/-! ## Protocol level: the event loop around `send_response` (`Model/Bitswap/Proto.lean`)

A response handed to the protocol (`BitswapHandle::send_response`) is written by calls of
`send_response` on a substream. The theorems below say which calls are made in ANY history of
connection / substream / dial events, user commands and write failures at any message index. -/
section ProtoLevel
open Proto

/-- Small limits for the examples: 10 data bytes per batch, 4 blocks per batch, 100-byte messages;
`WRITE_TIMEOUT` = 15 000 ms. -/
def toyL : Limits := ⟨10, 4, 100, 100, 15000⟩
def toyK : Kind := ⟨1, 85, 18, 32⟩
/-- three blocks of 6 bytes: one message each under `toyL` -/
def toyR : List REntry := [.block ⟨toyK, 4, 6, 1⟩, .block ⟨toyK, 4, 6, 2⟩, .block ⟨toyK, 4, 6, 3⟩]

/-- **Every (re)transmission carries the whole response, from its first message.** In every history
that starts with the empty protocol state, each call of `send_request` / `send_response` the protocol
makes is for an action exactly as the user handed it over (never for a part of one), the messages the
substream accepted are the first messages of the complete sequence for that action (so within one call
every block is written at most once and in order, by `fitting_blocks_sent_once`), a call that returns
`Ok` wrote all of them, and a call that fails wrote a strict prefix. In particular, when a cached
substream fails in the middle of a response, the retry over the next substream starts again with the
first message of the response: nothing that the failed substream did not take is skipped. -/
theorem response_delivered_or_dropped_whole (L : Limits) (ops : List Op) (t : Attempt)
    (h : t ∈ (run L {} ops).2) :
    t.action ∈ handed ops ∧
    t.written = (actionFrames L t.action).1.take t.written.length ∧
    (t.ok = true → t.written = (actionFrames L t.action).1) ∧
    (t.ok = false → t.written.length < (actionFrames L t.action).1.length ∨ (actionFrames L t.action).2 = false) := by
  refine ⟨?_, run_wf L ops {} t h⟩
  rcases run_attempts L ops {} t h with h | h
  · simp [St.queued, queuedIn] at h
  · exact h

/-- Non-vacuity: a response of three messages over a cached substream that fails at the second
message, then a fresh substream: two calls, the first wrote one message and failed, the second wrote
all three. -/
example :
    ((run toyL {} [.conn 1 true, .command 1 (.response []), .subopen 0 none 0 [], .plan 0 (some 1) 0 [],
        .command 1 (.response toyR), .subopen 1 none 0 []]).2.map fun t => (t.sub, t.written.length, t.ok)) =
      [(0, 0, true), (0, 1, false), (1, 3, true)] := by
  decide

/-- **A failed cached substream: the whole action takes the slow path.** If the peer has a cached
outbound substream and the call on it fails, then afterwards the substream is no longer cached and
the action — as handed over — is the last entry of the peer's queue (a substream or a dial has been
requested), except when no substream can be had at all (`open_substream` fails and `dial` answers
`AlreadyConnected` or an error): then the peer's queue is dropped as a whole. -/
theorem cached_failure_requeues_whole (L : Limits) (st : St) (p s : Nat) (a : Action)
    (hc : alookup p st.outbound = some s) (hf : (attempt L s (st.far s) a).1.ok = false) :
    alookup p (onCommand L st p a).1.outbound = none ∧
    ((∃ q, alookup p (onCommand L st p a).1.pendingOutbound = some (q ++ [a])) ∨
     alookup p (onCommand L st p a).1.pendingOutbound = none) := by
  unfold onCommand
  simp only [hc, hf, Bool.false_eq_true, if_false]
  refine ⟨?_, ?_⟩
  · have : ∀ (st0 : St), (enqueue st0 p a).1.outbound = st0.outbound := by
      intro st0
      unfold enqueue
      split
      · rfl
      · unfold openSubstreamOrDial
        split
        · rename_i st1 s1 heq
          unfold openSubstream at heq
          split at heq
          · simp only [Option.some.injEq, Prod.mk.injEq] at heq
            rw [← heq.1]
          · simp at heq
        · split <;> rfl
    rw [this]
    exact alookup_aerase_self _ _
  · rcases enqueue_lookup ({ (st.setFar s (attempt L s (st.far s) a).2).dropSub s with
        outbound := aerase p st.outbound }) p a with h | h
    · exact Or.inl h
    · exact Or.inr h.1

/-- Non-vacuity: the state after the failing call of the example above. -/
example :
    let st := (run toyL {} [.conn 1 true, .command 1 (.response []), .subopen 0 none 0 [], .plan 0 (some 1) 0 []]).1
    alookup 1 st.outbound = some 0 ∧ (attempt toyL 0 (st.far 0) (.response toyR)).1.ok = false ∧
    alookup 1 (onCommand toyL st 1 (.response toyR)).1.pendingOutbound = some [.response toyR] ∧
    (onCommand toyL st 1 (.response toyR)).1.pendingSubstreams = [(1, 1)] := by
  decide

/-- **A fresh substream gets the queue in order.** When an outbound substream opens for a peer with
queued actions, the calls made on it are for the first actions of the queue in queue order, each for
the action as queued (whole); every call but the last returned `Ok`; the queue entry is removed in any
case, and the substream is cached iff every queued action was sent (otherwise it is dropped together
with the rest of the queue). -/
theorem fresh_substream_runs_queue_in_order (L : Limits) (st : St) (p s : Nat) (f : Far) (q : List Action)
    (hq : alookup p st.pendingOutbound = some q) :
    (onOutboundSubstream L st p s f).2.attempts.map (·.action) =
      q.take (onOutboundSubstream L st p s f).2.attempts.length ∧
    (∀ t ∈ (onOutboundSubstream L st p s f).2.attempts, t.sub = s) ∧
    (∀ t ∈ (onOutboundSubstream L st p s f).2.attempts.dropLast, t.ok = true) ∧
    alookup p (onOutboundSubstream L st p s f).1.pendingOutbound = none ∧
    (alookup p (onOutboundSubstream L st p s f).1.outbound = some s ↔
      (alookup p st.outbound = some s ∨
       ((onOutboundSubstream L st p s f).2.attempts.length = q.length ∧
        ∀ t ∈ (onOutboundSubstream L st p s f).2.attempts, t.ok = true))) := by
  have hA : (onOutboundSubstream L st p s f).2.attempts = (runActions L s f q).1 := by
    unfold onOutboundSubstream
    simp only [hq]
    split <;> rfl
  rw [hA]
  refine ⟨runActions_actions L s q f, fun t ht => (runActions_wf L s q f t ht).2, (runActions_ok L s q f).1, ?_, ?_⟩
  · unfold onOutboundSubstream
    simp only [hq]
    split <;> exact alookup_aerase_self _ _
  · rw [← (runActions_ok L s q f).2]
    unfold onOutboundSubstream
    simp only [hq]
    split
    · rename_i hok
      simp only [hok, or_true, iff_true]
      exact alookup_ainsert_self _ _ _
    · rename_i hok
      simp only [hok, Bool.false_eq_true, or_false]

/-- Non-vacuity: two queued responses, the fresh substream fails at its fifth message: the first
response is sent completely, the second from its first message up to the failure; nothing is cached. -/
example :
    let st := (run toyL {} [.conn 1 true, .command 1 (.response toyR), .command 1 (.response toyR)]).1
    alookup 1 st.pendingOutbound = some [.response toyR, .response toyR] ∧
    ((onOutboundSubstream toyL st 1 0 ⟨some 4, 0, false, []⟩).2.attempts.map fun t => (t.written.length, t.ok)) =
      [(3, true), (1, false)] ∧
    (onOutboundSubstream toyL st 1 0 ⟨some 4, 0, false, []⟩).1.outbound = [] := by
  decide

/-- **Nothing else touches the queue.** The operations that are neither a user command nor one of
the events `SubstreamOpened(outbound)`, `SubstreamOpenFailure`, `ConnectionClosed`, `DialFailure`,
`ConnectionEstablished` (in particular inbound frames, whole or arriving in pieces) leave
`pending_outbound` as it is: a queued response is dropped only where the
handlers say so (dial failure, substream-open failure, connection closed, a failed `open_substream`
after the dial, a failed call on the fresh substream, no way to get a substream at all). -/
theorem queue_untouched_by_other_events (L : Limits) (st : St) (op : Op)
    (h : match op with
      | .view _ _ | .conndead _ | .plan _ _ _ _ | .insub _ | .inmsg _ _ | .inhold _ | .inrest _ _ | .inend _ => True
      | _ => False) :
    (step L st op).1.pendingOutbound = st.pendingOutbound := by
  cases op with
  | view p v => rfl
  | conndead p => simp only [step]; split <;> rfl
  | plan s b o ds =>
    simp only [step]
    split
    · rfl
    · split <;> rfl
  | insub p => simp only [step]; split <;> rfl
  | inmsg k d =>
    simp only [step]
    split
    · rfl
    · split
      · rfl
      · split <;> rfl
  | inhold k =>
    simp only [step]
    split
    · rfl
    · split <;> rfl
  | inrest k d =>
    simp only [step]
    split
    · rfl
    · split
      · split <;> rfl
      · rfl
  | inend k => simp only [step]; split <;> rfl
  | conn _ _ => exact absurd h (by simp)
  | disc _ => exact absurd h (by simp)
  | dialfail _ => exact absurd h (by simp)
  | subopen _ _ _ _ => exact absurd h (by simp)
  | subfail _ => exact absurd h (by simp)
  | command _ _ => exact absurd h (by simp)

/-- Non-vacuity: a queued response survives a manager-view change, a dead command channel and an
inbound substream, and is dropped by the dial failure. -/
example :
    ((run toyL {} [.command 2 (.response toyR), .view 2 .dialing, .conn 1 true, .insub 1, .conndead 1]).1.pendingOutbound,
     (run toyL {} [.command 2 (.response toyR), .view 2 .dialing, .conn 1 true, .insub 1, .conndead 1,
        .dialfail 2]).1.pendingOutbound) = ([(2, [.response toyR])], []) := by
  decide

/-! ### time: `WRITE_TIMEOUT` is a budget per message

Every `substream.send_framed(message)` in `send_request` / `send_response` runs under its own
`tokio::time::timeout(WRITE_TIMEOUT, ..)`. Neither a call of `send_response`, nor the flush of the queue in
`on_outbound_substream`, nor an iteration of the event loop has a time limit of its own. The far end of a
substream takes `Far.delays` (ms, one entry per further message, the last repeats) to accept a message;
`Far.Timely wt`: it refuses nothing and none of these exceeds `wt`. -/

/-- **Only single messages time out.** Over a far end that accepts every message within `WRITE_TIMEOUT`
a call of `send_request` / `send_response` writes ALL messages of its action — for a response: every
block that fits a message, once and in order (`blocks_sent_regardless_of_presences`) — and returns what
the codec says (`Ok` unless a message exceeds the codec's limit, which the configured codec never sees),
leaves no partial message, takes the sum of the messages' times — no hypothesis bounds that sum: it may
exceed `WRITE_TIMEOUT` any number of times —, and leaves the far end as timely as it was (the substream
stays usable for the next call). -/
theorem per_frame_timeout_only (L : Limits) (s : Nat) (f : Far) (a : Action) (h : f.Timely L.writeTimeout) :
    (attempt L s f a).1.written = (actionFrames L a).1 ∧
    (attempt L s f a).1.ok = (actionFrames L a).2 ∧
    (attempt L s f a).1.partialBytes = 0 ∧
    (attempt L s f a).1.elapsed = elapsedOf f.delays (actionFrames L a).1.length ∧
    (attempt L s f a).2.Timely L.writeTimeout :=
  attempt_timely L s f a h

/-- Non-vacuity: three messages at 6 s each over a cached substream — 18 s > `WRITE_TIMEOUT` = 15 s in
total, all three written, `Ok`; and five at 14.999 s. -/
example :
    (Far.Timely toyL.writeTimeout ⟨none, 0, false, [6000]⟩) ∧
    ((fun t : Attempt => (t.written.length, t.ok, t.elapsed))
      (attempt toyL 0 ⟨none, 0, false, [6000]⟩ (.response toyR)).1) = (3, true, 18000) ∧
    ((fun t : Attempt => (t.written.length, t.ok, t.elapsed))
      (attempt toyL 0 ⟨none, 0, false, [14999]⟩ (.response (toyR ++ toyR.take 2))).1) = (5, true, 74995) := by
  refine ⟨⟨rfl, by decide⟩, by decide, by decide⟩

/-- **A slow link gets the whole queue.** When the outbound substream opens for a peer with queued
actions (queued while the substream was being opened or the peer dialled) and its far end accepts every
message within `WRITE_TIMEOUT`, then — however long the flush takes as a whole — every queued action is
sent completely and in queue order (each call writes all messages of its action and returns `Ok`),
nothing stays queued, and the substream is cached. (`hc`: no message exceeds the codec's limit.) -/
theorem slow_link_flushes_whole_queue (L : Limits) (st : St) (p s : Nat) (f : Far) (q : List Action)
    (hq : alookup p st.pendingOutbound = some q) (hf : f.Timely L.writeTimeout)
    (hc : ∀ a ∈ q, (actionFrames L a).2 = true) :
    (onOutboundSubstream L st p s f).2.attempts.map (fun t => (t.action, t.written, t.ok)) =
      q.map (fun a => (a, (actionFrames L a).1, true)) ∧
    alookup p (onOutboundSubstream L st p s f).1.pendingOutbound = none ∧
    alookup p (onOutboundSubstream L st p s f).1.outbound = some s := by
  obtain ⟨h1, h2⟩ := runActions_timely L s q f hf hc
  unfold onOutboundSubstream
  simp only [hq, h2, if_true]
  exact ⟨h1, alookup_aerase_self _ _, alookup_ainsert_self _ _ _⟩

/-- Non-vacuity: a request and a response of three messages queued during the dial, the fresh substream
takes 5.001 s per message — 20 s in all: four messages in two calls, the substream is cached. -/
example :
    let st := (run toyL {} [.command 2 (.request [⟨toyK, 36, 7, 0⟩]), .command 2 (.response toyR), .conn 2 true]).1
    alookup 2 st.pendingOutbound = some [.request [⟨toyK, 36, 7, 0⟩], .response toyR] ∧
    ((onOutboundSubstream toyL st 2 0 ⟨none, 0, false, [5001]⟩).2.attempts.map
      fun t => (t.written.length, t.ok, t.elapsed)) = [(1, true, 5001), (3, true, 15003)] ∧
    (onOutboundSubstream toyL st 2 0 ⟨none, 0, false, [5001]⟩).1.outbound = [(2, 0)] := by
  decide

/-- **A message slower than `WRITE_TIMEOUT` fails its call** (`Error::Timeout`): if the far end refuses
nothing, accepts the first `j` messages of the action in time and takes longer than `WRITE_TIMEOUT` for
the next one, the call writes exactly those `j` messages, no byte of the slow one, and returns an error
(the cached substream is then dropped and the action re-queued — `cached_failure_requeues_whole` —, a
fresh one is dropped with the rest of the queue — `fresh_substream_runs_queue_in_order`). -/
theorem frame_over_timeout_fails_call (L : Limits) (s : Nat) (f : Far) (a : Action) (j : Nat)
    (hb : f.budget = none) (hj : j < (actionFrames L a).1.length)
    (hpre : timely L.writeTimeout f.delays j = j)
    (hlate : L.writeTimeout < delayHead (delaysAfter j f.delays)) :
    (attempt L s f a).1.written = (actionFrames L a).1.take j ∧
    (attempt L s f a).1.ok = false ∧
    (attempt L s f a).1.partialBytes = 0 := by
  have ht := timely_late j hpre hlate hj
  have hne : (j == (actionFrames L a).1.length) = false := by
    simp only [beq_eq_false_iff_ne, ne_eq]; omega
  simp only [attempt, Far.take, Far.partialOf, hb, ht, hne, Bool.false_and, and_self]

/-- Non-vacuity: 6 s, 6 s, then 15.001 s: two of the three messages are written, the call fails. -/
example :
    timely toyL.writeTimeout [6000, 6000, 15001] 2 = 2 ∧
    toyL.writeTimeout < delayHead (delaysAfter 2 [6000, 6000, 15001]) ∧
    ((fun t : Attempt => (t.written.length, t.ok, t.elapsed))
      (attempt toyL 0 ⟨none, 0, false, [6000, 6000, 15001]⟩ (.response toyR)).1) = (2, false, 12000) := by
  decide

end ProtoLevel

section CommandChannel
open Proto Cmd Litep2pVerif.Kad.Events

/-- **A response handed to `send_response` is never dropped on the way to the event loop.** Whatever the capacity
(`> 0`) of the command channel and however many commands the user hands over while `run()` is not polled - the
channel fills up and the user's `send(..).await` suspends holding the next command -, once the loop runs it
receives exactly the commands handed over, each once, in that order, and nothing is left in the channel; the
protocol state (and what was dialled / opened / written) is therefore that of handling all of them in order. -/
theorem response_command_never_dropped (L : Limits) (cap : Nat) (hcap : 0 < cap) (st : St) (cmds : List Command) :
    received cap cmds = cmds ∧
    (heldThenDrained ({ cap := cap } : Chan Command) cmds).pending = 0 ∧
    burst L cap st cmds = handleAll L st cmds := by
  have h := heldThenDrained_got cap hcap cmds
  refine ⟨h.1, h.2, ?_⟩
  unfold burst
  rw [show received cap cmds = cmds from h.1]

/-- Non-vacuity: capacity 2, five responses: the user suspends after two, the loop receives all five in order; with
`try_send` (the seeded change) it receives two. -/
example :
    let cmds : List Command := (List.range 5).map fun i => (1, Action.response [.block ⟨⟨1, 85, 18, 32⟩, 36, 1 + i, 0⟩])
    suspendedAt 2 cmds = some 2 ∧ received 2 cmds = cmds ∧ (receivedTry 2 cmds).length = 2 ∧
    (burst ⟨100, 100, 1000, 1000, 15000⟩ 2 {} cmds).1.pendingOutbound.map (fun e => e.2.length) = [5] := by decide

end CommandChannel

#print axioms response_command_never_dropped
#print axioms cid_self_certifying
#print axioms malformed_dropped
#print axioms prefix_roundtrip
#print axioms batches_partition
#print axioms batch_size_bound_partial
#print axioms batch_size_bound
#print axioms fitting_blocks_sent_once
#print axioms batch_oversize_witness
#print axioms presence_within_limit
#print axioms blocks_sent_regardless_of_presences
#print axioms response_delivered_or_dropped_whole
#print axioms cached_failure_requeues_whole
#print axioms fresh_substream_runs_queue_in_order
#print axioms queue_untouched_by_other_events
#print axioms per_frame_timeout_only
#print axioms slow_link_flushes_whole_queue
#print axioms frame_over_timeout_fails_call

end Litep2pVerif.Props.C20

/-! ## Wiring — bitswap's registration

Over the wiring model `Model/Node/Wiring.lean` (`Node.new c` = `Litep2p::new(ConfigBuilder…build())`, `notes` / `tcpHeld` =
what the constructed protocol objects / the TCP transport hold, `protocolCodec` = `ProtocolSet::protocol_codec`), tied to
the real code by the `node` area: real nodes built through the public API print what the CONSTRUCTED objects hold and what
a connection's `ProtocolSet` answers for every main and fallback name; the driver prints the model's; compared exactly. -/
namespace Litep2pVerif.Props.C20.Wiring
open Litep2pVerif Litep2pVerif.Node

/-- Kademlia setter calls of the sample: a later call overrides an earlier one; zero bounds. -/
def sampleSets : List KadSet := [.maxRecords 5, .replication 3, .maxRecords 0, .maxProviderKeys 0, .validationMode false]

/-- A configuration with fallback names, zero store bounds and non-default transport settings (non-vacuity examples). -/
def sample : Config :=
  { keepAliveMs := some 600, listen := [1],
    notif := [{ name := "/n/new", max := 32, handshake := "01", fallback := ["/n/a"], mode := 'a', sync := some 7, async := none,
                dial := some false }],
    rr := [{ name := "/r/new", max := 256, timeoutMs := 800, fallback := ["/r/a", "/r/b"], maxInbound := some 3 }],
    user := [⟨"/u/a", .identity 8⟩],
    kad := [{ names := ["/k/2", "/k/1"], max := some 2048,
              sets := sampleSets }],
    ping := some 1, identify := true, bitswap := true, maxParallelDials := some 0,
    tcpSets := [.readAhead 3, .parallelDials 7, .writeBuffer 4] }

/-- An enabled bitswap is registered under its name as a keep-alive protocol with the varint codec bounded by
`MAX_MESSAGE_SIZE` — the bound the batch limits of this property are proved against —, that is the codec a connection answers
for its name, and its protocol object is constructed. -/
theorem bitswap_config_reaches_protocol (c : Config) (w : Wired) (h : Node.new c = .ok w) (hb : c.bitswap = true) :
    (∃ r ∈ w.regs, r.name = bitswapName ∧ r.codec = .varint (some Consts.BITSWAP_MAX_MESSAGE_SIZE) ∧ r.keepAlive = true) ∧
    protocolCodec w.regs bitswapName = some (.varint (some Consts.BITSWAP_MAX_MESSAGE_SIZE)) ∧
    Note.bitswap ∈ notes (build c) := by
  obtain ⟨hreg, _, rfl⟩ := wire_ok h
  have hm := bitswap_mem_registrations (build c) hb
  exact ⟨⟨_, hm, rfl, rfl, rfl⟩, (protocolSet_of_claim hreg hm (by simp [Registration.claims])).1, notes_bitswap_mem _ hb⟩

example : ∃ w, Node.new sample = .ok w ∧ protocolCodec w.regs bitswapName = some (.varint (some 4194304)) :=
  ⟨_, rfl, by decide⟩

end Litep2pVerif.Props.C20.Wiring

#print axioms Litep2pVerif.Props.C20.Wiring.bitswap_config_reaches_protocol
