import Litep2pVerif.Proofs.ReqResp.Final
/-!
# C13 — Every request gets exactly one terminal outcome with the matching payload

Property theorems only (model: `Model/ReqResp/Ledger.lean`, lemmas: `Proofs/ReqResp/*.lean`).
`Reach m s`: `s` is reachable from the initial state (inbound limit `m`) by any interleaving of user
commands, transport events and future completions allowed by `Allowed` (fresh substream ids,
substream events name the right peer, only existing futures complete, `Canceled` only after the
cancel channel fired, a response only if the responder wrote it on that substream).
Ghost history components of the state: `issued` (requests handed to the protocol), `opened`
(substream id ↦ request, one entry per successful `open_substream`), `sentOn` (substreams on which a
request future was started), `written` (the payload that future writes), `wire` (what the responder wrote on a substream), `log` (events).
-/
namespace Litep2pVerif.Props.C13
open Litep2pVerif Litep2pVerif.ReqResp

/-- **Inbound bound.** With `max_concurrent_inbound_requests = n`, in every reachable state the
inbound requests being read plus those waiting for the user's answer number at most `n`. -/
theorem inbound_bound (n : Nat) (s : State) (h : Reach (some n) s) :
    s.pendingInboundRequests.length + s.pendingOutboundResponses.length ≤ n :=
  (reach_inbound_bound n s h).2

/-- Non-vacuity: limit 1, two inbound substreams from a connected peer: the second is refused. -/
example :
    let s := [Input.connectionEstablished 1 (fun _ => .error .closed), .inboundSubstream 1, .inboundSubstream 1].foldl
      step (init (some 1))
    s.pendingInboundRequests = [⟨1, 0⟩] ∧ s.nextRid = 1 := by decide

/-- **Cancel window.** A cancel for a request whose future is not in flight (still waiting for the
dial or the substream, or already finished: `rid ∉ pending_outbound_cancels`) changes nothing at
all. A cancel in the window fires the cancel channel and produces no event; the future then may
finish as `Canceled`, and that completion produces no event either. -/
theorem cancel_effect (s : State) (rid : Rid) :
    (rid ∉ s.pendingCancels → onCancelRequest s rid = s) ∧
    (rid ∈ s.pendingCancels → onCancelRequest s rid =
      { s with pendingCancels := s.pendingCancels.erase rid, cancelSent := s.cancelSent ++ [rid] }) ∧
    (∀ f, (onSubstreamEvent s f (.error .canceled)).log = s.log) :=
  ⟨cancel_noop s rid, cancel_effective s rid, canceled_no_event s⟩

/-- Non-vacuity: a cancel before the substream is open is ignored, after it it takes effect. -/
example :
    let s0 := [Input.connectionEstablished 1 (fun _ => .error .closed),
      .send 1 ⟨⟨3, 0⟩, none⟩ .reject (.ok ()) (.ok 0)].foldl step (init none)
    let s1 := step s0 (.outboundSubstream 1 0 none)
    (step s0 (.cancel 0)).cancelSent = [] ∧ (step s1 (.cancel 0)).cancelSent = [0] := by decide

/-- **At most one terminal event.** In every reachable state, every request id has at most one
`ResponseReceived`/`RequestFailed` event in the log of events handed to the user. -/
theorem at_most_one_terminal (m : Option Nat) (s : State) (h : Reach m s) (r : Rid) :
    terminals s.log r ≤ 1 :=
  (reach_inv m s h).terminals_le_one r

/-- Non-vacuity: a request answered by the responder, then the connection closes: one event. -/
example :
    let s := [Input.connectionEstablished 1 (fun _ => .error .closed), .send 1 ⟨⟨3, 0⟩, none⟩ .reject (.ok ()) (.ok 0),
      .outboundSubstream 1 0 none, .responderWrites 0 ⟨2, 9⟩, .futureDone ⟨1, 0, 0⟩ (.response ⟨2, 9⟩),
      .connectionClosed 1].foldl step (init none)
    terminals s.log 0 = 1 ∧ s.log = [.responseReceived 1 0 ⟨2, 9⟩] := by decide

/-- **Ledger.** In every reachable state, every request the user issued (`issuedCount = 1`; ids that
were never issued have 0 everywhere) is in exactly one of four places: waiting in its peer's dial
queue, registered as active with its peer, finished with exactly one terminal event, or finished
silently by a cancel that took effect (`cancelDone`, which implies the cancel channel fired).
Moreover it is in at most one of dial queue / pending substream / request future, and a request
waiting for its substream is registered as active with that very peer.
(False before the per-peer dial queue: the second request queued for a peer erased the first.) -/
theorem request_located (m : Option Nat) (s : State) (h : Reach m s) (r : Rid) :
    terminals s.log r + dialCount s r + activeCount s r + s.cancelDone.count r = issuedCount s r ∧
    issuedCount s r ≤ 1 ∧
    dialCount s r + outCount s r + futCount s r ≤ 1 ∧
    (r ∈ s.cancelDone → r ∈ s.cancelSent) ∧
    (∀ e ∈ s.pendingOutbound, ∃ pc, alFind e.2.peer s.peers = some pc ∧ e.2.rid ∈ pc.active) :=
  let i := reach_inv m s h
  ⟨i.ledger r, i.issuedLe r, i.excl r, i.cancelSub r, i.owned⟩

/-- Non-vacuity (§8-k): three requests while the peer is being dialed are all queued, and all fail
once the dial fails. -/
example :
    let s := [Input.send 1 ⟨⟨3, 0⟩, none⟩ .dial (.ok ()) (.error .noPeer), .send 1 ⟨⟨4, 1⟩, none⟩ .dial (.ok ()) (.error .noPeer),
      .send 1 ⟨⟨5, 2⟩, none⟩ .dial (.ok ()) (.error .noPeer)].foldl step (init none)
    (dialCount s 0, dialCount s 1, dialCount s 2) = (1, 1, 1) ∧
    (let s' := step s (.dialFailure 1); (terminals s'.log 0, terminals s'.log 1, terminals s'.log 2) = (1, 1, 1)) := by
  decide

/-- **Owner invariant.** In every reachable state the peers are registered once, and every request
id in a peer's `active` set is waited for by a pending substream that was opened to that very peer or
by a request future filed under that very peer (so a transport event or a future completion that
settles it is still owed). -/
theorem active_owned (m : Option Nat) (s : State) (h : Reach m s) :
    (s.peers.map Prod.fst).Nodup ∧
    ∀ e ∈ s.peers, ∀ r ∈ e.2.active,
      (∃ o ∈ s.pendingOutbound, o.2.peer = e.1 ∧ o.2.rid = r) ∨
      (∃ f ∈ s.pendingInbound, f.peer = e.1 ∧ f.rid = r) :=
  let o := reach_own m s h
  ⟨o.nodup, o.owned⟩

/-- Non-vacuity: two requests to a connected peer, one waiting for its substream, one in flight. -/
example :
    let s := [Input.connectionEstablished 1 (fun _ => .error .closed), .send 1 ⟨⟨3, 0⟩, none⟩ .reject (.ok ()) (.ok 0),
      .send 1 ⟨⟨4, 1⟩, none⟩ .reject (.ok ()) (.ok 1), .outboundSubstream 1 0 none].foldl step (init none)
    (s.peers.map fun e => (e.1, e.2.active)) = [(1, [1, 0])] ∧
    s.pendingOutbound = [(1, ⟨1, 1, ⟨⟨4, 1⟩, none⟩⟩)] ∧ s.pendingInbound = [⟨1, 0, 0⟩] := by decide

/-- **Exactly one at quiescence.** In every reachable state in which the environment owes nothing
(`Quiescent`: no pending dial, no pending substream open, no request future), every issued request
has exactly one terminal event, unless a cancel took effect for it (the cancel channel fired,
`cancelSent`), in which case it has either exactly one terminal event or none and was finished by
the cancel. In particular every request whose cancel channel never fired has exactly one. -/
theorem exactly_one_at_quiescence (m : Option Nat) (s : State) (h : Reach m s) (hq : Quiescent s)
    (r : Rid) (hi : issuedCount s r = 1) :
    ((terminals s.log r = 1 ∧ s.cancelDone.count r = 0) ∨
     (terminals s.log r = 0 ∧ s.cancelDone.count r = 1 ∧ r ∈ s.cancelSent)) ∧
    (r ∉ s.cancelSent → terminals s.log r = 1) :=
  reach_exactly_one m s h hq r hi

/-- Non-vacuity: a quiescent state with one failed and one silently cancelled request. -/
example :
    let s := [Input.connectionEstablished 1 (fun _ => .error .closed), .send 1 ⟨⟨3, 0⟩, none⟩ .reject (.ok ()) (.ok 0),
      .send 2 ⟨⟨3, 1⟩, none⟩ .reject (.ok ()) (.ok 1), .outboundSubstream 1 0 none, .cancel 0,
      .futureDone ⟨1, 0, 0⟩ (.error .canceled)].foldl step (init none)
    s.pendingDials = [] ∧ s.pendingOutbound = [] ∧ s.pendingInbound = [] ∧
    issuedCount s 0 = 1 ∧ issuedCount s 1 = 1 ∧
    terminals s.log 0 = 0 ∧ s.cancelDone = [0] ∧ s.cancelSent = [0] ∧ terminals s.log 1 = 1 := by decide

/-- **Responder sees each request once.** In every reachable state, for every request id `r`:
* outbound: at most one substream was ever opened for `r` (`opened` records every successful
  `open_substream` with the request it was made for); a request future — which writes the request
  once — was started at most once, and only on a substream that was opened for exactly this request
  as it was issued; substream ids are never shared between requests; every started future writes
  exactly one payload on its substream (`written`), namely the request's main payload, or its
  fallback payload if the substream was negotiated with the request's fallback protocol;
* inbound: `r` was handed to the user (`RequestReceived`) at most once, never while it is still
  being read, inbound ids never collide with outbound request ids, and the user is asked for an
  answer only to a request it has seen. -/
theorem responder_sees_once (m : Option Nat) (s : State) (h : Reach m s) (r : Rid) :
    (openedCount s r ≤ 1 ∧ outCount s r + sentCount s r ≤ openedCount s r ∧
     (∀ o ∈ s.sentOn, o ∈ s.opened ∧ o.2 ∈ s.issued) ∧ (s.opened.map Prod.fst).Nodup ∧
     s.written.map Prod.fst = s.sentOn.map Prod.fst ∧
     (∀ w ∈ s.written, ∃ c fb, (w.1, c) ∈ s.sentOn ∧ w.2 = c.request.payloadFor fb)) ∧
    (receivedCount s.log r + inReadCount s r + issuedCount s r ≤ 1 ∧
     awaitCount s r ≤ receivedCount s.log r) := by
  have hs := reach_sub m s h
  have hb := reach_inb m s h
  have hw := reach_wr m s h
  refine ⟨⟨reach_opened_le_one m s h r, hs.sentCnt r,
    fun o ho => ⟨hs.sentSub o ho, hs.openedIssued o (hs.sentSub o ho)⟩, hs.openedNodup, hw.keys, hw.ok⟩,
    ?_, hb.await r⟩
  have := hb.once r
  omega

/-- Non-vacuity: an outbound request written on its substream, an inbound request handed over. -/
example :
    let s := [Input.connectionEstablished 1 (fun _ => .error .closed), .send 1 ⟨⟨3, 0⟩, none⟩ .reject (.ok ()) (.ok 0),
      .outboundSubstream 1 0 none, .inboundSubstream 1, .inboundRead ⟨1, 1⟩ (some ⟨5, 7⟩)].foldl step (init none)
    openedCount s 0 = 1 ∧ sentCount s 0 = 1 ∧ s.sentOn = [(0, ⟨1, 0, ⟨⟨3, 0⟩, none⟩⟩)] ∧ s.opened = s.sentOn ∧
    receivedCount s.log 1 = 1 ∧ awaitCount s 1 = 1 ∧ s.log = [.requestReceived 1 1 ⟨5, 7⟩] := by decide

/-- Non-vacuity (fallback): the substream is negotiated with the request's fallback protocol 7, the
future writes the fallback payload; negotiated with another fallback protocol, the main payload. -/
example :
    let s0 := [Input.connectionEstablished 1 (fun _ => .error .closed),
      .send 1 ⟨⟨3, 0⟩, some (7, ⟨5, 1⟩)⟩ .reject (.ok ()) (.ok 0)].foldl step (init none)
    (step s0 (.outboundSubstream 1 0 (some 7))).written = [(0, ⟨5, 1⟩)] ∧
    (step s0 (.outboundSubstream 1 0 (some 8))).written = [(0, ⟨3, 0⟩)] ∧
    (step s0 (.outboundSubstream 1 0 none)).written = [(0, ⟨3, 0⟩)] := by decide

/-- **An inbound request is handed over exactly when it was read.** The completion of the read of
an inbound request appends exactly one `RequestReceived` with the id and the bytes read if the read
succeeded and the request is still registered with its connected peer; otherwise (read failure,
connection closed in between) nothing is emitted. -/
theorem inbound_delivered (s : State) (f : InFut) (request : Option Payload) :
    (step s (.inboundRead f request)).log =
      match alFind f.peer s.peers, request with
      | some pc, some req => if f.rid ∈ pc.activeInbound then s.log ++ [.requestReceived f.peer f.rid req] else s.log
      | _, _ => s.log :=
  inboundRead_log s f request

/-- Non-vacuity: delivered once; a failed read delivers nothing. -/
example :
    let s := [Input.connectionEstablished 1 (fun _ => .error .closed), .inboundSubstream 1].foldl step (init none)
    (step s (.inboundRead ⟨1, 0⟩ (some ⟨5, 7⟩))).log = [.requestReceived 1 0 ⟨5, 7⟩] ∧
    (step s (.inboundRead ⟨1, 0⟩ none)).log = [] := by decide

/-- **Response matches.** In every reachable state, whenever `ResponseReceived{peer, rid, payload}`
is in the log there is a substream `sid` such that: `sid` was opened for exactly this request
(`(sid, ⟨peer, rid, req⟩) ∈ opened`, with `req` the payload the user issued under `rid`), the request
future was started on it, the responder wrote `payload` on `sid` (`wire`), and `sid` is the only
substream ever opened for `rid` and was opened for no other request. -/
theorem response_matches (m : Option Nat) (s : State) (h : Reach m s) (p : Peer) (r : Rid) (pl : Payload)
    (hm : Event.responseReceived p r pl ∈ s.log) :
    ∃ sid req, (sid, (⟨p, r, req⟩ : Ctx)) ∈ s.opened ∧ (sid, (⟨p, r, req⟩ : Ctx)) ∈ s.sentOn ∧
      (⟨p, r, req⟩ : Ctx) ∈ s.issued ∧ (sid, pl) ∈ s.wire ∧
      (∀ o ∈ s.opened, o.2.rid = r → o = (sid, ⟨p, r, req⟩)) ∧
      (∀ o ∈ s.opened, o.1 = sid → o = (sid, ⟨p, r, req⟩)) :=
  reach_response_matches m s h p r pl hm

/-- Non-vacuity: two requests answered in the opposite order; each response is the one written on
the substream of its own request. -/
example :
    let s := [Input.connectionEstablished 1 (fun _ => .error .closed), .send 1 ⟨⟨3, 0⟩, none⟩ .reject (.ok ()) (.ok 0),
      .send 1 ⟨⟨4, 1⟩, none⟩ .reject (.ok ()) (.ok 1), .outboundSubstream 1 0 none, .outboundSubstream 1 1 none,
      .responderWrites 1 ⟨2, 9⟩, .futureDone ⟨1, 1, 1⟩ (.response ⟨2, 9⟩),
      .responderWrites 0 ⟨6, 8⟩, .futureDone ⟨1, 0, 0⟩ (.response ⟨6, 8⟩)].foldl step (init none)
    s.log = [.responseReceived 1 1 ⟨2, 9⟩, .responseReceived 1 0 ⟨6, 8⟩] ∧
    s.opened = [(0, ⟨1, 0, ⟨⟨3, 0⟩, none⟩⟩), (1, ⟨1, 1, ⟨⟨4, 1⟩, none⟩⟩)] ∧ s.sentOn = s.opened ∧
    s.wire = [(1, ⟨2, 9⟩), (0, ⟨6, 8⟩)] := by decide

#print axioms inbound_bound
#print axioms cancel_effect
#print axioms at_most_one_terminal
#print axioms request_located
#print axioms active_owned
#print axioms exactly_one_at_quiescence
#print axioms responder_sees_once
#print axioms inbound_delivered
#print axioms response_matches

end Litep2pVerif.Props.C13
