import Litep2pVerif.Proofs.ReqResp.Ledger
/-!
# C13 — Every request gets exactly one terminal outcome with the matching payload

Property theorems only (model: `Model/ReqResp/Ledger.lean`, lemmas: `Proofs/ReqResp/*.lean`).
`Reach m s`: `s` is reachable from the initial state (inbound limit `m`) by any interleaving of user
commands, transport events and future completions allowed by `Allowed` (fresh substream ids,
substream events name the right peer, only existing futures complete, `Canceled` only after the
cancel channel fired, a response only if the responder wrote it on that substream).
-/
namespace Litep2pVerif.Props.C13
open Litep2pVerif Litep2pVerif.ReqResp

/-- **Inbound bound.** With `max_concurrent_inbound_requests = n`, in every reachable state the
inbound requests being read plus those waiting for the user's answer number at most `n`. -/
theorem inbound_bound (n : Nat) (s : State) (h : Reach (some n) s) :
    s.pendingInboundRequests.length + s.pendingOutboundResponses.length ≤ n :=
  (reach_inbound_bound n s h).2

/-- Non-vacuity: limit 1, two inbound substreams from a connected peer: the second is refused. -/
example :
    let s := [Input.connectionEstablished 1 (fun _ => .error .closed), .inboundSubstream 1, .inboundSubstream 1].foldl
      step (init (some 1))
    s.pendingInboundRequests = [⟨1, 0⟩] ∧ s.nextRid = 1 := by decide

/-- **Cancel window.** A cancel for a request whose future is not in flight (still waiting for the
dial or the substream, or already finished: `rid ∉ pending_outbound_cancels`) changes nothing at
all. A cancel in the window fires the cancel channel and produces no event; the future then may
finish as `Canceled`, and that completion produces no event either. -/
theorem cancel_effect (s : State) (rid : Rid) :
    (rid ∉ s.pendingCancels → onCancelRequest s rid = s) ∧
    (rid ∈ s.pendingCancels → onCancelRequest s rid =
      { s with pendingCancels := s.pendingCancels.erase rid, cancelSent := s.cancelSent ++ [rid] }) ∧
    (∀ f, (onSubstreamEvent s f (.error .canceled)).log = s.log) :=
  ⟨cancel_noop s rid, cancel_effective s rid, canceled_no_event s⟩

/-- Non-vacuity: a cancel before the substream is open is ignored, after it it takes effect. -/
example :
    let s0 := [Input.connectionEstablished 1 (fun _ => .error .closed),
      .send 1 ⟨3, 0⟩ .reject (.ok ()) (.ok 0)].foldl step (init none)
    let s1 := step s0 (.outboundSubstream 1 0)
    (step s0 (.cancel 0)).cancelSent = [] ∧ (step s1 (.cancel 0)).cancelSent = [0] := by decide

/-- **At most one terminal event.** In every reachable state, every request id has at most one
`ResponseReceived`/`RequestFailed` event in the log of events handed to the user. -/
theorem at_most_one_terminal (m : Option Nat) (s : State) (h : Reach m s) (r : Rid) :
    terminals s.log r ≤ 1 :=
  (reach_inv m s h).terminals_le_one r

/-- Non-vacuity: a request answered by the responder, then the connection closes: one event. -/
example :
    let s := [Input.connectionEstablished 1 (fun _ => .error .closed), .send 1 ⟨3, 0⟩ .reject (.ok ()) (.ok 0),
      .outboundSubstream 1 0, .responderWrites 0 ⟨2, 9⟩, .futureDone ⟨1, 0, 0⟩ (.response ⟨2, 9⟩),
      .connectionClosed 1].foldl step (init none)
    terminals s.log 0 = 1 ∧ s.log = [.responseReceived 1 0 ⟨2, 9⟩] := by decide

/-- **Ledger.** In every reachable state, every request the user issued (`issuedCount = 1`; ids that
were never issued have 0 everywhere) is in exactly one of four places: waiting in its peer's dial
queue, registered as active with its peer, finished with exactly one terminal event, or finished
silently by a cancel that took effect (`cancelDone`, which implies the cancel channel fired).
Moreover it is in at most one of dial queue / pending substream / request future, and a request
waiting for its substream is registered as active with that very peer.
(False before the per-peer dial queue: the second request queued for a peer erased the first.) -/
theorem request_located (m : Option Nat) (s : State) (h : Reach m s) (r : Rid) :
    terminals s.log r + dialCount s r + activeCount s r + s.cancelDone.count r = issuedCount s r ∧
    issuedCount s r ≤ 1 ∧
    dialCount s r + outCount s r + futCount s r ≤ 1 ∧
    (r ∈ s.cancelDone → r ∈ s.cancelSent) ∧
    (∀ e ∈ s.pendingOutbound, ∃ pc, alFind e.2.peer s.peers = some pc ∧ e.2.rid ∈ pc.active) :=
  let i := reach_inv m s h
  ⟨i.ledger r, i.issuedLe r, i.excl r, i.cancelSub r, i.owned⟩

/-- Non-vacuity (§8-k): three requests while the peer is being dialed are all queued, and all fail
once the dial fails. -/
example :
    let s := [Input.send 1 ⟨3, 0⟩ .dial (.ok ()) (.error .noPeer), .send 1 ⟨4, 1⟩ .dial (.ok ()) (.error .noPeer),
      .send 1 ⟨5, 2⟩ .dial (.ok ()) (.error .noPeer)].foldl step (init none)
    (dialCount s 0, dialCount s 1, dialCount s 2) = (1, 1, 1) ∧
    (let s' := step s (.dialFailure 1); (terminals s'.log 0, terminals s'.log 1, terminals s'.log 2) = (1, 1, 1)) := by
  decide

/-- **Exactly one at quiescence** (partial). Full statement: in every reachable state in which the
environment owes nothing (`Quiescent`: no pending dial, no pending substream open, no request
future), every issued request has exactly one terminal event unless a cancel took effect for it.
Proved here under the extra hypothesis `Owned s` (every id in some `active` set is waited for by a
pending substream or a request future). `Owned` holds in the initial state; the proof that every
handler preserves it (which needs the freshness of substream ids and that a future is filed under the
peer of its request) is not done. The oracle checks the full statement on every run. -/
theorem exactly_one_at_quiescence_partial (m : Option Nat) (s : State) (h : Reach m s) (hq : Quiescent s)
    (ho : Owned s) (r : Rid) (hi : issuedCount s r = 1) :
    (terminals s.log r = 1 ∧ s.cancelDone.count r = 0) ∨
    (terminals s.log r = 0 ∧ s.cancelDone.count r = 1 ∧ r ∈ s.cancelSent) := by
  have i := reach_inv m s h
  have h1 := i.ledger r
  have h2 := quiescent_active_zero s hq ho r
  have h3 : dialCount s r = 0 := by simp [dialCount, hq.1]
  by_cases hc : s.cancelDone.count r = 0
  · left; omega
  · right
    have : r ∈ s.cancelDone := List.count_pos_iff.mp (by omega)
    exact ⟨by omega, by omega, i.cancelSub r this⟩

/-- Non-vacuity: a quiescent, owned state with one failed and one silently cancelled request. -/
example :
    let s := [Input.connectionEstablished 1 (fun _ => .error .closed), .send 1 ⟨3, 0⟩ .reject (.ok ()) (.ok 0),
      .send 2 ⟨3, 1⟩ .reject (.ok ()) (.ok 1), .outboundSubstream 1 0, .cancel 0,
      .futureDone ⟨1, 0, 0⟩ (.error .canceled)].foldl step (init none)
    s.pendingDials = [] ∧ s.pendingOutbound = [] ∧ s.pendingInbound = [] ∧
    (s.peers.all fun e => e.2.active.isEmpty) ∧ issuedCount s 0 = 1 ∧ issuedCount s 1 = 1 ∧
    terminals s.log 0 = 0 ∧ s.cancelDone = [0] ∧ terminals s.log 1 = 1 := by decide

/-- **Responder sees each request once** (partial). In every reachable state a request id has at
most one pending substream or request future (it is never written on two substreams at a time).
The full statement (at most one substream ever, i.e. `sentOn` has at most one entry per id; each
inbound id is handed to the user at most once) is checked on every run by the oracle but not proved. -/
theorem responder_sees_once_partial (m : Option Nat) (s : State) (h : Reach m s) (r : Rid) :
    outCount s r + futCount s r ≤ 1 := by
  have := (reach_inv m s h).excl r
  omega

/-- Non-vacuity. -/
example :
    let s := [Input.connectionEstablished 1 (fun _ => .error .closed), .send 1 ⟨3, 0⟩ .reject (.ok ()) (.ok 0),
      .outboundSubstream 1 0].foldl step (init none)
    outCount s 0 + futCount s 0 = 1 ∧ s.sentOn = [(0, ⟨1, 0, ⟨3, 0⟩⟩)] := by decide

/-- **Response matches** (partial, one step). A `ResponseReceived` produced by the completion of a
request future carries the id of that future and the payload the responder wrote on the future's
substream (`Allowed` only lets a future complete with a response that is on its wire), and the
future was created for that id on that substream by `on_outbound_substream`. The statement over
whole histories (every `ResponseReceived` in the log has such a future) is not proved. -/
theorem response_matches_partial (s : State) (f : Fut) (p : Payload)
    (ha : Allowed s (.futureDone f (.response p))) :
    (f.sid, p) ∈ s.wire ∧
    ((step s (.futureDone f (.response p))).log = s.log ∨
     (step s (.futureDone f (.response p))).log = s.log ++ [.responseReceived f.peer f.rid p]) := by
  refine ⟨ha.2.2 p rfl, ?_⟩
  simp only [step, onSubstreamEvent]
  split
  · exact Or.inl rfl
  · split
    · exact Or.inr rfl
    · exact Or.inl rfl

/-- Non-vacuity. -/
example :
    let s := [Input.connectionEstablished 1 (fun _ => .error .closed), .send 1 ⟨3, 0⟩ .reject (.ok ()) (.ok 0),
      .outboundSubstream 1 0, .responderWrites 0 ⟨2, 9⟩].foldl step (init none)
    Allowed s (.futureDone ⟨1, 0, 0⟩ (.response ⟨2, 9⟩)) := by
  refine ⟨by decide, by decide, ?_⟩
  intro p hp
  cases hp
  decide

#print axioms inbound_bound
#print axioms cancel_effect
#print axioms at_most_one_terminal
#print axioms request_located
#print axioms exactly_one_at_quiescence_partial
#print axioms responder_sees_once_partial
#print axioms response_matches_partial

end Litep2pVerif.Props.C13
