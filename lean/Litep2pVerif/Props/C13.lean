import Litep2pVerif.Proofs.ReqResp.Env
import Litep2pVerif.Proofs.Node.Wiring
import Litep2pVerif.Proofs.ReqResp.Handle
import Litep2pVerif.Generated.Consts
/-!
# C13 — Every request gets exactly one terminal outcome with the matching payload

Property theorems only (model: `Model/ReqResp/Ledger.lean`, lemmas: `Proofs/ReqResp/*.lean`).
`Reach m s`: `s` is reachable from the initial state (inbound limit `m`) by any interleaving of user
commands, transport events and future completions allowed by `Allowed` (fresh substream ids,
substream events name the right peer, only existing futures complete, `Canceled` only after the
cancel channel fired, a response only if the responder wrote it on that substream).
Ghost history components of the state: `issued` (requests handed to the protocol), `opened`
(substream id ↦ request, one entry per successful `open_substream`), `sentOn` (substreams on which a
request future was started), `written` (the payload that future writes), `wire` (what the responder wrote on a substream), `log` (events).

`ReachE m e` (`Model/ReqResp/Env.lean`): the same step relation with an observer of what the transport
manager owes: `e.dialsOwed` lists the peers for which the protocol's `dial` call was answered `Ok` and
to which neither `ConnectionEstablished` nor `DialFailure` has been delivered since. The answer of
every `dial` call is an arbitrary input (`Ok`, `AlreadyConnected`, `TriedToDialSelf`,
`NoAddressAvailable`, `ChannelClogged`, `TaskClosed`), independent of what the protocol has been told
about the peer. `Model/ReqResp/Handle.lean` is the user-facing `RequestResponseHandle`.
-/
namespace Litep2pVerif.Props.C13
open Litep2pVerif Litep2pVerif.ReqResp

/-- **Inbound bound.** With `max_concurrent_inbound_requests = n`, in every reachable state the
inbound requests being read plus those waiting for the user's answer number at most `n`. -/
theorem inbound_bound (n : Nat) (s : State) (h : Reach (some n) s) :
    s.pendingInboundRequests.length + s.pendingOutboundResponses.length ≤ n :=
  (reach_inbound_bound n s h).2

/-- Non-vacuity: limit 1, two inbound substreams from a connected peer: the second is refused. -/
example :
    let s := [Input.connectionEstablished 1 (fun _ => .error .closed), .inboundSubstream 1, .inboundSubstream 1].foldl
      step (init (some 1))
    s.pendingInboundRequests = [⟨1, 0⟩] ∧ s.nextRid = 1 := by decide

/-- **Cancel window.** A cancel for a request whose future is not in flight (still waiting for the
dial or the substream, or already finished: `rid ∉ pending_outbound_cancels`) changes nothing at
all. A cancel in the window fires the cancel channel and produces no event; the future then may
finish as `Canceled`, and that completion produces no event either. -/
theorem cancel_effect (s : State) (rid : Rid) :
    (rid ∉ s.pendingCancels → onCancelRequest s rid = s) ∧
    (rid ∈ s.pendingCancels → onCancelRequest s rid =
      { s with pendingCancels := s.pendingCancels.erase rid, cancelSent := s.cancelSent ++ [rid] }) ∧
    (∀ f, (onSubstreamEvent s f (.error .canceled)).log = s.log) :=
  ⟨cancel_noop s rid, cancel_effective s rid, canceled_no_event s⟩

/-- Non-vacuity: a cancel before the substream is open is ignored, after it it takes effect. -/
example :
    let s0 := [Input.connectionEstablished 1 (fun _ => .error .closed),
      .send 1 ⟨⟨3, 0⟩, none⟩ .reject (.ok ()) (.ok 0)].foldl step (init none)
    let s1 := step s0 (.outboundSubstream 1 0 none)
    (step s0 (.cancel 0)).cancelSent = [] ∧ (step s1 (.cancel 0)).cancelSent = [0] := by decide

/-- **At most one terminal event.** In every reachable state, every request id has at most one
`ResponseReceived`/`RequestFailed` event in the log of events handed to the user. -/
theorem at_most_one_terminal (m : Option Nat) (s : State) (h : Reach m s) (r : Rid) :
    terminals s.log r ≤ 1 :=
  (reach_inv m s h).terminals_le_one r

/-- Non-vacuity: a request answered by the responder, then the connection closes: one event. -/
example :
    let s := [Input.connectionEstablished 1 (fun _ => .error .closed), .send 1 ⟨⟨3, 0⟩, none⟩ .reject (.ok ()) (.ok 0),
      .outboundSubstream 1 0 none, .responderWrites 0 ⟨2, 9⟩, .futureDone ⟨1, 0, 0⟩ (.response ⟨2, 9⟩),
      .connectionClosed 1].foldl step (init none)
    terminals s.log 0 = 1 ∧ s.log = [.responseReceived 1 0 ⟨2, 9⟩] := by decide

/-- **Ledger.** In every reachable state, every request the user issued (`issuedCount = 1`; ids that
were never issued have 0 everywhere) is in exactly one of four places: waiting in its peer's dial
queue, registered as active with its peer, finished with exactly one terminal event, or finished
silently by a cancel that took effect (`cancelDone`, which implies the cancel channel fired).
Moreover it is in at most one of dial queue / pending substream / request future, and a request
waiting for its substream is registered as active with that very peer.
(False before the per-peer dial queue: the second request queued for a peer erased the first.) -/
theorem request_located (m : Option Nat) (s : State) (h : Reach m s) (r : Rid) :
    terminals s.log r + dialCount s r + activeCount s r + s.cancelDone.count r = issuedCount s r ∧
    issuedCount s r ≤ 1 ∧
    dialCount s r + outCount s r + futCount s r ≤ 1 ∧
    (r ∈ s.cancelDone → r ∈ s.cancelSent) ∧
    (∀ e ∈ s.pendingOutbound, ∃ pc, alFind e.2.peer s.peers = some pc ∧ e.2.rid ∈ pc.active) :=
  let i := reach_inv m s h
  ⟨i.ledger r, i.issuedLe r, i.excl r, i.cancelSub r, i.owned⟩

/-- Non-vacuity (§8-k): three requests while the peer is being dialed are all queued, and all fail
once the dial fails. -/
example :
    let s := [Input.send 1 ⟨⟨3, 0⟩, none⟩ .dial (.ok ()) (.error .noPeer), .send 1 ⟨⟨4, 1⟩, none⟩ .dial (.ok ()) (.error .noPeer),
      .send 1 ⟨⟨5, 2⟩, none⟩ .dial (.ok ()) (.error .noPeer)].foldl step (init none)
    (dialCount s 0, dialCount s 1, dialCount s 2) = (1, 1, 1) ∧
    (let s' := step s (.dialFailure 1); (terminals s'.log 0, terminals s'.log 1, terminals s'.log 2) = (1, 1, 1)) := by
  decide

/-- **Owner invariant.** In every reachable state the peers are registered once, and every request
id in a peer's `active` set is waited for by a pending substream that was opened to that very peer or
by a request future filed under that very peer (so a transport event or a future completion that
settles it is still owed). -/
theorem active_owned (m : Option Nat) (s : State) (h : Reach m s) :
    (s.peers.map Prod.fst).Nodup ∧
    ∀ e ∈ s.peers, ∀ r ∈ e.2.active,
      (∃ o ∈ s.pendingOutbound, o.2.peer = e.1 ∧ o.2.rid = r) ∨
      (∃ f ∈ s.pendingInbound, f.peer = e.1 ∧ f.rid = r) :=
  let o := reach_own m s h
  ⟨o.nodup, o.owned⟩

/-- Non-vacuity: two requests to a connected peer, one waiting for its substream, one in flight. -/
example :
    let s := [Input.connectionEstablished 1 (fun _ => .error .closed), .send 1 ⟨⟨3, 0⟩, none⟩ .reject (.ok ()) (.ok 0),
      .send 1 ⟨⟨4, 1⟩, none⟩ .reject (.ok ()) (.ok 1), .outboundSubstream 1 0 none].foldl step (init none)
    (s.peers.map fun e => (e.1, e.2.active)) = [(1, [1, 0])] ∧
    s.pendingOutbound = [(1, ⟨1, 1, ⟨⟨4, 1⟩, none⟩⟩)] ∧ s.pendingInbound = [⟨1, 0, 0⟩] := by decide

/-- **Exactly one at quiescence.** In every reachable state in which the environment owes nothing
(`EnvQuiescent`: the transport manager has no accepted dial to conclude, no substream open is waited
for, no request future is running — stated over the manager's obligations, not over the protocol's
`pending_dials`), every issued request has exactly one terminal event, unless a cancel took effect
for it (the cancel channel fired, `cancelSent`), in which case it has either exactly one terminal
event or none and was finished by the cancel. In particular every request whose cancel channel never
fired has exactly one. This covers the window in which the manager still answers `AlreadyConnected`
for a peer the protocol has dropped (or never registered): whatever `dial` answers, a request is
never left parked without a dial being owed. -/
theorem exactly_one_at_quiescence (m : Option Nat) (e : EnvState) (h : ReachE m e) (hq : EnvQuiescent e)
    (r : Rid) (hi : issuedCount e.s r = 1) :
    ((terminals e.s.log r = 1 ∧ e.s.cancelDone.count r = 0) ∨
     (terminals e.s.log r = 0 ∧ e.s.cancelDone.count r = 1 ∧ r ∈ e.s.cancelSent)) ∧
    (r ∉ e.s.cancelSent → terminals e.s.log r = 1) :=
  reachE_exactly_one m e h hq r hi

/-- Non-vacuity: a quiescent state with one failed and one silently cancelled request. -/
example :
    let e := [Input.connectionEstablished 1 (fun _ => .error .closed), .send 1 ⟨⟨3, 0⟩, none⟩ .reject (.ok ()) (.ok 0),
      .send 2 ⟨⟨3, 1⟩, none⟩ .reject (.ok ()) (.ok 1), .outboundSubstream 1 0 none, .cancel 0,
      .futureDone ⟨1, 0, 0⟩ (.error .canceled)].foldl stepE (initE none)
    e.dialsOwed = [] ∧ e.s.pendingOutbound = [] ∧ e.s.pendingInbound = [] ∧
    issuedCount e.s 0 = 1 ∧ issuedCount e.s 1 = 1 ∧
    terminals e.s.log 0 = 0 ∧ e.s.cancelDone = [0] ∧ e.s.cancelSent = [0] ∧ terminals e.s.log 1 = 1 := by decide

/-- Non-vacuity (the window): the connection to peer 1 closes, the protocol is told first; a request
with `DialOptions::Dial` issued before the manager catches up is answered `AlreadyConnected` and
fails at once; the state owes nothing and the request has its one terminal event. A second request
whose dial is accepted is parked and `dialsOwed` says so until the dial fails. -/
example :
    let e := [Input.connectionEstablished 1 (fun _ => .error .closed), .connectionClosed 1,
      .send 1 ⟨⟨3, 0⟩, none⟩ .dial (.error .alreadyConnected) (.error .noPeer)].foldl stepE (initE none)
    let e' := stepE e (.send 1 ⟨⟨4, 1⟩, none⟩ .dial (.ok ()) (.error .noPeer))
    e.dialsOwed = [] ∧ e.s.pendingDials = [] ∧ terminals e.s.log 0 = 1 ∧
    e'.dialsOwed = [1] ∧ dialCount e'.s 1 = 1 ∧ terminals e'.s.log 1 = 0 ∧
    (stepE e' (.dialFailure 1)).dialsOwed = [] ∧ terminals (stepE e' (.dialFailure 1)).s.log 1 = 1 := by decide

/-- **Parked only while a dial is owed.** In every reachable state every peer with a queue in
`pending_dials` is owed the conclusion of a dial by the transport manager, and the queues have
distinct peers. -/
theorem parked_only_while_dial_owed (m : Option Nat) (e : EnvState) (h : ReachE m e) :
    (e.s.pendingDials.map Prod.fst).Nodup ∧ ∀ d ∈ e.s.pendingDials, d.1 ∈ e.dialsOwed :=
  let i := reachE_dialOwed m e h
  ⟨i.nodup, i.owed⟩

/-- Non-vacuity: two requests parked for peer 1 after one accepted dial and one "dial in progress". -/
example :
    let e := [Input.send 1 ⟨⟨3, 0⟩, none⟩ .dial (.ok ()) (.error .noPeer),
      .send 1 ⟨⟨4, 1⟩, none⟩ .dial (.ok ()) (.error .noPeer)].foldl stepE (initE none)
    (e.s.pendingDials.map fun d => (d.1, d.2.map (·.rid))) = [(1, [0, 1])] ∧ e.dialsOwed = [1, 1] := by decide

/-- **The answer of `dial` settles the request.** For a peer the protocol has not registered and
`DialOptions::Dial`: if `dial` answers `Ok` the request is parked, no event is emitted and the
manager owes the conclusion of a dial of that peer; if it answers any error the request fails at once
with `Rejected(DialFailed(Some(error)))`, nothing is parked and nothing is owed. -/
theorem dial_answer_settles (e : EnvState) (peer : Peer) (req : Request) (dialAns : Except DialErr Unit)
    (openAns : Except SubErr Sid) (hp : alFind peer e.s.peers = none) :
    match dialAns with
    | .ok _ =>
      (stepE e (.send peer req .dial dialAns openAns)).s.pendingDials =
        pushDial peer ⟨peer, e.s.nextRid, req⟩ e.s.pendingDials ∧
      (stepE e (.send peer req .dial dialAns openAns)).s.log = e.s.log ∧
      (stepE e (.send peer req .dial dialAns openAns)).dialsOwed = e.dialsOwed ++ [peer]
    | .error err =>
      (stepE e (.send peer req .dial dialAns openAns)).s.pendingDials = e.s.pendingDials ∧
      (stepE e (.send peer req .dial dialAns openAns)).s.log =
        e.s.log ++ [.requestFailed peer e.s.nextRid (.rejected (.dialFailed (some err)))] ∧
      (stepE e (.send peer req .dial dialAns openAns)).dialsOwed = e.dialsOwed :=
  send_dial_answer e peer req dialAns openAns hp

/-- Non-vacuity: every refusal of `dial` fails the request with that very error. -/
example :
    ([DialErr.noAddress, .alreadyConnected, .clogged, .triedToDialSelf, .taskClosed].map fun err =>
      (stepE (initE none) (.send 1 ⟨⟨3, 0⟩, none⟩ .dial (.error err) (.error .noPeer))).s.log) =
    [DialErr.noAddress, .alreadyConnected, .clogged, .triedToDialSelf, .taskClosed].map fun err =>
      [Event.requestFailed 1 0 (.rejected (.dialFailed (some err)))] := by decide

/-- **Responder sees each request once.** In every reachable state, for every request id `r`:
* outbound: at most one substream was ever opened for `r` (`opened` records every successful
  `open_substream` with the request it was made for); a request future — which writes the request
  once — was started at most once, and only on a substream that was opened for exactly this request
  as it was issued; substream ids are never shared between requests; every started future writes
  exactly one payload on its substream (`written`), namely the request's main payload, or its
  fallback payload if the substream was negotiated with the request's fallback protocol;
* inbound: `r` was handed to the user (`RequestReceived`) at most once, never while it is still
  being read, inbound ids never collide with outbound request ids, and the user is asked for an
  answer only to a request it has seen. -/
theorem responder_sees_once (m : Option Nat) (s : State) (h : Reach m s) (r : Rid) :
    (openedCount s r ≤ 1 ∧ outCount s r + sentCount s r ≤ openedCount s r ∧
     (∀ o ∈ s.sentOn, o ∈ s.opened ∧ o.2 ∈ s.issued) ∧ (s.opened.map Prod.fst).Nodup ∧
     s.written.map Prod.fst = s.sentOn.map Prod.fst ∧
     (∀ w ∈ s.written, ∃ c fb, (w.1, c) ∈ s.sentOn ∧ w.2 = c.request.payloadFor fb)) ∧
    (receivedCount s.log r + inReadCount s r + issuedCount s r ≤ 1 ∧
     awaitCount s r ≤ receivedCount s.log r) := by
  have hs := reach_sub m s h
  have hb := reach_inb m s h
  have hw := reach_wr m s h
  refine ⟨⟨reach_opened_le_one m s h r, hs.sentCnt r,
    fun o ho => ⟨hs.sentSub o ho, hs.openedIssued o (hs.sentSub o ho)⟩, hs.openedNodup, hw.keys, hw.ok⟩,
    ?_, hb.await r⟩
  have := hb.once r
  omega

/-- Non-vacuity: an outbound request written on its substream, an inbound request handed over. -/
example :
    let s := [Input.connectionEstablished 1 (fun _ => .error .closed), .send 1 ⟨⟨3, 0⟩, none⟩ .reject (.ok ()) (.ok 0),
      .outboundSubstream 1 0 none, .inboundSubstream 1, .inboundRead ⟨1, 1⟩ (some ⟨5, 7⟩)].foldl step (init none)
    openedCount s 0 = 1 ∧ sentCount s 0 = 1 ∧ s.sentOn = [(0, ⟨1, 0, ⟨⟨3, 0⟩, none⟩⟩)] ∧ s.opened = s.sentOn ∧
    receivedCount s.log 1 = 1 ∧ awaitCount s 1 = 1 ∧ s.log = [.requestReceived 1 1 ⟨5, 7⟩] := by decide

/-- Non-vacuity (fallback): the substream is negotiated with the request's fallback protocol 7, the
future writes the fallback payload; negotiated with another fallback protocol, the main payload. -/
example :
    let s0 := [Input.connectionEstablished 1 (fun _ => .error .closed),
      .send 1 ⟨⟨3, 0⟩, some (7, ⟨5, 1⟩)⟩ .reject (.ok ()) (.ok 0)].foldl step (init none)
    (step s0 (.outboundSubstream 1 0 (some 7))).written = [(0, ⟨5, 1⟩)] ∧
    (step s0 (.outboundSubstream 1 0 (some 8))).written = [(0, ⟨3, 0⟩)] ∧
    (step s0 (.outboundSubstream 1 0 none)).written = [(0, ⟨3, 0⟩)] := by decide

/-- **An inbound request is handed over exactly when it was read.** The completion of the read of
an inbound request appends exactly one `RequestReceived` with the id and the bytes read if the read
succeeded and the request is still registered with its connected peer; otherwise (read failure,
connection closed in between) nothing is emitted. -/
theorem inbound_delivered (s : State) (f : InFut) (request : Option Payload) :
    (step s (.inboundRead f request)).log =
      match alFind f.peer s.peers, request with
      | some pc, some req => if f.rid ∈ pc.activeInbound then s.log ++ [.requestReceived f.peer f.rid req] else s.log
      | _, _ => s.log :=
  inboundRead_log s f request

/-- Non-vacuity: delivered once; a failed read delivers nothing. -/
example :
    let s := [Input.connectionEstablished 1 (fun _ => .error .closed), .inboundSubstream 1].foldl step (init none)
    (step s (.inboundRead ⟨1, 0⟩ (some ⟨5, 7⟩))).log = [.requestReceived 1 0 ⟨5, 7⟩] ∧
    (step s (.inboundRead ⟨1, 0⟩ none)).log = [] := by decide

/-- **Response matches.** In every reachable state, whenever `ResponseReceived{peer, rid, payload}`
is in the log there is a substream `sid` such that: `sid` was opened for exactly this request
(`(sid, ⟨peer, rid, req⟩) ∈ opened`, with `req` the payload the user issued under `rid`), the request
future was started on it, the responder wrote `payload` on `sid` (`wire`), and `sid` is the only
substream ever opened for `rid` and was opened for no other request. -/
theorem response_matches (m : Option Nat) (s : State) (h : Reach m s) (p : Peer) (r : Rid) (pl : Payload)
    (hm : Event.responseReceived p r pl ∈ s.log) :
    ∃ sid req, (sid, (⟨p, r, req⟩ : Ctx)) ∈ s.opened ∧ (sid, (⟨p, r, req⟩ : Ctx)) ∈ s.sentOn ∧
      (⟨p, r, req⟩ : Ctx) ∈ s.issued ∧ (sid, pl) ∈ s.wire ∧
      (∀ o ∈ s.opened, o.2.rid = r → o = (sid, ⟨p, r, req⟩)) ∧
      (∀ o ∈ s.opened, o.1 = sid → o = (sid, ⟨p, r, req⟩)) :=
  reach_response_matches m s h p r pl hm

/-- Non-vacuity: two requests answered in the opposite order; each response is the one written on
the substream of its own request. -/
example :
    let s := [Input.connectionEstablished 1 (fun _ => .error .closed), .send 1 ⟨⟨3, 0⟩, none⟩ .reject (.ok ()) (.ok 0),
      .send 1 ⟨⟨4, 1⟩, none⟩ .reject (.ok ()) (.ok 1), .outboundSubstream 1 0 none, .outboundSubstream 1 1 none,
      .responderWrites 1 ⟨2, 9⟩, .futureDone ⟨1, 1, 1⟩ (.response ⟨2, 9⟩),
      .responderWrites 0 ⟨6, 8⟩, .futureDone ⟨1, 0, 0⟩ (.response ⟨6, 8⟩)].foldl step (init none)
    s.log = [.responseReceived 1 1 ⟨2, 9⟩, .responseReceived 1 0 ⟨6, 8⟩] ∧
    s.opened = [(0, ⟨1, 0, ⟨⟨3, 0⟩, none⟩⟩), (1, ⟨1, 1, ⟨⟨4, 1⟩, none⟩⟩)] ∧ s.sentOn = s.opened ∧
    s.wire = [(1, ⟨2, 9⟩), (0, ⟨6, 8⟩)] := by decide

/-- **Every internal outcome becomes at most one user-visible terminal event.** Whatever way the
per-request future ends (`FutOutcome`: write timed out / refused as too large / failed, cancelled,
response timed out, response, read error, end of stream), `on_substream_event` hands the user exactly
the events `terminalEvents` of the future's result if the request is still active with its
registered peer and nothing otherwise; that list has at most one element, every element is a terminal
event of that request, and it is empty exactly for the outcome `Canceled`. -/
theorem outcome_translation_total (s : State) (f : Fut) (o : FutOutcome) :
    ((onSubstreamEvent s f o.result).log =
      match alFind f.peer s.peers with
      | some pc => if f.rid ∈ pc.active then s.log ++ terminalEvents f.peer f.rid o.result else s.log
      | none => s.log) ∧
    (terminalEvents f.peer f.rid o.result).length ≤ 1 ∧
    (∀ ev ∈ terminalEvents f.peer f.rid o.result, Event.terminalFor f.rid ev = true) ∧
    (terminalEvents f.peer f.rid o.result = [] ↔ o = .canceled) :=
  ⟨substreamEvent_log s f o.result, terminalEvents_length _ _ _, terminalEvents_terminal _ _ _,
    (terminalEvents_nil_iff _ _ _).trans (result_canceled_iff o)⟩

/-- Non-vacuity: the eight outcomes of an active request's future and what the user sees. -/
example :
    let s := [Input.connectionEstablished 1 (fun _ => .error .closed), .send 1 ⟨⟨3, 0⟩, none⟩ .reject (.ok ()) (.ok 0),
      .outboundSubstream 1 0 none].foldl step (init none)
    ([FutOutcome.sendTimeout, .sendTooLarge, .sendError .io, .canceled, .responseTimeout, .response ⟨2, 9⟩,
      .readError .readFailure, .eof].map fun o => (onSubstreamEvent s ⟨1, 0, 0⟩ o.result).log) =
    [[.requestFailed 1 0 .timeout], [.requestFailed 1 0 .tooLargePayload],
     [.requestFailed 1 0 (.rejected (.substreamOpenError .io))], [], [.requestFailed 1 0 .timeout],
     [.responseReceived 1 0 ⟨2, 9⟩], [.requestFailed 1 0 (.rejected (.substreamOpenError .readFailure))],
     [.requestFailed 1 0 (.rejected .substreamClosed)]] := by decide

/-- **Error-kind translation.** `impl From<SubstreamError> for RejectReason` is total: the four
`NotConnected` shapes become `ConnectionClosed`, every other error is kept inside
`SubstreamOpenError`; `on_substream_open_failure` reports `UnsupportedProtocol` exactly for a failed
multistream-select negotiation and `Rejected(reason)` otherwise, and it reports exactly one failure
for the request that waited for the substream. -/
theorem error_kind_translation (e : SubErr) :
    (RejectReason.ofSubErr e = if e.isNotConnected then .connectionClosed else .substreamOpenError e) ∧
    (openFailureError e = if e = .unsupported then .unsupportedProtocol else .rejected (.ofSubErr e)) ∧
    (∀ (s : State) (sid : Sid) (ctx : Ctx), alFind sid s.pendingOutbound = some ctx →
      (onSubstreamOpenFailure s sid e).log = s.log ++ [.requestFailed ctx.peer ctx.rid (openFailureError e)]) :=
  ⟨ofSubErr_eq e, openFailureError_eq e, fun s sid ctx h => substreamOpenFailure_log s sid e ctx h⟩

/-- Non-vacuity: the translation of every modelled `SubstreamError` shape. -/
example :
    ([SubErr.notConnected, .yamuxNotConnected, .negotiationNotConnected, .msNotConnected, .io, .yamux,
      .negotiation, .unsupported, .closed].map openFailureError) =
    [.rejected .connectionClosed, .rejected .connectionClosed, .rejected .connectionClosed,
     .rejected .connectionClosed, .rejected (.substreamOpenError .io), .rejected (.substreamOpenError .yamux),
     .rejected (.substreamOpenError .negotiation), .unsupportedProtocol,
     .rejected (.substreamOpenError .closed)] := by decide

/-- **The handle's stream is a faithful image of the protocol's events.** Polling the handle over
any sequence of internal events never panics (the `From` impl's `panic!` arm is unreachable) and
yields exactly one user event per internal event, with the same peer, request id, payload, error and
fallback protocol (`InnerEvent.toUser`). Hence, for the event log of any reachable state and any
fallback protocols, the user receives at most one terminal event per request id — distinct internal
terminal outcomes never produce two user events — and exactly as many as the log has. -/
theorem handle_stream_faithful (h : Handle) (evs : List InnerEvent) (m : Option Nat) (s : State)
    (hr : Reach m s) (fb : Event → Option Nat) (r : Rid) :
    (h.pollAll evs).2 = evs.map (fun ev => some ev.toUser) ∧
    userTerminals h s.log fb r = terminals s.log r ∧ userTerminals h s.log fb r ≤ 1 :=
  ⟨pollAll_events h evs, userTerminals_eq h s.log fb r,
    (userTerminals_eq h s.log fb r).symm ▸ (reach_inv m s hr).terminals_le_one r⟩

/-- Non-vacuity: an inbound request negotiated with fallback 2, a response over fallback 7 and a
failure pass through the handle unchanged; the inbound request is filed under its id. -/
example :
    let h : Handle := { capacity := 4 }
    let r := h.pollAll [.requestReceived 1 (some 2) 5 ⟨4, 4⟩, .responseReceived 1 (some 7) 0 ⟨2, 9⟩,
      .requestFailed 2 1 .timeout]
    r.2 = [some (.requestReceived 1 (some 2) 5 ⟨4, 4⟩), some (.responseReceived 1 0 (some 7) ⟨2, 9⟩),
      some (.requestFailed 2 1 .timeout)] ∧ r.1.pendingResponses = [5] := by decide

/-- **Request ids and the command channel.** `try_send_request{,_with_fallback}` always takes the
next id from the shared counter; the command is queued and the id returned iff the channel has room,
otherwise the call fails (`ChannelClogged`) and the handle is unchanged. Of `k` requests handed over
back to back exactly `min k (capacity − queued)` are accepted and the counter advances by `k`. -/
theorem request_ids_and_channel (h : Handle) (n : Nat) (mk : Rid → Command) (k : Nat)
    (hc : h.queue.length ≤ h.capacity) :
    ((h.trySend n mk).2.1 = n + 1 ∧
     (h.queue.length < h.capacity →
       (h.trySend n mk).2.2 = some n ∧ (h.trySend n mk).1.queue = h.queue ++ [mk n]) ∧
     (¬ h.queue.length < h.capacity → (h.trySend n mk).2.2 = none ∧ (h.trySend n mk).1 = h)) ∧
    ((h.trySendMany n mk k).2.1 = n + k ∧
     (h.trySendMany n mk k).2.2 = min k (h.capacity - h.queue.length)) :=
  let a := trySend_spec h n mk
  let b := trySendMany_spec h n mk k hc
  ⟨⟨a.1, a.2.1, a.2.2.1⟩, b.1, b.2.1⟩

/-- Non-vacuity: capacity 2, five requests: two accepted, three clogged, five ids used. -/
example :
    let h : Handle := { capacity := 2 }
    let r := h.trySendMany 10 (fun rid => .sendRequest 1 rid ⟨1, 0⟩ .dial) 5
    r.2 = (15, 2) ∧ r.1.queue = [.sendRequest 1 10 ⟨1, 0⟩ .dial, .sendRequest 1 11 ⟨1, 0⟩ .dial] := by decide

/-- The command channel of the real handle has `DEFAULT_CHANNEL_SIZE` slots. -/
example : Litep2pVerif.Consts.RR_COMMAND_CHANNEL_SIZE = 4096 := by decide

/-- **An inbound request is answered at most once.** `send_response`, `send_response_with_feedback`
and `reject_request` consume the pending response of the request: after any of them a further
answer or rejection of the same request has no effect (and an answer to an id the user never received
has none either). -/
theorem answer_at_most_once (h : Handle) (rid : Rid) (hn : h.pendingResponses.Nodup) (ev : InnerEvent) :
    (h.poll ev).1.pendingResponses.Nodup ∧
    (rid ∉ h.pendingResponses → (h.sendResponse rid).2 = false ∧ (h.rejectRequest rid).2 = false) ∧
    ((h.sendResponse rid).1.sendResponse rid).2 = false ∧
    ((h.sendResponse rid).1.rejectRequest rid).2 = false ∧
    ((h.rejectRequest rid).1.sendResponse rid).2 = false ∧
    ((h.rejectRequest rid).1.rejectRequest rid).2 = false :=
  ⟨nodup_poll h ev hn, fun hm => by simp [Handle.sendResponse, Handle.rejectRequest, hm], answer_once h rid hn⟩

/-- Non-vacuity: the first answer takes effect, the second does not. -/
example :
    let h := (({ capacity := 4 } : Handle).poll (.requestReceived 1 none 5 ⟨4, 4⟩)).1
    (h.sendResponse 5).2 = true ∧ ((h.sendResponse 5).1.sendResponse 5).2 = false ∧
    (h.rejectRequest 5).2 = true ∧ ((h.rejectRequest 5).1.sendResponse 5).2 = false ∧
    (h.sendResponse 6).2 = false := by decide

#print axioms inbound_bound
#print axioms cancel_effect
#print axioms at_most_one_terminal
#print axioms request_located
#print axioms active_owned
#print axioms exactly_one_at_quiescence
#print axioms parked_only_while_dial_owed
#print axioms dial_answer_settles
#print axioms responder_sees_once
#print axioms inbound_delivered
#print axioms response_matches
#print axioms outcome_translation_total
#print axioms error_kind_translation
#print axioms handle_stream_faithful
#print axioms request_ids_and_channel
#print axioms answer_at_most_once

end Litep2pVerif.Props.C13

/-! ## Wiring — what `Litep2p::new` hands over (coverage round `node`)

Over the wiring model `Model/Node/Wiring.lean` (`Node.new c` = `Litep2p::new(ConfigBuilder…build())`), which is tied to
the real `ConfigBuilder`/`Litep2p::new` by the `node` area: the adapter prints the ACTUAL registration record of a node built
through the public API, the driver prints the model's, compared field by field on every run. -/
namespace Litep2pVerif.Props.C13.Wiring
open Litep2pVerif Litep2pVerif.Node

/-- A configuration with every kind of protocol (used by the non-vacuity examples). -/
def sample : Config :=
  { keepAliveMs := some 600, limits := some (some 2, none), listen := [1, 2],
    notif := [⟨"/n/a", 1024, "0102", ["/n/old"], 'a', some 64, some 64, none⟩],
    rr := [⟨"/r/a", 256, 800, ["/r/old"], none⟩, ⟨"/r/b", 64, 800, [], some 1⟩],
    user := [⟨"/u/a", .varint none⟩], kad := [⟨[], none, []⟩], ping := some 1, identify := true, bitswap := true,
    known := some [(0, [.listen 0, .closed, .quic, .wrongPeer 0, .noPeer 0])] }

/-- Every configured request-response protocol is registered under its own name with its OWN codec and maximum message
size, its own fallback names, as a keep-alive protocol — and no other registration bears that name. -/
theorem registered_with_own_codec_and_size (c : Config) (w : Wired) (h : Node.new c = .ok w) :
    ∀ p ∈ (build c).rr, ∃ r ∈ w.regs, r.name = p.name ∧ r.codec = .varint (some p.max) ∧ r.fallback = p.fallback ∧
      r.keepAlive = true ∧ ∀ r' ∈ w.regs, r'.name = p.name → r' = r := by
  intro p hp
  obtain ⟨hreg, _, rfl⟩ := wire_ok h
  refine ⟨_, rr_mem_registrations _ hp, rfl, rfl, rfl, rfl, ?_⟩
  intro r' hr' he
  cases hr : registerAll [] (registrations (build c)) with
  | none => exact absurd hr hreg
  | some t => exact unique_by_name (registerAll_names hr).1 (rr_mem_registrations _ hp) hr' he

example : ∃ w, Node.new sample = .ok w ∧
    (w.regs.filter (fun r => r.name = "/r/a" || r.name = "/r/b")).map (fun r => (r.codec, r.fallback)) =
      [(.varint (some 256), ["/r/old"]), (.varint (some 64), [])] := ⟨_, rfl, by decide⟩

-- a name claimed twice is refused (`register_protocol` panics), whatever the order
example : Node.new { sample with rr := [⟨"/n/a", 64, 800, [], none⟩] } = .panic := by decide
example : Node.new { sample with rr := [⟨"/r/a", 64, 800, ["/n/old"], none⟩] } = .panic := by decide

/-- Every configured request-response protocol object is constructed with its OWN request timeout and its own bound on
concurrent inbound requests. -/
theorem request_response_config_reaches_protocol (c : Config) :
    ∀ p ∈ (build c).rr, Note.rr p.name p.timeoutMs p.maxInbound ∈ notes (build c) :=
  fun _ hp => notes_rr_mem _ hp

example : Note.rr "/r/b" 800 (some 1) ∈ notes (build sample) := by decide

end Litep2pVerif.Props.C13.Wiring

#print axioms Litep2pVerif.Props.C13.Wiring.registered_with_own_codec_and_size
#print axioms Litep2pVerif.Props.C13.Wiring.request_response_config_reaches_protocol
