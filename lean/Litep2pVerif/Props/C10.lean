import Litep2pVerif.Proofs.Addr.Reach
import Litep2pVerif.Generated.Consts
/-!
# C10 — Peer address book stays bounded, attributable and dialable

Property theorems only (models in `Model/Addr/`, helper lemmas in `Proofs/Addr/`). Hash-map
iteration order is the list order of the model store; every theorem is stated for an arbitrary
store list, and the history theorems contain explicit `shuffle` steps, so they hold for every
iteration order the real `HashMap`/`HashSet` may choose.

Specification vocabulary used by the statements and defined in `Proofs/Addr/Reach.lean`:
`Admissible tcp listen peer a` (supported by an enabled transport ∧ not a local listen address ∧ last
component is `/p2p/peer` ∧ the TCP parser accepts it with that peer), `Reach m0 m H` (histories of
`add_known_address` in any set order / single learned addresses / dials / dial failures / connection
successes / open and dial bookkeeping / hash-map reshuffles; `H` = addresses handed to the transport).
-/
namespace Litep2pVerif.Props.C10
open Litep2pVerif Litep2pVerif.Addr

/-- The `scores` constants, regenerated from `address.rs` on every run. -/
def scores : Scores :=
  { established := (Consts.ADDR_CONNECTION_ESTABLISHED : Int)
    failure := -(Consts.ADDR_CONNECTION_FAILURE_NEG : Int)
    addressFailure := I32_MIN
    bonus := (Consts.ADDR_PUBLIC_ADDRESS_BONUS : Int) }

/-! ## supported ⇒ parsable -/

/-- **Every address `supported_transport` lets through is accepted by the TCP parser** (with the
peer it names), so dialing a remembered address cannot fail at parse time; the address has exactly
the shape host/tcp/p2p and the TCP transport is enabled. -/
theorem supported_implies_parse (tcp : Bool) (a : Multiaddr) (h : supportedTransport tcp a = true) :
    ∃ host port peer, tcpParse a = .ok ⟨host, port, some peer⟩ ∧
      a = [Host.comp host, .tcp port, .p2p peer] ∧ tcp = true := by
  obtain ⟨host, port, q, rfl, ht, _⟩ := supported_shape h
  exact ⟨host, port, q, tcpParse_shape host port q, rfl, ht⟩

example : supportedTransport true [.dns4 7, .tcp 30333, .p2p 3] = true ∧
    tcpParse [.dns4 7, .tcp 30333, .p2p 3] = .ok ⟨.dns4 7, 30333, some 3⟩ ∧
    supportedTransport true [.ip4 ⟨0, true, false, false⟩, .tcp 1, .p2p 3] = false ∧
    supportedTransport true [.dns4 7, .tcp 30333, .p2p 3, .p2p 4] = false ∧
    supportedTransport true [.dns4 7, .tcp 30333, .ws, .p2p 3] = false := by decide

/-! ## remembered only if -/

/-- **An address is remembered for peer `p` only if** it names `p`, is supported by an enabled
transport, is not one of the node's listen addresses and is accepted by the transport's parser —
after every history of `add_known_address` calls (any iteration order of the address set), dials,
dial failures, connection successes and rediscoveries, for every hash-map iteration order. Every
address handed to the transport has the same properties. -/
theorem remembered_only_if (m0 m : Mgr) (H : List Multiaddr) (h0 : m0.peers = []) (h : Reach m0 m H) :
    (∀ p c, (p, c) ∈ m.peers → ∀ r ∈ c.store.recs, Admissible m0.tcp m0.listen p r.addr) ∧
    (∀ a ∈ H, ∃ p, Admissible m0.tcp m0.listen p a) :=
  ⟨(reach_inv h0 h).stores, (reach_inv h0 h).handed⟩

/-- Non-vacuity: a history that learns, dials, fails, succeeds; the accepted address is stored and
re-scored, the foreign / local / unsupported ones are not. -/
example :
    let m0 : Mgr := { Mgr.init 0 true (some 1) 64 scores with listen := [[.ip4 ⟨0, true, false, false⟩, .tcp 30]] }
    let good : Multiaddr := [.ip4 ⟨8, false, false, true⟩, .tcp 30, .p2p 1]
    let offered : List Multiaddr := [good, [.ip4 ⟨8, false, false, true⟩, .tcp 30, .p2p 2],
      [.ip4 ⟨127, false, true, false⟩, .tcp 30, .p2p 1], [.ip4 ⟨8, false, false, true⟩, .tcp 30, .ws, .p2p 1], good]
    admitted m0.tcp m0.listen 1 offered = [good] ∧
    ((m0.addKnownOrdered 1 [good]).dial 1).2 = .started 0 (some [good]) ∧
    (((m0.addKnownOrdered 1 [good]).dial 1).1.updateOnDialFailure good false).peers =
      [(1, ⟨.opening 0, ⟨[⟨good, -100⟩], 64⟩⟩)] := by decide

/-! ## bounded -/

/-- Histories of one address store: every way the manager touches a store is an `insert`
(learning, rediscovery, dial failure, dial success), in any iteration order. -/
inductive StoreReach (sc : Scores) (cap : Nat) : Store → Prop
  | empty : StoreReach sc cap ⟨[], cap⟩
  | shuffle {s} (π : List Rec) : StoreReach sc cap s → π.Perm s.recs → StoreReach sc cap { s with recs := π }
  | insert {s} (r : Rec) : StoreReach sc cap s → StoreReach sc cap (insert sc s r)

/-- **The addresses remembered per peer never exceed the bound**, after any history of insertions,
re-scorings and rediscoveries and for any iteration order; addresses stay unique; and `insert`
never hits its `expect`. `AddressStore::new()` uses `MAX_ADDRESSES` (regenerated constant). -/
theorem store_bounded (sc : Scores) (s : Store) (h : StoreReach sc Consts.ADDR_MAX_ADDRESSES s) :
    s.recs.length ≤ Consts.ADDR_MAX_ADDRESSES ∧ s.cap = Consts.ADDR_MAX_ADDRESSES ∧
    (s.recs.map (·.addr)).Nodup ∧ ∀ r, insertPanics s r = false := by
  have key : s.recs.length ≤ s.cap ∧ s.cap = Consts.ADDR_MAX_ADDRESSES ∧ (s.recs.map (·.addr)).Nodup := by
    induction h with
    | empty => simp
    | shuffle π _ hp ih =>
      refine ⟨by simpa [hp.length_eq] using ih.1, ih.2.1, ?_⟩
      exact (hp.map _).nodup_iff.2 ih.2.2
    | insert r _ ih =>
      refine ⟨?_, by rw [insert_cap]; exact ih.2.1, insert_nodup _ _ _ ih.2.2⟩
      rw [insert_cap]
      exact insert_length_le _ _ _ ih.1
  refine ⟨by rw [← key.2.1]; exact key.1, key.2.1, key.2.2, ?_⟩
  intro r
  apply insertPanics_false
  rw [key.2.1]
  decide

/-- Non-vacuity (capacity 2 for readability): the third distinct address displaces a minimum. -/
example :
    let sc := scores
    let a (n : Nat) : Multiaddr := [.ip4 ⟨10, false, false, false⟩, .tcp n, .p2p 1]
    (insert sc (insert sc (insert sc ⟨[], 2⟩ ⟨a 1, 0⟩) ⟨a 2, 5⟩) ⟨a 3, 1⟩).recs = [⟨a 2, 5⟩, ⟨a 3, 1⟩] := by decide

/-! ## eviction -/

/-- **At capacity the displaced record has minimal score, and the new one is stored iff its
(bonus-adjusted) score is at least that minimum.** Exactly what the code does for a new address
meeting a full store: some record `m` of minimal score exists such that either the newcomer is
worse than `m` and nothing changes, or `m` — and only `m` — is removed and the newcomer appended. -/
theorem evict_min (sc : Scores) (s : Store) (r : Rec)
    (hnew : hasAddr s.recs r.addr = false) (hfull : s.cap ≤ s.recs.length) (hne : s.recs ≠ [])
    (hnd : (s.recs.map (·.addr)).Nodup) :
    ∃ m ∈ s.recs, (∀ x ∈ s.recs, m.score ≤ x.score) ∧
      (if (withBonus sc r).score < m.score then insert sc s r = s
       else (insert sc s r).recs = removeAddr s.recs m.addr ++ [withBonus sc r] ∧
            (∀ x ∈ s.recs, x ∈ (insert sc s r).recs ↔ x ≠ m) ∧
            (insert sc s r).recs.length = s.recs.length) := by
  cases hm : minRec s.recs with
  | none => exact absurd (minRec_none hm) hne
  | some m =>
    obtain ⟨hmem, hmin⟩ := minRec_spec hm
    refine ⟨m, hmem, hmin, ?_⟩
    have hins : insert sc s r = if (withBonus sc r).score < m.score then s
        else { s with recs := removeAddr s.recs m.addr ++ [withBonus sc r] } := by
      unfold Addr.insert
      simp [hnew, hfull, hm]
    have huniq : ∀ x ∈ s.recs, x.addr = m.addr → x = m := by
      intro x hx he
      exact eq_of_nodup_map_addr hnd x hx m hmem he
    split
    · rename_i hlt
      simp [hins, hlt]
    · rename_i hge
      simp only [hins, hge, if_false]
      refine ⟨trivial, ?_, ?_⟩
      · intro x hx
        constructor
        · intro hin hxm
          rcases List.mem_append.1 hin with h | h
          · exact (mem_removeAddr.1 h).2 (hxm ▸ rfl)
          · simp only [List.mem_singleton] at h
            have : hasAddr s.recs r.addr = true :=
              hasAddr_iff.2 ⟨x, hx, by rw [h, withBonus_addr]⟩
            simp [hnew] at this
        · intro hxm
          apply List.mem_append_left
          exact mem_removeAddr.2 ⟨hx, fun he => hxm (huniq x hx he)⟩
      · have hlen := removeAddr_length hnd hmem
        simp only [List.length_append, List.length_singleton]
        exact hlen

example :
    let sc := scores
    let a (n : Nat) : Multiaddr := [.ip4 ⟨10, false, false, false⟩, .tcp n, .p2p 1]
    let s : Store := ⟨[⟨a 1, 3⟩, ⟨a 2, -100⟩, ⟨a 3, 3⟩], 3⟩
    (insert sc s ⟨a 4, -100⟩).recs = [⟨a 1, 3⟩, ⟨a 3, 3⟩, ⟨a 4, -100⟩] ∧ insert sc s ⟨a 4, -101⟩ = s ∧
    -- a public address gets the bonus before the comparison; the bonus saturates
    (insert sc ⟨[⟨a 1, 3⟩], 1⟩ ⟨[.dns 5, .tcp 1, .p2p 1], 2⟩).recs = [⟨[.dns 5, .tcp 1, .p2p 1], 3⟩] ∧
    (insert sc ⟨[], 1⟩ ⟨[.dns 5, .tcp 1, .p2p 1], I32_MAX⟩).recs = [⟨[.dns 5, .tcp 1, .p2p 1], I32_MAX⟩] := by decide

/-! ## re-scoring -/

/-- **A dial result changes the score of exactly the address used.** Inserting a record with a
non-zero score for an address already in the store (what all three update paths do; the three
score constants are non-zero on the regenerated values) keeps the set of addresses, leaves every
other record untouched and sets the score of that address to the given value (replaced, not
accumulated, no bonus). -/
theorem rescore_exact (sc : Scores) (s : Store) (a : Multiaddr) (v : Int)
    (hin : hasAddr s.recs a = true) (hv : v ≠ 0) :
    (insert sc s ⟨a, v⟩).recs.map (·.addr) = s.recs.map (·.addr) ∧
    (∀ x ∈ s.recs, x.addr ≠ a → x ∈ (insert sc s ⟨a, v⟩).recs) ∧
    (∀ x ∈ (insert sc s ⟨a, v⟩).recs, if x.addr = a then x.score = v else x ∈ s.recs) ∧
    scores.established ≠ 0 ∧ scores.failure ≠ 0 ∧ scores.addressFailure ≠ 0 := by
  have hins : (insert sc s ⟨a, v⟩).recs = setScore s.recs a v := by
    unfold Addr.insert
    simp [hin, hv]
  rw [hins]
  refine ⟨setScore_map_addr _ _ _, ?_, ?_, by decide, by decide, by decide⟩
  · intro x hx hne
    unfold setScore
    exact List.mem_map.2 ⟨x, hx, by simp [hne]⟩
  · intro x hx
    obtain ⟨y, hy, hya, hcase⟩ := mem_setScore hx
    by_cases h : y.addr = a
    · simp only [h, if_true] at hcase
      simp [← hya, h, hcase]
    · simp only [h, if_false] at hcase
      subst hcase
      simp [h, hy]

example :
    let a (n : Nat) : Multiaddr := [.ip4 ⟨8, false, false, true⟩, .tcp n, .p2p 1]
    (insert scores ⟨[⟨a 1, 1⟩, ⟨a 2, 1⟩], 64⟩ ⟨a 2, scores.failure⟩).recs = [⟨a 1, 1⟩, ⟨a 2, -100⟩] ∧
    (insert scores ⟨[⟨a 1, 1⟩, ⟨a 2, -100⟩], 64⟩ ⟨a 2, scores.established⟩).recs = [⟨a 1, 1⟩, ⟨a 2, 100⟩] := by
  decide

/-- **The manager's update paths hit the address that was dialed.** For an address `a` remembered
for `p` (admissible): a dial failure inserts a record for `a` itself into `p`'s store, and a
success — reported by the TCP transport as `ip|dns + tcp` without `/p2p` — is turned back by
`AddressRecord::new` into exactly `a`; no other peer's context is touched. -/
theorem dial_result_rescores_used_address (m : Mgr) (p : Nat) (a : Multiaddr)
    (hA : Admissible m.tcp m.listen p a) (prs : Parsed) (hp : tcpParse a = .ok prs) (ae : Bool) :
    m.updateOnDialFailure a ae = m.rawInsert p ⟨a, errorScore m.sc ae⟩ ∧
    m.updateOnEstablished p (endpointAddr prs) false = m.rawInsert p ⟨a, m.sc.established⟩ ∧
    ∀ q, q ≠ p → ∀ r, lookupCtx q (m.rawInsert p r).peers = lookupCtx q m.peers := by
  obtain ⟨host, port, hparse⟩ := hA.2.2.2
  have hprs : prs.peer = some p := by
    rw [hparse] at hp
    simp only [Except.ok.injEq] at hp
    rw [← hp]
  refine ⟨?_, ?_, ?_⟩
  · unfold Mgr.updateOnDialFailure
    rw [hA.2.2.1]
    simp [Rec.new, hA.2.2.1]
  · unfold Mgr.updateOnEstablished
    simp only [Bool.false_eq_true, if_false]
    rw [(endpoint_roundtrip hA hp hprs _).2]
  · intro q hq r
    unfold Mgr.rawInsert Mgr.modify
    simp only
    generalize (({ m.ctx p with store := insert m.sc (m.ctx p).store r } : Ctx)) = c
    induction m.peers with
    | nil => simp [setCtx, lookupCtx, Ne.symm hq]
    | cons e rest ih =>
      obtain ⟨p0, c0⟩ := e
      unfold setCtx
      split
      · rename_i heq
        subst heq
        simp [lookupCtx, Ne.symm hq]
      · simp only [lookupCtx, ih]

example :
    let a : Multiaddr := [.dns 9, .tcp 30, .p2p 1]
    let m := (Mgr.init 0 true none 64 scores).addKnownOrdered 1 [a]
    tcpParse a = .ok ⟨.dns 9, 30, some 1⟩ ∧ endpointAddr ⟨.dns 9, 30, some 1⟩ = [.dns 9, .tcp 30] ∧
    (m.updateOnEstablished 1 [.dns 9, .tcp 30] false).peers = [(1, ⟨.disconnected, ⟨[⟨a, 100⟩], 64⟩⟩)] := by decide

/-! ## rediscovery -/

/-- **Re-adding a known address does not erase its score**: a rediscovered address arrives with
score 0 (`AddressRecord::from_multiaddr`), and inserting it leaves the store exactly as it was —
in particular the dial-failure or dial-success score stays. Same for a whole batch of known
addresses through `extend` (what `add_known_address` calls). -/
theorem rediscovery_keeps_score (sc : Scores) (s : Store) (as : List Multiaddr)
    (hknown : ∀ a ∈ as, hasAddr s.recs a = true) :
    (∀ a ∈ as, ∀ r, Rec.fromMultiaddr a = some r → insert sc s r = s) ∧
    extend sc s (as.filterMap Rec.fromMultiaddr) = s := by
  have one : ∀ a ∈ as, ∀ r, Rec.fromMultiaddr a = some r → insert sc s r = s := by
    intro a ha r hr
    unfold Rec.fromMultiaddr at hr
    split at hr
    · simp only [Option.some.injEq] at hr
      subst hr
      unfold Addr.insert
      simp [hknown a ha]
    · simp at hr
  refine ⟨one, ?_⟩
  induction as with
  | nil => rfl
  | cons a rest ih =>
    have ih' := ih (fun x hx => hknown x (List.mem_cons_of_mem _ hx))
      (fun x hx => one x (List.mem_cons_of_mem _ hx))
    simp only [List.filterMap_cons]
    split
    · exact ih'
    · rename_i r hr
      simp only [extend, List.foldl_cons]
      rw [one a List.mem_cons_self r hr]
      exact ih'

example :
    let a : Multiaddr := [.ip4 ⟨8, false, false, true⟩, .tcp 9999, .p2p 1]
    let s := insert scores (insert scores ⟨[], 64⟩ ⟨a, 0⟩) ⟨a, scores.failure⟩
    s.recs = [⟨a, -100⟩] ∧ Rec.fromMultiaddr a = some ⟨a, 0⟩ ∧ insert scores s ⟨a, 0⟩ = s := by decide

/-! ## dial order -/

/-- **A dial by peer id tries addresses in non-increasing score order, limited by the free
outbound capacity, and only remembered ones**: the records selected by `addresses(limit)` are
sorted by non-increasing score, at most `limit` many, together with the unselected rest they are a
permutation of the store (a sub-multiset), and nothing unselected scores higher than something
selected. `dial(peer)` hands exactly `addresses(max_outgoing − outgoing)` of the peer's store to
the transport. -/
theorem dial_order (s : Store) (limit : Option Nat) :
    (selectRecs s limit).Pairwise (fun x y => y.score ≤ x.score) ∧
    (∀ n, limit = some n → (selectRecs s limit).length ≤ n) ∧
    (∃ rest, (selectRecs s limit ++ rest).Perm s.recs ∧
      ∀ x ∈ rest, ∀ y ∈ selectRecs s limit, x.score ≤ y.score) ∧
    (∀ (m : Mgr) (peer conn : Nat) (as : List Multiaddr), (m.dial peer).2 = .started conn (some as) →
      ∃ lim, m.availableCapacity = some lim ∧ as = addresses (m.ctx peer).store lim ∧
        ∀ mx, m.maxOut = some mx → lim = some (mx - m.usedOut)) := by
  refine ⟨?_, ?_, ?_, ?_⟩
  · unfold selectRecs
    split
    · exact sortDesc_sorted _
    · exact (sortDesc_sorted _).sublist (List.take_sublist _ _)
  · intro n hn
    subst hn
    simp [selectRecs, List.length_take]
    omega
  · unfold selectRecs
    split
    · exact ⟨[], by simpa using sortDesc_perm _, by simp⟩
    · rename_i n
      refine ⟨(sortDesc s.recs).drop n, by rw [List.take_append_drop]; exact sortDesc_perm _, ?_⟩
      intro x hx y hy
      have hs := sortDesc_sorted s.recs
      rw [← List.take_append_drop n (sortDesc s.recs), List.pairwise_append] at hs
      exact hs.2.2 y hy x hx
  · intro m peer conn as h
    unfold Mgr.dial at h
    split at h
    · simp at h
    · rename_i lim hlim
      refine ⟨lim, hlim, ?_, ?_⟩
      · split at h
        · simp at h
        · split at h
          · simp at h
          · simp at h
          · split at h
            · simp at h
            · simp only [DialOut.started.injEq] at h
              by_cases ht : m.tcp = true
              · simp only [ht, if_true, Option.some.injEq] at h
                exact h.2.symm
              · simp [ht] at h
      · intro mx hmx
        unfold Mgr.availableCapacity at hlim
        rw [hmx] at hlim
        simp only at hlim
        split at hlim
        · simp at hlim
        · simp only [Option.some.injEq] at hlim
          exact hlim.symm

example :
    let a (n : Nat) : Multiaddr := [.ip4 ⟨10, false, false, false⟩, .tcp n, .p2p 1]
    let s : Store := ⟨[⟨a 1, 0⟩, ⟨a 2, 100⟩, ⟨a 3, -100⟩, ⟨a 4, 100⟩, ⟨a 5, 1⟩], 64⟩
    addresses s (some 3) = [a 2, a 4, a 5] ∧ addresses s none = [a 2, a 4, a 5, a 1, a 3] ∧
    (let m : Mgr := { Mgr.init 0 true (some 4) 64 scores with peers := [(1, ⟨.disconnected, s⟩)], usedOut := 2 }
     (m.dial 1).2 = .started 0 (some [a 2, a 4])) := by decide

end Litep2pVerif.Props.C10

open Litep2pVerif.Props.C10 in
#print axioms remembered_only_if
open Litep2pVerif.Props.C10 in
#print axioms supported_implies_parse
open Litep2pVerif.Props.C10 in
#print axioms store_bounded
open Litep2pVerif.Props.C10 in
#print axioms evict_min
open Litep2pVerif.Props.C10 in
#print axioms rescore_exact
open Litep2pVerif.Props.C10 in
#print axioms dial_result_rescores_used_address
open Litep2pVerif.Props.C10 in
#print axioms rediscovery_keeps_score
open Litep2pVerif.Props.C10 in
#print axioms dial_order
