import Litep2pVerif.Proofs.Addr.Reach
import Litep2pVerif.Proofs.Addr.Listener
import Litep2pVerif.Generated.Consts
import Litep2pVerif.Proofs.Manager.Basic
import Litep2pVerif.Proofs.Node.Wiring
import Litep2pVerif.Proofs.Addr.Open
import Litep2pVerif.Model.Noise.Identity
import Litep2pVerif.Model.Service.Known
/-!
# C10 — Peer address book stays bounded, attributable and dialable

Property theorems only (models in `Model/Addr/`, helper lemmas in `Proofs/Addr/`). Hash-map
iteration order is the list order of the model store; every theorem is stated for an arbitrary
store list, and the history theorems contain explicit `shuffle` steps, so they hold for every
iteration order the real `HashMap`/`HashSet` may choose.

Specification vocabulary used by the statements and defined in `Proofs/Addr/Reach.lean`:
`Admissible tcp listen peer a` (supported by an enabled transport ∧ not a local listen address ∧ last
component is `/p2p/peer` ∧ the TCP parser accepts it with that peer), `Reach m0 m H` (histories of
`add_known_address` in any set order / single learned addresses / dials / dial failures / connection
successes / open and dial bookkeeping / hash-map reshuffles; `H` = addresses handed to the transport).
-/
namespace Litep2pVerif.Props.C10
open Litep2pVerif Litep2pVerif.Addr

/-- The `scores` constants, regenerated from `address.rs` on every run. -/
def scores : Scores :=
  { established := (Consts.ADDR_CONNECTION_ESTABLISHED : Int)
    failure := -(Consts.ADDR_CONNECTION_FAILURE_NEG : Int)
    addressFailure := I32_MIN
    bonus := (Consts.ADDR_PUBLIC_ADDRESS_BONUS : Int) }

/-! ## supported ⇒ parsable -/

/-- **Every address `supported_transport` lets through is accepted by the TCP parser** (with the
peer it names), so dialing a remembered address cannot fail at parse time; the address has exactly
the shape host/tcp/p2p and the TCP transport is enabled. -/
theorem supported_implies_parse (tcp : Bool) (a : Multiaddr) (h : supportedTransport tcp a = true) :
    ∃ host port peer, tcpParse a = .ok ⟨host, port, some peer⟩ ∧
      a = [Host.comp host, .tcp port, .p2p peer] ∧ tcp = true := by
  obtain ⟨host, port, q, rfl, ht, _⟩ := supported_shape h
  exact ⟨host, port, q, tcpParse_shape host port q, rfl, ht⟩

example : supportedTransport true [.dns4 7, .tcp 30333, .p2p 3] = true ∧
    tcpParse [.dns4 7, .tcp 30333, .p2p 3] = .ok ⟨.dns4 7, 30333, some 3⟩ ∧
    supportedTransport true [.ip4 ⟨0, true, false, false⟩, .tcp 1, .p2p 3] = false ∧
    supportedTransport true [.dns4 7, .tcp 30333, .p2p 3, .p2p 4] = false ∧
    supportedTransport true [.dns4 7, .tcp 30333, .ws, .p2p 3] = false := by decide

/-! ## remembered only if -/

/-- **An address is remembered for peer `p` only if** it names `p`, is supported by an enabled
transport, is not one of the node's listen addresses and is accepted by the transport's parser —
after every history of `add_known_address` calls (any iteration order of the address set), dials,
dial failures, connection successes and rediscoveries, for every hash-map iteration order. Every
address handed to the transport has the same properties. -/
theorem remembered_only_if (m0 m : Mgr) (H : List Multiaddr) (h0 : m0.peers = []) (h : Reach m0 m H) :
    (∀ p c, (p, c) ∈ m.peers → ∀ r ∈ c.store.recs, Admissible m0.tcp m0.listen p r.addr) ∧
    (∀ a ∈ H, ∃ p, Admissible m0.tcp m0.listen p a) :=
  ⟨(reach_inv h0 h).stores, (reach_inv h0 h).handed⟩

/-- Non-vacuity: a history that learns, dials, fails, succeeds; the accepted address is stored and
re-scored, the foreign / local / unsupported ones are not. -/
example :
    let m0 : Mgr := { Mgr.init 0 true (some 1) 64 scores with listen := [[.ip4 ⟨0, true, false, false⟩, .tcp 30]] }
    let good : Multiaddr := [.ip4 ⟨8, false, false, true⟩, .tcp 30, .p2p 1]
    let offered : List Multiaddr := [good, [.ip4 ⟨8, false, false, true⟩, .tcp 30, .p2p 2],
      [.ip4 ⟨127, false, true, false⟩, .tcp 30, .p2p 1], [.ip4 ⟨8, false, false, true⟩, .tcp 30, .ws, .p2p 1], good]
    admitted m0.tcp m0.listen 1 offered = [good] ∧
    ((m0.addKnownOrdered 1 [good]).dial 1).2 = .started 0 (some [good]) ∧
    (((m0.addKnownOrdered 1 [good]).dial 1).1.updateOnDialFailure good false).peers =
      [(1, ⟨.opening 0, ⟨[⟨good, -100⟩], 64⟩⟩)] := by decide

/-- **What a protocol offers through its `TransportService` keeps its attribution**
(`TransportService::add_known_address`, the entry point of Kademlia / identify / user protocols, composed with the
handle's filter): every address that reaches the peer table of `peer` is admissible for `peer` (supported, not local,
trailing `/p2p/peer`, parsable) and is either one of the OFFERED addresses itself — which then names `peer` — or an
offered address WITHOUT a trailing `/p2p` with `/p2p/peer` appended; and an offered address whose trailing `/p2p` names
somebody else contributes nothing: it is never rewritten into an address of `peer`. -/
theorem service_add_known_address_keeps_attribution (tcp : Bool) (listen : List Multiaddr) (peer : Nat)
    (as : List Multiaddr) :
    (∀ b ∈ Service.addKnownAddress tcp listen peer as,
        Admissible tcp listen peer b ∧
        (b ∈ as ∨ ∃ a ∈ as, lastP2p a = none ∧ b = withP2p a peer)) ∧
    (∀ a q, lastP2p a = some q → q ≠ peer → Service.addKnownAddress tcp listen peer [a] = []) := by
  constructor
  · intro b hb
    unfold Service.addKnownAddress at hb
    obtain ⟨hmem, hadm⟩ := admitted_sound hb
    refine ⟨hadm, ?_⟩
    obtain ⟨a, ha, rfl⟩ := List.mem_map.1 hmem
    unfold Service.normalizeKnown
    cases hl : a.getLast? with
    | none => exact Or.inr ⟨a, ha, by simp [lastP2p, hl], rfl⟩
    | some c =>
      cases c with
      | p2p q => exact Or.inl (by simpa using ha)
      | _ => exact Or.inr ⟨a, ha, by simp [lastP2p, hl], rfl⟩
  · intro a q hq hne
    have hl : a.getLast? = some (.p2p q) := by
      unfold lastP2p at hq
      cases hl : a.getLast? with
      | none => simp [hl] at hq
      | some c =>
        cases c with
        | p2p r => simp [hl] at hq; rw [hq]
        | _ => simp [hl] at hq
    have hn : Service.normalizeKnown peer a = a := by simp [Service.normalizeKnown, hl]
    have h1 : admitOne tcp listen peer a = none := by
      unfold admitOne
      split
      · rfl
      · split
        · rfl
        · simp [hl, hne]
    simp [Service.addKnownAddress, admitted, hn, h1, dedup]

/-- Non-vacuity: offered for peer 1 through the service — without id (kept, id appended), naming 1 (kept as offered),
naming 2 (refused, NOT rewritten), two `/p2p` components and a relay shape (not TCP addresses). -/
example :
    let ip : Comp := .ip4 ⟨8, false, false, true⟩
    Service.addKnownAddress true [] 1
      [[ip, .tcp 30], [ip, .tcp 31, .p2p 1], [ip, .tcp 32, .p2p 2], [ip, .tcp 33, .p2p 2, .p2p 1],
       [ip, .tcp 34, .p2p 2, .other 290, .p2p 1], [ip, .tcp 35, .p2p 2, .other 290]] =
      [[ip, .tcp 30, .p2p 1], [ip, .tcp 31, .p2p 1]] ∧
    Service.addKnownAddress true [] 1 [[ip, .tcp 32, .p2p 2]] = [] := by decide

/-! ## bounded -/

/-- Histories of one address store: every way the manager touches a store is an `insert`
(learning, rediscovery, dial failure, dial success), in any iteration order. -/
inductive StoreReach (sc : Scores) (cap : Nat) : Store → Prop
  | empty : StoreReach sc cap ⟨[], cap⟩
  | shuffle {s} (π : List Rec) : StoreReach sc cap s → π.Perm s.recs → StoreReach sc cap { s with recs := π }
  | insert {s} (r : Rec) : StoreReach sc cap s → StoreReach sc cap (insert sc s r)

/-- **The addresses remembered per peer never exceed the bound**, after any history of insertions,
re-scorings and rediscoveries and for any iteration order; addresses stay unique; and `insert`
never hits its `expect`. `AddressStore::new()` uses `MAX_ADDRESSES` (regenerated constant). -/
theorem store_bounded (sc : Scores) (s : Store) (h : StoreReach sc Consts.ADDR_MAX_ADDRESSES s) :
    s.recs.length ≤ Consts.ADDR_MAX_ADDRESSES ∧ s.cap = Consts.ADDR_MAX_ADDRESSES ∧
    (s.recs.map (·.addr)).Nodup ∧ ∀ r, insertPanics s r = false := by
  have key : s.recs.length ≤ s.cap ∧ s.cap = Consts.ADDR_MAX_ADDRESSES ∧ (s.recs.map (·.addr)).Nodup := by
    induction h with
    | empty => simp
    | shuffle π _ hp ih =>
      refine ⟨by simpa [hp.length_eq] using ih.1, ih.2.1, ?_⟩
      exact (hp.map _).nodup_iff.2 ih.2.2
    | insert r _ ih =>
      refine ⟨?_, by rw [insert_cap]; exact ih.2.1, insert_nodup _ _ _ ih.2.2⟩
      rw [insert_cap]
      exact insert_length_le _ _ _ ih.1
  refine ⟨by rw [← key.2.1]; exact key.1, key.2.1, key.2.2, ?_⟩
  intro r
  apply insertPanics_false
  rw [key.2.1]
  decide

/-- Non-vacuity (capacity 2 for readability): the third distinct address displaces a minimum. -/
example :
    let sc := scores
    let a (n : Nat) : Multiaddr := [.ip4 ⟨10, false, false, false⟩, .tcp n, .p2p 1]
    (insert sc (insert sc (insert sc ⟨[], 2⟩ ⟨a 1, 0⟩) ⟨a 2, 5⟩) ⟨a 3, 1⟩).recs = [⟨a 2, 5⟩, ⟨a 3, 1⟩] := by decide

/-! ## eviction -/

/-- **At capacity the displaced record has minimal score, and the new one is stored iff its
(bonus-adjusted) score is at least that minimum.** Exactly what the code does for a new address
meeting a full store: some record `m` of minimal score exists such that either the newcomer is
worse than `m` and nothing changes, or `m` — and only `m` — is removed and the newcomer appended. -/
theorem evict_min (sc : Scores) (s : Store) (r : Rec)
    (hnew : hasAddr s.recs r.addr = false) (hfull : s.cap ≤ s.recs.length) (hne : s.recs ≠ [])
    (hnd : (s.recs.map (·.addr)).Nodup) :
    ∃ m ∈ s.recs, (∀ x ∈ s.recs, m.score ≤ x.score) ∧
      (if (withBonus sc r).score < m.score then insert sc s r = s
       else (insert sc s r).recs = removeAddr s.recs m.addr ++ [withBonus sc r] ∧
            (∀ x ∈ s.recs, x ∈ (insert sc s r).recs ↔ x ≠ m) ∧
            (insert sc s r).recs.length = s.recs.length) := by
  cases hm : minRec s.recs with
  | none => exact absurd (minRec_none hm) hne
  | some m =>
    obtain ⟨hmem, hmin⟩ := minRec_spec hm
    refine ⟨m, hmem, hmin, ?_⟩
    have hins : insert sc s r = if (withBonus sc r).score < m.score then s
        else { s with recs := removeAddr s.recs m.addr ++ [withBonus sc r] } := by
      unfold Addr.insert
      simp [hnew, hfull, hm]
    have huniq : ∀ x ∈ s.recs, x.addr = m.addr → x = m := by
      intro x hx he
      exact eq_of_nodup_map_addr hnd x hx m hmem he
    split
    · rename_i hlt
      simp [hins, hlt]
    · rename_i hge
      simp only [hins, hge, if_false]
      refine ⟨trivial, ?_, ?_⟩
      · intro x hx
        constructor
        · intro hin hxm
          rcases List.mem_append.1 hin with h | h
          · exact (mem_removeAddr.1 h).2 (hxm ▸ rfl)
          · simp only [List.mem_singleton] at h
            have : hasAddr s.recs r.addr = true :=
              hasAddr_iff.2 ⟨x, hx, by rw [h, withBonus_addr]⟩
            simp [hnew] at this
        · intro hxm
          apply List.mem_append_left
          exact mem_removeAddr.2 ⟨hx, fun he => hxm (huniq x hx he)⟩
      · have hlen := removeAddr_length hnd hmem
        simp only [List.length_append, List.length_singleton]
        exact hlen

example :
    let sc := scores
    let a (n : Nat) : Multiaddr := [.ip4 ⟨10, false, false, false⟩, .tcp n, .p2p 1]
    let s : Store := ⟨[⟨a 1, 3⟩, ⟨a 2, -100⟩, ⟨a 3, 3⟩], 3⟩
    (insert sc s ⟨a 4, -100⟩).recs = [⟨a 1, 3⟩, ⟨a 3, 3⟩, ⟨a 4, -100⟩] ∧ insert sc s ⟨a 4, -101⟩ = s ∧
    -- a public address gets the bonus before the comparison; the bonus saturates
    (insert sc ⟨[⟨a 1, 3⟩], 1⟩ ⟨[.dns 5, .tcp 1, .p2p 1], 2⟩).recs = [⟨[.dns 5, .tcp 1, .p2p 1], 3⟩] ∧
    (insert sc ⟨[], 1⟩ ⟨[.dns 5, .tcp 1, .p2p 1], I32_MAX⟩).recs = [⟨[.dns 5, .tcp 1, .p2p 1], I32_MAX⟩] := by decide

/-! ## re-scoring -/

/-- **A dial result changes the score of exactly the address used.** Inserting a record with a
non-zero score for an address already in the store (what all three update paths do; the three
score constants are non-zero on the regenerated values) keeps the set of addresses, leaves every
other record untouched and sets the score of that address to the given value (replaced, not
accumulated, no bonus). -/
theorem rescore_exact (sc : Scores) (s : Store) (a : Multiaddr) (v : Int)
    (hin : hasAddr s.recs a = true) (hv : v ≠ 0) :
    (insert sc s ⟨a, v⟩).recs.map (·.addr) = s.recs.map (·.addr) ∧
    (∀ x ∈ s.recs, x.addr ≠ a → x ∈ (insert sc s ⟨a, v⟩).recs) ∧
    (∀ x ∈ (insert sc s ⟨a, v⟩).recs, if x.addr = a then x.score = v else x ∈ s.recs) ∧
    scores.established ≠ 0 ∧ scores.failure ≠ 0 ∧ scores.addressFailure ≠ 0 := by
  have hins : (insert sc s ⟨a, v⟩).recs = setScore s.recs a v := by
    unfold Addr.insert
    simp [hin, hv]
  rw [hins]
  refine ⟨setScore_map_addr _ _ _, ?_, ?_, by decide, by decide, by decide⟩
  · intro x hx hne
    unfold setScore
    exact List.mem_map.2 ⟨x, hx, by simp [hne]⟩
  · intro x hx
    obtain ⟨y, hy, hya, hcase⟩ := mem_setScore hx
    by_cases h : y.addr = a
    · simp only [h, if_true] at hcase
      simp [← hya, h, hcase]
    · simp only [h, if_false] at hcase
      subst hcase
      simp [h, hy]

example :
    let a (n : Nat) : Multiaddr := [.ip4 ⟨8, false, false, true⟩, .tcp n, .p2p 1]
    (insert scores ⟨[⟨a 1, 1⟩, ⟨a 2, 1⟩], 64⟩ ⟨a 2, scores.failure⟩).recs = [⟨a 1, 1⟩, ⟨a 2, -100⟩] ∧
    (insert scores ⟨[⟨a 1, 1⟩, ⟨a 2, -100⟩], 64⟩ ⟨a 2, scores.established⟩).recs = [⟨a 1, 1⟩, ⟨a 2, 100⟩] := by
  decide

/-- **The manager's update paths hit the address that was dialed.** For an address `a` remembered
for `p` (admissible): a dial failure inserts a record for `a` itself into `p`'s store, and a
success — reported by the TCP transport as `ip|dns + tcp` without `/p2p` — is turned back by
`AddressRecord::new` into exactly `a`; no other peer's context is touched. -/
theorem dial_result_rescores_used_address (m : Mgr) (p : Nat) (a : Multiaddr)
    (hA : Admissible m.tcp m.listen p a) (prs : Parsed) (hp : tcpParse a = .ok prs) (ae : Bool) :
    m.updateOnDialFailure a ae = m.rawInsert p ⟨a, errorScore m.sc ae⟩ ∧
    m.updateOnEstablished p (endpointAddr prs) false = m.rawInsert p ⟨a, m.sc.established⟩ ∧
    ∀ q, q ≠ p → ∀ r, lookupCtx q (m.rawInsert p r).peers = lookupCtx q m.peers := by
  obtain ⟨host, port, hparse⟩ := hA.2.2.2
  have hprs : prs.peer = some p := by
    rw [hparse] at hp
    simp only [Except.ok.injEq] at hp
    rw [← hp]
  refine ⟨?_, ?_, ?_⟩
  · unfold Mgr.updateOnDialFailure
    rw [hA.2.2.1]
    simp [Rec.new, hA.2.2.1]
  · unfold Mgr.updateOnEstablished
    simp only [Bool.false_eq_true, if_false]
    rw [(endpoint_roundtrip hA hp hprs _).2]
  · intro q hq r
    unfold Mgr.rawInsert Mgr.modify
    simp only
    generalize (({ m.ctx p with store := insert m.sc (m.ctx p).store r } : Ctx)) = c
    induction m.peers with
    | nil => simp [setCtx, lookupCtx, Ne.symm hq]
    | cons e rest ih =>
      obtain ⟨p0, c0⟩ := e
      unfold setCtx
      split
      · rename_i heq
        subst heq
        simp [lookupCtx, Ne.symm hq]
      · simp only [lookupCtx, ih]

example :
    let a : Multiaddr := [.dns 9, .tcp 30, .p2p 1]
    let m := (Mgr.init 0 true none 64 scores).addKnownOrdered 1 [a]
    tcpParse a = .ok ⟨.dns 9, 30, some 1⟩ ∧ endpointAddr ⟨.dns 9, 30, some 1⟩ = [.dns 9, .tcp 30] ∧
    (m.updateOnEstablished 1 [.dns 9, .tcp 30] false).peers = [(1, ⟨.disconnected, ⟨[⟨a, 100⟩], 64⟩⟩)] := by decide

/-! ## rediscovery -/

/-- **Re-adding a known address does not erase its score**: a rediscovered address arrives with
score 0 (`AddressRecord::from_multiaddr`), and inserting it leaves the store exactly as it was —
in particular the dial-failure or dial-success score stays. Same for a whole batch of known
addresses through `extend` (what `add_known_address` calls). -/
theorem rediscovery_keeps_score (sc : Scores) (s : Store) (as : List Multiaddr)
    (hknown : ∀ a ∈ as, hasAddr s.recs a = true) :
    (∀ a ∈ as, ∀ r, Rec.fromMultiaddr a = some r → insert sc s r = s) ∧
    extend sc s (as.filterMap Rec.fromMultiaddr) = s := by
  have one : ∀ a ∈ as, ∀ r, Rec.fromMultiaddr a = some r → insert sc s r = s := by
    intro a ha r hr
    unfold Rec.fromMultiaddr at hr
    split at hr
    · simp only [Option.some.injEq] at hr
      subst hr
      unfold Addr.insert
      simp [hknown a ha]
    · simp at hr
  refine ⟨one, ?_⟩
  induction as with
  | nil => rfl
  | cons a rest ih =>
    have ih' := ih (fun x hx => hknown x (List.mem_cons_of_mem _ hx))
      (fun x hx => one x (List.mem_cons_of_mem _ hx))
    simp only [List.filterMap_cons]
    split
    · exact ih'
    · rename_i r hr
      simp only [extend, List.foldl_cons]
      rw [one a List.mem_cons_self r hr]
      exact ih'

example :
    let a : Multiaddr := [.ip4 ⟨8, false, false, true⟩, .tcp 9999, .p2p 1]
    let s := insert scores (insert scores ⟨[], 64⟩ ⟨a, 0⟩) ⟨a, scores.failure⟩
    s.recs = [⟨a, -100⟩] ∧ Rec.fromMultiaddr a = some ⟨a, 0⟩ ∧ insert scores s ⟨a, 0⟩ = s := by decide

/-! ## dial order -/

/-- **A dial by peer id tries addresses in non-increasing score order, limited by the free
outbound capacity, and only remembered ones**: the records selected by `addresses(limit)` are
sorted by non-increasing score, at most `limit` many, together with the unselected rest they are a
permutation of the store (a sub-multiset), and nothing unselected scores higher than something
selected. `dial(peer)` hands exactly `addresses(max_outgoing − outgoing)` of the peer's store to
the transport. -/
theorem dial_order (s : Store) (limit : Option Nat) :
    (selectRecs s limit).Pairwise (fun x y => y.score ≤ x.score) ∧
    (∀ n, limit = some n → (selectRecs s limit).length ≤ n) ∧
    (∃ rest, (selectRecs s limit ++ rest).Perm s.recs ∧
      ∀ x ∈ rest, ∀ y ∈ selectRecs s limit, x.score ≤ y.score) ∧
    (∀ (m : Mgr) (peer conn : Nat) (as : List Multiaddr), (m.dial peer).2 = .started conn (some as) →
      ∃ lim, m.availableCapacity = some lim ∧ as = addresses (m.ctx peer).store lim ∧
        ∀ mx, m.maxOut = some mx → lim = some (mx - m.usedOut)) := by
  refine ⟨?_, ?_, ?_, ?_⟩
  · unfold selectRecs
    split
    · exact sortDesc_sorted _
    · exact (sortDesc_sorted _).sublist (List.take_sublist _ _)
  · intro n hn
    subst hn
    simp [selectRecs, List.length_take]
    omega
  · unfold selectRecs
    split
    · exact ⟨[], by simpa using sortDesc_perm _, by simp⟩
    · rename_i n
      refine ⟨(sortDesc s.recs).drop n, by rw [List.take_append_drop]; exact sortDesc_perm _, ?_⟩
      intro x hx y hy
      have hs := sortDesc_sorted s.recs
      rw [← List.take_append_drop n (sortDesc s.recs), List.pairwise_append] at hs
      exact hs.2.2 y hy x hx
  · intro m peer conn as h
    unfold Mgr.dial at h
    split at h
    · simp at h
    · rename_i lim hlim
      refine ⟨lim, hlim, ?_, ?_⟩
      · split at h
        · simp at h
        · split at h
          · simp at h
          · simp at h
          · split at h
            · simp at h
            · simp only [DialOut.started.injEq] at h
              by_cases ht : m.tcp = true
              · simp only [ht, if_true, Option.some.injEq] at h
                exact h.2.symm
              · simp [ht] at h
      · intro mx hmx
        unfold Mgr.availableCapacity at hlim
        rw [hmx] at hlim
        simp only at hlim
        split at hlim
        · simp at hlim
        · simp only [Option.some.injEq] at hlim
          exact hlim.symm

example :
    let a (n : Nat) : Multiaddr := [.ip4 ⟨10, false, false, false⟩, .tcp n, .p2p 1]
    let s : Store := ⟨[⟨a 1, 0⟩, ⟨a 2, 100⟩, ⟨a 3, -100⟩, ⟨a 4, 100⟩, ⟨a 5, 1⟩], 64⟩
    addresses s (some 3) = [a 2, a 4, a 5] ∧ addresses s none = [a 2, a 4, a 5, a 1, a 3] ∧
    (let m : Mgr := { Mgr.init 0 true (some 4) 64 scores with peers := [(1, ⟨.disconnected, s⟩)], usedOut := 2 }
     (m.dial 1).2 = .started 0 (some [a 2, a 4])) := by decide

/-! ## Listen addresses (`SocketListener::new`), local dial addresses, DNS lookup, public addresses -/

/-- **Every listen address the listener reports is one the transport's own parser accepts and maps
back to a bound socket**: for every configured address list, every outcome of the operating
system's bind attempts (`os`) and every interface list, a reported address is `ip/tcp` without a
peer, `multiaddr_to_socket_address` returns exactly the socket address it was made from, its port is
the local port of one of the listeners, and its IP is that listener's IP or — for a listener bound
to the unspecified address — an interface address of the same family. -/
theorem listen_address_roundtrip (ifaces : Option (List IpAddr)) (os : List (Option Nat))
    (addrs : List Multiaddr) (m : Multiaddr) (hm : m ∈ reportedAddrs (bindAll ifaces os addrs)) :
    ∃ b ∈ bindAll ifaces os addrs, ∃ s ∈ b.reported,
      m = socketToMultiaddr s ∧ tcpParse m = .ok ⟨s.ip.host, s.port, none⟩ ∧ bindTarget m = some s ∧
      s.port = b.sock.port ∧
      (s.ip = b.sock.ip ∨
        (b.sock.ip.isUnspecified = true ∧ s.ip.isV4 = b.sock.ip.isV4 ∧ ∃ l, ifaces = some l ∧ s.ip ∈ l)) := by
  obtain ⟨b, hb, s, hs, rfl⟩ := mem_reportedAddrs hm
  obtain ⟨hw, _⟩ := bindAll_spec ifaces addrs os b hb
  refine ⟨b, hb, s, hs, rfl, tcpParse_socketToMultiaddr s, bindTarget_socketToMultiaddr s, (hw s hs).1, ?_⟩
  rcases (hw s hs).2 with ⟨_, heq⟩ | h
  · exact Or.inl heq
  · exact Or.inr h

example :
    let lo : Ip := ⟨2130706433, false, true, false⟩
    let eth : Ip := ⟨3221225986, false, false, false⟩
    let un : Ip := ⟨0, true, false, false⟩
    let ll : Ip := ⟨0xfe80 * 2 ^ 112 + 1, false, false, false⟩
    let bs := bindAll (some [.v4 lo, .v4 eth, .v6 ll]) [some 4001, none, some 4002, some 4003]
      [[.ip4 lo, .tcp 0], [.dns 5, .tcp 0], [.ip4 eth, .tcp 7], [.ip4 un, .tcp 0], [.ip4 lo, .udp 1], [.ip6 un, .tcp 0]]
    reportedAddrs bs = [[.ip4 lo, .tcp 4001], [.ip4 lo, .tcp 4002], [.ip4 eth, .tcp 4002]] ∧
    bs.map (·.sock) = [⟨.v4 lo, 4001⟩, ⟨.v4 un, 4002⟩, ⟨.v6 un, 4003⟩] := by decide

/-- **Only `ip4|ip6 / tcp` addresses are bound**: every listener stems from a configured address
the TCP parser accepts as a socket address with the listener's IP; a DNS address never produces a
listener; there are at most as many listeners as configured addresses. -/
theorem listener_binds_only_sockets (ifaces : Option (List IpAddr)) (os : List (Option Nat))
    (addrs : List Multiaddr) :
    (∀ b ∈ bindAll ifaces os addrs, ∃ a ∈ addrs, ∃ t rest, bindTarget a = some t ∧ b.sock.ip = t.ip ∧
        a = t.ip.comp :: .tcp t.port :: rest) ∧
    (bindAll ifaces os addrs).length ≤ addrs.length ∧
    (∀ h rest more, bindAll ifaces os ((.dns h :: rest) :: more) = bindAll ifaces os more ∧
      bindAll ifaces os ((.dns4 h :: rest) :: more) = bindAll ifaces os more ∧
      bindAll ifaces os ((.dns6 h :: rest) :: more) = bindAll ifaces os more) := by
  refine ⟨?_, bindAll_length ifaces addrs os, ?_⟩
  · intro b hb
    obtain ⟨_, a, ha, t, ht, hip, _⟩ := bindAll_spec ifaces addrs os b hb
    obtain ⟨rest, hr⟩ := bindTarget_shape ht
    exact ⟨a, ha, t, rest, ht, hip, hr⟩
  · intro h rest more
    obtain ⟨h1, h2, h3⟩ := bindTarget_dns h rest
    refine ⟨?_, ?_, ?_⟩
    · rw [bindAll]; simp [h1]
    · rw [bindAll]; simp [h2]
    · rw [bindAll]; simp [h3]

example : bindAll (some []) [some 1, some 2] [[.dns 5, .tcp 0], [.ip4 ⟨9, false, false, true⟩, .tcp 0, .p2p 3]] =
    [⟨⟨.v4 ⟨9, false, false, true⟩, 1⟩, [⟨.v4 ⟨9, false, false, true⟩, 1⟩]⟩] := by decide

/-- **A reported listen address is dialable by others and recognised as local by the node itself**:
if no interface address is unspecified, a reported address with any `/p2p` appended passes
`supported_transport`, and once registered as a listen address `is_local_address` refuses to
remember it (with or without a peer id) — so the node never stores its own listen addresses. -/
theorem reported_dialable_and_local (ifaces : Option (List IpAddr)) (os : List (Option Nat))
    (addrs : List Multiaddr) (m : Multiaddr) (hm : m ∈ reportedAddrs (bindAll ifaces os addrs))
    (hif : ∀ l, ifaces = some l → ∀ i ∈ l, i.isUnspecified = false) (q localPeer : Nat)
    (listen listen' : List Multiaddr) (hreg : registerListen localPeer listen m = some listen') :
    supportedTransport true (withP2p m q) = true ∧ isLocalAddress listen' (withP2p m q) = true ∧
      isLocalAddress listen' m = true := by
  obtain ⟨b, hb, s, hs, rfl⟩ := mem_reportedAddrs hm
  obtain ⟨hw, _⟩ := bindAll_spec ifaces addrs os b hb
  have hun : s.ip.isUnspecified = false := by
    rcases (hw s hs).2 with ⟨hu, heq⟩ | ⟨_, _, l, hl, hmem⟩
    · rw [heq]; exact hu
    · exact hif l hl s.ip hmem
  have hreg' : listen' = listen ++ [socketToMultiaddr s, withP2p (socketToMultiaddr s) localPeer] := by
    unfold registerListen at hreg
    split at hreg
    · cases hreg
    · cases hreg; rfl
  have hmemL : listen'.contains (socketToMultiaddr s) = true := by
    rw [hreg']; simp
  refine ⟨supported_reported s q hun, ?_, ?_⟩
  · unfold isLocalAddress
    rw [takeWhile_reported, hmemL]; rfl
  · unfold isLocalAddress
    have : (socketToMultiaddr s).takeWhile (fun c => !c.isP2p) = socketToMultiaddr s := by
      cases s with
      | mk ip port => cases ip <;> simp [socketToMultiaddr, IpAddr.comp, Comp.isP2p, List.takeWhile]
    rw [this, hmemL]; rfl

example :
    let lo : Ip := ⟨2130706433, false, true, false⟩
    let m : Multiaddr := [.ip4 lo, .tcp 4001]
    m ∈ reportedAddrs (bindAll none [some 4001] [[.ip4 lo, .tcp 0]]) ∧
    registerListen 0 [] m = some [m, withP2p m 0] ∧
    supportedTransport true (withP2p m 7) = true ∧ isLocalAddress [m, withP2p m 0] (withP2p m 7) = true := by decide

/-- **The local address for an outbound connection reuses a listen port of the same kind or none**:
without port reuse no local address is chosen; with it, the address is the unspecified address of
the remote's family with the port of a listen address of the same family and loopback-ness, and
`Err(())` is returned exactly when no listen address is of that kind. -/
theorem local_dial_sound (reusePort : Bool) (bs : List Bound) (remote : IpAddr) :
    (reusePort = false → localDial (dialAddresses reusePort bs) remote = .ok none) ∧
    (∀ s, localDial (dialAddresses reusePort bs) remote = .ok (some s) →
      reusePort = true ∧ s.ip.isUnspecified = true ∧ s.ip.isV4 = remote.isV4 ∧
      ∃ a ∈ reportedSockets bs, a.port = s.port ∧ a.ip.isV4 = remote.isV4 ∧
        a.ip.isLoopback = remote.isLoopback) ∧
    (localDial (dialAddresses reusePort bs) remote = .error () ↔
      reusePort = true ∧ ∀ a ∈ reportedSockets bs, dialCandidate remote a = false) := by
  cases reusePort with
  | false =>
    refine ⟨fun _ => rfl, ?_, ?_⟩
    · intro s h; simp [dialAddresses, localDial] at h
    · simp [dialAddresses, localDial]
  | true =>
    refine ⟨fun h => (by cases h), ?_, ?_⟩
    · intro s h
      have := localDial_spec h
      simp only [dialAddresses, if_true] at this
      exact ⟨rfl, this⟩
    · simp only [dialAddresses, if_true, true_and]
      exact localDial_error

example :
    let lo : Ip := ⟨2130706433, false, true, false⟩
    let eth : Ip := ⟨3221225986, false, false, false⟩
    let bs : List Bound := [⟨⟨.v4 lo, 4001⟩, [⟨.v4 lo, 4001⟩]⟩, ⟨⟨.v4 eth, 4002⟩, [⟨.v4 eth, 4002⟩]⟩]
    localDial (dialAddresses true bs) (.v4 ⟨134744072, false, false, true⟩) = .ok (some ⟨.v4 unspecified4, 4002⟩) ∧
    localDial (dialAddresses true bs) (.v4 ⟨2130706434, false, true, false⟩) = .ok (some ⟨.v4 unspecified4, 4001⟩) ∧
    localDial (dialAddresses true bs) (.v6 ⟨1, false, true, false⟩) = .error () ∧
    localDial (dialAddresses false bs) (.v6 ⟨1, false, true, false⟩) = .ok none := by decide

/-- **A DNS address resolves to an address of the family its kind demands**: `lookup_ip` keeps the
port; `/dns4` yields an IPv4 and `/dns6` an IPv6 member of the resolver's answer, `/dns` any member;
`IpVersionMismatch` is returned only if the answer has no member of the demanded family and
`ResolveError` only if the lookup itself failed; socket addresses are returned unchanged
(`LookupOk`, `Proofs/Addr/Listener.lean`, spells this out per kind of host). -/
theorem lookup_respects_dns_type (h : Host) (port : Nat) (answer : Option (List IpAddr)) :
    (∀ s, lookupIp h port answer = .ok s → s.port = port ∧ LookupOk h answer s) ∧
    (lookupIp h port answer = .error .mismatch → ∃ l, answer = some l ∧ ∀ ip ∈ l, dnsWants h ip = false) ∧
    (lookupIp h port answer = .error .resolve → answer = none) :=
  ⟨fun _ hl => lookupIp_ok hl, lookupIp_mismatch, lookupIp_resolve⟩

example :
    let a4 : IpAddr := .v4 ⟨16909060, false, false, true⟩
    let a6 : IpAddr := .v6 ⟨7, false, false, true⟩
    lookupIp (.dns6 1) 30333 (some [a4, a6]) = .ok ⟨a6, 30333⟩ ∧
    lookupIp (.dns4 1) 30333 (some [a6]) = .error .mismatch ∧
    lookupIp (.dns 1) 30333 (some [a4, a6]) = .ok ⟨a4, 30333⟩ ∧
    lookupIp (.dns 1) 30333 none = .error .resolve := by decide

/-- A history of `PublicAddresses::{add_address, remove_address}` calls. -/
inductive PubOp where
  | add (a : Multiaddr)
  | remove (a : Multiaddr)

def pubRun (localPeer : Nat) : List Multiaddr → List PubOp → List Multiaddr
  | set, [] => set
  | set, .add a :: ops => pubRun localPeer (publicAdd localPeer set a).1 ops
  | set, .remove a :: ops => pubRun localPeer (publicRemove set a).1 ops

/-- **Every public address names the local peer**: after any history of additions and removals
every address in the set ends in `/p2p/<local peer>`; an address naming another peer or the empty
address is refused and leaves the set unchanged. -/
theorem public_addresses_name_local (localPeer : Nat) (ops : List PubOp) :
    (∀ a ∈ pubRun localPeer [] ops, lastP2p a = some localPeer) ∧
    (∀ set a q, lastP2p a = some q → q ≠ localPeer →
      publicAdd localPeer set a = (set, .error .differentPeer)) ∧
    (∀ set, publicAdd localPeer set [] = (set, .error .empty)) := by
  refine ⟨?_, ?_, ?_⟩
  · have gen : ∀ (ops : List PubOp) (set : List Multiaddr), (∀ x ∈ set, lastP2p x = some localPeer) →
        ∀ a ∈ pubRun localPeer set ops, lastP2p a = some localPeer := by
      intro ops
      induction ops with
      | nil => intro set h; exact h
      | cons op ops ih =>
        intro set h
        cases op with
        | add a => exact ih _ (publicAdd_inv a h)
        | remove a => exact ih _ (publicRemove_inv a h)
    exact gen ops [] (by intro x hx; cases hx)
  · intro set a q hq hne
    have hne' : a ≠ [] := by intro h0; subst h0; simp [lastP2p] at hq
    cases a with
    | nil => exact absurd rfl hne'
    | cons c cs => simp [publicAdd, ensureLocalPeer, hq, hne]
  · intro set; rfl

example :
    pubRun 0 [] [.add [.dns 1, .tcp 5], .add [.dns 1, .tcp 5, .p2p 0], .add [.dns 2, .tcp 5, .p2p 9], .add [],
      .add [.dns 3, .tcp 1], .remove [.dns 3, .tcp 1]] = [[.dns 1, .tcp 5, .p2p 0], [.dns 3, .tcp 1, .p2p 0]] := by
  decide

/-- **A dial requested through the handle reaches the manager only for a known, dialable peer**:
`TransportManagerHandle::dial` queues a command only if the peer is not the local one, is known,
is not already being dialed and has at least one remembered address; in every other case the
manager state is untouched. The queued command runs `TransportManager::dial`, so the address list
handed to the transport obeys `dial_order`. -/
theorem handle_dial_guarded (m : Mgr) (peer : Nat) :
    ((m.handleDial peer).2.1 = .queued →
      peer ≠ m.localPeer ∧ (∃ c, lookupCtx peer m.peers = some c ∧ c.st = .disconnected ∧ c.store.recs ≠ []) ∧
      (m.handleDial peer).1 = (m.dial peer).1 ∧ (m.handleDial peer).2.2 = some (m.dial peer).2) ∧
    ((m.handleDial peer).2.1 ≠ .queued → (m.handleDial peer).1 = m ∧ (m.handleDial peer).2.2 = none) ∧
    (peer = m.localPeer → (m.handleDial peer).2.1 = .self) := by
  have hself : peer = m.localPeer → m.handleDialGuard peer = .self := by
    intro h; simp [Mgr.handleDialGuard, h]
  have hq : m.handleDialGuard peer = .queued →
      peer ≠ m.localPeer ∧ ∃ c, lookupCtx peer m.peers = some c ∧ c.st = .disconnected ∧ c.store.recs ≠ [] := by
    intro hg
    unfold Mgr.handleDialGuard at hg
    split at hg
    · cases hg
    · rename_i hne
      refine ⟨hne, ?_⟩
      split at hg
      · cases hg
      · rename_i c hc
        split at hg
        · cases hg
        · cases hg
        · rename_i hst
          split at hg
          · cases hg
          · rename_i hrec
            refine ⟨c, hc, hst, ?_⟩
            intro h0; rw [h0] at hrec; simp at hrec
  unfold Mgr.handleDial
  cases hg : m.handleDialGuard peer
  · exact ⟨fun h => (by cases h), fun _ => ⟨rfl, rfl⟩, fun _ => rfl⟩
  · refine ⟨fun h => (by cases h), fun _ => ⟨rfl, rfl⟩, fun h => ?_⟩
    rw [hself h] at hg; cases hg
  · refine ⟨fun h => (by cases h), fun _ => ⟨rfl, rfl⟩, fun h => ?_⟩
    rw [hself h] at hg; cases hg
  · refine ⟨fun _ => ⟨(hq hg).1, (hq hg).2, rfl, rfl⟩, fun h => absurd rfl h, fun h => ?_⟩
    rw [hself h] at hg; cases hg

example :
    let a : Multiaddr := [.ip4 ⟨10, false, false, false⟩, .tcp 1, .p2p 1]
    let m : Mgr := { Mgr.init 0 true none 64 scores with peers := [(1, ⟨.disconnected, ⟨[⟨a, 0⟩], 64⟩⟩), (2, ⟨.disconnected, ⟨[], 64⟩⟩)] }
    (m.handleDial 1).2 = (.queued, some (.started 0 (some [a]))) ∧ (m.handleDial 0).2 = (.self, none) ∧
    (m.handleDial 2).2 = (.noAddress, none) ∧ (m.handleDial 3).2 = (.noAddress, none) ∧
    ((m.handleDial 1).1.handleDial 1).2 = (.inProgress, none) := by decide

end Litep2pVerif.Props.C10

open Litep2pVerif.Props.C10 in
#print axioms remembered_only_if
open Litep2pVerif.Props.C10 in
#print axioms service_add_known_address_keeps_attribution
open Litep2pVerif.Props.C10 in
#print axioms supported_implies_parse
open Litep2pVerif.Props.C10 in
#print axioms store_bounded
open Litep2pVerif.Props.C10 in
#print axioms evict_min
open Litep2pVerif.Props.C10 in
#print axioms rescore_exact
open Litep2pVerif.Props.C10 in
#print axioms dial_result_rescores_used_address
open Litep2pVerif.Props.C10 in
#print axioms rediscovery_keeps_score
open Litep2pVerif.Props.C10 in
#print axioms dial_order
open Litep2pVerif.Props.C10 in
#print axioms listen_address_roundtrip
open Litep2pVerif.Props.C10 in
#print axioms listener_binds_only_sockets
open Litep2pVerif.Props.C10 in
#print axioms reported_dialable_and_local
open Litep2pVerif.Props.C10 in
#print axioms local_dial_sound
open Litep2pVerif.Props.C10 in
#print axioms lookup_respects_dns_type
open Litep2pVerif.Props.C10 in
#print axioms public_addresses_name_local
open Litep2pVerif.Props.C10 in
#print axioms handle_dial_guarded

/-! ## Manager level — a dial failure is scored in EVERY peer state (coverage round `mgr2`)

Over the connection-manager model `Model/Manager/Dial.lean` (the operational copy of
`src/transport/manager/mod.rs` that C05/C06 use; its `PeerState` is the full machine: `Connected` with a
secondary connection or a parked dial record, `Disconnected` with a dial record, `Opening`, `Dialing`).
It is tied to the real `TransportManager` by the c05 area; C10's check runs manager-level histories there with
the address store printed around every dial outcome. -/
namespace Litep2pVerif.Props.C10.Manager
open Litep2pVerif Litep2pVerif.Manager

/-- **A dial failure re-scores exactly the address used, whatever state the peer is in.** For EVERY
manager state `s` (no reachability assumption: every `PeerState` of every peer, every pending table —
in particular `Connected` with the failed dial parked as secondary record, i.e. the remote's own
connection won the simultaneous-dial race), every connection id and every failed address `a` ending in
`/p2p/p`: after `TransportEvent::DialFailure { a, e }` the address book of `p` is the old one with `a`
scored `error_score(e)` (`AddressStore::insert` of a non-zero score: an existing record takes the score,
a new one is added), every record of another address is as before, and no other peer's book changes. -/
theorem dial_failure_rescored_in_every_state (s : Mgr) (c : ConnId) (a : Multiaddr) (e : DialErr) (p : Peer)
    (hp : lastPeer a = some p) :
    let s' := (onDialFailure s c a e).1
    (s'.peers p).addresses = storeInsert (s.peers p).addresses a (errorScore e) ∧
    (∀ r ∈ (s.peers p).addresses, r.addr = a →
      (⟨a, errorScore e⟩ : AddrRec) ∈ (s'.peers p).addresses ∧
      ∀ r' ∈ (s'.peers p).addresses, r'.addr = a → r'.score = errorScore e) ∧
    (∀ r ∈ (s.peers p).addresses, r.addr ≠ a → r ∈ (s'.peers p).addresses) ∧
    (∀ q, q ≠ p → (s'.peers q).addresses = (s.peers q).addresses) := by
  have hne : errorScore e ≠ 0 := by cases e <;> decide
  have hbook : ∀ q, (((onDialFailure s c a e).1).peers q).addresses =
      if q = p then storeInsert (s.peers p).addresses a (errorScore e) else (s.peers q).addresses := by
    intro q
    unfold onDialFailure
    split
    · simp only [updAddrFail, hp, updAddr]; split <;> simp_all
    · simp only [updAddrFail, hp, updAddr, setState]
      split <;> split <;> simp_all
  intro s'
  have hp' : (s'.peers p).addresses = storeInsert (s.peers p).addresses a (errorScore e) := by
    show (((onDialFailure s c a e).1).peers p).addresses = _
    rw [hbook p, if_pos rfl]
  refine ⟨hp', ?_, ?_, ?_⟩
  · intro r hr hra
    have hany : (s.peers p).addresses.any (fun x => x.addr == a) = true :=
      List.any_eq_true.2 ⟨r, hr, by simp [hra]⟩
    rw [hp']
    unfold storeInsert
    rw [if_pos hany, if_pos hne]
    refine ⟨List.mem_map.2 ⟨r, hr, by simp [hra]⟩, ?_⟩
    intro r' hr' hra'
    obtain ⟨x, _, hx⟩ := List.mem_map.1 hr'
    by_cases hxa : x.addr = a
    · rw [if_pos hxa] at hx; rw [← hx]
    · rw [if_neg hxa] at hx; rw [← hx] at hra'; exact absurd hra' hxa
  · intro r hr hra
    rw [hp']
    unfold storeInsert
    by_cases hany : (s.peers p).addresses.any (fun x => x.addr == a) = true
    · rw [if_pos hany, if_pos hne]
      exact List.mem_map.2 ⟨r, hr, by simp [hra]⟩
    · rw [if_neg hany]
      exact List.mem_append_left _ hr
  · intro q hq
    show (((onDialFailure s c a e).1).peers q).addresses = _
    rw [hbook q, if_neg hq]

/-- Non-vacuity: the simultaneous-dial race. `dial_address(A)` for peer 1 is in flight, peer 1's own inbound
connection is established (state `Connected` with the dial parked as secondary record), then the dial fails with
a timeout: `A` goes from 0 to `CONNECTION_FAILURE`; the peer stays connected through the inbound connection. The
same failure with an address error scores `ADDRESS_FAILURE`; a second, known address keeps its score. -/
example :
    let A : Multiaddr := [.ip4 11, .tcp 1001, .p2p 1]
    let B : Multiaddr := [.ip4 12, .tcp 1002, .p2p 1]
    let g := runG (G.init ⟨none, none⟩)
      [.addKnown 1 [B], .dialAddress A, .alloc, .evEstablished 1 ⟨true, [.ip4 51, .tcp 4000], 1⟩ true]
    stateOf g.m 1 = .connected ⟨[.ip4 51, .tcp 4000, .p2p 1], 1⟩ (some (.dialing ⟨A, 0⟩)) ∧
    (g.m.peers 1).addresses = [⟨B, 0⟩, ⟨A, 0⟩] ∧
    ((onDialFailure g.m 0 A .timeout).1.peers 1).addresses = [⟨B, 0⟩, ⟨A, -100⟩] ∧
    ((onDialFailure g.m 0 A .address).1.peers 1).addresses = [⟨B, 0⟩, ⟨A, -2147483648⟩] ∧
    stateOf (onDialFailure g.m 0 A .timeout).1 1 = .connected ⟨[.ip4 51, .tcp 4000, .p2p 1], 1⟩ none := by
  decide

end Litep2pVerif.Props.C10.Manager

#print axioms Litep2pVerif.Props.C10.Manager.dial_failure_rescored_in_every_state
/-! ## Wiring — the order in which the transport attempts the addresses of a dial (added after seeded C10-e2)

Over the wiring model `Model/Node/Wiring.lean` (`Node.new c` = `Litep2p::new(ConfigBuilder…build())`, `notes` / `tcpHeld` =
what the constructed protocol objects / the TCP transport hold, `protocolCodec` = `ProtocolSet::protocol_codec`), tied to
the real code by the `node` area: real nodes built through the public API print what the CONSTRUCTED objects hold and what
a connection's `ProtocolSet` answers for every main and fallback name; the driver prints the model's; compared exactly. -/
namespace Litep2pVerif.Props.C10.Wiring
open Litep2pVerif Litep2pVerif.Node

/-- Kademlia setter calls of the sample: a later call overrides an earlier one; zero bounds. -/
def sampleSets : List KadSet := [.maxRecords 5, .replication 3, .maxRecords 0, .maxProviderKeys 0, .validationMode false]

/-- A configuration with fallback names, zero store bounds and non-default transport settings (non-vacuity examples). -/
def sample : Config :=
  { keepAliveMs := some 600, listen := [1],
    notif := [{ name := "/n/new", max := 32, handshake := "01", fallback := ["/n/a"], mode := 'a', sync := some 7, async := none,
                dial := some false }],
    rr := [{ name := "/r/new", max := 256, timeoutMs := 800, fallback := ["/r/a", "/r/b"], maxInbound := some 3 }],
    user := [⟨"/u/a", .identity 8⟩],
    kad := [{ names := ["/k/2", "/k/1"], max := some 2048,
              sets := sampleSets }],
    ping := some 1, identify := true, bitswap := true, maxParallelDials := some 0,
    tcpSets := [.readAhead 3, .parallelDials 7, .writeBuffer 4] }

/-- `TcpTransport::open` (`Model/Addr/Open.lean`: `stream::iter(addresses).buffer_unordered(n)`): under EVERY schedule of
completions and every number of dial slots the attempts are STARTED in the order of the list the manager handed over — what
has been started, followed by what has not been pulled yet, is that list (nothing skipped, nothing reordered); together with
`dial_order` (that list is sorted by non-increasing score) a dial by peer id tries better-scored addresses first. With one
dial slot the attempts also FINISH in that order (`ListDialFailures` lists them so): at most one is in flight and what has
finished followed by it is what has been started. -/
theorem transport_attempts_in_given_order {α : Type} (n : Nat) (sched : List Nat) (addrs : List α) :
    (Addr.Open.run n sched addrs).started ++ (Addr.Open.run n sched addrs).pending = addrs ∧
    (n = 1 → (Addr.Open.run n sched addrs).finished ++ (Addr.Open.run n sched addrs).inflight =
        (Addr.Open.run n sched addrs).started ∧ (Addr.Open.run n sched addrs).inflight.length ≤ 1) := by
  refine ⟨Addr.Open.run_inv n sched addrs, ?_⟩
  intro h
  subst h
  exact Addr.Open.run_seq sched addrs

example : (Addr.Open.run 1 [5, 0, 3] ["d1", "x2", "x3"]).finished = ["d1", "x2", "x3"] := by decide
example : (Addr.Open.run 1 [5] ["d1", "x2", "x3"]).started = ["d1", "x2"] := by decide
-- two slots: started in order, finished as the network decides
example : (Addr.Open.run 2 [1, 0, 0] ["d1", "x2", "x3"]).started = ["d1", "x2", "x3"] ∧
    (Addr.Open.run 2 [1, 0, 0] ["d1", "x2", "x3"]).finished = ["x2", "d1", "x3"] := by decide

/-- The number of dial slots of the TCP transport is the top-level `with_max_parallel_dials` setting (at least 1; the
crate default when not called) — whatever `max_parallel_dials` the user's `tcp::config::Config` carried. -/
theorem max_parallel_dials_reaches_transport (c : Config) :
    (tcpHeld (build c)).maxParallelDials =
      match c.maxParallelDials with
      | some n => max n 1
      | none => Consts.NODE_MAX_PARALLEL_DIALS := by
  cases h : c.maxParallelDials <;> simp [tcpHeld, build, h]

example : (tcpHeld (build sample)).maxParallelDials = 1 := by decide
example : (tcpHeld (build { sample with maxParallelDials := none })).maxParallelDials = 8 := by decide

end Litep2pVerif.Props.C10.Wiring

#print axioms Litep2pVerif.Props.C10.Wiring.transport_attempts_in_given_order
#print axioms Litep2pVerif.Props.C10.Wiring.max_parallel_dials_reaches_transport

/-! ## The address a successful dial is credited to (coverage round `tcp3`)

`dial_result_rescores_used_address` is about the manager: it scores the address the TRANSPORT reports with
`ConnectionEstablished` (`endpoint.address()`). For the TCP transport that address is rebuilt by
`TcpConnection::negotiate_connection` from the `AddressType` the dialed multiaddress was parsed into — transport model
`Model/Noise/Identity.lean` (`parseDialed`, `addressType`, `endpointHost`, `endpointAddress`, `scoredAddress`). -/
namespace Litep2pVerif.Props.C10.Endpoint
open Litep2pVerif.Id Litep2pVerif.Noise.Identity

/-- **The endpoint address is the dialed address.** For every address the TCP transport accepts — every host kind
(`/ip4`, `/ip6`, `/dns`, `/dns4`, `/dns6`), with or without `/p2p`, through `dial` and through `open` — the address
reported with `ConnectionEstablished` for the dialer is the dialed multiaddress (its `/<host>/tcp/<port>` part: the
endpoint address never carries the `/p2p` suffix). -/
theorem endpoint_address_is_dialed_address (e : Entry) (a : DialedAddr) (h : Host) (p : Option PeerId)
    (hp : parseDialed a = some (h, p)) : endpointAddress e a = some (a.take 2) := by
  have hshape : a.take 2 = [.host h, .tcp] := by
    unfold parseDialed at hp
    split at hp
    · simp only [Option.some.injEq, Prod.mk.injEq] at hp; simp [hp.1]
    · simp only [Option.some.injEq, Prod.mk.injEq] at hp; simp [hp.1]
    · simp at hp
  rw [hshape]
  cases e <;> cases h <;> simp [endpointAddress, dialPeerAddress, hp, addressType, endpointHost]

example : endpointAddress .dial [.host .dns4, .tcp, .p2p ⟨⟨0, [1]⟩⟩] = some [.host .dns4, .tcp] := by decide
example : endpointAddress .open [.host .dns6, .tcp] = some [.host .dns6, .tcp] := by decide

/-- **A successful dial credits exactly the address that was dialed.** When `/<host>/tcp/<port>/p2p/<peer>` was dialed
and the connection was established (so the remote proved to be `peer`: `transportCheck`), the record the manager
scores with `CONNECTION_ESTABLISHED` is that very multiaddress — not a sibling with another host kind. -/
theorem established_dial_scores_dialed_address (e : Entry) (h : Host) (peer proven q : PeerId)
    (hc : transportCheck e [.host h, .tcp, .p2p peer] proven = .ok q) :
    scoredAddress e [.host h, .tcp, .p2p peer] q = some [.host h, .tcp, .p2p peer] := by
  have hexp : entryDialedPeer e [.host h, .tcp, .p2p peer] = some peer := by
    cases e <;> simp [entryDialedPeer, dialPeerAddress, expectedPeer, parseDialed]
  have hq : q = peer := by
    rw [transportCheck, hexp] at hc
    simp only [negotiateCheck] at hc
    split at hc
    · simp at hc
    · rename_i hne
      simp only [Except.ok.injEq] at hc
      have : peer = proven := by simpa using hne
      rw [this, hc]
  subst hq
  cases e <;> cases h <;> simp [scoredAddress, endpointAddress, dialPeerAddress, parseDialed, addressType, endpointHost]

example : transportCheck .open [.host .dns4, .tcp, .p2p ⟨⟨0, [7]⟩⟩] ⟨⟨0, [7]⟩⟩ = .ok ⟨⟨0, [7]⟩⟩ ∧
    scoredAddress .open [.host .dns4, .tcp, .p2p ⟨⟨0, [7]⟩⟩] ⟨⟨0, [7]⟩⟩ = some [.host .dns4, .tcp, .p2p ⟨⟨0, [7]⟩⟩] := by decide

end Litep2pVerif.Props.C10.Endpoint

#print axioms Litep2pVerif.Props.C10.Endpoint.endpoint_address_is_dialed_address
#print axioms Litep2pVerif.Props.C10.Endpoint.established_dial_scores_dialed_address
