import Litep2pVerif.Proofs.Wire.Roundtrip
/-!
# C19 — Bytes from the network can never panic or over-allocate a decoder

The decoders are modelled as total Lean functions over byte lists whose only failure value is
`none` (`Model/Wire/*`): there is no panic value to reach and every loop is structurally recursive on
a fuel that the input length bounds, so "returns a value or an error for every input, without
looping forever" holds by construction of the model. The theorems below are the quantitative part —
what a successful decode can allocate — and the encoder/decoder round trips. The model is tied to
prost and to `KademliaMessage::from_bytes` by the C19 correspondence run.

`size` of a decoded message counts every byte of every bytes/string field plus one per repeated
element (`Proofs/Wire/Sizes.lean`).
-/
namespace Litep2pVerif.Props.C19
open Litep2pVerif.Wire

/-- A varint read consumes at least one byte (so every decoding loop makes progress). -/
theorem readVarint_consumes (bs rest : List Nat) (v : Nat) (h : readVarint bs = some (v, rest)) :
    rest.length < bs.length := readVarint_length h

example : readVarint [0x96, 0x01, 7] = some (150, [7]) := by decide

/-- Varints round-trip for every 64-bit value, whatever follows. -/
theorem readVarint_writeVarint (n : Nat) (hn : n < 2 ^ 64) (rest : List Nat) :
    readVarint (writeVarint n ++ rest) = some (n, rest) := readVarint_writeVarint' n hn rest

example : writeVarint 300 = [0xAC, 0x02] ∧ readVarint [0xFF, 0xFF, 0xFF, 0xFF, 0xFF, 0xFF, 0xFF, 0xFF, 0xFF, 0x02] = none := by
  decide

/-- Field keys round-trip for every valid tag and wire type. -/
theorem readKey_writeKey (tag wt : Nat) (ht : 1 ≤ tag) (ht' : tag < 2 ^ 29) (hw : wt ≤ 5) (rest : List Nat) :
    readKey (writeKey tag wt ++ rest) = some (tag, wt, rest) := readKey_writeKey' tag wt ht ht' hw rest

example : readKey [0x52, 0x0a] = some (10, 2, [0x0a]) ∧ readKey [0x00] = none ∧ readKey [0x0e] = none := by decide

/-- A length-delimited field round-trips. -/
theorem bytes_field_roundtrip (b rest : List Nat) (hb : b.length < 2 ^ 64) :
    fieldBytes 2 (writeVarint b.length ++ b ++ rest) = some (b, rest) := fieldBytes_enc b rest hb

/-- **Allocation bound, Kademlia.** Whatever a successfully decoded Kademlia message holds (all byte
strings of the message, its record and its peers, plus one unit per peer and per address) fits in
the number of input bytes. -/
theorem kad_alloc_bound (bs : List Nat) (m : KMessage) (h : KMessage.decode bs = some m) :
    m.size ≤ bs.length := KMessage.decode_size h

example : (KMessage.decode [0x08, 0x04, 0x12, 0x02, 0x01, 0x02, 0x42, 0x04, 0x0a, 0x02, 0x12, 0x20, 0x50, 0x0a]).map KMessage.size
    = some 5 := by decide

/-- **Allocation bound, identify.** -/
theorem identify_alloc_bound (bs : List Nat) (m : Identify) (h : Identify.decode bs = some m) :
    m.size ≤ bs.length := Identify.decode_size h

/-- **Allocation bound, bitswap.** -/
theorem bitswap_alloc_bound (bs : List Nat) (m : BsMessage) (h : BsMessage.decode bs = some m) :
    m.size ≤ bs.length := BsMessage.decode_size h

/-- **Allocation bound, Noise handshake payload.** -/
theorem noise_alloc_bound (bs : List Nat) (m : NoisePayload) (h : NoisePayload.decode bs = some m) :
    m.size ≤ bs.length := NoisePayload.decode_size h

/-- **Allocation bound, public key.** -/
theorem key_alloc_bound (bs : List Nat) (m : PublicKeyPb) (h : PublicKeyPb.decode bs = some m) :
    m.size ≤ bs.length := PublicKeyPb.decode_size h

example : (BsMessage.decode [0x0a, 0x04, 0x0a, 0x02, 0x0a, 0x00, 0x1a, 0x03, 0x0a, 0x01, 0x07]).map BsMessage.size = some 3 := by
  decide

/-- The peers `KademliaMessage::from_bytes` keeps from one message never exceed the replication
factor, and each keeps at most the address-store capacity of addresses — for every input and every
behaviour of the third-party peer-id/multiaddr parsers. -/
theorem kad_peers_bounded (peerIdOk addrOk : List Nat → Bool) (repl : Nat) (ps : List KPeer) :
    (peersFrom peerIdOk addrOk repl ps).length ≤ repl ∧
    ∀ p ∈ peersFrom peerIdOk addrOk repl ps, p.naddrs ≤ addressStoreCapacity := by
  refine ⟨by simp [peersFrom, List.length_take], ?_⟩
  intro p hp
  have hp' := List.mem_of_mem_take hp
  simp only [List.mem_filterMap] at hp'
  obtain ⟨q, _, hq⟩ := hp'
  unfold peerTryFrom at hq
  split at hq
  · cases hq
  · split at hq
    · cases hq
    · simp only [Option.some.injEq] at hq
      subst hq
      exact Nat.min_le_right _ _

/-- The Kademlia request encodings (`find_node`, `get_record`, `get_providers_request`: type, key,
clusterLevelRaw = 10) decode to the value that was encoded. -/
theorem kad_request_roundtrip (type : Nat) (key : List Nat) (ht : type < 2 ^ 31) (hk : key.length < 2 ^ 64) :
    KMessage.decode (encodeKadRequest type key) =
      some { type := Int.ofNat type, clusterLevelRaw := 10, key := key } :=
  kadRequest_roundtrip type key ht hk

example : encodeKadRequest 4 [1, 2] = [0x08, 0x04, 0x12, 0x02, 0x01, 0x02, 0x50, 0x0a] := by decide

end Litep2pVerif.Props.C19

open Litep2pVerif.Props.C19 in
#print axioms readVarint_consumes
open Litep2pVerif.Props.C19 in
#print axioms readVarint_writeVarint
open Litep2pVerif.Props.C19 in
#print axioms readKey_writeKey
open Litep2pVerif.Props.C19 in
#print axioms bytes_field_roundtrip
open Litep2pVerif.Props.C19 in
#print axioms kad_alloc_bound
open Litep2pVerif.Props.C19 in
#print axioms identify_alloc_bound
open Litep2pVerif.Props.C19 in
#print axioms bitswap_alloc_bound
open Litep2pVerif.Props.C19 in
#print axioms noise_alloc_bound
open Litep2pVerif.Props.C19 in
#print axioms key_alloc_bound
open Litep2pVerif.Props.C19 in
#print axioms kad_peers_bounded
open Litep2pVerif.Props.C19 in
#print axioms kad_request_roundtrip
