import Litep2pVerif.Proofs.Wire.KadEncoders
import Litep2pVerif.Proofs.Wire.Identify
import Litep2pVerif.Proofs.Node.Wiring
/-!
# C19 — Bytes from the network can never panic or over-allocate a decoder

The decoders are modelled as total Lean functions over byte lists whose only failure value is
`none` (`Model/Wire/*`): there is no panic value to reach and every loop is structurally recursive on
a fuel that the input length bounds, so "returns a value or an error for every input, without
looping forever" holds by construction of the model. The theorems below are the quantitative part —
what a successful decode can allocate — and the encoder/decoder round trips. The model is tied to
prost and to `KademliaMessage::from_bytes` by the C19 correspondence run.

`size` of a decoded message counts every byte of every bytes/string field plus one per repeated
element (`Proofs/Wire/Sizes.lean`).
-/
namespace Litep2pVerif.Props.C19
open Litep2pVerif.Wire

/-- A varint read consumes at least one byte (so every decoding loop makes progress). -/
theorem readVarint_consumes (bs rest : List Nat) (v : Nat) (h : readVarint bs = some (v, rest)) :
    rest.length < bs.length := readVarint_length h

example : readVarint [0x96, 0x01, 7] = some (150, [7]) := by decide

/-- Varints round-trip for every 64-bit value, whatever follows. -/
theorem readVarint_writeVarint (n : Nat) (hn : n < 2 ^ 64) (rest : List Nat) :
    readVarint (writeVarint n ++ rest) = some (n, rest) := readVarint_writeVarint' n hn rest

example : writeVarint 300 = [0xAC, 0x02] ∧ readVarint [0xFF, 0xFF, 0xFF, 0xFF, 0xFF, 0xFF, 0xFF, 0xFF, 0xFF, 0x02] = none := by
  decide

/-- Field keys round-trip for every valid tag and wire type. -/
theorem readKey_writeKey (tag wt : Nat) (ht : 1 ≤ tag) (ht' : tag < 2 ^ 29) (hw : wt ≤ 5) (rest : List Nat) :
    readKey (writeKey tag wt ++ rest) = some (tag, wt, rest) := readKey_writeKey' tag wt ht ht' hw rest

example : readKey [0x52, 0x0a] = some (10, 2, [0x0a]) ∧ readKey [0x00] = none ∧ readKey [0x0e] = none := by decide

/-- A length-delimited field round-trips. -/
theorem bytes_field_roundtrip (b rest : List Nat) (hb : b.length < 2 ^ 64) :
    fieldBytes 2 (writeVarint b.length ++ b ++ rest) = some (b, rest) := fieldBytes_enc b rest hb

/-- **Allocation bound, Kademlia.** Whatever a successfully decoded Kademlia message holds (all byte
strings of the message, its record and its peers, plus one unit per peer and per address) fits in
the number of input bytes. -/
theorem kad_alloc_bound (bs : List Nat) (m : KMessage) (h : KMessage.decode bs = some m) :
    m.size ≤ bs.length := KMessage.decode_size h

example : (KMessage.decode [0x08, 0x04, 0x12, 0x02, 0x01, 0x02, 0x42, 0x04, 0x0a, 0x02, 0x12, 0x20, 0x50, 0x0a]).map KMessage.size
    = some 5 := by decide

/-- **Allocation bound, identify.** -/
theorem identify_alloc_bound (bs : List Nat) (m : Identify) (h : Identify.decode bs = some m) :
    m.size ≤ bs.length := Identify.decode_size h

/-- **Allocation bound, bitswap.** -/
theorem bitswap_alloc_bound (bs : List Nat) (m : BsMessage) (h : BsMessage.decode bs = some m) :
    m.size ≤ bs.length := BsMessage.decode_size h

/-- **Allocation bound, Noise handshake payload.** -/
theorem noise_alloc_bound (bs : List Nat) (m : NoisePayload) (h : NoisePayload.decode bs = some m) :
    m.size ≤ bs.length := NoisePayload.decode_size h

/-- **Allocation bound, public key.** -/
theorem key_alloc_bound (bs : List Nat) (m : PublicKeyPb) (h : PublicKeyPb.decode bs = some m) :
    m.size ≤ bs.length := PublicKeyPb.decode_size h

example : (BsMessage.decode [0x0a, 0x04, 0x0a, 0x02, 0x0a, 0x00, 0x1a, 0x03, 0x0a, 0x01, 0x07]).map BsMessage.size = some 3 := by
  decide

/-- The peers `KademliaMessage::from_bytes` keeps from one message never exceed the replication
factor, and each keeps at most the address-store capacity of addresses — for every input and every
behaviour of the third-party peer-id/multiaddr parsers. -/
theorem kad_peers_bounded (peerIdOk addrOk : List Nat → Bool) (repl : Nat) (ps : List KPeer) :
    (peersFrom peerIdOk addrOk repl ps).length ≤ repl ∧
    ∀ p ∈ peersFrom peerIdOk addrOk repl ps, p.naddrs ≤ addressStoreCapacity := by
  refine ⟨by simp [peersFrom, List.length_take], ?_⟩
  intro p hp
  have hp' := List.mem_of_mem_take hp
  simp only [List.mem_filterMap] at hp'
  obtain ⟨q, _, hq⟩ := hp'
  unfold peerTryFrom at hq
  split at hq
  · cases hq
  · split at hq
    · cases hq
    · simp only [Option.some.injEq] at hq
      subst hq
      exact Nat.min_le_right _ _

/-! ## Encoders round-trip

`X.encode` is prost's `encode_raw` for the struct prost-build generates from the `.proto` file, `X.decode`
its `decode`; both are regenerated from /repo's `.proto` files on every run (`tools/proto2lean.py`).
`m.WF` says what the Rust types guarantee (i32 ranges, UTF-8 strings, lengths and nested encodings
below 2^64); it is decidable. The static nesting of every schema is within prost's recursion limit
(`X.nest ≤ recursionLimit`, checked by `decide` inside `X.decode_encode`). -/

/-- **Kademlia**: every `schema::kademlia::Message` value decodes to itself. -/
theorem kad_roundtrip (m : KMessage) (h : m.WF) : KMessage.decode (KMessage.encode m) = some m :=
  KMessage.decode_encode m h

example : ({ type := 4, key := [1, 2], clusterLevelRaw := 10, record := some { key := [1], value := [7, 7], ttl := 3600 },
             closerPeers := [{ id := [0x12, 0x01, 0x05], addrs := [[4, 127, 0, 0, 1, 6, 0, 80], []], connection := 2 }, {}],
             providerPeers := [{ connection := -1 }] } : KMessage).WF := by decide

example : KMessage.encode { type := 1, key := [9], record := some {}, closerPeers := [{ id := [5] }] } =
    [0x08, 0x01, 0x12, 0x01, 0x09, 0x1a, 0x00, 0x42, 0x03, 0x0a, 0x01, 0x05] := by decide

/-- **Identify.** -/
theorem identify_roundtrip (m : Identify) (h : m.WF) : Identify.decode (Identify.encode m) = some m :=
  Identify.decode_encode m h

example : ({ protocolVersion := some [0x2f, 0x61], agentVersion := some [0xc3, 0xbc], publicKey := some [8, 1],
             listenAddrs := [[4, 10, 0, 0, 1, 6, 0, 1], []], observedAddr := none, protocols := [[0x2f, 0x78], []] } : Identify).WF ∧
    ¬ ({ agentVersion := some [0xff] } : Identify).WF := by decide

/-- **Bitswap.** -/
theorem bitswap_roundtrip (m : BsMessage) (h : m.WF) : BsMessage.decode (BsMessage.encode m) = some m :=
  BsMessage.decode_encode m h

example : ({ wantlist := some { entries := [{ block := [1, 2], priority := -5, cancel := true, wantType := 1, sendDontHave := true }, {}],
                                full := true },
             blocks := [[1], []], payload := [{ pfx := [1, 0x55, 0x12, 0x20], data := [0xde, 0xad] }],
             blockPresences := [{ cid := [1, 2, 3], type := 1 }], pendingBytes := 2147483647 } : BsMessage).WF ∧
    ¬ ({ pendingBytes := 2147483648 } : BsMessage).WF := by decide

example : BsMessage.encode { wantlist := some {}, payload := [{ data := [7] }] } = [0x0a, 0x00, 0x1a, 0x03, 0x12, 0x01, 0x07] := by
  decide

/-- **Noise handshake payload.** -/
theorem noise_payload_roundtrip (m : NoisePayload) (h : m.WF) : NoisePayload.decode (NoisePayload.encode m) = some m :=
  NoisePayload.decode_encode m h

example : ({ identityKey := some [8, 1, 0x12, 0], identitySig := some [], extensions := some { streamMuxers := [[0x2f, 0x79]] } } :
    NoisePayload).WF := by decide

/-- **Public key** (proto2 `required` fields: always written). -/
theorem public_key_roundtrip (m : PublicKeyPb) (h : m.WF) : PublicKeyPb.decode (PublicKeyPb.encode m) = some m :=
  PublicKeyPb.decode_encode m h

example : PublicKeyPb.encode {} = [0x08, 0x00, 0x12, 0x00] ∧ ({ type := 1, data := [1, 2, 3] } : PublicKeyPb).WF := by decide

/-- **WebRTC framing message** (its decoder is compiled only with the `webrtc` feature; the schema is
translated all the same). -/
theorem webrtc_message_roundtrip (m : WebRtcMessage) (h : m.WF) : WebRtcMessage.decode (WebRtcMessage.encode m) = some m :=
  WebRtcMessage.decode_encode m h

example : ({ flag := some 3, message := some [1, 2] } : WebRtcMessage).WF ∧
    WebRtcMessage.encode { flag := some 0 } = [0x08, 0x00] := by decide

/-! ## The hand-written Kademlia encoders (kademlia/message.rs) against `KademliaMessage::from_bytes`

`peerIdOk`/`addrOk` are the third-party peer-id and multiaddr parsers (parameters). The hypotheses are the
stated limits: well-formed message, peers that `try_from` accepts, no more peers than the replication
factor (more are cut off by `take`). -/

/-- The written-out request bytes are what prost encodes for `find_node`/`get_record`/
`get_providers_request`. -/
theorem kad_request_encoding (type : Nat) (key : List Nat) :
    encodeKadRequest type key = KMessage.encode { type := Int.ofNat type, key := key, clusterLevelRaw := 10 } :=
  encodeKadRequest_eq type key

/-- The Kademlia request encodings (`find_node`, `get_record`, `get_providers_request`: type, key,
clusterLevelRaw = 10) decode to the value that was encoded — a corollary of `kad_roundtrip`. -/
theorem kad_request_roundtrip (type : Nat) (key : List Nat) (ht : type < 2 ^ 31) (hk : key.length < 2 ^ 64) :
    KMessage.decode (encodeKadRequest type key) =
      some { type := Int.ofNat type, clusterLevelRaw := 10, key := key } := by
  rw [encodeKadRequest_eq]
  exact kad_roundtrip _ (kadRequest_wf type key ht hk)

example : encodeKadRequest 4 [1, 2] = [0x08, 0x04, 0x12, 0x02, 0x01, 0x02, 0x50, 0x0a] := by decide

/-- `find_node`. -/
theorem kad_find_node_roundtrip (peerIdOk addrOk : List Nat → Bool) (repl : Nat) (key : List Nat)
    (h : (kadFindNode key).WF) :
    kadFromBytes peerIdOk addrOk repl (KMessage.encode (kadFindNode key)) = some (.findNode key []) := by
  rw [kadFromBytes_encode _ _ _ _ h]
  simp [kadOfMessage, kadFindNode, peersFrom]

/-- `put_value`. -/
theorem kad_put_value_roundtrip (peerIdOk addrOk : List Nat → Bool) (repl : Nat) (r : RecordIn)
    (h : (kadPutValue r).WF) (hr : recordInOk peerIdOk r) :
    kadFromBytes peerIdOk addrOk repl (KMessage.encode (kadPutValue r)) = some (.putValue (recordOutOf r)) := by
  rw [kadFromBytes_encode _ _ _ _ h]
  simp [kadOfMessage, kadPutValue, recordFromSchema_ok peerIdOk r hr]

/-- `get_record`. -/
theorem kad_get_record_roundtrip (peerIdOk addrOk : List Nat → Bool) (repl : Nat) (key : List Nat)
    (h : (kadGetRecord key).WF) :
    kadFromBytes peerIdOk addrOk repl (KMessage.encode (kadGetRecord key)) =
      some (.getRecord (if key.isEmpty then none else some key) none []) := by
  rw [kadFromBytes_encode _ _ _ _ h]
  simp [kadOfMessage, kadGetRecord, peersFrom]

/-- `find_node_response`: up to `replication_factor` acceptable peers come back as sent. -/
theorem kad_find_node_response_roundtrip (peerIdOk addrOk : List Nat → Bool) (repl : Nat) (key : List Nat)
    (peers : List PeerIn) (h : (kadFindNodeResponse key peers).WF) (hp : ∀ p ∈ peers, peerInOk peerIdOk p)
    (hl : peers.length ≤ repl) :
    kadFromBytes peerIdOk addrOk repl (KMessage.encode (kadFindNodeResponse key peers)) =
      some (.findNode key (peers.map (peerOutOf addrOk))) := by
  rw [kadFromBytes_encode _ _ _ _ h]
  have := peersFrom_map peerIdOk addrOk repl id peers hp hl
  simp only [id] at this
  simp [kadOfMessage, kadFindNodeResponse, this]

/-- `put_value_response`. -/
theorem kad_put_value_response_roundtrip (peerIdOk addrOk : List Nat → Bool) (repl : Nat) (key value : List Nat)
    (h : (kadPutValueResponse key value).WF) :
    kadFromBytes peerIdOk addrOk repl (KMessage.encode (kadPutValueResponse key value)) =
      some (.putValue { key := key, value := value, publisher := none, hasExpiry := false }) := by
  rw [kadFromBytes_encode _ _ _ _ h]
  simp [kadOfMessage, kadPutValueResponse, recordFromSchema]

/-- `get_value_response` (non-empty key, as every caller passes). -/
theorem kad_get_value_response_roundtrip (peerIdOk addrOk : List Nat → Bool) (repl : Nat) (key : List Nat)
    (peers : List PeerIn) (record : Option RecordIn) (h : (kadGetValueResponse key peers record).WF)
    (hk : key ≠ []) (hp : ∀ p ∈ peers, peerInOk peerIdOk p) (hl : peers.length ≤ repl)
    (hr : optAll (recordInOk peerIdOk) record) :
    kadFromBytes peerIdOk addrOk repl (KMessage.encode (kadGetValueResponse key peers record)) =
      some (.getRecord (some key) (record.map recordOutOf) (peers.map (peerOutOf addrOk))) := by
  rw [kadFromBytes_encode _ _ _ _ h]
  have := peersFrom_map peerIdOk addrOk repl id peers hp hl
  simp only [id] at this
  cases record with
  | none => simp [kadOfMessage, kadGetValueResponse, this, hk]
  | some r => simp [kadOfMessage, kadGetValueResponse, this, hk, recordFromSchema_ok peerIdOk r hr]

/-- `add_provider`: the provider arrives with connection type `CanConnect`. -/
theorem kad_add_provider_roundtrip (peerIdOk addrOk : List Nat → Bool) (repl : Nat) (key : List Nat)
    (provider : PeerIn) (h : (kadAddProvider key provider).WF) (hk : key ≠ []) (hp : peerIdOk provider.id = true)
    (hl : 1 ≤ repl) :
    kadFromBytes peerIdOk addrOk repl (KMessage.encode (kadAddProvider key provider)) =
      some (.addProvider key [peerOutOf addrOk { provider with conn := 2 }]) := by
  rw [kadFromBytes_encode _ _ _ _ h]
  have := peersFrom_map peerIdOk addrOk repl (fun p => { p with conn := 2 }) [provider]
    (by intro p hp'; simp at hp'; subst hp'; exact ⟨hp, (by show (0 : Int) ≤ 2; decide), (by show (2 : Int) ≤ 3; decide)⟩) (by simpa using hl)
  simp only [List.map_cons, List.map_nil] at this
  simp [kadOfMessage, kadAddProvider, this, hk]

/-- `get_providers_request`. -/
theorem kad_get_providers_request_roundtrip (peerIdOk addrOk : List Nat → Bool) (repl : Nat) (key : List Nat)
    (h : (kadGetProvidersRequest key).WF) :
    kadFromBytes peerIdOk addrOk repl (KMessage.encode (kadGetProvidersRequest key)) =
      some (.getProviders (if key.isEmpty then none else some key) [] []) := by
  rw [kadFromBytes_encode _ _ _ _ h]
  simp [kadOfMessage, kadGetProvidersRequest, peersFrom]

/-- `get_providers_response`: providers arrive as `NotConnected`, closer peers as sent, no key. -/
theorem kad_get_providers_response_roundtrip (peerIdOk addrOk : List Nat → Bool) (repl : Nat)
    (providers closer : List PeerIn) (h : (kadGetProvidersResponse providers closer).WF)
    (hp : ∀ p ∈ providers, peerIdOk p.id = true) (hc : ∀ p ∈ closer, peerInOk peerIdOk p)
    (hlp : providers.length ≤ repl) (hlc : closer.length ≤ repl) :
    kadFromBytes peerIdOk addrOk repl (KMessage.encode (kadGetProvidersResponse providers closer)) =
      some (.getProviders none (closer.map (peerOutOf addrOk))
        (providers.map fun p => peerOutOf addrOk { p with conn := 0 })) := by
  rw [kadFromBytes_encode _ _ _ _ h]
  have h1 := peersFrom_map peerIdOk addrOk repl id closer hc hlc
  simp only [id] at h1
  have h2 := peersFrom_map peerIdOk addrOk repl (fun p => { p with conn := 0 }) providers
    (fun p hp' => ⟨hp p hp', (by show (0 : Int) ≤ 0; decide), (by show (0 : Int) ≤ 3; decide)⟩) hlp
  simp [kadOfMessage, kadGetProvidersResponse, h1, h2]

example : (kadFindNodeResponse [1, 2] [{ id := [0, 1, 9], addrs := [[4, 1, 2, 3, 4, 6, 0, 1]], conn := 1 }]).WF ∧
    (kadPutValue { key := [1], value := [2, 3], publisher := some [0, 1, 9], ttl := 4294967295 }).WF ∧
    recordInOk (fun b => b.length == 3) { key := [1], value := [2, 3], publisher := some [0, 1, 9], ttl := 1 } ∧
    peerInOk (fun b => b.length == 3) { id := [0, 1, 9], addrs := [], conn := 3 } := by decide

example : kadFromBytes (fun _ => true) (fun _ => true) 20
    (KMessage.encode (kadGetProvidersResponse [{ id := [7], addrs := [[1], [1], [2]], conn := 3 }] [{ id := [8], addrs := [], conn := 1 }])) =
    some (.getProviders none [{ id := [8], naddrs := 0, conn := 1 }] [{ id := [7], naddrs := 2, conn := 0 }]) := by decide
/-! ## The identify protocol object (`src/protocol/libp2p/identify.rs`)

`identifyOutbound info remote localId steps`: what the user sees after a remote played `steps` (writes in
any fragmentation, pauses, close, reset) on our outbound identify substream — the real frame reader
(`Model/Substream/Codec.lean`, codec `UnsignedVarint(Some(IDENTIFY_PAYLOAD_SIZE))`), the 10 s timeout,
prost's decoder, the address filters and the event built by `run()`. `info` is what the third-party
multiaddr parser says about an address. -/

/-- **No byte sequence, fragmentation or timing makes the identify handler panic.** -/
theorem identify_no_panic (info : List Nat → AddrInfo) (remote localId : List Nat) (steps : List OutStep) (msg : String) :
    identifyOutbound info remote localId steps ≠ .panic msg := by
  unfold identifyOutbound
  have := identifyRead_no_panic steps _ 0 (Litep2pVerif.Substream.rinv_init identifyCodec)
  split
  · split <;> simp
  · rename_i m heq; exact absurd heq (this m)
  · simp

/-- **Everything an identify event holds on to is bounded by the frame limit**: the strings, the
protocol set, the observed address and the listen addresses together (plus one per list element) are at
most `IDENTIFY_PAYLOAD_SIZE` bytes — for every remote behaviour. -/
theorem identify_event_bounded (info : List Nat → AddrInfo) (remote localId : List Nat) (steps : List OutStep)
    (e : IdEvent) (h : identifyOutbound info remote localId steps = .event e) : e.size ≤ IDENTIFY_PAYLOAD_SIZE := by
  unfold identifyOutbound at h
  split at h
  · rename_i p hread
    have hp := identifyRead_le steps _ 0 (Litep2pVerif.Substream.rinv_init identifyCodec) p hread
    split at h
    · rename_i e' hh
      simp only [OutboundResult.event.injEq] at h; subst h
      exact Nat.le_trans (identifyHandle_size info remote localId p _ hh) hp
    · simp at h
  · simp at h
  · simp at h

/-- **Identity rule of identify.** The identified peer is the peer of the (Noise-authenticated)
connection, whatever the message says (its `publicKey` field is not consulted); every listen address
that is reported either names no peer at its end or names that peer; the observed address either is
absent (empty) or names no peer or names us. -/
theorem identify_event_identity (info : List Nat → AddrInfo) (remote localId : List Nat) (steps : List OutStep)
    (e : IdEvent) (h : identifyOutbound info remote localId steps = .event e) :
    e.peer = remote ∧ (∀ a ∈ e.listen, info a = .noP2p ∨ info a = .p2p remote) ∧
    (e.observed = [] ∨ info e.observed = .noP2p ∨ info e.observed = .p2p localId) := by
  unfold identifyOutbound at h
  split at h
  · rename_i p _
    split at h
    · rename_i e' hh
      simp only [OutboundResult.event.injEq] at h; subst h
      exact identifyHandle_identity info remote localId p _ hh
    · simp at h
  · simp at h
  · simp at h

/-- Non-vacuity: a two-piece answer with a pause yields the event; an address naming somebody else is
dropped; ten seconds of silence, an early close and an oversized announcement yield nothing. -/
example :
    let info : List Nat → AddrInfo := fun a => if a = [1] then .p2p [9] else if a = [2] then .p2p [7] else .noP2p
    identifyOutbound info [9] [7] [.write [14, 0x12, 1, 1, 0x12, 1], .wait 9, .write [2, 0x12, 1, 3, 0x22, 1, 2, 0x2a, 0]] =
      .event { peer := [9], protocolVersion := some [], userAgent := none, protocols := [], observed := [2], listen := [[1], [3]] } ∧
    identifyOutbound info [9] [7] [.write [14, 0x12, 1, 1], .wait 10, .write [0x12, 1, 2, 0x12, 1, 3, 0x22, 1, 2, 0x2a, 0]] = .noevent ∧
    identifyOutbound info [9] [7] [.write [14, 0x12, 1, 1], .close] = .noevent ∧
    identifyOutbound info [9] [7] [.write [0x81, 0x20, 1, 2]] = .noevent := by decide

/-- **Our own identify message survives the remote-side handler.** The message node `cfg` sends on an
inbound identify substream (built from its configuration; `observed`: the asker's address as seen by
`cfg`), when it fits the frame limit, read by the asker's handler in any two-piece fragmentation, yields
exactly: `cfg`'s peer id, protocol version, agent (the default agent if none is configured), protocol
set, the observed address (unless it names another peer than the asker) and those of its addresses that
do not name another peer. -/
theorem identify_own_roundtrip (info : List Nat → AddrInfo) (cfg : IdLocal) (asker : List Nat) (observed : Option (List Nat))
    (split : Nat) (hwf : (ownIdentify cfg observed).WF)
    (hlen : (Identify.encode (ownIdentify cfg observed)).length ≤ IDENTIFY_PAYLOAD_SIZE) :
    identifyRoundtrip info cfg asker observed split = .event (ownEvent info cfg asker observed) :=
  identifyRoundtrip_own info cfg asker observed split hwf hlen

example :
    let cfg : IdLocal := { localId := [0, 2, 8, 1], pv := [0x2f, 0x61], agent := none, protocols := [[0x2f, 0x62], [0x2f, 0x62]],
                           listen := [[5], [4]], public_ := [[4]] }
    (ownIdentify cfg (some [6])).WF ∧ (Identify.encode (ownIdentify cfg (some [6]))).length ≤ IDENTIFY_PAYLOAD_SIZE ∧
    (ownEvent (fun _ => .noP2p) cfg [1] (some [6])).listen = [[4], [5]] ∧
    (ownEvent (fun _ => .noP2p) cfg [1] (some [6])).protocols = [[0x2f, 0x62]] ∧
    (ownIdentify cfg (some [6])).publicKey = some [8, 1] := by decide

/-- **A message above the frame limit never reaches the wire, and what does is a prefix of our frame.** -/
theorem identify_inbound_prefix (cfg : IdLocal) (observed : Option (List Nat)) (cap : Nat) (steps : List InStep) :
    (IDENTIFY_PAYLOAD_SIZE < (Identify.encode (ownIdentify cfg observed)).length → identifyInbound cfg observed cap steps = []) ∧
    ∃ k, identifyInbound cfg observed cap steps =
      (Litep2pVerif.Substream.encodeMsg identifyCodec (Identify.encode (ownIdentify cfg observed))).take k := by
  unfold identifyInbound
  refine ⟨?_, ?_⟩
  · intro hbig
    have : Litep2pVerif.Substream.accepts identifyCodec (Identify.encode (ownIdentify cfg observed)) = false := by
      simp [Litep2pVerif.Substream.accepts, identifyCodec, Litep2pVerif.Substream.overMax, hbig]
    simp [this]
  · simp only []
    split
    · exact ⟨_, rfl⟩
    · exact ⟨0, by simp⟩

example :
    let cfg : IdLocal := { localId := [0, 2, 8, 1], pv := [0x2f], agent := some [], protocols := [], listen := [], public_ := [] }
    identifyInbound cfg none 3 [.read 2, .wait 10, .read 50] = [9, 0x0a, 2, 8, 1] ∧
    identifyInbound cfg none 3 [.read 2, .wait 9, .read 50] = [9, 0x0a, 2, 8, 1, 0x2a, 1, 0x2f, 0x32, 0] := by decide

end Litep2pVerif.Props.C19

open Litep2pVerif.Props.C19 in
#print axioms readVarint_consumes
open Litep2pVerif.Props.C19 in
#print axioms readVarint_writeVarint
open Litep2pVerif.Props.C19 in
#print axioms readKey_writeKey
open Litep2pVerif.Props.C19 in
#print axioms bytes_field_roundtrip
open Litep2pVerif.Props.C19 in
#print axioms kad_alloc_bound
open Litep2pVerif.Props.C19 in
#print axioms identify_alloc_bound
open Litep2pVerif.Props.C19 in
#print axioms bitswap_alloc_bound
open Litep2pVerif.Props.C19 in
#print axioms noise_alloc_bound
open Litep2pVerif.Props.C19 in
#print axioms key_alloc_bound
open Litep2pVerif.Props.C19 in
#print axioms kad_peers_bounded
open Litep2pVerif.Props.C19 in
#print axioms kad_request_roundtrip
open Litep2pVerif.Props.C19 in
#print axioms kad_roundtrip
open Litep2pVerif.Props.C19 in
#print axioms identify_roundtrip
open Litep2pVerif.Props.C19 in
#print axioms bitswap_roundtrip
open Litep2pVerif.Props.C19 in
#print axioms noise_payload_roundtrip
open Litep2pVerif.Props.C19 in
#print axioms public_key_roundtrip
open Litep2pVerif.Props.C19 in
#print axioms webrtc_message_roundtrip
open Litep2pVerif.Props.C19 in
#print axioms kad_request_encoding
open Litep2pVerif.Props.C19 in
#print axioms kad_find_node_roundtrip
open Litep2pVerif.Props.C19 in
#print axioms kad_put_value_roundtrip
open Litep2pVerif.Props.C19 in
#print axioms kad_get_record_roundtrip
open Litep2pVerif.Props.C19 in
#print axioms kad_find_node_response_roundtrip
open Litep2pVerif.Props.C19 in
#print axioms kad_put_value_response_roundtrip
open Litep2pVerif.Props.C19 in
#print axioms kad_get_value_response_roundtrip
open Litep2pVerif.Props.C19 in
#print axioms kad_add_provider_roundtrip
open Litep2pVerif.Props.C19 in
#print axioms kad_get_providers_request_roundtrip
open Litep2pVerif.Props.C19 in
#print axioms kad_get_providers_response_roundtrip
open Litep2pVerif.Props.C19 in
#print axioms identify_no_panic
open Litep2pVerif.Props.C19 in
#print axioms identify_event_bounded
open Litep2pVerif.Props.C19 in
#print axioms identify_event_identity
open Litep2pVerif.Props.C19 in
#print axioms identify_own_roundtrip
open Litep2pVerif.Props.C19 in
#print axioms identify_inbound_prefix

/-! ## Wiring — the configured message limit on substreams negotiated under a FALLBACK name (added after seeded C19-e1)

Over the wiring model `Model/Node/Wiring.lean` (`Node.new c` = `Litep2p::new(ConfigBuilder…build())`, `notes` / `tcpHeld` =
what the constructed protocol objects / the TCP transport hold, `protocolCodec` = `ProtocolSet::protocol_codec`), tied to
the real code by the `node` area: real nodes built through the public API print what the CONSTRUCTED objects hold and what
a connection's `ProtocolSet` answers for every main and fallback name; the driver prints the model's; compared exactly. -/
namespace Litep2pVerif.Props.C19.Wiring
open Litep2pVerif Litep2pVerif.Node

/-- Kademlia setter calls of the sample: a later call overrides an earlier one; zero bounds. -/
def sampleSets : List KadSet := [.maxRecords 5, .replication 3, .maxRecords 0, .maxProviderKeys 0, .validationMode false]

/-- A configuration with fallback names, zero store bounds and non-default transport settings (non-vacuity examples). -/
def sample : Config :=
  { keepAliveMs := some 600, listen := [1],
    notif := [{ name := "/n/new", max := 32, handshake := "01", fallback := ["/n/a"], mode := 'a', sync := some 7, async := none,
                dial := some false }],
    rr := [{ name := "/r/new", max := 256, timeoutMs := 800, fallback := ["/r/a", "/r/b"], maxInbound := some 3 }],
    user := [⟨"/u/a", .identity 8⟩],
    kad := [{ names := ["/k/2", "/k/1"], max := some 2048,
              sets := sampleSets }],
    ping := some 1, identify := true, bitswap := true, maxParallelDials := some 0,
    tcpSets := [.readAhead 3, .parallelDials 7, .writeBuffer 4] }

/-- Every name of a request-response or notification protocol — main or fallback — is framed with the protocol's CONFIGURED
maximum message size: the length-prefix decoder of such a substream refuses a larger frame before allocating for it. -/
theorem fallback_name_keeps_configured_limit (c : Config) (w : Wired) (h : Node.new c = .ok w) :
    (∀ p ∈ (build c).rr, ∀ x ∈ p.name :: p.fallback, protocolCodec w.regs x = some (.varint (some p.max))) ∧
    (∀ p ∈ (build c).notif, ∀ x ∈ p.name :: p.fallback, protocolCodec w.regs x = some (.varint (some p.max))) := by
  obtain ⟨hreg, _, rfl⟩ := wire_ok h
  exact ⟨fun p hp x hx => (protocolSet_of_claim hreg (rr_mem_registrations _ hp) hx).1,
         fun p hp x hx => (protocolSet_of_claim hreg (notif_mem_registrations _ hp) hx).1⟩

example : ∃ w, Node.new sample = .ok w ∧ protocolCodec w.regs "/r/b" = some (.varint (some 256)) ∧
    protocolCodec w.regs "/n/a" = some (.varint (some 32)) := ⟨_, rfl, by decide, by decide⟩

end Litep2pVerif.Props.C19.Wiring

#print axioms Litep2pVerif.Props.C19.Wiring.fallback_name_keeps_configured_limit
