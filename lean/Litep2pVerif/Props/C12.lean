import Litep2pVerif.Model.Notif.Channel
/-!
C12 — notifications arrive in order, without loss or duplication, while open.
Model: `Model/Notif/Channel.lean`. "Every schedule" = every sequence of the model's operations (`Op`),
including every choice of the reader between the two per-mode buffers and every read size.
-/
namespace Litep2pVerif.Chan

/-- Operations of one open period (any order, any arguments = any schedule). -/
inductive Op
  | sync (m : Msg) | async (m : Msg) | letIn (fuel : Nat) | poll (picks : List Nat) | read (n : Nat) (frames : List (Nat × Nat))
  | rsend (m : Msg) | rclose | close | user

def apply (c : Chan) : Op → Chan
  | .sync m => (syncSend c m).1
  | .async m => (asyncSend c m).1
  | .letIn f => if c.alive then (letIn c f).1 else c
  | .poll picks => (taskPoll c picks).1
  | .read n fr => (remoteRead c n fr).getD c
  | .rsend m => { c with inQ := c.inQ ++ [m] }
  | .rclose => { c with inClosed := true }
  | .close => { c with signalled := true }
  | .user => (pollHandle c).1

/-- The parked notification (`next_notification`), by the queue it was taken from. -/
def parkS : Option (Bool × Msg) → List Msg | some (true, m) => [m] | _ => []
def parkA : Option (Bool × Msg) → List Msg | some (false, m) => [m] | _ => []

/-- Ledger of one mode: what the remote has read, what the task handed to the substream, what it holds
parked, what is queued — together exactly the accepted notifications while the task lives, a prefix of them
afterwards. -/
structure Inv (c : Chan) : Prop where
  s : c.delS ++ c.sBuf ++ parkS c.parked ++ c.syncQ <+: c.accS
  sa : c.alive = true → c.delS ++ c.sBuf ++ parkS c.parked ++ c.syncQ = c.accS
  a : c.delA ++ c.aBuf ++ parkA c.parked ++ c.asyncQ <+: c.accA
  aa : c.alive = true → c.delA ++ c.aBuf ++ parkA c.parked ++ c.asyncQ = c.accA

theorem prefix_drop {α} (a b c : List α) (h : a ++ b <+: c) : a <+: c :=
  (List.prefix_append a b).trans h

theorem letIn_inv (f : Nat) : ∀ c, Inv c → c.alive = true → Inv (letIn c f).1 ∧ (letIn c f).1.alive = true := by
  induction f with
  | zero => intro c h ha; exact ⟨h, ha⟩
  | succ n ih =>
    intro c h ha
    simp only [letIn]
    split
    · exact ⟨h, ha⟩
    · split
      · apply ih
        · have := h.aa ha
          exact ⟨h.s, h.sa, by simp [← this], fun _ => by simp [← this]⟩
        · exact ha
      · exact ⟨h, ha⟩

theorem read_inv : ∀ (fr : List (Nat × Nat)) (c : Chan) (n : Nat) (c' : Chan), Inv c → remoteRead c n fr = some c' → Inv c' := by
  intro fr
  induction fr with
  | nil =>
    intro c n c' h hr
    simp only [remoteRead] at hr
    split at hr
    · cases hr; exact ⟨h.s, h.sa, h.a, h.aa⟩
    · cases hr
  | cons x rest ih =>
    intro c n c' h hr
    obtain ⟨mode, seq⟩ := x
    simp only [remoteRead] at hr
    split at hr
    · split at hr
      · split at hr
        · rename_i m tl hb _
          refine ih _ _ _ ?_ hr
          exact ⟨by simpa [hb] using h.s, fun ha => by simpa [hb] using h.sa ha, h.a, h.aa⟩
        · cases hr
      · cases hr
    · split at hr
      · split at hr
        · rename_i m tl hb _
          refine ih _ _ _ ?_ hr
          exact ⟨h.s, h.sa, by simpa [hb] using h.a, fun ha => by simpa [hb] using h.aa ha⟩
        · cases hr
      · cases hr

theorem close_inv {c : Chan} (h : Inv c) : Inv (closeTask c) := by
  refine ⟨?_, fun ha => by simp [closeTask] at ha, ?_, fun ha => by simp [closeTask] at ha⟩
  · simpa [closeTask, parkS] using prefix_drop _ _ _ (prefix_drop _ _ _ h.s)
  · simpa [closeTask, parkA] using prefix_drop _ _ _ (prefix_drop _ _ _ h.a)

theorem readOne_inv (c : Chan) (h : Inv c) : Inv (readOne c).1 ∧ (readOne c).1.alive = c.alive := by
  unfold readOne
  split
  · exact ⟨h, rfl⟩
  · split
    · exact ⟨h, rfl⟩
    · split
      · exact ⟨⟨h.s, h.sa, h.a, h.aa⟩, rfl⟩
      · exact ⟨⟨h.s, h.sa, h.a, h.aa⟩, rfl⟩

/-- Ledger lists. -/
def ledS (c : Chan) : List Msg := c.delS ++ c.sBuf ++ parkS c.parked ++ c.syncQ
def ledA (c : Chan) : List Msg := c.delA ++ c.aBuf ++ parkA c.parked ++ c.asyncQ

theorem inv_led {c : Chan} : Inv c ↔ (ledS c <+: c.accS ∧ (c.alive = true → ledS c = c.accS) ∧
    ledA c <+: c.accA ∧ (c.alive = true → ledA c = c.accA)) :=
  ⟨fun h => ⟨h.s, h.sa, h.a, h.aa⟩, fun ⟨a, b, c, d⟩ => ⟨a, b, c, d⟩⟩

theorem inv_of_led {c c' : Chan} (h : Inv c) (hs : ledS c' = ledS c) (ha : ledA c' = ledA c)
    (has : c'.accS = c.accS) (haa : c'.accA = c.accA) (hal : c'.alive = c.alive) : Inv c' := by
  rw [inv_led] at h ⊢
  rw [hs, ha, has, haa, hal]; exact h

/-- Taking the next notification moves it out of the ledger's parked/queued part, nothing else changes. -/
theorem nextNotif_led {c c1 : Chan} {picks picks1 : List Nat} {p : Bool × Msg}
    (h : nextNotif c picks = some (p, c1, picks1)) :
    ledS c = c1.delS ++ c1.sBuf ++ (if p.1 then [p.2] else []) ++ c1.syncQ ∧
    ledA c = c1.delA ++ c1.aBuf ++ (if p.1 then [] else [p.2]) ++ c1.asyncQ ∧
    c1.parked = none ∧ c1.accS = c.accS ∧ c1.accA = c.accA ∧ c1.alive = c.alive ∧ c1.cfg = c.cfg := by
  unfold nextNotif at h
  split at h
  · rename_i q hq
    cases h
    obtain ⟨b, m⟩ := p
    cases b <;> simp [ledS, ledA, parkS, parkA, hq]
  · rename_i hq
    split at h
    · cases h
    · cases h; simp [ledS, ledA, parkS, parkA, *]
    · cases h; simp [ledS, ledA, parkS, parkA, *]
    · split at h <;> cases h <;> simp [ledS, ledA, parkS, parkA, *]

theorem pollReady_same (c : Chan) :
    (pollReady c).1.delS = c.delS ∧ (pollReady c).1.sBuf = c.sBuf ∧ (pollReady c).1.syncQ = c.syncQ ∧
    (pollReady c).1.delA = c.delA ∧ (pollReady c).1.aBuf = c.aBuf ∧ (pollReady c).1.asyncQ = c.asyncQ ∧
    (pollReady c).1.parked = c.parked ∧ (pollReady c).1.accS = c.accS ∧ (pollReady c).1.accA = c.accA ∧
    (pollReady c).1.alive = c.alive ∧ (pollReady c).1.cfg = c.cfg := by
  unfold pollReady
  split <;> simp [flush]

theorem close_of_prefix {c : Chan} (hs : c.delS ++ c.sBuf <+: c.accS) (ha : c.delA ++ c.aBuf <+: c.accA) :
    Inv (closeTask c) :=
  ⟨by simpa [closeTask, parkS] using hs, fun x => by simp [closeTask] at x,
   by simpa [closeTask, parkA] using ha, fun x => by simp [closeTask] at x⟩

/-- The outbound loop keeps the ledger; it ends with the task alive unless it closed the connection. -/
theorem outLoop_inv (f : Nat) : ∀ (c : Chan) (picks : List Nat), Inv c → c.alive = true →
    Inv (outLoop c picks f).1 ∧ ((outLoop c picks f).2.1 = false → (outLoop c picks f).1.alive = true) := by
  induction f with
  | zero => intro c picks h ha; exact ⟨h, fun _ => ha⟩
  | succ n ih =>
    intro c picks h ha
    simp only [outLoop]
    split
    · exact ⟨h, fun _ => ha⟩
    · rename_i p c1 picks1 hn
      obtain ⟨hs, hA, hp, has, haa, hal, hcfg⟩ := nextNotif_led hn
      obtain ⟨q1, q2, q3, q4, q5, q6, q7, q8, q9, q10, q11⟩ := pollReady_same c1
      obtain ⟨b, m⟩ := p
      have h' := inv_led.mp h
      rw [hs, hA] at h'
      split
      · split
        · -- `start_send` refuses: the connection closes
          refine ⟨?_, fun x => by simp at x⟩
          apply close_of_prefix
          · rw [q1, q2, q8, has]; exact prefix_drop _ _ _ (prefix_drop _ _ _ h'.1)
          · rw [q4, q5, q9, haa]; exact prefix_drop _ _ _ (prefix_drop _ _ _ h'.2.2.1)
        · apply ih
          · apply inv_of_led h
            · rw [hs]; cases b <;> simp [ledS, pushOut, parkS, q1, q2, q3, q7, hp]
            · rw [hA]; cases b <;> simp [ledA, pushOut, parkA, q4, q5, q6, q7, hp]
            · cases b <;> simp [pushOut, q8, has]
            · cases b <;> simp [pushOut, q9, haa]
            · cases b <;> simp [pushOut, q10, hal]
          · cases b <;> simp [pushOut, q10, hal, ha]
      · refine ⟨?_, fun _ => by simp [q10, hal, ha]⟩
        apply inv_of_led h
        · rw [hs]; cases b <;> simp [ledS, parkS, q1, q2, q3]
        · rw [hA]; cases b <;> simp [ledA, parkA, q4, q5, q6]
        · simp [q8, has]
        · simp [q9, haa]
        · simp [q10, hal]

theorem pollNext_inv (c : Chan) (picks : List Nat) (h : Inv c) (ha : c.alive = true) :
    Inv (pollNext c picks).1 ∧ ((pollNext c picks).2.1 ≠ some true → (pollNext c picks).1.alive = true) := by
  have ho := outLoop_inv (c.syncQ.length + c.asyncQ.length + 1) c picks h ha
  unfold pollNext
  split
  · exact ⟨ho.1, fun x => by simp at x⟩
  · rename_i hc
    have hf : Inv (flush (outLoop c picks (c.syncQ.length + c.asyncQ.length + 1)).1) :=
      inv_of_led ho.1 rfl rfl rfl rfl rfl
    have hr := readOne_inv _ hf
    refine ⟨hr.1, fun _ => ?_⟩
    rw [hr.2]
    exact ho.2 (by simpa using hc)

theorem taskLoop_inv (f : Nat) : ∀ (c : Chan) (picks : List Nat), Inv c → c.alive = true →
    Inv (taskLoop c picks f).1 ∧ ((taskLoop c picks f).2 = none → (taskLoop c picks f).1.alive = true) := by
  induction f with
  | zero => intro c picks h ha; exact ⟨h, fun _ => ha⟩
  | succ n ih =>
    intro c picks h ha
    have hp := pollNext_inv c picks h ha
    simp only [taskLoop]
    split
    · rename_i hn; exact ⟨hp.1, fun _ => hp.2 (by rw [hn]; simp)⟩
    · refine ⟨?_, fun x => by simp at x⟩
      split
      · exact close_inv hp.1
      · exact hp.1
    · rename_i hn; exact ih _ _ hp.1 (hp.2 (by rw [hn]; simp))

theorem apply_inv (c : Chan) (op : Op) (h : Inv c) : Inv (apply c op) := by
  cases op with
  | sync m =>
    simp only [apply, syncSend]
    split
    · exact h
    · split
      · exact h
      · rename_i hal
        have hal : c.alive = true := by simp at hal; exact hal.1
        split
        · exact ⟨h.s, h.sa, h.a, h.aa⟩
        · have := h.sa hal
          exact ⟨by simp [← this], fun _ => by simp [← this], h.a, h.aa⟩
  | async m =>
    simp only [apply, asyncSend]
    split
    · exact h
    · split
      · exact h
      · rename_i hal
        have hal : c.alive = true := by simp at hal; exact hal.1
        split
        · have := h.aa hal
          exact ⟨h.s, h.sa, by simp [← this], fun _ => by simp [← this]⟩
        · exact ⟨h.s, h.sa, h.a, h.aa⟩
  | letIn f =>
    simp only [apply]
    split
    · rename_i ha; exact (letIn_inv f c h ha).1
    · exact h
  | poll picks =>
    simp only [apply, taskPoll]
    split
    · exact h
    · rename_i hal
      have hal : c.alive = true := by simpa using hal
      split
      · exact close_inv h
      · exact (taskLoop_inv 4096 c picks h hal).1
  | read n fr =>
    simp only [apply]
    rcases hr : remoteRead c n fr with _ | c'
    · exact h
    · exact read_inv fr c n c' h hr
  | rsend m => exact ⟨h.s, h.sa, h.a, h.aa⟩
  | rclose => exact ⟨h.s, h.sa, h.a, h.aa⟩
  | close => exact ⟨h.s, h.sa, h.a, h.aa⟩
  | user => exact ⟨h.s, h.sa, h.a, h.aa⟩

inductive Reach (c0 : Chan) : Chan → Prop
  | init : Reach c0 (reopen c0)
  | step {c : Chan} (op : Op) : Reach c0 c → Reach c0 (apply c op)

theorem reach_inv {c0 c : Chan} (h : Reach c0 c) : Inv c := by
  induction h with
  | init => exact ⟨by simp [reopen, parkS], fun _ => by simp [reopen, parkS], by simp [reopen, parkA], fun _ => by simp [reopen, parkA]⟩
  | step op _ ih => exact apply_inv _ op ih

/-- For each sending mode and every schedule, what the remote has read is a prefix of the notifications
accepted for sending in this open period, in order. -/
theorem per_mode_prefix {c0 c : Chan} (h : Reach c0 c) : c.delS <+: c.accS ∧ c.delA <+: c.accA := by
  have i := reach_inv h
  exact ⟨prefix_drop _ _ _ (prefix_drop _ _ _ (prefix_drop _ _ _ i.s)),
    prefix_drop _ _ _ (prefix_drop _ _ _ (prefix_drop _ _ _ i.a))⟩

/-- … hence delivered at most once (accepted sequence numbers are distinct). -/
theorem at_most_once {c0 c : Chan} (h : Reach c0 c) (hs : c.accS.Nodup) (ha : c.accA.Nodup) :
    c.delS.Nodup ∧ c.delA.Nodup := by
  obtain ⟨⟨r1, h1⟩, ⟨r2, h2⟩⟩ := per_mode_prefix h
  rw [← h1] at hs; rw [← h2] at ha
  exact ⟨(List.nodup_append.mp hs).1, (List.nodup_append.mp ha).1⟩

/-- … and without gaps: the k-th notification read is the k-th accepted one. -/
theorem no_gap_within_open_period {c0 c : Chan} (h : Reach c0 c) (k : Nat) (m : Msg) :
    (c.delS[k]? = some m → c.accS[k]? = some m) ∧ (c.delA[k]? = some m → c.accA[k]? = some m) := by
  obtain ⟨⟨r1, h1⟩, ⟨r2, h2⟩⟩ := per_mode_prefix h
  constructor
  · intro hk; rw [← h1]; rw [List.getElem?_append_left]; exact hk
    exact (List.getElem?_eq_some_iff.mp hk).1
  · intro hk; rw [← h2]; rw [List.getElem?_append_left]; exact hk
    exact (List.getElem?_eq_some_iff.mp hk).1

/-- Nothing is lost while the stream is open: as long as the task lives, what the remote has read, what the task
handed to the substream, the one notification it keeps parked under back-pressure and what is still queued are —
in this order, per mode — exactly the accepted notifications, for every schedule and every choice of `select!`.
Hence once queues, parked slot and substream are empty, the remote has read exactly what was accepted. -/
theorem no_loss_while_open {c0 c : Chan} (h : Reach c0 c) (ha : c.alive = true) :
    (c.delS ++ c.sBuf ++ parkS c.parked ++ c.syncQ = c.accS ∧ c.delA ++ c.aBuf ++ parkA c.parked ++ c.asyncQ = c.accA) ∧
    (c.sBuf = [] → c.aBuf = [] → c.parked = none → c.syncQ = [] → c.asyncQ = [] → c.delS = c.accS ∧ c.delA = c.accA) := by
  have i := reach_inv h
  refine ⟨⟨i.sa ha, i.aa ha⟩, fun h1 h2 h3 h4 h5 => ?_⟩
  have hs := i.sa ha
  have hA := i.aa ha
  rw [h1, h3, h4] at hs
  rw [h2, h3, h5] at hA
  exact ⟨by simpa [parkS] using hs, by simpa [parkA] using hA⟩

/-- The synchronous send is a single non-blocking step: ok | clogged | no-connection; a refused
notification changes no queue; the queue bound is kept; `ForceClose` is sent only on the first clog. -/
theorem sync_never_blocks (c : Chan) (m : Msg) :
    ((syncSend c m).2.1 = .ok ∨ (syncSend c m).2.1 = .clogged ∨ (syncSend c m).2.1 = .noconn) ∧
    ((syncSend c m).2.1 ≠ .ok → (syncSend c m).1.syncQ = c.syncQ ∧ (syncSend c m).1.accS = c.accS) ∧
    (c.syncQ.length ≤ c.cfg.syncCap → (syncSend c m).1.syncQ.length ≤ c.cfg.syncCap) ∧
    ((syncSend c m).2.2 = true → c.clogged = false ∧ (syncSend c m).1.clogged = true) := by
  unfold syncSend
  split
  · simp
  · split
    · simp
    · split
      · simp
      · rename_i hlt
        simp at hlt
        simp; omega

theorem closeTask_notifQ (c : Chan) : (closeTask c).notifQ = c.notifQ ∧ (closeTask c).cfg = c.cfg := ⟨rfl, rfl⟩

theorem outLoop_notifQ (f : Nat) : ∀ (c : Chan) (picks : List Nat),
    (outLoop c picks f).1.notifQ = c.notifQ ∧ (outLoop c picks f).1.cfg = c.cfg := by
  induction f with
  | zero => intro c picks; exact ⟨rfl, rfl⟩
  | succ n ih =>
    intro c picks
    simp only [outLoop]
    split
    · exact ⟨rfl, rfl⟩
    · rename_i p c1 picks1 hn
      have h1 : c1.notifQ = c.notifQ ∧ c1.cfg = c.cfg := by
        unfold nextNotif at hn
        split at hn
        · cases hn; exact ⟨rfl, rfl⟩
        · split at hn
          · cases hn
          · cases hn; exact ⟨rfl, rfl⟩
          · cases hn; exact ⟨rfl, rfl⟩
          · split at hn <;> cases hn <;> exact ⟨rfl, rfl⟩
      have h2 : (pollReady c1).1.notifQ = c1.notifQ ∧ (pollReady c1).1.cfg = c1.cfg := by
        unfold pollReady; split <;> exact ⟨rfl, rfl⟩
      split
      · split
        · exact ⟨by simp [closeTask, h2.1, h1.1], by simp [closeTask, h2.2, h1.2]⟩
        · have := ih (pushOut (pollReady c1).1 p) picks1
          have h3 : (pushOut (pollReady c1).1 p).notifQ = (pollReady c1).1.notifQ ∧
              (pushOut (pollReady c1).1 p).cfg = (pollReady c1).1.cfg := by
            unfold pushOut; split <;> exact ⟨rfl, rfl⟩
          exact ⟨by rw [this.1, h3.1, h2.1, h1.1], by rw [this.2, h3.2, h2.2, h1.2]⟩
      · exact ⟨by simp [h2.1, h1.1], by simp [h2.2, h1.2]⟩

def sizesOk (c : Chan) : Prop := ∀ m ∈ c.notifQ, max m.size 3 ≤ c.cfg.maxSize

theorem pollNext_sizes (c : Chan) (picks : List Nat) (h : sizesOk c) : sizesOk (pollNext c picks).1 := by
  have ho := outLoop_notifQ (c.syncQ.length + c.asyncQ.length + 1) c picks
  unfold pollNext
  split
  · intro m hm; simp only [ho.1, ho.2] at hm ⊢; exact h m hm
  · have hf : sizesOk (flush (outLoop c picks (c.syncQ.length + c.asyncQ.length + 1)).1) := by
      intro m hm; simp only [flush, ho.1, ho.2] at hm ⊢; exact h m hm
    revert hf
    generalize flush (outLoop c picks (c.syncQ.length + c.asyncQ.length + 1)).1 = d
    intro hf
    show sizesOk (readOne d).1
    unfold readOne
    split
    · exact hf
    · split
      · exact hf
      · split
        · exact hf
        · rename_i m rest _ hsz
          intro x hx
          simp at hx
          rcases hx with hx | rfl
          · exact hf x hx
          · simp at hsz; simpa using hsz

theorem taskLoop_sizes (f : Nat) : ∀ (c : Chan) (picks : List Nat), sizesOk c → sizesOk (taskLoop c picks f).1 := by
  induction f with
  | zero => intro c picks h; exact h
  | succ n ih =>
    intro c picks h
    have hp := pollNext_sizes c picks h
    simp only [taskLoop]
    split
    · exact hp
    · split
      · exact hp
      · exact hp
    · exact ih _ _ hp

/-- A frame larger than the configured maximum is never moved into the shared inbound channel (nor,
therefore, yielded to the user): a poll of the task, whatever it sends, parks or reads, keeps every
notification in that channel within the maximum. -/
theorem oversize_not_delivered (c : Chan) (picks : List Nat)
    (h : ∀ m ∈ c.notifQ, max m.size 3 ≤ c.cfg.maxSize) :
    ∀ m ∈ (taskPoll c picks).1.notifQ, max m.size 3 ≤ (taskPoll c picks).1.cfg.maxSize := by
  unfold taskPoll
  split
  · exact h
  · split
    · exact h
    · exact taskLoop_sizes 4096 c picks h

def demoCfg : Cfg := { syncCap := 2, asyncCap := 1, notifCap := 2, pipeCap := 16, maxSize := 32 }
def demo : Chan := [Op.user, .sync ⟨0, 1, 5⟩, .sync ⟨0, 2, 5⟩, .async ⟨1, 1, 5⟩, .poll [], .read 12 [(0, 1), (1, 1)]].foldl apply (reopen { cfg := demoCfg })

example : demo.delS = [⟨0, 1, 5⟩] ∧ demo.delA = [⟨1, 1, 5⟩] ∧ demo.accS.length = 2 := by decide
example : (syncSend { cfg := demoCfg, viewHas := true, alive := true, syncQ := [⟨0, 1, 5⟩, ⟨0, 2, 5⟩] } ⟨0, 3, 5⟩).2 = (.clogged, true) := by decide
example : (taskPoll { cfg := demoCfg, alive := true, inQ := [⟨2, 1, 4⟩, ⟨2, 2, 40⟩, ⟨2, 3, 4⟩] } []).1.notifQ = [⟨2, 1, 4⟩] ∧
    (taskPoll { cfg := demoCfg, alive := true, inQ := [⟨2, 1, 4⟩, ⟨2, 2, 40⟩, ⟨2, 3, 4⟩] } []).2 = some true := by decide

/-- Back-pressure (boundary 10 bytes, pipe of 4): the task sends a1 and s1, parks s2; the remote reads 4 bytes. -/
def bpCfg : Cfg := { syncCap := 2, asyncCap := 1, notifCap := 2, pipeCap := 4, maxSize := 32, boundary := 10 }
def bpParked : Chan := [Op.user, .sync ⟨0, 1, 5⟩, .sync ⟨0, 2, 5⟩, .async ⟨1, 1, 5⟩, .poll [1, 0], .read 4 []].foldl apply
  (reopen { cfg := bpCfg })
def bpDrained : Chan := [Op.poll [], .read 4 [(1, 1)], .poll [], .read 4 [(0, 1)], .poll [], .read 4 [], .poll [],
  .read 2 [(0, 2)]].foldl apply bpParked

example : bpParked.alive = true ∧ bpParked.parked = some (true, ⟨0, 2, 5⟩) ∧ bpParked.sBuf = [⟨0, 1, 5⟩] ∧
    bpParked.aBuf = [⟨1, 1, 5⟩] ∧ bpParked.sinkBytes = 8 ∧ bpParked.accS.length = 2 ∧ bpParked.delS = [] := by decide
example : bpDrained.alive = true ∧ bpDrained.sBuf = [] ∧ bpDrained.aBuf = [] ∧ bpDrained.parked = none ∧
    bpDrained.syncQ = [] ∧ bpDrained.asyncQ = [] ∧ bpDrained.delS = [⟨0, 1, 5⟩, ⟨0, 2, 5⟩] ∧ bpDrained.delA = [⟨1, 1, 5⟩] := by
  decide

/-! ### Sink clones (`NotificationHandle::notification_sink`, `NotificationSink::{send_sync,send_async}_notification`)

A clone is tied to the queues of ONE stream (`g` = its stream number). `Dead g c`: that stream's task has ended
(`close_connection`: the user is sent `NotificationStreamClosed` and the queue receivers are gone) or a later
stream has replaced it. -/

def Dead (g : Nat) (c : Chan) : Prop := g < c.gen ∨ (g = c.gen ∧ c.alive = false)

/-- Everything that can happen to the channel: the operations of `Op`, sends through any sink clone, the handle's
own async send polled once, a new stream. -/
inductive OpX
  | op (o : Op) | reopen | ssend (g : Nat) (m : Msg) | sasend (g : Nat) (m : Msg) | hasync (m : Msg)

def applyX (c : Chan) : OpX → Chan
  | .op o => apply c o
  | .reopen => reopen c
  | .ssend g m => (sinkSync c g m).1
  | .sasend g m => (sinkAsync c g m).1
  | .hasync m => (asyncOnce c m).1

theorem outLoop_gen (f : Nat) : ∀ (c : Chan) (picks : List Nat), (outLoop c picks f).1.gen = c.gen := by
  induction f with
  | zero => intro c picks; rfl
  | succ n ih =>
    intro c picks
    simp only [outLoop]
    split
    · rfl
    · rename_i p c1 picks1 hn
      have h1 : c1.gen = c.gen := by
        unfold nextNotif at hn
        split at hn
        · cases hn; rfl
        · split at hn
          · cases hn
          · cases hn; rfl
          · cases hn; rfl
          · split at hn <;> cases hn <;> rfl
      have h2 : (pollReady c1).1.gen = c1.gen := by
        unfold pollReady; split <;> rfl
      split
      · split
        · simp [closeTask, h2, h1]
        · have := ih (pushOut (pollReady c1).1 p) picks1
          have h3 : (pushOut (pollReady c1).1 p).gen = (pollReady c1).1.gen := by
            unfold pushOut; split <;> rfl
          rw [this, h3, h2, h1]
      · simp [h2, h1]

theorem pollNext_gen (c : Chan) (picks : List Nat) : (pollNext c picks).1.gen = c.gen := by
  have ho := outLoop_gen (c.syncQ.length + c.asyncQ.length + 1) c picks
  unfold pollNext
  split
  · exact ho
  · have hf : (flush (outLoop c picks (c.syncQ.length + c.asyncQ.length + 1)).1).gen = c.gen := by
      simp only [flush, ho]
    revert hf
    generalize flush (outLoop c picks (c.syncQ.length + c.asyncQ.length + 1)).1 = d
    intro hf
    show (readOne d).1.gen = c.gen
    unfold readOne
    split
    · exact hf
    · split
      · exact hf
      · split <;> exact hf

theorem taskLoop_gen (f : Nat) : ∀ (c : Chan) (picks : List Nat), (taskLoop c picks f).1.gen = c.gen := by
  induction f with
  | zero => intro c picks; rfl
  | succ n ih =>
    intro c picks
    have hp := pollNext_gen c picks
    simp only [taskLoop]
    split
    · exact hp
    · split <;> simp [closeTask, hp]
    · rw [ih, hp]

theorem remoteRead_gen : ∀ (fr : List (Nat × Nat)) (c : Chan) (n : Nat) (c' : Chan),
    remoteRead c n fr = some c' → c'.gen = c.gen ∧ c'.alive = c.alive := by
  intro fr
  induction fr with
  | nil =>
    intro c n c' h
    simp only [remoteRead] at h
    split at h
    · cases h; exact ⟨rfl, rfl⟩
    · cases h
  | cons x rest ih =>
    intro c n c' h
    obtain ⟨mode, seq⟩ := x
    simp only [remoteRead] at h
    split at h
    · split at h
      · split at h
        · have := ih _ _ _ h; exact this
        · cases h
      · cases h
    · split at h
      · split at h
        · have := ih _ _ _ h; exact this
        · cases h
      · cases h

theorem letIn_gen (f : Nat) : ∀ c : Chan, (letIn c f).1.gen = c.gen ∧ (letIn c f).1.alive = c.alive := by
  induction f with
  | zero => intro c; exact ⟨rfl, rfl⟩
  | succ n ih =>
    intro c
    simp only [letIn]
    split
    · exact ⟨rfl, rfl⟩
    · split
      · exact ih _
      · exact ⟨rfl, rfl⟩

theorem sinkSync_ga (c : Chan) (g : Nat) (m : Msg) :
    (sinkSync c g m).1.gen = c.gen ∧ (sinkSync c g m).1.alive = c.alive := by
  unfold sinkSync; (repeat' split) <;> exact ⟨rfl, rfl⟩

theorem sinkAsync_ga (c : Chan) (g : Nat) (m : Msg) :
    (sinkAsync c g m).1.gen = c.gen ∧ (sinkAsync c g m).1.alive = c.alive := by
  unfold sinkAsync; (repeat' split) <;> exact ⟨rfl, rfl⟩

theorem asyncOnce_ga (c : Chan) (m : Msg) :
    (asyncOnce c m).1.gen = c.gen ∧ (asyncOnce c m).1.alive = c.alive := by
  unfold asyncOnce; (repeat' split) <;> exact ⟨rfl, rfl⟩

theorem syncSend_ga (c : Chan) (m : Msg) :
    (syncSend c m).1.gen = c.gen ∧ (syncSend c m).1.alive = c.alive := by
  unfold syncSend; (repeat' split) <;> exact ⟨rfl, rfl⟩

theorem asyncSend_ga (c : Chan) (m : Msg) :
    (asyncSend c m).1.gen = c.gen ∧ (asyncSend c m).1.alive = c.alive := by
  unfold asyncSend; (repeat' split) <;> exact ⟨rfl, rfl⟩

/-- No operation brings a dead stream back: the stream number never decreases and only `reopen` (a NEW number)
makes a task. -/
theorem dead_stays (g : Nat) (c : Chan) (x : OpX) (h : Dead g c) : Dead g (applyX c x) := by
  have key : ∀ c' : Chan, c'.gen = c.gen → (c.alive = false → c'.alive = false) → Dead g c' := by
    intro c' hg ha
    rcases h with h | ⟨h1, h2⟩
    · exact .inl (by omega)
    · exact .inr ⟨by omega, ha h2⟩
  have keq : ∀ c' : Chan, c'.gen = c.gen ∧ c'.alive = c.alive → Dead g c' :=
    fun c' hc => key c' hc.1 (fun ha => by rw [hc.2, ha])
  cases x with
  | reopen =>
    rcases h with h | ⟨h1, _⟩
    · exact .inl (by simp only [applyX, reopen]; omega)
    · exact .inl (by simp only [applyX, reopen]; omega)
  | ssend g' m => exact keq _ (sinkSync_ga c g' m)
  | sasend g' m => exact keq _ (sinkAsync_ga c g' m)
  | hasync m => exact keq _ (asyncOnce_ga c m)
  | op o =>
    cases o with
    | sync m => exact keq _ (syncSend_ga c m)
    | async m => exact keq _ (asyncSend_ga c m)
    | letIn f =>
      simp only [applyX, apply]
      split
      · exact keq _ (letIn_gen f c)
      · exact h
    | poll picks =>
      apply key
      · simp only [applyX, apply, taskPoll]
        split
        · rfl
        · split
          · rfl
          · exact taskLoop_gen 4096 c picks
      · intro ha; simp [applyX, apply, taskPoll, ha]
    | read n fr =>
      simp only [applyX, apply]
      cases hr : remoteRead c n fr with
      | none => simpa using h
      | some c' => exact keq c' (remoteRead_gen fr c n c' hr)
    | rsend m => exact key _ rfl id
    | rclose => exact key _ rfl id
    | close => exact key _ rfl id
    | user => exact key _ (by simp [applyX, apply, pollHandle]) (by simp [applyX, apply, pollHandle])

theorem dead_stays_all (g : Nat) (ops : List OpX) : ∀ c : Chan, Dead g c → Dead g (ops.foldl applyX c) := by
  induction ops with
  | nil => intro c h; exact h
  | cons x xs ih => intro c h; exact ih _ (dead_stays g c x h)

theorem dead_sink_fails (c : Chan) (g : Nat) (m : Msg) (h : Dead g c) :
    sinkSync c g m = (c, .noconn) ∧ sinkAsync c g m = (c, .noconn) := by
  have : (!c.alive || g != c.gen) = true := by
    rcases h with h | ⟨_, h⟩
    · have : g ≠ c.gen := by omega
      simp [this]
    · simp [h]
  simp [sinkSync, sinkAsync, this]

/-- **A `NotificationSink` obtained before the close never delivers after the user was sent
`NotificationStreamClosed`.** `closeTask` — `close_connection`, the only place that reports `closed` — leaves the
stream dead (`g ≤ c.gen`: the sink of the current or of an earlier stream). From then on, whatever else happens
(`ops`: further sends through the handle or through any clone, polls, reads of the remote, the handle polling its
events or not, a new stream to the same peer), a send through a clone of that sink answers `NoConnection` (sync) /
`PeerDoesntExist` (async) and changes nothing — no queue, no ledger of accepted notifications — hence nothing of
it can ever be delivered. -/
theorem sink_send_after_close_fails (c : Chan) (g : Nat) (hg : g ≤ c.gen) (ops : List OpX) (m : Msg) :
    (closeTask c).evQ = c.evQ ++ ["closed"] ∧
    sinkSync (ops.foldl applyX (closeTask c)) g m = (ops.foldl applyX (closeTask c), .noconn) ∧
    sinkAsync (ops.foldl applyX (closeTask c)) g m = (ops.foldl applyX (closeTask c), .noconn) := by
  have hd : Dead g (closeTask c) := by
    by_cases h : g < c.gen
    · exact .inl h
    · exact .inr ⟨by simp [closeTask]; omega, rfl⟩
  exact ⟨rfl, dead_sink_fails _ g m (dead_stays_all g ops _ hd)⟩

/-- While the stream lives a clone behaves like the sink in the handle, minus the handle's bookkeeping: full sync
queue ⇒ `ChannelClogged` and nothing else (no `ForceClose`, no `clogged` mark); the handle's async send polled once
and dropped leaves no trace when it would have had to wait. -/
theorem sink_clone_live (c : Chan) (m : Msg) (ha : c.alive = true) :
    (c.syncQ.length ≥ c.cfg.syncCap → sinkSync c c.gen m = (c, .clogged)) ∧
    (c.syncQ.length < c.cfg.syncCap →
      sinkSync c c.gen m = ({ c with syncQ := c.syncQ ++ [m], accS := c.accS ++ [m] }, .ok)) ∧
    ((asyncOnce c m).2 = .blocked → (asyncOnce c m).1 = c) := by
  refine ⟨fun h => ?_, fun h => ?_, fun h => ?_⟩
  · simp [sinkSync, ha, h]
  · have : ¬ c.syncQ.length ≥ c.cfg.syncCap := by omega
    simp [sinkSync, ha, this]
  · unfold asyncOnce at h ⊢
    split at h
    · cases h
    · split at h
      · cases h
      · split at h
        · cases h
        · rename_i h1 h2 h3
          simp [h1, h2, h3]

-- non-vacuity: a sink taken from the open stream (number 1) works; after the task has closed it answers
-- NoConnection, also when a new stream (number 2) is open and the handle's own sink works again
def sinkDemo : Chan := [OpX.op .user, .ssend 1 ⟨0, 1, 5⟩, .op .close, .op (.poll [])].foldl applyX (reopen { cfg := demoCfg })
example : getSink ((pollHandle (reopen { cfg := demoCfg })).1) = some 1 ∧ sinkDemo.accS = [⟨0, 1, 5⟩] ∧
    Dead 1 sinkDemo ∧ (sinkSync sinkDemo 1 ⟨0, 2, 5⟩).2 = .noconn ∧
    (sinkSync ([OpX.reopen, .op .user].foldl applyX sinkDemo) 1 ⟨0, 2, 5⟩).2 = .noconn ∧
    (sinkSync ([OpX.reopen, .op .user].foldl applyX sinkDemo) 2 ⟨0, 2, 5⟩).2 = .ok ∧
    (syncSend ([OpX.reopen, .op .user].foldl applyX sinkDemo) ⟨0, 2, 5⟩).2.1 = .ok := by
  refine ⟨by decide, by decide, .inr ⟨by decide, by decide⟩, by decide, by decide, by decide, by decide⟩
example : (asyncOnce { cfg := demoCfg, viewHas := true, alive := true, asyncQ := [⟨1, 1, 5⟩] } ⟨1, 2, 5⟩).2 = .blocked := by decide

#print axioms per_mode_prefix
#print axioms at_most_once
#print axioms no_gap_within_open_period
#print axioms no_loss_while_open
#print axioms sync_never_blocks
#print axioms oversize_not_delivered

#print axioms sink_send_after_close_fails
#print axioms sink_clone_live

end Litep2pVerif.Chan
