import Litep2pVerif.Model.Notif.Channel
/-!
C12 — notifications arrive in order, without loss or duplication, while open.
Model: `Model/Notif/Channel.lean`. "Every schedule" = every sequence of the model's operations (`Op`),
including every choice of the reader between the two per-mode buffers and every read size.
-/
namespace Litep2pVerif.Chan

/-- Operations of one open period (any order, any arguments = any schedule). -/
inductive Op
  | sync (m : Msg) | async (m : Msg) | letIn (fuel : Nat) | poll | read (n : Nat) (frames : List (Nat × Nat))
  | rsend (m : Msg) | rclose | close | user

def apply (c : Chan) : Op → Chan
  | .sync m => (syncSend c m).1
  | .async m => (asyncSend c m).1
  | .letIn f => if c.alive then (letIn c f).1 else c
  | .poll => (taskPoll c).1
  | .read n fr => (remoteRead c n fr).getD c
  | .rsend m => { c with inQ := c.inQ ++ [m] }
  | .rclose => { c with inClosed := true }
  | .close => { c with signalled := true }
  | .user => (pollHandle c).1

/-- Ledger of one mode: what the remote has read, what the task holds, what is queued — together exactly
the accepted notifications while the task lives, a prefix of them afterwards. -/
structure Inv (c : Chan) : Prop where
  s : c.delS ++ c.sBuf ++ c.syncQ <+: c.accS
  sa : c.alive = true → c.delS ++ c.sBuf ++ c.syncQ = c.accS
  a : c.delA ++ c.aBuf ++ c.asyncQ <+: c.accA
  aa : c.alive = true → c.delA ++ c.aBuf ++ c.asyncQ = c.accA

theorem prefix_drop {α} (a b c : List α) (h : a ++ b <+: c) : a <+: c :=
  (List.prefix_append a b).trans h

theorem letIn_inv (f : Nat) : ∀ c, Inv c → c.alive = true → Inv (letIn c f).1 ∧ (letIn c f).1.alive = true := by
  induction f with
  | zero => intro c h ha; exact ⟨h, ha⟩
  | succ n ih =>
    intro c h ha
    simp only [letIn]
    split
    · exact ⟨h, ha⟩
    · split
      · apply ih
        · have := h.aa ha
          exact ⟨h.s, h.sa, by simp [← this], fun _ => by simp [← this]⟩
        · exact ha
      · exact ⟨h, ha⟩

theorem read_inv : ∀ (fr : List (Nat × Nat)) (c : Chan) (n : Nat) (c' : Chan), Inv c → remoteRead c n fr = some c' → Inv c' := by
  intro fr
  induction fr with
  | nil =>
    intro c n c' h hr
    simp only [remoteRead] at hr
    split at hr
    · cases hr; exact ⟨h.s, h.sa, h.a, h.aa⟩
    · cases hr
  | cons x rest ih =>
    intro c n c' h hr
    obtain ⟨mode, seq⟩ := x
    simp only [remoteRead] at hr
    split at hr
    · split at hr
      · split at hr
        · rename_i m tl hb _
          refine ih _ _ _ ?_ hr
          exact ⟨by simpa [hb] using h.s, fun ha => by simpa [hb] using h.sa ha, h.a, h.aa⟩
        · cases hr
      · cases hr
    · split at hr
      · split at hr
        · rename_i m tl hb _
          refine ih _ _ _ ?_ hr
          exact ⟨h.s, h.sa, by simpa [hb] using h.a, fun ha => by simpa [hb] using h.aa ha⟩
        · cases hr
      · cases hr

theorem close_inv {c : Chan} (h : Inv c) : Inv (closeTask c) := by
  refine ⟨?_, fun ha => by simp [closeTask] at ha, ?_, fun ha => by simp [closeTask] at ha⟩
  · simpa [closeTask] using prefix_drop _ _ _ h.s
  · simpa [closeTask] using prefix_drop _ _ _ h.a

theorem readInbound_inv (f : Nat) : ∀ c, Inv c → Inv (readInbound c f).1 := by
  induction f with
  | zero => intro c h; exact h
  | succ n ih =>
    intro c h
    simp only [readInbound]
    split
    · exact h
    · split
      · exact h
      · split
        · exact ⟨h.s, h.sa, h.a, h.aa⟩
        · exact ih _ ⟨h.s, h.sa, h.a, h.aa⟩

theorem apply_inv (c : Chan) (op : Op) (h : Inv c) : Inv (apply c op) := by
  cases op with
  | sync m =>
    simp only [apply, syncSend]
    split
    · exact h
    · split
      · exact h
      · rename_i hal
        have hal : c.alive = true := by simpa using hal
        split
        · exact ⟨h.s, h.sa, h.a, h.aa⟩
        · have := h.sa hal
          exact ⟨by simp [← this], fun _ => by simp [← this], h.a, h.aa⟩
  | async m =>
    simp only [apply, asyncSend]
    split
    · exact h
    · split
      · exact h
      · rename_i hal
        have hal : c.alive = true := by simpa using hal
        split
        · have := h.aa hal
          exact ⟨h.s, h.sa, by simp [← this], fun _ => by simp [← this]⟩
        · exact ⟨h.s, h.sa, h.a, h.aa⟩
  | letIn f =>
    simp only [apply]
    split
    · rename_i ha; exact (letIn_inv f c h ha).1
    · exact h
  | poll =>
    simp only [apply, taskPoll]
    split
    · exact h
    · rename_i hal
      have hal : c.alive = true := by simpa using hal
      split
      · exact close_inv h
      · split
        · exact close_inv h
        · have hs := h.sa hal
          have ha := h.aa hal
          have key : ∀ x : Chan, Inv x → Inv (if (readInbound x 4096).2 = true
              then (closeTask (readInbound x 4096).1, some true) else ((readInbound x 4096).1, (none : Option Bool))).1 := by
            intro x hx
            split
            · exact close_inv (readInbound_inv _ _ hx)
            · exact readInbound_inv _ _ hx
          apply key
          refine ⟨?_, fun _ => ?_, ?_, fun _ => ?_⟩ <;> simp [flush, ← hs, ← ha]
  | read n fr =>
    simp only [apply]
    rcases hr : remoteRead c n fr with _ | c'
    · exact h
    · exact read_inv fr c n c' h hr
  | rsend m => exact ⟨h.s, h.sa, h.a, h.aa⟩
  | rclose => exact ⟨h.s, h.sa, h.a, h.aa⟩
  | close => exact ⟨h.s, h.sa, h.a, h.aa⟩
  | user => exact ⟨h.s, h.sa, h.a, h.aa⟩

inductive Reach (c0 : Chan) : Chan → Prop
  | init : Reach c0 (reopen c0)
  | step {c : Chan} (op : Op) : Reach c0 c → Reach c0 (apply c op)

theorem reach_inv {c0 c : Chan} (h : Reach c0 c) : Inv c := by
  induction h with
  | init => exact ⟨by simp [reopen], fun _ => by simp [reopen], by simp [reopen], fun _ => by simp [reopen]⟩
  | step op _ ih => exact apply_inv _ op ih

/-- For each sending mode and every schedule, what the remote has read is a prefix of the notifications
accepted for sending in this open period, in order. -/
theorem per_mode_prefix {c0 c : Chan} (h : Reach c0 c) : c.delS <+: c.accS ∧ c.delA <+: c.accA := by
  have i := reach_inv h
  exact ⟨prefix_drop _ _ _ (prefix_drop _ _ _ i.s), prefix_drop _ _ _ (prefix_drop _ _ _ i.a)⟩

/-- … hence delivered at most once (accepted sequence numbers are distinct). -/
theorem at_most_once {c0 c : Chan} (h : Reach c0 c) (hs : c.accS.Nodup) (ha : c.accA.Nodup) :
    c.delS.Nodup ∧ c.delA.Nodup := by
  obtain ⟨⟨r1, h1⟩, ⟨r2, h2⟩⟩ := per_mode_prefix h
  rw [← h1] at hs; rw [← h2] at ha
  exact ⟨(List.nodup_append.mp hs).1, (List.nodup_append.mp ha).1⟩

/-- … and without gaps: the k-th notification read is the k-th accepted one. -/
theorem no_gap_within_open_period {c0 c : Chan} (h : Reach c0 c) (k : Nat) (m : Msg) :
    (c.delS[k]? = some m → c.accS[k]? = some m) ∧ (c.delA[k]? = some m → c.accA[k]? = some m) := by
  obtain ⟨⟨r1, h1⟩, ⟨r2, h2⟩⟩ := per_mode_prefix h
  constructor
  · intro hk; rw [← h1]; rw [List.getElem?_append_left]; exact hk
    exact (List.getElem?_eq_some_iff.mp hk).1
  · intro hk; rw [← h2]; rw [List.getElem?_append_left]; exact hk
    exact (List.getElem?_eq_some_iff.mp hk).1

/-- The synchronous send is a single non-blocking step: ok | clogged | no-connection; a refused
notification changes no queue; the queue bound is kept; `ForceClose` is sent only on the first clog. -/
theorem sync_never_blocks (c : Chan) (m : Msg) :
    ((syncSend c m).2.1 = .ok ∨ (syncSend c m).2.1 = .clogged ∨ (syncSend c m).2.1 = .noconn) ∧
    ((syncSend c m).2.1 ≠ .ok → (syncSend c m).1.syncQ = c.syncQ ∧ (syncSend c m).1.accS = c.accS) ∧
    (c.syncQ.length ≤ c.cfg.syncCap → (syncSend c m).1.syncQ.length ≤ c.cfg.syncCap) ∧
    ((syncSend c m).2.2 = true → c.clogged = false ∧ (syncSend c m).1.clogged = true) := by
  unfold syncSend
  split
  · simp
  · split
    · simp
    · split
      · simp
      · rename_i hlt
        simp at hlt
        simp; omega

/-- A frame larger than the configured maximum is never moved into the shared inbound channel (nor,
therefore, yielded to the user). -/
theorem oversize_not_delivered (f : Nat) : ∀ c : Chan,
    (∀ m ∈ c.notifQ, max m.size 3 ≤ c.cfg.maxSize) →
    ∀ m ∈ (readInbound c f).1.notifQ, max m.size 3 ≤ (readInbound c f).1.cfg.maxSize := by
  induction f with
  | zero => intro c h; exact h
  | succ n ih =>
    intro c h
    simp only [readInbound]
    split
    · exact h
    · split
      · exact h
      · split
        · exact h
        · rename_i m rest _ hsz
          apply ih
          intro x hx
          simp at hx
          rcases hx with hx | rfl
          · exact h x hx
          · simp at hsz; simpa using hsz

def demoCfg : Cfg := ⟨2, 1, 2, 16, 32⟩
def demo : Chan := [Op.sync ⟨0, 1, 5⟩, .sync ⟨0, 2, 5⟩, .async ⟨1, 1, 5⟩, .poll, .read 12 [(0, 1), (1, 1)]].foldl apply (reopen { cfg := demoCfg, viewHas := true })

example : demo.delS = [⟨0, 1, 5⟩] ∧ demo.delA = [⟨1, 1, 5⟩] ∧ demo.accS.length = 2 := by decide
example : (syncSend { cfg := demoCfg, viewHas := true, alive := true, syncQ := [⟨0, 1, 5⟩, ⟨0, 2, 5⟩] } ⟨0, 3, 5⟩).2 = (.clogged, true) := by decide
example : (readInbound { cfg := demoCfg, inQ := [⟨2, 1, 4⟩, ⟨2, 2, 40⟩, ⟨2, 3, 4⟩] } 10).1.notifQ = [⟨2, 1, 4⟩] ∧
    (readInbound { cfg := demoCfg, inQ := [⟨2, 1, 4⟩, ⟨2, 2, 40⟩, ⟨2, 3, 4⟩] } 10).2 = true := by decide

#print axioms per_mode_prefix
#print axioms at_most_once
#print axioms no_gap_within_open_period
#print axioms sync_never_blocks
#print axioms oversize_not_delivered

end Litep2pVerif.Chan
