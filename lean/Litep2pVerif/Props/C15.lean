import Litep2pVerif.Proofs.Kad.FindNodeRun
import Litep2pVerif.Proofs.Kad.Engine
import Litep2pVerif.Proofs.Kad.Values
import Litep2pVerif.Proofs.Kad.LookupRun
import Litep2pVerif.Proofs.Kad.EnginePar
import Litep2pVerif.Generated.Consts
/-!
# C15 — Iterative Kademlia lookups terminate with the closest responsive peers

Property theorems only. "Every reply order / failure pattern" is every list of events
(`Model/Kad/QueryRun.lean`): calls of `next_action` with a clock reading, responses with arbitrary
peer lists (also from peers that were never asked, also naming the local peer, with duplicates),
failures. Setting of the `FindNodeContext` theorems (`find`, `put record`, `add provider` lookups):
`d` is the distance of a peer to the target (the peer lists carry it: `kp.dist = d kp.peer`), `U`
a finite universe containing every peer that is ever named, the initial candidates do not contain
the local peer. Only the theorems that speak about time-outs (`terminates`, `parallelism_bound`) or
use the response window (`success_*`) assume that clock readings never go back (`monotoneFrom 0 evs`);
`no_self`, `no_requery` and their value / provider / engine versions hold for arbitrary clock
readings. `InjOn d U`: distinct peers have distinct distances to the target (SHA-256 keys differ).
-/
namespace Litep2pVerif.Props.C15
open Litep2pVerif Litep2pVerif.Kad.Query

/-- The hypotheses on the inputs of a lookup. -/
structure Inputs (d : Nat → Nat) (U : List Nat) (l : Nat) (inPeers : List KPeer) (evs : List Ev) : Prop where
  candsOk : ∀ kp ∈ inPeers, kp.dist = d kp.peer ∧ kp.peer ∈ U ∧ kp.peer ≠ l
  evsOk : ∀ e ∈ evs, e.ok d U

/-- **No self.** The local peer is never sent a request — for every event list and arbitrary clock
readings. -/
theorem no_self (d : Nat → Nat) (U : List Nat) (l r a q T : Nat) (inPeers : List KPeer) (evs : List Ev)
    (h : Inputs d U l inPeers evs) :
    l ∉ sentPeers ((FindNode.new l r a q T inPeers).run evs).2 := by
  rw [FindNode.run_eq]
  exact (lookup_run (FindNode.sim d U) (FindNode.new l r a q T inPeers) l inPeers rfl h.candsOk evs h.evsOk).2.1

/-- **No re-query.** Every peer is sent at most one request by a lookup — for every event list and
arbitrary clock readings. -/
theorem no_requery (d : Nat → Nat) (U : List Nat) (l r a q T : Nat) (inPeers : List KPeer) (evs : List Ev)
    (h : Inputs d U l inPeers evs) :
    (sentPeers ((FindNode.new l r a q T inPeers).run evs).2).Nodup := by
  rw [FindNode.run_eq]
  exact (lookup_run (FindNode.sim d U) (FindNode.new l r a q T inPeers) l inPeers rfl h.candsOk evs h.evsOk).1

/-- A lying network: peer 2 answers with the local peer 0, itself, a duplicate and peer 1 that is in
flight; only the new peer 3 is contacted afterwards. -/
example : sentPeers ((FindNode.new 0 20 3 7 10 [⟨1, 5⟩, ⟨2, 3⟩]).run
    [.next 0, .next 0, .resp 2 [⟨0, 9⟩, ⟨2, 3⟩, ⟨3, 1⟩, ⟨3, 1⟩, ⟨1, 5⟩], .next 0, .next 0]).2 = [2, 1, 3] := by
  decide

/-- The clock jumps back and forth (request 2 goes stale at 50 and is fresh again at 3): still no peer
is asked twice. -/
example : sentPeers ((FindNode.new 0 20 1 7 10 [⟨1, 5⟩, ⟨2, 3⟩, ⟨3, 4⟩]).run
    [.next 9, .next 50, .next 3, .next 60, .fail 2, .next 0, .next 100]).2 = [2, 3, 1] := by
  decide

/-- **Termination.** With parallelism at least 1, over a universe of `|U|` peers a lookup makes at
most `2|U|` productive steps (a request sent, or an outstanding request answered or failed) in any
event sequence, and whenever no request is outstanding the next call of `next_action` does not
return `None`: it sends a request (productive) or emits the terminal action. So if every request is
eventually answered or failed, the terminal action comes after at most `2|U| + 1` productive
steps. -/
theorem terminates (d : Nat → Nat) (U : List Nat) (l r a q T : Nat) (inPeers : List KPeer) (evs : List Ev)
    (h : Inputs d U l inPeers evs) (hclk : monotoneFrom 0 evs) (ha : 1 ≤ a) :
    (FindNode.new l r a q T inPeers).productiveCount evs ≤ 2 * U.length ∧
    ∀ now, lastNow 0 evs ≤ now → ((FindNode.new l r a q T inPeers).run evs).1.pending = [] →
      ((((FindNode.new l r a q T inPeers).run evs).1).nextAction now).2 ≠ none := by
  obtain ⟨A', h1, _, h3, _, h5, _⟩ := (FInv.init l r a q T inPeers h.candsOk).run evs h.evsOk hclk
  refine ⟨?_, ?_⟩
  · have : (FindNode.new l r a q T inPeers).mu U ≤ 2 * U.length := measure_le _ _ _ rfl
    omega
  · intro now hnow hp hnone
    obtain ⟨_, _, _, n4⟩ := h1.next now hnow
    rw [hnone] at n4
    simp only [NextSpec] at n4
    have hpar : ((FindNode.new l r a q T inPeers).run evs).1.par = a := h3.2.2.1
    exact n4.2.2.2.2.1 (by omega) hp

/-- Three peers, everybody answers: 3 requests + 3 answers = 6 = 2·|U| productive steps, then the
terminal action. -/
example : (FindNode.new 0 20 1 7 10 [⟨1, 5⟩]).productiveCount
      [.next 0, .resp 1 [⟨2, 4⟩, ⟨3, 6⟩], .next 0, .resp 2 [], .next 0, .resp 3 [], .next 0] = 6 ∧
    ((FindNode.new 0 20 1 7 10 [⟨1, 5⟩]).run
      [.next 0, .resp 1 [⟨2, 4⟩, ⟨3, 6⟩], .next 0, .resp 2 [], .next 0, .resp 3 [], .next 0]).2 =
      [.send 7 1, .send 7 2, .send 7 3, .succeeded 7] := by
  decide

/-- With parallelism 0 a lookup with a candidate never sends a request and never terminates. -/
theorem parallelism_zero_stuck (l r q T : Nat) (inPeers : List KPeer) (evs : List Ev)
    (hc : initCandidates inPeers ≠ []) :
    ((FindNode.new l r 0 q T inPeers).run evs).2 = [] := by
  have key : ∀ (s : FindNode), s.pending = [] → s.candidates ≠ [] → s.pendingResponses = 0 → s.par = 0 →
      ∀ e, s.step e = (s, none) := by
    intro s hp hcand hctr hpar e
    cases e with
    | next now =>
      simp only [FindNode.step, FindNode.nextAction, hp, List.isEmpty_nil, true_and]
      have : s.candidates.isEmpty = false := by
        cases hs : s.candidates with
        | nil => exact absurd hs hcand
        | cons _ _ => rfl
      simp [this, FindNode.markTimeouts, hp, FindNode.decide, hctr, hpar]
    | resp p peers => simp [FindNode.step, FindNode.registerResponse, hp, pendLookup]
    | fail p => simp [FindNode.step, FindNode.registerResponseFailure, hp, pendLookup]
  have : ∀ (s : FindNode), s.pending = [] → s.candidates ≠ [] → s.pendingResponses = 0 → s.par = 0 →
      (s.run evs).2 = [] := by
    induction evs with
    | nil => intro s _ _ _ _; rfl
    | cons e es ih =>
      intro s h1 h2 h3 h4
      simp only [FindNode.run, key s h1 h2 h3 h4 e]
      exact ih s h1 h2 h3 h4
  exact this _ rfl hc rfl rfl

example : ((FindNode.new 0 20 0 7 10 [⟨1, 5⟩]).run [.next 0, .next 11, .fail 1, .next 50]).2 = [] := by decide

/-- **Parallelism bound** (full strength, holds for the repaired accounting): at every moment the
number of unanswered requests that are not older than the peer timeout is at most the parallelism
factor. (Before the fix `pending_responses` was decremented again on every `next_action` call for
every stale request; see `known_findings.d/C15.json`.) -/
theorem parallelism_bound (d : Nat → Nat) (U : List Nat) (l r a q T : Nat) (inPeers : List KPeer)
    (evs : List Ev) (h : Inputs d U l inPeers evs) (hclk : monotoneFrom 0 evs) (now : Nat)
    (hnow : lastNow 0 evs ≤ now) :
    (((FindNode.new l r a q T inPeers).run evs).1.fresh now).length ≤ a := by
  obtain ⟨A', h1, _, h3, _⟩ := (FInv.init l r a q T inPeers h.candsOk).run evs h.evsOk hclk
  have := h1.c.fresh_le now hnow
  rw [h3.2.2.1] at this
  exact this

/-- The scenario of DESIGN §8-m (parallelism 3, one request goes stale, `next_action` polled ten
times): exactly 3 fresh requests are in flight, 4 requests in total. -/
example :
    let s := ((FindNode.new 0 20 3 7 3 ((List.range 12).map fun i => ⟨i + 1, i + 1⟩)).run
      (.next 0 :: List.replicate 10 (.next 4))).1
    (s.fresh 4).length = 3 ∧ s.pending.length = 4 ∧ s.pendingResponses = 3 := by
  decide

/-- **Success: sorted and bounded.** When `next_action` reports success, the reported peers
(`responses`, as `on_query_succeeded` reads them) are strictly sorted by distance and at most the
replication factor many. -/
theorem success_sorted_bounded (d : Nat → Nat) (U : List Nat) (l r a q T : Nat) (inPeers : List KPeer)
    (evs : List Ev) (h : Inputs d U l inPeers evs) (hclk : monotoneFrom 0 evs) (now : Nat)
    (hnow : lastNow 0 evs ≤ now) (q' : Nat)
    (_hs : ((((FindNode.new l r a q T inPeers).run evs).1).nextAction now).2 = some (.succeeded q')) :
    let reported := dvalues ((((FindNode.new l r a q T inPeers).run evs).1).nextAction now).1.responses
    reported.Pairwise (fun x y => x.dist < y.dist) ∧ reported.length ≤ r := by
  obtain ⟨A', h1, _, h3, _⟩ := (FInv.init l r a q T inPeers h.candsOk).run evs h.evsOk hclk
  obtain ⟨n1, n2, _, _⟩ := h1.next now hnow
  intro reported
  refine ⟨?_, ?_⟩
  · have hs' := n1.rs
    have hk := n1.rkey
    show (List.map _ _).Pairwise _
    rw [List.pairwise_map]
    refine hs'.imp_of_mem ?_
    intro x y hx hy hxy
    rw [← (hk x hx).1, ← (hk y hy).1]; exact hxy
  · have := n1.rlen
    have hr : (((FindNode.new l r a q T inPeers).run evs).1.nextAction now).1.repl = r :=
      n2.2.1.trans h3.2.1
    simp only [reported, dvalues, List.length_map]
    omega

/-- **Success: answered.** Every reported peer is a peer whose response was accepted. -/
theorem success_answered (d : Nat → Nat) (U : List Nat) (l r a q T : Nat) (inPeers : List KPeer)
    (evs : List Ev) (h : Inputs d U l inPeers evs) (hclk : monotoneFrom 0 evs) (now : Nat)
    (hnow : lastNow 0 evs ≤ now) :
    ∀ kp ∈ dvalues ((((FindNode.new l r a q T inPeers).run evs).1).nextAction now).1.responses,
      kp.peer ∈ (FindNode.new l r a q T inPeers).answered evs := by
  obtain ⟨A', h1, h2, _⟩ := (FInv.init l r a q T inPeers h.candsOk).run evs h.evsOk hclk
  obtain ⟨n1, _⟩ := h1.next now hnow
  intro kp hkp
  obtain ⟨x, hx, rfl⟩ := List.mem_map.1 hkp
  rcases h2 _ (n1.rkey x hx).2 with h | h
  · simp at h
  · exact h

/-- **Everything learned is tracked** (the invariant behind the closest-set condition; arbitrary
clock readings). Every peer the lookup ever learned of — an initial candidate or a peer named in an
accepted response, except the local node — is a candidate, an outstanding request, or a peer the
lookup is done with. Distances are injective on the universe (two peers at the same distance would
share one slot of the candidate map). -/
theorem learned_tracked (d : Nat → Nat) (U : List Nat) (l r a q T : Nat) (inPeers : List KPeer) (evs : List Ev)
    (h : Inputs d U l inPeers evs) (hinj : InjOn d U) :
    ∀ p ∈ inPeers.map (·.peer) ++ (FindNode.new l r a q T inPeers).learned evs, p ≠ l →
      p ∈ (dvalues ((FindNode.new l r a q T inPeers).run evs).1.candidates).map (·.peer) ∨
      p ∈ pendPeers ((FindNode.new l r a q T inPeers).run evs).1.pending ∨
      p ∈ ((FindNode.new l r a q T inPeers).run evs).1.queried := by
  obtain ⟨_, _, _, _, _, k6⟩ :=
    lookup_run (FindNode.sim d U) (FindNode.new l r a q T inPeers) l inPeers rfl h.candsOk evs h.evsOk
  rw [← FindNode.run_eq, ← FindNode.learned_eq] at k6
  intro p hp hpl
  have := k6 hinj p hp hpl
  simpa [View.knows, FindNode.view, candPeers, dvalues, List.map_map] using this

/-- Peer 1 names 2, 3 and the local peer 0; 2 is asked next, 3 stays a candidate, 1 is done. -/
example :
    let s0 := FindNode.new 0 20 1 7 10 [⟨1, 5⟩]
    let evs : List Ev := [.next 0, .resp 1 [⟨2, 3⟩, ⟨3, 9⟩, ⟨0, 1⟩], .next 0]
    s0.learned evs = [2, 3, 0] ∧ (dvalues (s0.run evs).1.candidates).map (·.peer) = [3] ∧
      pendPeers (s0.run evs).1.pending = [2] ∧ (s0.run evs).1.queried = [1] := by
  decide

/-- **Success: everything closer was contacted** (full statement). When `next_action` reports
success, every peer the lookup ever learned of — the initial candidates and every peer named in an
accepted response, except the local node — that is strictly closer to the target than the furthest
reported peer has been contacted: it is in `pending` (asked, no answer yet) or in `queried`
(answered or failed). Distances are injective on the universe. -/
theorem success_closer_contacted (d : Nat → Nat) (U : List Nat) (l r a q T : Nat) (inPeers : List KPeer)
    (evs : List Ev) (h : Inputs d U l inPeers evs) (hclk : monotoneFrom 0 evs) (hinj : InjOn d U) (now : Nat)
    (hnow : lastNow 0 evs ≤ now) (q' : Nat)
    (hs : ((((FindNode.new l r a q T inPeers).run evs).1).nextAction now).2 = some (.succeeded q')) :
    ∀ far ∈ (dvalues ((FindNode.new l r a q T inPeers).run evs).1.responses).getLast?,
      ∀ p ∈ inPeers.map (·.peer) ++ (FindNode.new l r a q T inPeers).learned evs, p ≠ l → d p < far.dist →
        p ∈ pendPeers ((FindNode.new l r a q T inPeers).run evs).1.pending ∨
        p ∈ ((FindNode.new l r a q T inPeers).run evs).1.queried := by
  obtain ⟨A', h1, _⟩ := (FInv.init l r a q T inPeers h.candsOk).run evs h.evsOk hclk
  obtain ⟨_, _, _, n4⟩ := h1.next now hnow
  rw [hs] at n4
  simp only [NextSpec] at n4
  obtain ⟨_, _, k3, _, _, k6⟩ :=
    lookup_run (FindNode.sim d U) (FindNode.new l r a q T inPeers) l inPeers rfl h.candsOk evs h.evsOk
  rw [← FindNode.run_eq, ← FindNode.learned_eq] at k6
  rw [← FindNode.run_eq] at k3
  intro far hfar p hp hpl hlt
  simp only [dvalues, List.getLast?_map, Option.mem_def, Option.map_eq_some_iff] at hfar
  obtain ⟨y, hy, rfl⟩ := hfar
  have hk := h1.rkey y (List.mem_of_getLast? hy)
  exact View.knows_contacted k3 (k6 hinj p hp hpl)
    (fun c hc => by have := n4.2.2.2.2.2 y hy c hc; rw [← hk.1]; exact this) hlt

/-- Replication 1: peer 1 (distance 5) answers and names the closer peer 2 (distance 3) and the
farther peer 3; the lookup goes on, and succeeds with peer 2 only once 2 has answered; the learned
peers are 1, 2, 3, of which 1 and 2 were contacted and 3 (not closer than 2) is still a candidate. -/
example :
    let s := ((FindNode.new 0 1 1 7 10 [⟨1, 5⟩]).run [.next 0, .resp 1 [⟨2, 3⟩, ⟨3, 9⟩], .next 0, .resp 2 []]).1
    (s.nextAction 0).2 = some (.succeeded 7) ∧ dvalues s.responses = [⟨2, 3⟩] ∧
      dvalues s.candidates = [⟨3, 9⟩] ∧ s.queried = [2, 1] ∧
      (FindNode.new 0 1 1 7 10 [⟨1, 5⟩]).learned [.next 0, .resp 1 [⟨2, 3⟩, ⟨3, 9⟩], .next 0, .resp 2 []] = [2, 3] ∧
      (FindNode.new 0 1 1 7 10 [⟨1, 5⟩]).answered [.next 0, .resp 1 [⟨2, 3⟩, ⟨3, 9⟩], .next 0, .resp 2 []] = [1, 2] := by
  decide

/-- Without injectivity the statement is false of the code: peers 2 and 3 at the same distance share
one slot of the `BTreeMap`, peer 2 is forgotten and never contacted although it is closer than the
reported peer 1. -/
theorem success_closer_contacted_needs_injectivity :
    let s0 := FindNode.new 0 1 1 7 10 [⟨1, 5⟩, ⟨2, 3⟩, ⟨3, 3⟩]
    let evs : List Ev := [.next 0, .fail 3, .next 0, .resp 1 []]
    ((s0.run evs).1.nextAction 0).2 = some (.succeeded 7) ∧ dvalues (s0.run evs).1.responses = [⟨1, 5⟩] ∧
      2 ∉ pendPeers (s0.run evs).1.pending ∧ 2 ∉ (s0.run evs).1.queried := by
  decide

/-- **Exactly one terminal action** (engine level, all query kinds). As long as query id `q` is not
started again, the engine emits at most one terminal action about `q`; a terminal action removes
the query, and about a query that is not active no action at all is emitted. The engine never hits
`expect("query to exist")`. -/
theorem terminal_once (e : Engine) (hk : KeyOk e) (q : Nat) (ops : List EOp)
    (hst : ∀ op ∈ ops, op.starts ≠ some q) :
    terminalCount q (e.run ops).2 ≤ 1 ∧
    (q ∉ keys e.queries → actionCount q (e.run ops).2 = 0) ∧
    (∀ op a, (e.step op).2 = .act a → a.terminal = true → a.query ∉ keys (e.step op).1.queries) ∧
    (∀ op, (e.step op).2 ≠ .bug) := by
  refine ⟨run_terminal_le q ops e hk hst, fun hq => (run_absent q ops e hk hq hst).1, ?_, ?_⟩
  · intro op a ha ht; exact ((step_spec e op hk).2.2.2 a ha).2 ht
  · intro op; exact (step_spec e op hk).2.2.1

/-- Two concurrent lookups in one engine, visited in either order; query 1 fails (its only peer
fails), later events about it are ignored. -/
example :
    let e : Engine := { localPeer := 0, repl := 2, par := 1, peerTimeout := 10 }
    KeyOk e ∧
    (e.run [.startFindNode 1 [⟨5, 2⟩], .startGetRecord 2 [⟨6, 1⟩] .one false, .next 0 [2, 1], .next 0 [1, 2],
      .responseFailure 1 5, .next 0 [1, 2], .responseFailure 1 5, .next 0 [2], .next 0 [1, 2]]).2 =
      [.none, .none, .act (.send 2 6), .act (.send 1 5), .none, .act (.failed 1), .none, .none, .none] := by
  refine ⟨by intro x hx; simp at hx, by decide⟩

/-- The hypotheses of the per-query statements at engine level: in an arbitrary engine state `e`
(other queries active in any state, possibly an older query under the same id `q`), `start` starts an
iterative lookup (find node, put record, add provider, get record, get providers) under id `q` with
initial candidates `inPeers`; afterwards comes an arbitrary list `ops` of engine operations — starts,
responses, failures and `next_action` calls for any ids, active or not, `next_action` visiting the
queries in any order — in which `q` is not started again and the responses routed to `q` carry true
distances (nothing is assumed about the messages for other queries). `d` is the distance to the
target of `q`. A restart of `q` begins a new lookup, to which the statement applies again. -/
structure EngineInputs (d : Nat → Nat) (U : List Nat) (e : Engine) (q : Nat) (inPeers : List KPeer)
    (start : EOp) (ops : List EOp) : Prop where
  keyOk : KeyOk e
  starts : start.startsLookup q inPeers
  candsOk : ∀ kp ∈ inPeers, kp.dist = d kp.peer ∧ kp.peer ∈ U ∧ kp.peer ≠ e.localPeer
  noRestart : ∀ op ∈ ops, op.starts ≠ some q
  opsOk : ∀ op ∈ ops, op.okFor d U q

/-- **No self, per query id at engine level**: over every interleaving, no request of query `q` goes
to the local peer (arbitrary clock readings). -/
theorem engine_no_self (d : Nat → Nat) (U : List Nat) (e : Engine) (q : Nat) (inPeers : List KPeer)
    (start : EOp) (ops : List EOp) (h : EngineInputs d U e q inPeers start ops) :
    e.localPeer ∉ sentTo q ((e.step start).1.run ops).2 := by
  obtain ⟨t, h1, hv⟩ := start_view d U e q inPeers start h.starts h.candsOk
  obtain ⟨_, r2, _⟩ := run_view d U e.localPeer q ops (e.step start).1 (step_spec e start h.keyOk).1
    h.noRestart h.opsOk
    (fun t2 ht2 => by rw [h1] at ht2; cases ht2; rw [hv]; exact ⟨Frontier.init inPeers h.candsOk, rfl⟩)
  exact fun hm => (r2 _ hm).1 rfl

/-- **No re-query, per query id at engine level**: over every interleaving, query `q` sends at most
one request to every peer (arbitrary clock readings). -/
theorem engine_no_requery (d : Nat → Nat) (U : List Nat) (e : Engine) (q : Nat) (inPeers : List KPeer)
    (start : EOp) (ops : List EOp) (h : EngineInputs d U e q inPeers start ops) :
    (sentTo q ((e.step start).1.run ops).2).Nodup := by
  obtain ⟨t, h1, hv⟩ := start_view d U e q inPeers start h.starts h.candsOk
  exact (run_view d U e.localPeer q ops (e.step start).1 (step_spec e start h.keyOk).1
    h.noRestart h.opsOk
    (fun t2 ht2 => by rw [h1] at ht2; cases ht2; rw [hv]; exact ⟨Frontier.init inPeers h.candsOk, rfl⟩)).1

/-- **Parallelism bound, per query id at engine level**: with monotone clock readings, at every
moment query `q` (if still active) has at most `parallelism` requests in flight (unanswered and not
older than the peer timeout; every unanswered request for value and provider lookups). -/
theorem engine_parallelism_bound (d : Nat → Nat) (U : List Nat) (e : Engine) (q : Nat) (inPeers : List KPeer)
    (start : EOp) (ops : List EOp) (h : EngineInputs d U e q inPeers start ops) (T : Nat)
    (hclk : eMonotoneFrom T ops) (now : Nat) (hnow : eLastNow T ops ≤ now) :
    ∀ t, qLookup q ((e.step start).1.run ops).1.queries = some t → t.inFlight now ≤ e.par := by
  intro t ht
  exact (run_par d U e.par q ops T (e.step start).1 h.noRestart h.opsOk hclk
    (start_par d U T e q inPeers start h.starts h.candsOk) t ht).inFlight_le now hnow

/-- Two concurrent lookups with overlapping peers, a lying peer, a response for an id that is not
active, a response of the wrong kind, and query 2 restarted in the middle of query 1: query 1 asks
every peer once and never the local peer 0; 2 requests of query 1 are in flight at the end. -/
example :
    let e : Engine := { localPeer := 0, repl := 2, par := 2, peerTimeout := 10 }
    let ops : List EOp := [.startGetRecord 2 [⟨5, 9⟩, ⟨6, 1⟩] .one false, .next 0 [2, 1], .next 0 [2, 1], .next 1 [1, 2],
      .response 1 5 (.findNode [⟨0, 7⟩, ⟨5, 2⟩, ⟨6, 4⟩, ⟨8, 1⟩]), .response 9 5 (.findNode []), .next 1 [1, 1],
      .startGetRecord 2 [⟨5, 9⟩] .one false, .next 2 [2, 1], .response 1 8 .putValue, .next 3 [2, 1], .next 3 [1]]
    KeyOk e ∧
    sentTo 1 ((e.step (.startFindNode 1 [⟨5, 2⟩])).1.run ops).2 = [5, 8, 6] ∧
    sentTo 2 ((e.step (.startFindNode 1 [⟨5, 2⟩])).1.run ops).2 = [6, 5, 5] ∧
    (qLookup 1 ((e.step (.startFindNode 1 [⟨5, 2⟩])).1.run ops).1.queries).map (·.inFlight 3) = some 1 := by
  refine ⟨by intro x hx; simp at hx, by decide, by decide, by decide⟩

/-- The default parallelism factor (regenerated from `kademlia/mod.rs`) satisfies the hypothesis of
`terminates`. -/
theorem default_parallelism_pos : 1 ≤ Consts.KAD_PARALLELISM_FACTOR := by decide

/-- **Value and provider lookups keep at most `parallelism` requests in flight** (they have no
timeouts: every unanswered request counts). -/
theorem lookup_parallelism_bound (l r a q : Nat) (quorum : Quorum) (loc : Bool) (known : List Prov)
    (inPeers : List KPeer) (gr : List GREv) (gp : List GPEv) :
    ((GetRecord.new l r a q quorum loc inPeers).run gr).1.pending.length ≤ a ∧
    ((GetProviders.new l a q known inPeers).run gp).1.pending.length ≤ a := by
  exact ⟨GetRecord.run_pending_le gr _ (by simp [GetRecord.new]),
    GetProviders.run_pending_le gp _ (by simp [GetProviders.new])⟩

example : ((GetRecord.new 0 20 2 7 .all false [⟨1, 5⟩, ⟨2, 3⟩, ⟨3, 4⟩]).run [.next, .next, .next]).2 =
    [.send 7 2, .send 7 3] := by decide

/-- The hypotheses on the inputs of a value lookup. -/
structure ValueInputs (d : Nat → Nat) (U : List Nat) (l : Nat) (inPeers : List KPeer) (evs : List GREv) :
    Prop where
  candsOk : ∀ kp ∈ inPeers, kp.dist = d kp.peer ∧ kp.peer ∈ U ∧ kp.peer ≠ l
  evsOk : ∀ e ∈ evs, e.ok d U

/-- The hypotheses on the inputs of a provider lookup. -/
structure ProviderInputs (d : Nat → Nat) (U : List Nat) (l : Nat) (inPeers : List KPeer) (evs : List GPEv) :
    Prop where
  candsOk : ∀ kp ∈ inPeers, kp.dist = d kp.peer ∧ kp.peer ∈ U ∧ kp.peer ≠ l
  evsOk : ∀ e ∈ evs, e.ok d U

/-- **Value lookups: no self.** -/
theorem value_no_self (d : Nat → Nat) (U : List Nat) (l r a q : Nat) (quorum : Quorum) (loc : Bool)
    (inPeers : List KPeer) (evs : List GREv) (h : ValueInputs d U l inPeers evs) :
    l ∉ sentPeers ((GetRecord.new l r a q quorum loc inPeers).run evs).2 := by
  rw [GetRecord.run_eq]
  exact (lookup_run (GetRecord.sim d U) (GetRecord.new l r a q quorum loc inPeers) l inPeers rfl
    h.candsOk evs h.evsOk).2.1

/-- **Value lookups: no re-query.** -/
theorem value_no_requery (d : Nat → Nat) (U : List Nat) (l r a q : Nat) (quorum : Quorum) (loc : Bool)
    (inPeers : List KPeer) (evs : List GREv) (h : ValueInputs d U l inPeers evs) :
    (sentPeers ((GetRecord.new l r a q quorum loc inPeers).run evs).2).Nodup := by
  rw [GetRecord.run_eq]
  exact (lookup_run (GetRecord.sim d U) (GetRecord.new l r a q quorum loc inPeers) l inPeers rfl
    h.candsOk evs h.evsOk).1

/-- A lying network for a value lookup: peer 2 names the local peer, itself, peer 1 (in flight) and
the new peer 3 twice. -/
example : sentPeers ((GetRecord.new 0 20 3 7 .all false [⟨1, 5⟩, ⟨2, 3⟩]).run
    [.next, .next, .resp 2 none [⟨0, 9⟩, ⟨2, 3⟩, ⟨3, 1⟩, ⟨3, 1⟩, ⟨1, 5⟩], .next, .next]).2 = [2, 1, 3] := by
  decide

/-- **Value lookups terminate.** With parallelism at least 1, over a universe of `|U|` peers a value
lookup makes at most `3|U|` productive steps (a request sent, an outstanding request answered or
failed, a partial result handed out) in any event sequence, and whenever no request is outstanding
the next call of `next_action` does not return `None`: it hands out a record, sends a request
(both productive) or emits the terminal action. -/
theorem value_terminates (d : Nat → Nat) (U : List Nat) (l r a q : Nat) (quorum : Quorum) (loc : Bool)
    (inPeers : List KPeer) (evs : List GREv) (h : ValueInputs d U l inPeers evs) (ha : 1 ≤ a) :
    (GetRecord.new l r a q quorum loc inPeers).productiveCount evs ≤ 3 * U.length ∧
    (((GetRecord.new l r a q quorum loc inPeers).run evs).1.pending = [] →
      ((GetRecord.new l r a q quorum loc inPeers).run evs).1.nextAction.2 ≠ none) := by
  refine ⟨?_, fun hp => GetRecord.next_ne_none _ hp (by rw [GetRecord.run_par]; exact ha)⟩
  have hfr : (GetRecord.new l r a q quorum loc inPeers).view.Fr d U := Frontier.init inPeers h.candsOk
  have := GetRecord.run_w3 evs _ hfr h.evsOk
  have h0 : (GetRecord.new l r a q quorum loc inPeers).view.w3 U ≤ 3 * U.length := by
    have := List.length_filter_le (fun u => decide (u ∉ ([] : List Nat) ∧ u ∉ ([] : List Nat))) U
    simp only [View.w3, GetRecord.view, GetRecord.new, kpPeers, List.map_nil, List.length_nil]
    omega
  have h1 : (GetRecord.new l r a q quorum loc inPeers).records.length = 0 := rfl
  omega

/-- Two peers, both answer with a record: 2 requests + 2 answers + 2 partial results = 6 = 3·|U|
productive steps, then the terminal action. -/
example : (GetRecord.new 0 20 1 7 .all false [⟨1, 5⟩]).productiveCount
      [.next, .resp 1 (some (8, false)) [⟨2, 4⟩], .next, .next, .resp 2 (some (8, false)) [], .next, .next] = 6 ∧
    ((GetRecord.new 0 20 1 7 .all false [⟨1, 5⟩]).run
      [.next, .resp 1 (some (8, false)) [⟨2, 4⟩], .next, .next, .resp 2 (some (8, false)) [], .next, .next]).2 =
      [.send 7 1, .partialRecord 7 1 8, .send 7 2, .partialRecord 7 2 8, .succeeded 7] := by
  decide

/-- **Value lookups: what the terminal action means.** A value lookup has no response window, so
"closer than the furthest reported" has no meaning; what holds instead: when the terminal action is
emitted, either the quorum is met, or every peer the lookup ever learned of (except the local node)
has been contacted *and* has answered or failed (is in `queried`). A failure is only reported in the
second case. -/
theorem value_done_means (d : Nat → Nat) (U : List Nat) (l r a q : Nat) (quorum : Quorum) (loc : Bool)
    (inPeers : List KPeer) (evs : List GREv) (h : ValueInputs d U l inPeers evs) (hinj : InjOn d U) (q' : Nat) :
    let s := ((GetRecord.new l r a q quorum loc inPeers).run evs).1
    let allDone := ∀ p ∈ inPeers.map (·.peer) ++ (GetRecord.new l r a q quorum loc inPeers).learned evs,
      p ≠ l → p ∈ s.queried
    (s.nextAction.2 = some (.succeeded q') → s.sufficient s.foundRecords = true ∨ allDone) ∧
    (s.nextAction.2 = some (.failed q') → allDone) := by
  intro s allDone
  obtain ⟨_, _, _, _, _, k6⟩ :=
    lookup_run (GetRecord.sim d U) (GetRecord.new l r a q quorum loc inPeers) l inPeers rfl h.candsOk evs h.evsOk
  rw [← GetRecord.run_eq, ← GetRecord.learned_eq] at k6
  have key : s.pending = [] ∧ s.candidates = [] → allDone := by
    intro ⟨hp, hc⟩ p hpm hpl
    rcases k6 hinj p hpm hpl with hk | hk | hk
    · simp only [GetRecord.view, candPeers] at hk
      rw [show ((GetRecord.new l r a q quorum loc inPeers).run evs).1.candidates = [] from hc] at hk
      simp at hk
    · simp only [GetRecord.view, kpPeers] at hk
      rw [show ((GetRecord.new l r a q quorum loc inPeers).run evs).1.pending = [] from hp] at hk
      simp at hk
    · exact hk
  refine ⟨fun hs => ?_, fun hf => key (GetRecord.failed_means s q' hf)⟩
  rcases GetRecord.terminal_means s q' (Or.inl hs) with h1 | h1
  · exact Or.inl h1
  · exact Or.inr (key h1)

/-- Quorum `All` with replication 20 is never met by two peers: the lookup ends when both learned
peers have answered. -/
example :
    let s0 := GetRecord.new 0 20 1 7 .all false [⟨1, 5⟩]
    let evs : List GREv := [.next, .resp 1 none [⟨2, 4⟩, ⟨0, 1⟩], .next, .fail 2]
    (s0.run evs).1.nextAction.2 = some (.failed 7) ∧ s0.learned evs = [2, 0] ∧ (s0.run evs).1.queried = [2, 1] := by
  decide

/-- **Provider lookups: no self.** -/
theorem provider_no_self (d : Nat → Nat) (U : List Nat) (l a q : Nat) (known : List Prov)
    (inPeers : List KPeer) (evs : List GPEv) (h : ProviderInputs d U l inPeers evs) :
    l ∉ sentPeers ((GetProviders.new l a q known inPeers).run evs).2 := by
  rw [GetProviders.run_eq]
  exact (lookup_run (GetProviders.sim d U) (GetProviders.new l a q known inPeers) l inPeers rfl
    h.candsOk evs h.evsOk).2.1

/-- **Provider lookups: no re-query.** -/
theorem provider_no_requery (d : Nat → Nat) (U : List Nat) (l a q : Nat) (known : List Prov)
    (inPeers : List KPeer) (evs : List GPEv) (h : ProviderInputs d U l inPeers evs) :
    (sentPeers ((GetProviders.new l a q known inPeers).run evs).2).Nodup := by
  rw [GetProviders.run_eq]
  exact (lookup_run (GetProviders.sim d U) (GetProviders.new l a q known inPeers) l inPeers rfl
    h.candsOk evs h.evsOk).1

example : sentPeers ((GetProviders.new 0 3 7 [] [⟨1, 5⟩, ⟨2, 3⟩]).run
    [.next, .next, .resp 2 [] [⟨0, 9⟩, ⟨2, 3⟩, ⟨3, 1⟩, ⟨3, 1⟩, ⟨1, 5⟩], .next, .next]).2 = [2, 1, 3] := by
  decide

/-- **Provider lookups terminate.** With parallelism at least 1 a provider lookup makes at most
`2|U|` productive steps (a request sent, or an outstanding request answered or failed), and whenever
no request is outstanding the next call of `next_action` sends a request or emits the terminal
action. -/
theorem provider_terminates (d : Nat → Nat) (U : List Nat) (l a q : Nat) (known : List Prov)
    (inPeers : List KPeer) (evs : List GPEv) (h : ProviderInputs d U l inPeers evs) (ha : 1 ≤ a) :
    (GetProviders.new l a q known inPeers).productiveCount evs ≤ 2 * U.length ∧
    (((GetProviders.new l a q known inPeers).run evs).1.pending = [] →
      ((GetProviders.new l a q known inPeers).run evs).1.nextAction.2 ≠ none) := by
  refine ⟨?_, fun hp => GetProviders.next_ne_none _ hp (by rw [GetProviders.run_par]; exact ha)⟩
  obtain ⟨_, _, _, _, k5, _⟩ :=
    lookup_run (GetProviders.sim d U) (GetProviders.new l a q known inPeers) l inPeers rfl h.candsOk evs h.evsOk
  rw [← GetProviders.productiveCount_eq] at k5
  omega

example : (GetProviders.new 0 1 7 [] [⟨1, 5⟩]).productiveCount
      [.next, .resp 1 [⟨4, 9, [1]⟩] [⟨2, 4⟩], .next, .fail 2, .next] = 4 ∧
    ((GetProviders.new 0 1 7 [] [⟨1, 5⟩]).run
      [.next, .resp 1 [⟨4, 9, [1]⟩] [⟨2, 4⟩], .next, .fail 2, .next]).2 = [.send 7 1, .send 7 2, .succeeded 7] := by
  decide

/-- **Provider lookups are exhaustive.** A provider lookup has no early exit: when it emits its
terminal action, every peer it ever learned of (except the local node) has been contacted and has
answered or failed — in particular every learned peer closer than any reported one. -/
theorem provider_all_contacted (d : Nat → Nat) (U : List Nat) (l a q : Nat) (known : List Prov)
    (inPeers : List KPeer) (evs : List GPEv) (h : ProviderInputs d U l inPeers evs) (hinj : InjOn d U) (q' : Nat)
    (hs : ((GetProviders.new l a q known inPeers).run evs).1.nextAction.2 = some (.succeeded q') ∨
      ((GetProviders.new l a q known inPeers).run evs).1.nextAction.2 = some (.failed q')) :
    ∀ p ∈ inPeers.map (·.peer) ++ (GetProviders.new l a q known inPeers).learned evs, p ≠ l →
      p ∈ ((GetProviders.new l a q known inPeers).run evs).1.queried := by
  obtain ⟨_, _, _, _, _, k6⟩ :=
    lookup_run (GetProviders.sim d U) (GetProviders.new l a q known inPeers) l inPeers rfl h.candsOk evs h.evsOk
  rw [← GetProviders.run_eq, ← GetProviders.learned_eq] at k6
  obtain ⟨hp, hc⟩ := GetProviders.terminal_means _ q' hs
  intro p hpm hpl
  rcases k6 hinj p hpm hpl with hk | hk | hk
  · simp only [GetProviders.view, candPeers] at hk
    rw [hc] at hk
    simp at hk
  · simp only [GetProviders.view, kpPeers] at hk
    rw [hp] at hk
    simp at hk
  · exact hk

example :
    let s0 := GetProviders.new 0 1 7 [] [⟨1, 5⟩]
    let evs : List GPEv := [.next, .resp 1 [⟨4, 9, [1]⟩] [⟨2, 4⟩], .next, .fail 2]
    (s0.run evs).1.nextAction.2 = some (.succeeded 7) ∧ s0.learned evs = [2] ∧ (s0.run evs).1.queried = [2, 1] := by
  decide

/-- **Records once.** Along every event sequence of a value lookup the records handed out as
partial results followed by the records still queued are exactly the unexpired records of the
accepted responses, in order of arrival — none lost, none duplicated — and a terminal action is
only emitted when the queue is empty. -/
theorem records_once (s : GetRecord) (hs : s.records = []) (evs : List GREv) :
    reportedRecords (s.run evs).2 ++ (s.run evs).1.records = s.received evs ∧
    ∀ q, ((s.run evs).1.nextAction.2 = some (.succeeded q) ∨ (s.run evs).1.nextAction.2 = some (.failed q)) →
      reportedRecords (s.run evs).2 = s.received evs := by
  have h := GetRecord.run_records evs s
  rw [hs, List.nil_append] at h
  refine ⟨h, fun q hq => ?_⟩
  rw [GetRecord.terminal_drained _ q hq, List.append_nil] at h
  exact h

example : reportedRecords ((GetRecord.new 0 20 2 7 .all false [⟨1, 5⟩, ⟨2, 3⟩]).run
    [.next, .next, .resp 2 (some (8, false)) [], .resp 1 (some (9, true)) [], .resp 2 (some (8, false)) [],
     .next, .next, .next]).2 = [(2, 8)] := by decide

/-- **Quorum stop.** Once the number of found records meets the quorum, no event sequence makes the
value lookup send another request. -/
theorem quorum_stop (s : GetRecord) (h : s.sufficient s.foundRecords = true) (evs : List GREv) :
    sentPeers (s.run evs).2 = [] :=
  GetRecord.run_no_send evs s h

example :
    let s := ((GetRecord.new 0 20 1 7 .one false [⟨1, 5⟩, ⟨2, 3⟩]).run [.next, .resp 2 (some (8, false)) [⟨3, 1⟩]]).1
    s.sufficient s.foundRecords = true ∧ s.candidates ≠ [] ∧
      (s.run [.next, .next]).2 = [.partialRecord 7 2 8, .succeeded 7] := by decide

/-- **Observation (not a violation):** a record found in the local store is counted twice
(`known_records = 1` and `found_records = 1`), so a lookup with quorum `N(2)` and a local record is
satisfied before any peer has been asked. -/
theorem local_record_double_count (l r a q : Nat) (inPeers : List KPeer) :
    (GetRecord.new l r a q (.n 2) true inPeers).sufficient
      (GetRecord.new l r a q (.n 2) true inPeers).foundRecords = true := by
  simp [GetRecord.new, GetRecord.sufficient]

example : ((GetRecord.new 0 20 3 7 (.n 2) true [⟨1, 5⟩]).run [.next]).2 = [.succeeded 7] := by decide

/-- **Providers once.** The reported provider list names every provider (known locally or returned
by a peer) exactly once, and is sorted by distance. -/
theorem providers_once (s : GetProviders) :
    (s.found.map (·.peer)).Nodup ∧
    (∀ p, p ∈ s.found.map (·.peer) ↔ p ∈ (s.knownProviders ++ s.foundProviders).map (·.peer)) ∧
    s.found.Pairwise (fun x y => x.dist ≤ y.dist) :=
  mergeAndSort_spec _

example : (((GetProviders.new 0 3 7 [⟨4, 9, [1]⟩] [⟨1, 5⟩]).run
    [.next, .resp 1 [⟨4, 9, [2, 1]⟩, ⟨5, 2, []⟩, ⟨5, 2, [3]⟩] []]).1).found = [⟨5, 2, [3]⟩, ⟨4, 9, [1, 2]⟩] := by
  decide

end Litep2pVerif.Props.C15

open Litep2pVerif.Props.C15 in
#print axioms no_self
open Litep2pVerif.Props.C15 in
#print axioms no_requery
open Litep2pVerif.Props.C15 in
#print axioms terminates
open Litep2pVerif.Props.C15 in
#print axioms parallelism_zero_stuck
open Litep2pVerif.Props.C15 in
#print axioms parallelism_bound
open Litep2pVerif.Props.C15 in
#print axioms success_sorted_bounded
open Litep2pVerif.Props.C15 in
#print axioms success_answered
open Litep2pVerif.Props.C15 in
#print axioms learned_tracked
open Litep2pVerif.Props.C15 in
#print axioms success_closer_contacted
open Litep2pVerif.Props.C15 in
#print axioms success_closer_contacted_needs_injectivity
open Litep2pVerif.Props.C15 in
#print axioms terminal_once
open Litep2pVerif.Props.C15 in
#print axioms engine_no_self
open Litep2pVerif.Props.C15 in
#print axioms engine_no_requery
open Litep2pVerif.Props.C15 in
#print axioms engine_parallelism_bound
open Litep2pVerif.Props.C15 in
#print axioms default_parallelism_pos
open Litep2pVerif.Props.C15 in
#print axioms lookup_parallelism_bound
open Litep2pVerif.Props.C15 in
#print axioms records_once
open Litep2pVerif.Props.C15 in
#print axioms quorum_stop
open Litep2pVerif.Props.C15 in
#print axioms local_record_double_count
open Litep2pVerif.Props.C15 in
#print axioms providers_once
open Litep2pVerif.Props.C15 in
#print axioms value_no_self
open Litep2pVerif.Props.C15 in
#print axioms value_no_requery
open Litep2pVerif.Props.C15 in
#print axioms value_terminates
open Litep2pVerif.Props.C15 in
#print axioms value_done_means
open Litep2pVerif.Props.C15 in
#print axioms provider_no_self
open Litep2pVerif.Props.C15 in
#print axioms provider_no_requery
open Litep2pVerif.Props.C15 in
#print axioms provider_terminates
open Litep2pVerif.Props.C15 in
#print axioms provider_all_contacted
