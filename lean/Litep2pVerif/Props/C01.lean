import Litep2pVerif.Model.Noise.XX
