import Litep2pVerif.Proofs.Noise.XX
import Litep2pVerif.Generated.Consts
/-!
# C01 — Noise handshake authenticates the remote peer identity

Property theorems only (models: `Model/Noise/Identity.lean`, `Model/Noise/XX.lean`; helper lemmas:
`Proofs/Noise/{Identity,XX}.lean`). Cryptography enters as the parameter structures `Crypto`/`DH` whose laws
(`Laws`, `DH.Laws`) are hypotheses; `free_laws`/`freeDH_laws` show they are satisfiable.

Part 1: the identity check (`parse_and_verify_peer_id`, payload decoding, dialed-peer test), on bytes.
Part 2: the XX exchange as `handshake()` runs it, symbolically, against arbitrary attackers.

OBSERVATION (not a violation of C01): litep2p derives the peer id from the *received* identity-key bytes
(`PeerId::from_public_key_protobuf(&identity)`), the libp2p reference re-encodes the decoded key. A non-canonical
protobuf encoding of a valid key is therefore accepted under a peer id that differs from the reference's id of the
same key (`canonical_id`). The signature check still binds that id's key to the session.
-/
namespace Litep2pVerif.Props.C01
open Litep2pVerif Litep2pVerif.Wire Litep2pVerif.Id Litep2pVerif.Noise.Identity Litep2pVerif.Noise.XX

/-! ## Part 1 — the identity check -/

/-- The laws assumed of the signature scheme are satisfiable (free term instance: a signature *is* the pair
(key, message)), and so are those of the DH group. -/
theorem free_laws : Laws freeCrypto ∧ freeDH.Laws := by
  refine ⟨Litep2pVerif.Noise.Identity.free_laws, ?_⟩
  constructor
  · intro n; simp [freeDH, freeDhSec, freeDhPub]
  · intro b n h
    simp only [freeDH, freeDhSec] at h
    split at h
    · rename_i k hk
      split at h
      · rename_i ht
        simp only [Option.some.injEq] at h; subst h
        have : b = b.take 31 ++ b.drop 31 := (List.take_append_drop 31 b).symm
        rw [this, ht, hk]; rfl
      · simp at h
    · simp at h
  · intro n; simp [freeDH, freeDhPub]

example : freeCrypto.verify (freeCrypto.pubOf 3) [1, 2] (freeCrypto.sign 3 [1, 2]) = true ∧
    freeCrypto.verify (freeCrypto.pubOf 3) [1, 2] (freeCrypto.sign 4 [1, 2]) = false := by decide

/-- What an honest node sends is accepted, under the peer id `00 24 ‖ canonical key encoding`. -/
theorem honest_payload_accepted (c : Crypto) (L : Laws c) (k : Nat) (rs : Bytes) (hrs : rs.length = 32) :
    parseAndVerify c (honestPayload c k rs) rs = .ok ⟨⟨IDENTITY_CODE, toU8 (keyEncoding (c.pubOf k))⟩⟩ := by
  have hkl : (keyEncoding (c.pubOf k)).length = 36 := by simp [keyEncoding, L.pub_len]
  have hsl := L.sig_len k rs hrs
  have hd := decode_encodePayload (keyEncoding (c.pubOf k)) (c.sign k (STATIC_KEY_DOMAIN ++ rs)) (by omega) (by omega)
  have hkey := remotePublicKey_keyEncoding c.validPoint (c.pubOf k) (L.pub_len k) (L.pub_valid k)
  have hP := peerIdOfEncoding_inline c (keyEncoding (c.pubOf k)) (by rw [hkl]; decide)
  simp [parseAndVerify, honestPayload, hd, checkPayload, hkey, hP, L.verify_sign]

/-- **Soundness of acceptance.** If `handshake()`'s identity check returns peer id `P` for a payload and the remote static key `rs` of the Noise session, then the payload decodes, carries identity-key bytes `kb` that decode to a key, carries a signature that this key verifies over `"noise-libp2p-static-key:" ++ rs`, and `P` is the peer id derived from exactly the received bytes `kb`. -/
theorem accept_sound (c : Crypto) (payload rs : Bytes) (P : PeerId)
    (h : parseAndVerify c payload rs = .ok P) :
    ∃ pl kb key sig, NoisePayload.decode payload = some pl ∧ pl.identityKey = some kb ∧
      pl.identitySig = some sig ∧ remotePublicKey c.validPoint kb = .ok key ∧
      c.verify key (STATIC_KEY_DOMAIN ++ rs) sig = true ∧ peerIdOfEncoding c kb = .ok P := by
  unfold parseAndVerify at h
  split at h
  · simp at h
  · rename_i pl hpl
    unfold checkPayload at h
    split at h
    · simp at h
    · rename_i kb hkb
      split at h
      · simp at h
      · simp at h
      · simp at h
      · rename_i key hkey
        split at h
        · simp at h
        · rename_i sig hsig
          split at h
          · simp at h
          · rename_i peer hpeer
            split at h
            · rename_i hv
              simp only [Except.ok.injEq] at h
              subst h
              exact ⟨pl, kb, key, sig, hpl, hkb, hsig, hkey, hv, hpeer⟩
            · simp at h

/-- Non-vacuity: the honest payload of identity 3 for static key `freeDhPub 7` is accepted. -/
theorem honest_payload_accepted' : ∃ P, parseAndVerify freeCrypto (honestPayload freeCrypto 3 (freeDhPub 7)) (freeDhPub 7) = .ok P :=
  ⟨_, honest_payload_accepted freeCrypto free_laws.1 3 (freeDhPub 7) (by decide)⟩

/-- **Missing identity key** ⇒ `PeerIdMissing`. -/
theorem reject_missing_key (c : Crypto) (payload rs : Bytes) (pl : NoisePayload)
    (hd : NoisePayload.decode payload = some pl) (hk : pl.identityKey = none) :
    parseAndVerify c payload rs = .error .peerIdMissing := by
  simp [parseAndVerify, hd, checkPayload, hk]

example : parseAndVerify freeCrypto [] [] = .error .peerIdMissing := by decide

/-- **Missing signature** ⇒ `BadSignature`. -/
theorem reject_missing_sig (c : Crypto) (payload rs : Bytes) (pl : NoisePayload) (kb key : Bytes)
    (hd : NoisePayload.decode payload = some pl) (hk : pl.identityKey = some kb)
    (hkey : remotePublicKey c.validPoint kb = .ok key) (hs : pl.identitySig = none) :
    parseAndVerify c payload rs = .error .badSignature := by
  simp [parseAndVerify, hd, checkPayload, hk, hkey, hs]

example : parseAndVerify freeCrypto (encodePayload (keyEncoding (freePub 3)) [] |>.take 38) [] = .error .badSignature := by decide

/-- **Signature that does not verify** (wrong bytes, other message, other key) ⇒ `BadSignature`. -/
theorem reject_bad_sig (c : Crypto) (hsha : ∀ x, (c.sha256 x).length = 32) (payload rs : Bytes) (pl : NoisePayload)
    (kb key sig : Bytes)
    (hd : NoisePayload.decode payload = some pl) (hk : pl.identityKey = some kb)
    (hkey : remotePublicKey c.validPoint kb = .ok key) (hs : pl.identitySig = some sig)
    (hv : c.verify key (STATIC_KEY_DOMAIN ++ rs) sig = false) :
    parseAndVerify c payload rs = .error .badSignature := by
  obtain ⟨P, hP⟩ := peerIdOfEncoding_total c hsha kb
  simp [parseAndVerify, hd, checkPayload, hk, hkey, hs, hP, hv]

example : parseAndVerify freeCrypto (encodePayload (keyEncoding (freePub 3)) [1, 2, 3]) [] = .error .badSignature := by decide

/-- **Identity key that does not decode** — protobuf error, unknown/unsupported key type, wrong length or invalid curve point ⇒ the corresponding `ParseError`, never an accepted peer. -/
theorem reject_undecodable_key (c : Crypto) (payload rs : Bytes) (pl : NoisePayload) (kb : Bytes)
    (hd : NoisePayload.decode payload = some pl) (hk : pl.identityKey = some kb) :
    (remotePublicKey c.validPoint kb = .decodeErr → parseAndVerify c payload rs = .error .keyDecode) ∧
    (remotePublicKey c.validPoint kb = .unknownKeyType → parseAndVerify c payload rs = .error .unknownKeyType) ∧
    (remotePublicKey c.validPoint kb = .invalidData → parseAndVerify c payload rs = .error .invalidKey) ∧
    ((∀ key, remotePublicKey c.validPoint kb ≠ .ok key) → ∀ P, parseAndVerify c payload rs ≠ .ok P) := by
  refine ⟨?_, ?_, ?_, ?_⟩
  · intro h; simp [parseAndVerify, hd, checkPayload, hk, h]
  · intro h; simp [parseAndVerify, hd, checkPayload, hk, h]
  · intro h; simp [parseAndVerify, hd, checkPayload, hk, h]
  · intro h P hP
    obtain ⟨pl', kb', key, sig, h1, h2, _, h4, _⟩ := accept_sound c payload rs P hP
    rw [hd] at h1; cases h1
    rw [hk] at h2; cases h2
    exact h key h4

example : parseAndVerify freeCrypto (encodePayload [8, 2, 18, 0] []) [] = .error .unknownKeyType ∧
    parseAndVerify freeCrypto (encodePayload [8, 1, 18, 1, 7] []) [] = .error .invalidKey ∧
    parseAndVerify freeCrypto (encodePayload [8] []) [] = .error .keyDecode ∧
    parseAndVerify freeCrypto [10] [] = .error .parse := by decide

/-- **Bound to the session.** Under the signature laws, a signature made over another static key `rs' ≠ rs` — e.g. one replayed from another session of the same identity — is rejected. -/
theorem bound_to_session (c : Crypto) (L : Laws c) (k k' : Nat) (rs rs' : Bytes) (hrs : rs'.length = 32)
    (hne : rs' ≠ rs) :
    parseAndVerify c (encodePayload (keyEncoding (c.pubOf k)) (c.sign k' (STATIC_KEY_DOMAIN ++ rs'))) rs
      = .error .badSignature := by
  have hkl : (keyEncoding (c.pubOf k)).length = 36 := by simp [keyEncoding, L.pub_len]
  have hsl := L.sig_len k' rs' hrs
  have hd := decode_encodePayload (keyEncoding (c.pubOf k)) (c.sign k' (STATIC_KEY_DOMAIN ++ rs')) (by omega) (by omega)
  have hkey := remotePublicKey_keyEncoding c.validPoint (c.pubOf k) (L.pub_len k) (L.pub_valid k)
  have hP := peerIdOfEncoding_inline c (keyEncoding (c.pubOf k)) (by rw [hkl]; decide)
  have hv : c.verify (c.pubOf k) (STATIC_KEY_DOMAIN ++ rs) (c.sign k' (STATIC_KEY_DOMAIN ++ rs')) = false := by
    cases hvv : c.verify (c.pubOf k) (STATIC_KEY_DOMAIN ++ rs) (c.sign k' (STATIC_KEY_DOMAIN ++ rs')) with
    | false => rfl
    | true =>
      have := (L.sign_binds _ _ _ _ hvv).2
      exact absurd (List.append_cancel_left this).symm hne
  simp [parseAndVerify, hd, checkPayload, hkey, hP, hv]

example : parseAndVerify freeCrypto (encodePayload (keyEncoding (freePub 3))
    (freeSign 3 (STATIC_KEY_DOMAIN ++ freeDhPub 8))) (freeDhPub 7) = .error .badSignature :=
  bound_to_session freeCrypto free_laws.1 3 3 (freeDhPub 7) (freeDhPub 8) (by decide) (by decide)

/-- **Bound to the identity.** A signature over the right static key by another identity `k' ≠ k` than the advertised one is rejected. -/
theorem bound_to_identity (c : Crypto) (L : Laws c) (k k' : Nat) (rs : Bytes) (hrs : rs.length = 32) (hne : k ≠ k') :
    parseAndVerify c (encodePayload (keyEncoding (c.pubOf k)) (c.sign k' (STATIC_KEY_DOMAIN ++ rs))) rs
      = .error .badSignature := by
  have hkl : (keyEncoding (c.pubOf k)).length = 36 := by simp [keyEncoding, L.pub_len]
  have hsl := L.sig_len k' rs hrs
  have hd := decode_encodePayload (keyEncoding (c.pubOf k)) (c.sign k' (STATIC_KEY_DOMAIN ++ rs)) (by omega) (by omega)
  have hkey := remotePublicKey_keyEncoding c.validPoint (c.pubOf k) (L.pub_len k) (L.pub_valid k)
  have hP := peerIdOfEncoding_inline c (keyEncoding (c.pubOf k)) (by rw [hkl]; decide)
  have hv : c.verify (c.pubOf k) (STATIC_KEY_DOMAIN ++ rs) (c.sign k' (STATIC_KEY_DOMAIN ++ rs)) = false := by
    cases hvv : c.verify (c.pubOf k) (STATIC_KEY_DOMAIN ++ rs) (c.sign k' (STATIC_KEY_DOMAIN ++ rs)) with
    | false => rfl
    | true => exact absurd (L.sign_binds _ _ _ _ hvv).1 hne
  simp [parseAndVerify, hd, checkPayload, hkey, hP, hv]

example : parseAndVerify freeCrypto (encodePayload (keyEncoding (freePub 3))
    (freeSign 4 (STATIC_KEY_DOMAIN ++ freeDhPub 7))) (freeDhPub 7) = .error .badSignature :=
  bound_to_identity freeCrypto free_laws.1 3 4 (freeDhPub 7) (by decide) (by decide)

/-- **Dialed peer.** `negotiate_connection` goes on only if the proven identity equals the dialed one. -/
theorem dialed_mismatch (d P Q : PeerId) (h : negotiateCheck (some d) P = .ok Q) : d = P ∧ Q = P := by
  simp only [negotiateCheck, ne_eq] at h
  split at h
  · simp at h
  · rename_i hne
    simp only [Decidable.not_not] at hne
    simp only [Except.ok.injEq] at h
    exact ⟨hne, h.symm⟩

example : negotiateCheck (some ⟨⟨0, [1]⟩⟩) ⟨⟨0, [2]⟩⟩ = .error .peerIdMismatch ∧
    negotiateCheck (some ⟨⟨0, [1]⟩⟩) ⟨⟨0, [1]⟩⟩ = .ok ⟨⟨0, [1]⟩⟩ ∧ negotiateCheck none ⟨⟨0, [2]⟩⟩ = .ok ⟨⟨0, [2]⟩⟩ := by decide


/-- **Dialed peer, for every address family and both entry points of the transport.** The expectation
`negotiate_connection` is given is the `/p2p` suffix of the address handed to `TcpTransport::open` /
`TcpTransport::dial`, whatever the host component (`/ip4`, `/ip6`, `/dns`, `/dns4`, `/dns6`) and whatever follows the
`/p2p`: (1) it is `some d` through both entry points — `open` derives it from the address `dial_peer` returns, which is
the address it was given; (2) a node that proves any other identity `P ≠ d` gets `PeerIdMismatch`; (3) so a result
`ok Q` means `d = P = Q`: no opened / established connection for a node that proved a different identity.
(Without a `/p2p` suffix there is no expectation and every proven identity is accepted: clause 4.)
`d` ranges over EVERY `PeerId`, i.e. every representation `from_multihash` accepts; clause (5) spells out the case the
comparison could get wrong — the expectation written in SHA2-256 form (`IdForm.sha256`, "Qm…") of any key `kb'` while
the handshake derives the inlined id `P` of key `kb` (`|kb| ≤ MAX_INLINE_KEY_LENGTH`: every Ed25519 key): the ids are
compared structurally, the result is `PeerIdMismatch` — for a different key as the property demands, and for the same
key (`kb' = kb`) as well; (6) for every form `f` of the expectation, a connection is reported only under the proven id
and only if the written expectation IS the proven id. -/
theorem dialed_mismatch_any_address_family (e : Entry) (h : Host) (d : PeerId) (tail : DialedAddr) :
    entryDialedPeer e (.host h :: .tcp :: .p2p d :: tail) = some d ∧
    (∀ P, d ≠ P → transportCheck e (.host h :: .tcp :: .p2p d :: tail) P = .error .peerIdMismatch) ∧
    (∀ P Q, transportCheck e (.host h :: .tcp :: .p2p d :: tail) P = .ok Q → d = P ∧ Q = P) ∧
    (∀ P, transportCheck e [.host h, .tcp] P = .ok P) ∧
    (∀ (c : Crypto) (kb kb' : Bytes) (P : PeerId), kb.length ≤ Consts.MAX_INLINE_KEY_LENGTH →
      peerIdOfEncoding c kb = .ok P → hashedIdOfEncoding c kb' = some d →
      transportCheck e (.host h :: .tcp :: .p2p d :: tail) P = .error .peerIdMismatch) ∧
    (∀ (c : Crypto) (f : IdForm) (kb' : Bytes) (P Q : PeerId), expectedIdOf c f kb' = some d →
      transportCheck e (.host h :: .tcp :: .p2p d :: tail) P = .ok Q → Q = P ∧ expectedIdOf c f kb' = some P) := by
  have hexp : entryDialedPeer e (.host h :: .tcp :: .p2p d :: tail) = some d := by
    cases e <;> simp [entryDialedPeer, dialPeerAddress, expectedPeer, parseDialed]
  have hnone : entryDialedPeer e [.host h, .tcp] = none := by
    cases e <;> simp [entryDialedPeer, dialPeerAddress, expectedPeer, parseDialed]
  have hmis : ∀ P, d ≠ P → transportCheck e (.host h :: .tcp :: .p2p d :: tail) P = .error .peerIdMismatch := by
    intro P hne
    simp [transportCheck, hexp, negotiateCheck, hne]
  have hok : ∀ P Q, transportCheck e (.host h :: .tcp :: .p2p d :: tail) P = .ok Q → d = P ∧ Q = P := by
    intro P Q hc
    rw [transportCheck, hexp] at hc
    exact dialed_mismatch d P Q hc
  refine ⟨hexp, hmis, hok, ?_, ?_, ?_⟩
  · intro P
    simp [transportCheck, hnone, negotiateCheck]
  · intro c kb kb' P hlen hP hd
    apply hmis
    intro heq
    subst heq
    -- the derived id of a short encoding carries the identity code, the hashed form the SHA2-256 code
    have h1 := derived_short_code c kb d hlen hP
    have h2 := hashed_code c kb' d hd
    rw [h1] at h2
    exact absurd h2 (by decide)
  · intro c f kb' P Q hd hc
    obtain ⟨h1, h2⟩ := hok P Q hc
    exact ⟨h2, h1 ▸ hd⟩

example :
    transportCheck .open [.host .dns4, .tcp, .p2p ⟨⟨0, [1]⟩⟩] ⟨⟨0, [2]⟩⟩ = .error .peerIdMismatch ∧
    transportCheck .open [.host .dns, .tcp, .p2p ⟨⟨0, [1]⟩⟩] ⟨⟨0, [2]⟩⟩ = .error .peerIdMismatch ∧
    transportCheck .open [.host .dns6, .tcp, .p2p ⟨⟨0, [1]⟩⟩] ⟨⟨0, [2]⟩⟩ = .error .peerIdMismatch ∧
    transportCheck .open [.host .ip4, .tcp, .p2p ⟨⟨0, [1]⟩⟩] ⟨⟨0, [2]⟩⟩ = .error .peerIdMismatch ∧
    transportCheck .dial [.host .ip6, .tcp, .p2p ⟨⟨0, [1]⟩⟩, .other] ⟨⟨0, [2]⟩⟩ = .error .peerIdMismatch ∧
    transportCheck .open [.host .dns4, .tcp, .p2p ⟨⟨0, [1]⟩⟩] ⟨⟨0, [1]⟩⟩ = .ok ⟨⟨0, [1]⟩⟩ ∧
    transportCheck .dial [.host .dns, .tcp] ⟨⟨0, [2]⟩⟩ = .ok ⟨⟨0, [2]⟩⟩ ∧
    expectedPeer [.host .dns4, .other, .p2p ⟨⟨0, [1]⟩⟩] = none := by decide

/-- Non-vacuity of clauses (5), (6): key 3's encoding (36 bytes) has an inlined id; its own SHA2-256 form and the
SHA2-256 form of key 4 both exist, differ from it, and are answered with `PeerIdMismatch` through `open` and `dial`. -/
example :
    let c := freeCrypto
    let kb := keyEncoding (c.pubOf 3)
    ∃ P x y, peerIdOfEncoding c kb = .ok P ∧ kb.length ≤ Consts.MAX_INLINE_KEY_LENGTH ∧
      expectedIdOf c .sha256 kb = some x ∧ expectedIdOf c .sha256 (keyEncoding (c.pubOf 4)) = some y ∧
      expectedIdOf c .derived kb = some P ∧
      transportCheck .open [.host .dns, .tcp, .p2p x] P = .error .peerIdMismatch ∧
      transportCheck .dial [.host .ip4, .tcp, .p2p y] P = .error .peerIdMismatch ∧
      transportCheck .open [.host .ip6, .tcp, .p2p P] P = .ok P := by
  refine ⟨_, _, _, rfl, by decide, rfl, rfl, rfl, by decide, by decide, by decide⟩


/-- **Observation: the peer id is the hash of the RECEIVED key bytes.** For an accepted payload whose key bytes `kb`
decode to `key`: the accepted id is the id of `kb`; it is the reference id (of the canonical re-encoding
`keyEncoding key`) if `kb` is canonical, and it differs from it for every other inlined encoding of the same key. -/
theorem canonical_id (c : Crypto) (payload rs : Bytes) (P : PeerId) (h : parseAndVerify c payload rs = .ok P) :
    ∃ kb key, remotePublicKey c.validPoint kb = .ok key ∧ peerIdOfEncoding c kb = .ok P ∧
      (kb = keyEncoding key → peerIdOfEncoding c (keyEncoding key) = .ok P) ∧
      (kb.length ≤ Consts.MAX_INLINE_KEY_LENGTH → toU8 kb ≠ toU8 (keyEncoding key) →
        peerIdOfEncoding c (keyEncoding key) ≠ .ok P) := by
  obtain ⟨pl, kb, key, sig, _, _, _, hkey, _, hP⟩ := accept_sound c payload rs P h
  refine ⟨kb, key, hkey, hP, fun e => e ▸ hP, ?_⟩
  intro hlen hne hcan
  have hk32 : key.length = 32 := by
    unfold remotePublicKey at hkey
    split at hkey
    · simp at hkey
    · split at hkey
      · split at hkey
        · rename_i hc; simp only [KeyResult.ok.injEq] at hkey; subst hkey; exact hc.1
        · simp at hkey
      · simp at hkey
  have h1 := peerIdOfEncoding_inline c kb hlen
  have h2 := peerIdOfEncoding_inline c (keyEncoding key) (by simp [keyEncoding, hk32]; decide)
  rw [h1] at hP; rw [h2] at hcan
  simp only [Except.ok.injEq] at hP hcan
  rw [← hP] at hcan
  simp only [PeerId.mk.injEq, Multihash.Multihash.mk.injEq, true_and] at hcan
  exact hne hcan.symm

/-- Non-vacuity: the same key with its two protobuf fields in the other order is accepted by the key decoder and has
another (inlined) encoding. -/
example : remotePublicKey freeCrypto.validPoint ([18, 32] ++ freePub 3 ++ [8, 1]) = .ok (freePub 3) ∧
    toU8 ([18, 32] ++ freePub 3 ++ [8, 1]) ≠ toU8 (keyEncoding (freePub 3)) := by decide

/-! ## Part 2 — the XX exchange under attack -/

/-- **Honest run.** Two honest parties over a network that delivers everything both return a socket for the other's
identity, bound to the other's static key (for all keys; under the laws). -/
theorem honest_accepts (E : Env) (hc : Laws E.c) (hg : E.g.Laws) (D L : Party) (eof : Bool) :
    resolve eof (run1 E D L honestNet) =
      (.ok (idOf E.c L.id) (E.g.pubB L.s), .ok (idOf E.c D.id) (E.g.pubB D.s)) := by
  rw [Litep2pVerif.Noise.XX.honest_accepts E hc hg D L]
  simp [resolve, Res.isErr]

set_option maxRecDepth 100000 in
example : resolve true (run1 freeEnv ⟨5, 1, 2⟩ ⟨6, 3, 4⟩ honestNet) =
    (.ok (idOf freeCrypto 6) (freeDhPub 4), .ok (idOf freeCrypto 5) (freeDhPub 2)) :=
  honest_accepts freeEnv free_laws.1 free_laws.2 _ _ _

/-- **No wrong identity, whatever the attacker does.** For EVERY attacker function (no restriction: it may know
all secrets but the signing keys' laws), a side whose `handshake()` returns `ok P` with a socket bound to the remote
static key `rs` has: accepted, in its own Noise state, a message from which exactly `rs` was decrypted as remote
static key (the session keys `ss` are derived from it), and verified a signature of the key encoded in `P` over
`rs` (`Verified`). -/
theorem tamper_no_wrong_identity (E : Env) (D L : Party) (A : Attacker) (eof : Bool) (P : PeerId) (rs : Bytes) :
    ((resolve eof (run1 E D L A)).1 = .ok P rs →
      ∃ x2 ss re rsT plT, dRead2 E D (dWrite1 E D).2 x2 = some (ss, re, rsT, plT) ∧ rs = termBytes rsT ∧
        Verified E.c (termBytes plT) rs P) ∧
    ((resolve eof (run1 E D L A)).2 = .ok P rs →
      ∃ x1 ssL reL x3 ss rsT plT, lRead1 SS.init x1 = some (ssL, reL) ∧
        lRead3 E L (lWrite2 E L ssL reL (L.payload E)).2 x3 = some (ss, rsT, plT) ∧ rs = termBytes rsT ∧
        Verified E.c (termBytes plT) rs P) := by
  constructor
  · intro h
    have h' := resolve_ok_inv.1 h
    simp only [run1] at h'
    obtain ⟨x2, ss, re, rsT, plT, _, hr, hrs, hv, _⟩ := stageD2_ok_inv h'
    exact ⟨x2, ss, re, rsT, plT, hr, hrs, accept_sound _ _ _ _ hv⟩
  · intro h
    have h' := resolve_ok_inv.2 h
    simp only [run1] at h'
    obtain ⟨x1, ssL, reL, x3, ss', rsT, plT, _, hr1, _, _, hr3, hrs, hv⟩ := stageL3_ok_inv h'
    exact ⟨x1, ssL, reL, x3, ss', rsT, plT, hr1, hr3, hrs, accept_sound _ _ _ _ hv⟩

/- Non-vacuity: a rogue dialer with its own keys and an honest payload of its own identity IS accepted by the
listener — as the rogue's identity 9, bound to the rogue's static key 92 (never as anybody else). -/
set_option maxRecDepth 100000 in
example : (resolve false (run1 freeEnv ⟨0, 1, 2⟩ ⟨6, 3, 4⟩
    (rogueDialer freeEnv ⟨9, 91, 92⟩ (honestPayload freeCrypto 9 (freeDhPub 92))))).2 =
    .ok (idOf freeCrypto 9) (freeDhPub 92) := by decide

/-- The same for two concurrent sessions whose messages the attacker may mix at will: each of the four results. -/
theorem tamper_no_wrong_identity_two_sessions (E : Env) (D L D' L' : Party) (A : Attacker2) (eof : Bool)
    (P : PeerId) (rs : Bytes) :
    ((resolve eof (run2 E D L D' L' A).1).1 = .ok P rs → ∃ pl, Verified E.c pl rs P) ∧
    ((resolve eof (run2 E D L D' L' A).1).2 = .ok P rs → ∃ pl, Verified E.c pl rs P) ∧
    ((resolve eof (run2 E D L D' L' A).2).1 = .ok P rs → ∃ pl, Verified E.c pl rs P) ∧
    ((resolve eof (run2 E D L D' L' A).2).2 = .ok P rs → ∃ pl, Verified E.c pl rs P) := by
  refine ⟨?_, ?_, ?_, ?_⟩
  · intro h
    have h' := resolve_ok_inv.1 h
    simp only [run2] at h'
    obtain ⟨_, _, _, _, plT, _, _, _, hv, _⟩ := stageD2_ok_inv h'
    exact ⟨_, accept_sound _ _ _ _ hv⟩
  · intro h
    have h' := resolve_ok_inv.2 h
    simp only [run2] at h'
    obtain ⟨_, _, _, _, _, _, plT, _, _, _, _, _, _, hv⟩ := stageL3_ok_inv h'
    exact ⟨_, accept_sound _ _ _ _ hv⟩
  · intro h
    have h' := resolve_ok_inv.1 h
    simp only [run2] at h'
    obtain ⟨_, _, _, _, plT, _, _, _, hv, _⟩ := stageD2_ok_inv h'
    exact ⟨_, accept_sound _ _ _ _ hv⟩
  · intro h
    have h' := resolve_ok_inv.2 h
    simp only [run2] at h'
    obtain ⟨_, _, _, _, _, _, plT, _, _, _, _, _, _, hv⟩ := stageL3_ok_inv h'
    exact ⟨_, accept_sound _ _ _ _ hv⟩

set_option maxRecDepth 100000 in
example : (resolve false (run2 freeEnv ⟨5, 1, 2⟩ ⟨6, 3, 4⟩ ⟨7, 11, 12⟩ ⟨8, 13, 14⟩ (scripted2 false .swap .swap .swap)).1).1 =
    .ok (idOf freeCrypto 8) (freeDhPub 14) := by decide

/-- **An honest identity can only be bound to the static key its owner signed.** Under the signature laws: if the
accepted payload advertises the key of identity `k` and its signature was made by ANY signing operation
`sign k' m'` (the only way signatures come into existence in the model), then `k' = k` and `m'` is this session's
static key; since an honest node signs nothing but its own static keys (`Party.payload`), `rs` is a static key of
node `k` — a payload replayed from another session, or a rogue's session under an honest identity, is impossible. -/
theorem honest_identity_binds_static (c : Crypto) (hc : Laws c) (p : NoisePayload) (rs : Bytes) (P : PeerId)
    (kb : Bytes) (k k' : Nat) (m' : Bytes)
    (h : checkPayload c p rs = .ok P) (hk : p.identityKey = some kb)
    (hkey : remotePublicKey c.validPoint kb = .ok (c.pubOf k)) (hs : p.identitySig = some (c.sign k' m')) :
    k' = k ∧ m' = STATIC_KEY_DOMAIN ++ rs ∧ ∀ st, m' = STATIC_KEY_DOMAIN ++ st → rs = st := by
  unfold checkPayload at h
  simp only [hk, hkey, hs] at h
  split at h
  · simp at h
  · split at h
    · rename_i hv
      obtain ⟨h1, h2⟩ := hc.sign_binds _ _ _ _ hv
      refine ⟨h1.symm, h2.symm, ?_⟩
      intro st hst
      rw [hst] at h2
      exact List.append_cancel_left h2
    · simp at h

set_option maxRecDepth 100000 in
example : checkPayload freeCrypto
    { identityKey := some (keyEncoding (freePub 3)), identitySig := some (freeSign 3 (STATIC_KEY_DOMAIN ++ freeDhPub 7)) }
    (freeDhPub 7) = .ok (idOf freeCrypto 3) := by decide

/-- **Tampering makes the receiver fail.** For every attacker that encrypts nothing itself (`Passive`: it may drop,
delay, truncate, extend, garble, duplicate, reflect and re-order what it saw, and add any plaintext or garbage —
e.g. every scripted action of the correspondence runs, `scripted_passive`), in every run:
if the dialer returns `ok`, the listener had sent message 2 in answer to exactly the dialer's message 1 and the
dialer received exactly that message 2; if the listener returns `ok`, then moreover the dialer had sent message 3 in
answer to it and the listener received exactly that message 3. Contrapositive: whichever side receives a message
that differs from the one sent returns an error and never a socket. (An attacker WITH own keys is a rogue peer: see
`tamper_no_wrong_identity`, `honest_identity_binds_static`.) -/
theorem tamper_receiver_fails (E : Env) (D L : Party) (A : Attacker) (hP : Passive A) (eof : Bool) :
    (∀ P rs, (resolve eof (run1 E D L A)).1 = .ok P rs →
      (stageL1 E L (A.a1 (hm1 E D))).msg? = some (hm2 E D L) ∧
      A.a2 (hm1 E D) (some (hm2 E D L)) = .msg (hm2 E D L)) ∧
    (∀ P rs, (resolve eof (run1 E D L A)).2 = .ok P rs →
      (stageL1 E L (A.a1 (hm1 E D))).msg? = some (hm2 E D L) ∧
      A.a2 (hm1 E D) (some (hm2 E D L)) = .msg (hm2 E D L) ∧
      (stageD2 E D (A.a2 (hm1 E D) (some (hm2 E D L)))).msg? = some (hm3 E D L) ∧
      A.a3 (hm1 E D) (some (hm2 E D L)) (some (hm3 E D L)) = .msg (hm3 E D L)) :=
  ⟨fun P rs h => agreement_run_D E D L A hP P rs (resolve_ok_inv.1 h),
   fun P rs h => agreement_run_L E D L A hP P rs (resolve_ok_inv.2 h)⟩

/- Non-vacuity: the scripted attacker is passive, and a flipped byte in message 2 / message 3 fails the receiver. -/
set_option maxRecDepth 100000 in
example : Passive (scripted true .pass (.flip 40 1) .pass) ∧
    resolve true (run1 freeEnv ⟨5, 1, 2⟩ ⟨6, 3, 4⟩ (scripted true .pass (.flip 40 1) .pass)) = (.err .snow, .err .io) :=
  ⟨scripted_passive _ _ _ _, by decide⟩

/-- **No connection after tampering with message 3 — although the dialer's `handshake()` has returned Ok.**
(1) With messages 1 and 2 delivered, the dialer's handshake result is `ok` for the listener's identity whatever
happens to message 3 — inherent to a three-message pattern. (2) But if a passive attacker delivers anything else than
the dialer's message 3, the listener's handshake fails, hence (model of `negotiate_connection`: the `/yamux`
negotiation needs the peer's answer) NEITHER side reports a connection. (3) Likewise when the proven identity differs
from the dialed one. -/
theorem tamper_no_connection (E : Env) (hc : Laws E.c) (hg : E.g.Laws) (D L : Party) (eof : Bool)
    (dialed : Option PeerId) :
    (∀ a3, (resolve eof (run1 E D L { honestNet with a3 := a3 })).1 = .ok (idOf E.c L.id) (E.g.pubB L.s)) ∧
    (∀ A, Passive A → A.a3 (hm1 E D) (some (hm2 E D L)) (some (hm3 E D L)) ≠ .msg (hm3 E D L) →
      negotiateConn dialed (resolve eof (run1 E D L A)) = (false, false)) ∧
    (∀ A d, dialed = some d → (∀ rs, (resolve eof (run1 E D L A)).1 ≠ .ok d rs) →
      negotiateConn dialed (resolve eof (run1 E D L A)) = (false, false)) := by
  refine ⟨?_, ?_, ?_⟩
  · intro a3
    have h := Litep2pVerif.Noise.XX.honest_accepts E hc hg D L
    have e : (run1 E D L { honestNet with a3 := a3 }).1 = (run1 E D L honestNet).1 := rfl
    have h1 : (run1 E D L { honestNet with a3 := a3 }).1 = .ok (idOf E.c L.id) (E.g.pubB L.s) := by rw [e, h]
    generalize run1 E D L { honestNet with a3 := a3 } = r at h1
    obtain ⟨d, l⟩ := r
    simp only at h1
    subst h1
    simp only [resolve]
    cases l <;> simp [Res.isErr]
  · intro A hP ht
    have hl : (resolve eof (run1 E D L A)).2.isOk = false := by
      cases hr : (resolve eof (run1 E D L A)).2 with
      | ok P rs => exact absurd (agreement_run_L E D L A hP P rs (resolve_ok_inv.2 hr)).2.2.2 ht
      | _ => rfl
    simp [negotiateConn, hl]
  · intro A d hd hne
    subst hd
    cases hr : (resolve eof (run1 E D L A)).1 with
    | ok P rs =>
      have : d ≠ P := by
        intro e; subst e; exact hne rs hr
      simp [negotiateConn, hr, negotiateCheck, this]
    | _ => simp [negotiateConn, hr]

set_option maxRecDepth 100000 in
example : resolve false (run1 freeEnv ⟨5, 1, 2⟩ ⟨6, 3, 4⟩ (scripted false .pass .pass (.flip 9 128))) =
      (.ok (idOf freeCrypto 6) (freeDhPub 4), .err .snow) ∧
    negotiateConn none (resolve false (run1 freeEnv ⟨5, 1, 2⟩ ⟨6, 3, 4⟩ (scripted false .pass .pass (.flip 9 128)))) =
      (false, false) ∧
    negotiateConn (some (idOf freeCrypto 6)) (resolve false (run1 freeEnv ⟨5, 1, 2⟩ ⟨6, 3, 4⟩ honestNet)) = (true, true) ∧
    negotiateConn (some (idOf freeCrypto 7)) (resolve false (run1 freeEnv ⟨5, 1, 2⟩ ⟨6, 3, 4⟩ honestNet)) = (false, false) := by
  decide

end Litep2pVerif.Props.C01

#print axioms Litep2pVerif.Props.C01.free_laws
#print axioms Litep2pVerif.Props.C01.honest_payload_accepted
#print axioms Litep2pVerif.Props.C01.accept_sound
#print axioms Litep2pVerif.Props.C01.reject_missing_key
#print axioms Litep2pVerif.Props.C01.reject_missing_sig
#print axioms Litep2pVerif.Props.C01.reject_bad_sig
#print axioms Litep2pVerif.Props.C01.reject_undecodable_key
#print axioms Litep2pVerif.Props.C01.bound_to_session
#print axioms Litep2pVerif.Props.C01.bound_to_identity
#print axioms Litep2pVerif.Props.C01.dialed_mismatch
#print axioms Litep2pVerif.Props.C01.dialed_mismatch_any_address_family
#print axioms Litep2pVerif.Props.C01.canonical_id
#print axioms Litep2pVerif.Props.C01.honest_accepts
#print axioms Litep2pVerif.Props.C01.tamper_no_wrong_identity
#print axioms Litep2pVerif.Props.C01.tamper_no_wrong_identity_two_sessions
#print axioms Litep2pVerif.Props.C01.honest_identity_binds_static
#print axioms Litep2pVerif.Props.C01.tamper_receiver_fails
#print axioms Litep2pVerif.Props.C01.tamper_no_connection
