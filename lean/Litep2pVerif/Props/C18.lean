import Litep2pVerif.Proofs.Id.PeerId
import Litep2pVerif.Model.Id.Keys
import Litep2pVerif.Generated.Consts
/-!
# C18 — Peer ids are canonical, round-trip and match the libp2p reference

Property theorems only (models: `Model/Id/*.lean`, lemmas: `Proofs/Id/*.lean`). `M` is
`MAX_INLINE_KEY_LENGTH` as regenerated from `src/peer_id.rs` on every run; `hash` (SHA-256) is a
parameter with 32-byte output. `Constructible` = the value came out of one of `PeerId`'s
constructors (the field is private). Every theorem is followed by a non-vacuity example; the file
ends with the axiom audit.
-/
namespace Litep2pVerif.Props.C18
open Litep2pVerif Litep2pVerif.Id
open Litep2pVerif.Id.Multihash (Multihash)

/-- `MAX_INLINE_KEY_LENGTH` of `src/peer_id.rs`. -/
abbrev M : Nat := Consts.MAX_INLINE_KEY_LENGTH

/-- Side conditions on the regenerated constant: equal to the reference's 42, room for `random()`'s 32
bytes, within `Multihash<64>`. -/
theorem M_eq : M = Ref.MAX_INLINE_KEY_LENGTH := by decide
theorem M_bounds : 32 ≤ M ∧ M ≤ Multihash.S := by decide

private theorem valid_of (hash : List UInt8 → List UInt8) (hlen : ∀ x, (hash x).length = 32)
    (p : PeerId) (h : PeerId.Constructible M hash p) : PeerId.Valid M p :=
  PeerId.constructible_valid M M_bounds.1 M_bounds.2 hash hlen p h

/-- **Derivation rule.** The peer id of a key encoding of at most 42 bytes is the identity multihash
(code 0x00) of the encoding itself, otherwise the SHA-256 multihash (code 0x12) of it. -/
theorem derive_rule (hash : List UInt8 → List UInt8) (hlen : ∀ x, (hash x).length = 32)
    (keyEnc : List UInt8) :
    (keyEnc.length ≤ 42 →
      PeerId.fromPublicKeyProtobuf M hash keyEnc = .ok ⟨⟨0x00, keyEnc⟩⟩) ∧
    (42 < keyEnc.length →
      PeerId.fromPublicKeyProtobuf M hash keyEnc = .ok ⟨⟨0x12, hash keyEnc⟩⟩) := by
  have hM : M = 42 := by decide
  constructor
  · intro h
    unfold PeerId.fromPublicKeyProtobuf
    rw [if_pos (by omega), PeerId.wrap_ok _ _ (by omega)]; rfl
  · intro h
    unfold PeerId.fromPublicKeyProtobuf
    rw [if_neg (by omega), PeerId.wrap_ok _ _ (by rw [hlen]; omega)]; rfl

example : PeerId.fromPublicKeyProtobuf M (fun _ => List.replicate 32 7) [8, 1, 18, 1, 9] =
    .ok ⟨⟨0x00, [8, 1, 18, 1, 9]⟩⟩ :=
  (derive_rule (fun _ => List.replicate 32 7) (fun _ => by simp) [8, 1, 18, 1, 9]).1 (by decide)
example : PeerId.fromPublicKeyProtobuf M (fun _ => List.replicate 32 7) (List.replicate 43 0) =
    .ok ⟨⟨0x12, List.replicate 32 7⟩⟩ :=
  (derive_rule (fun _ => List.replicate 32 7) (fun _ => by simp) (List.replicate 43 0)).2 (by decide)

/-- The reference (`libp2p_identity::PeerId::from_public_key` on the same encoding) derives the same
multihash, and neither `expect` fires. -/
theorem derive_eq_reference (hash : List UInt8 → List UInt8) (hlen : ∀ x, (hash x).length = 32)
    (keyEnc : List UInt8) :
    ∃ mh, PeerId.fromPublicKeyProtobuf M hash keyEnc = .ok ⟨mh⟩ ∧
      Ref.fromKeyEncoding hash keyEnc = .ok ⟨mh⟩ := by
  have hM : M = 42 := by decide
  by_cases h : keyEnc.length ≤ 42
  · refine ⟨⟨0x00, keyEnc⟩, (derive_rule hash hlen keyEnc).1 h, ?_⟩
    unfold Ref.fromKeyEncoding Ref.MAX_INLINE_KEY_LENGTH
    rw [if_pos h, PeerId.wrap_ok _ _ (by omega)]; rfl
  · refine ⟨⟨0x12, hash keyEnc⟩, (derive_rule hash hlen keyEnc).2 (by omega), ?_⟩
    unfold Ref.fromKeyEncoding Ref.MAX_INLINE_KEY_LENGTH
    rw [if_neg h, PeerId.wrap_ok _ _ (by rw [hlen]; omega)]; rfl

example : ∃ mh, PeerId.fromPublicKeyProtobuf M (fun _ => List.replicate 32 7) (List.replicate 42 1) = .ok ⟨mh⟩ ∧
    Ref.fromKeyEncoding (fun _ => List.replicate 32 7) (List.replicate 42 1) = .ok ⟨mh⟩ :=
  derive_eq_reference _ (fun _ => by simp) _

/-- **ed25519.** The id of an ed25519 public key (32 bytes) is `00 24 08 01 12 20 ‖ key`. -/
theorem ed25519_id_form (hash : List UInt8 → List UInt8) (key : List UInt8) (hk : key.length = 32) :
    (PeerId.fromPublicKeyProtobuf M hash (ed25519Protobuf key)).map PeerId.toBytes =
      .ok ([0x00, 0x24, 0x08, 0x01, 0x12, 0x20] ++ key) := by
  have hM : M = 42 := by decide
  have hl : (ed25519Protobuf key).length = 36 := by simp [ed25519Protobuf, hk]
  unfold PeerId.fromPublicKeyProtobuf
  rw [if_pos (by omega), PeerId.wrap_ok _ _ (by omega)]
  simp only [Except.map, PeerId.toBytes, Multihash.toBytes, hl]
  simp [ed25519Protobuf, hk, IDENTITY_CODE, Varint.encodeU64, Varint.encodeU8, Varint.encodeLoop]

example : (PeerId.fromPublicKeyProtobuf M (fun _ => []) (ed25519Protobuf (List.replicate 32 0xAB))).map
    PeerId.toBytes = .ok ([0x00, 0x24, 0x08, 0x01, 0x12, 0x20] ++ List.replicate 32 0xAB) :=
  ed25519_id_form _ _ (by simp)

/-- **print ∘ parse.** Every constructible peer id is read back from its bytes. -/
theorem print_parse (hash : List UInt8 → List UInt8) (hlen : ∀ x, (hash x).length = 32)
    (p : PeerId) (hp : PeerId.Constructible M hash p) :
    PeerId.fromBytes M p.toBytes = .ok p :=
  PeerId.fromBytes_toBytes M p (valid_of hash hlen p hp)

example : ∃ p, PeerId.Constructible M (fun _ => List.replicate 32 7) p ∧ p.multihash.code = 0x12 :=
  ⟨⟨⟨0x12, List.replicate 32 7⟩⟩,
    .ofKey (List.replicate 50 3) _
      ((derive_rule _ (fun _ => by simp) (List.replicate 50 3)).2 (by decide)), rfl⟩

/-- **parse ∘ print, partial.** Full statement (false of the code, see `parse_print_witness`):
`fromBytes M bs = .ok p → p.toBytes = bs`. It holds whenever neither header varint (code, size) is
10 bytes long: shorter varints are accepted only in minimal form (`NotMinimal`), so the accepted
byte string is the canonical one. -/
theorem parse_print_partial (bs : List UInt8) (p : PeerId) (h : PeerId.fromBytes M bs = .ok p)
    (hcode : Varint.headLen bs ≤ 9) (hsize : Varint.headLen (bs.drop (Varint.headLen bs)) ≤ 9) :
    p.toBytes = bs :=
  Multihash.toBytes_fromBytes bs p.multihash (PeerId.fromBytes_ok M bs p h).1 hcode hsize

example : PeerId.fromBytes M ([0x12, 0x02, 0xAA, 0xBB]) = .ok ⟨⟨0x12, [0xAA, 0xBB]⟩⟩ ∧
    Varint.headLen [0x12, 0x02, 0xAA, 0xBB] ≤ 9 := by decide

/-- **Witness of non-canonicity** (known finding `c18-varint-trunc`): the 10-byte varint
`92 80 80 80 80 80 80 80 80 02` is accepted as code 0x12 — `decode!` computes `2 << 63` in a `u64`,
which drops the bit — so two different byte strings parse to the same peer id. -/
theorem parse_print_witness :
    ∃ bs p, PeerId.fromBytes M bs = .ok p ∧ p.toBytes ≠ bs ∧ PeerId.fromBytes M p.toBytes = .ok p :=
  ⟨[0x92, 0x80, 0x80, 0x80, 0x80, 0x80, 0x80, 0x80, 0x80, 0x02, 0x01, 0x07], ⟨⟨0x12, [0x07]⟩⟩,
    by decide, by decide, by decide⟩

/-- **Base58.** `bs58` decoding inverts encoding on all byte strings, and encoding inverts decoding
on every string the decoder accepts (leading zero bytes ↔ leading '1's). -/
theorem base58_roundtrip :
    (∀ bs : List UInt8, Base58.decode (Base58.encode bs) = .ok bs) ∧
    (∀ s bs : List UInt8, Base58.decode s = .ok bs → Base58.encode bs = s) :=
  ⟨Base58.decode_encode, Base58.encode_decode⟩

example : Base58.decode (Base58.encode [0, 0, 1, 2, 255]) = .ok [0, 0, 1, 2, 255] ∧
    Base58.encode [0, 0, 1, 2, 255] = [49, 49, 76, 105, 65] := by decide

/-- **Text form.** `to_base58` then `from_str` gives the peer id back. -/
theorem text_roundtrip (hash : List UInt8 → List UInt8) (hlen : ∀ x, (hash x).length = 32)
    (p : PeerId) (hp : PeerId.Constructible M hash p) :
    PeerId.fromStr M p.toBase58 = .ok p := by
  unfold PeerId.fromStr PeerId.toBase58
  rw [Base58.decode_encode]
  exact print_parse hash hlen p hp

example : PeerId.fromStr M (PeerId.toBase58 ⟨⟨0x00, [1, 2, 3]⟩⟩) = .ok ⟨⟨0x00, [1, 2, 3]⟩⟩ := by decide

/-- **Serialized forms** (human readable = base58 text, binary = bytes) round-trip. -/
theorem serde_roundtrip (hash : List UInt8 → List UInt8) (hlen : ∀ x, (hash x).length = 32)
    (p : PeerId) (hp : PeerId.Constructible M hash p) (humanReadable : Bool) :
    PeerId.deserialize M humanReadable (p.serialize humanReadable) = .ok p := by
  unfold PeerId.deserialize PeerId.serialize
  cases humanReadable
  · simpa using print_parse hash hlen p hp
  · simpa using text_roundtrip hash hlen p hp

example : PeerId.deserialize M false (PeerId.serialize false ⟨⟨0x12, [9, 9]⟩⟩) = .ok ⟨⟨0x12, [9, 9]⟩⟩ := by
  decide

/-- **Acceptance = reference.** litep2p and `libp2p_identity` (= `multiaddr::PeerId`) accept exactly
the same multihashes, byte strings and base58 strings, with the same resulting multihash. -/
theorem accepts_eq_reference :
    (∀ mh : Multihash, PeerId.fromMultihash M mh = .ok ⟨mh⟩ ↔ Ref.fromMultihash mh = .ok ⟨mh⟩) ∧
    (∀ (bs : List UInt8) (mh : Multihash),
      PeerId.fromBytes M bs = .ok ⟨mh⟩ ↔ Ref.fromBytes bs = .ok ⟨mh⟩) ∧
    (∀ (s : List UInt8) (mh : Multihash),
      PeerId.fromStr M s = .ok ⟨mh⟩ ↔ Ref.fromStr s = .ok ⟨mh⟩) := by
  have hM : M = 42 := by decide
  have key : ∀ mh mh' : Multihash,
      PeerId.fromMultihash M mh = .ok ⟨mh'⟩ ↔ Ref.fromMultihash mh = .ok ⟨mh'⟩ := by
    intro mh mh'
    unfold PeerId.fromMultihash Ref.fromMultihash SHA2_256_CODE IDENTITY_CODE
      Ref.MULTIHASH_SHA256_CODE Ref.MULTIHASH_IDENTITY_CODE Ref.MAX_INLINE_KEY_LENGTH
    rw [hM]
    split
    · simp
    · split <;> simp
  have bytes : ∀ (bs : List UInt8) (mh : Multihash),
      PeerId.fromBytes M bs = .ok ⟨mh⟩ ↔ Ref.fromBytes bs = .ok ⟨mh⟩ := by
    intro bs mh
    unfold PeerId.fromBytes Ref.fromBytes
    cases hmh : Multihash.fromBytes bs with
    | error e => simp
    | ok m =>
      simp only
      have hk := key m mh
      cases h1 : PeerId.fromMultihash M m with
      | error e1 =>
        cases h2 : Ref.fromMultihash m with
        | error e2 => simp
        | ok r => rw [h1, h2] at hk; simpa using hk
      | ok q =>
        cases h2 : Ref.fromMultihash m with
        | error e2 => rw [h1, h2] at hk; simpa using hk
        | ok r =>
          rw [h1, h2] at hk
          simp only [Except.ok.injEq] at hk ⊢
          exact hk
  refine ⟨fun mh => key mh mh, bytes, ?_⟩
  intro s mh
  unfold PeerId.fromStr Ref.fromStr
  cases Base58.decode s with
  | error e => simp
  | ok bs => exact bytes bs mh

example : PeerId.fromBytes M [0x12, 0x01, 0x05] = .ok ⟨⟨0x12, [5]⟩⟩ ∧
    Ref.fromBytes [0x12, 0x01, 0x05] = .ok ⟨⟨0x12, [5]⟩⟩ ∧
    PeerId.fromBytes M [0x16, 0x01, 0x05] = .error .multiHash ∧
    Ref.fromBytes [0x16, 0x01, 0x05] = .error (.unsupportedCode 0x16) := by decide

/-- **`From<PeerId> for multiaddr::PeerId` cannot panic.** Every constructible peer id satisfies
the `multiaddr::PeerId` rule, so `.expect("litep2p PeerId is always a valid multiaddr PeerId")`
never fires, and the conversion keeps the multihash. -/
theorem into_multiaddr_total (hash : List UInt8 → List UInt8) (hlen : ∀ x, (hash x).length = 32)
    (p : PeerId) (hp : PeerId.Constructible M hash p) :
    p.intoMultiaddrPeerId = .ok ⟨p.multihash⟩ := by
  have hv := (valid_of hash hlen p hp).2
  have h := (accepts_eq_reference.1 p.multihash).1 (PeerId.fromMultihash_of M p.multihash hv)
  unfold PeerId.intoMultiaddrPeerId PeerId.toMultiaddrPeerId
  rw [h]

example : PeerId.intoMultiaddrPeerId ⟨⟨0x00, List.replicate 42 1⟩⟩ = .ok ⟨⟨0x00, List.replicate 42 1⟩⟩ ∧
    -- a value that is NOT constructible would make the `expect` fire:
    (∃ msg, PeerId.intoMultiaddrPeerId ⟨⟨0x00, List.replicate 43 1⟩⟩ = .error (.expect msg)) :=
  ⟨by decide, ⟨_, rfl⟩⟩

/-- **Multiaddr round trip.** Appending `/p2p/<id>` to any address and extracting the peer id again
yields the same peer id. -/
theorem multiaddr_roundtrip (hash : List UInt8 → List UInt8) (hlen : ∀ x, (hash x).length = 32)
    (p : PeerId) (hp : PeerId.Constructible M hash p) (addr : Multiaddr) :
    ∃ r, p.intoMultiaddrPeerId = .ok r ∧
      PeerId.tryFromMultiaddr M (addr ++ [.p2p r]) = some p := by
  refine ⟨⟨p.multihash⟩, into_multiaddr_total hash hlen p hp, ?_⟩
  unfold PeerId.tryFromMultiaddr
  simp only [List.getLast?_append, List.getLast?_singleton, Option.some_or]
  rw [PeerId.fromMultihash_of M p.multihash (valid_of hash hlen p hp).2]

example : PeerId.tryFromMultiaddr M [.other 4, .other 6, .p2p ⟨⟨0x12, [1]⟩⟩] = some ⟨⟨0x12, [1]⟩⟩ ∧
    PeerId.tryFromMultiaddr M [.other 4, .other 6] = none := by decide

/-- **Total, panic-free parsing.** The decoders are total functions into `ok`/`err`; the only
panicking operations on the way are unreachable: the varint shift never overflows (`shiftPanic`
is never returned, so `PeerId::from_bytes`, which maps every multihash error to
`ParseError::MultiHash`, hides no panic), and the `expect`s of `from_public_key_protobuf` and
`random` never fire. -/
theorem parse_total :
    (∀ bs : List UInt8, Multihash.fromBytes bs ≠ .error (.varint .shiftPanic)) ∧
    (∀ bs : List UInt8, Varint.readU64 bs ≠ .error .shiftPanic) ∧
    (∀ (hash : List UInt8 → List UInt8), (∀ x, (hash x).length = 32) →
      ∀ k, ∃ p, PeerId.fromPublicKeyProtobuf M hash k = .ok p) ∧
    (∀ r : List UInt8, r.length = 32 → ∃ p, PeerId.random r = .ok p) := by
  refine ⟨Multihash.fromBytes_no_panic, Varint.readU64_no_panic, ?_, ?_⟩
  · intro hash hlen k
    obtain ⟨mh, h, _⟩ := derive_eq_reference hash hlen k
    exact ⟨_, h⟩
  · intro r hr
    unfold PeerId.random
    rw [PeerId.wrap_ok _ _ (by omega)]
    exact ⟨_, rfl⟩

example : Multihash.fromBytes [0xff, 0xff, 0xff, 0xff, 0xff, 0xff, 0xff, 0xff, 0xff, 0xff, 0xff] =
    .error (.varint .overflow) ∧
    Multihash.fromBytes [0x80, 0x00] = .error (.varint .notMinimal) ∧
    Multihash.fromBytes [0x12] = .error (.varint .insufficient) := by decide

/-! ## Ed25519 key material (src/crypto/ed25519.rs) -/

section Keys
open Litep2pVerif.Id.Keys

/-- **Keypair bytes round-trip and the input is wiped.** The 64 bytes `Keypair::to_bytes` produces for
a well-formed keypair parse back to the same keypair, and the caller's buffer is all zeros
afterwards. -/
theorem key_bytes_roundtrip (c : Curve) (k : Keypair) (hk : k.Wf c) :
    keypairFromBytes c k.toBytes = (some k, zeros 64) := by
  obtain ⟨hs, hp, hd, hv⟩ := hk
  have hlen : k.toBytes.length = 64 := by simp [Keypair.toBytes, hs, hp]
  have htake : k.toBytes.take 32 = k.secret := by simp [Keypair.toBytes, ← hs]
  have hdrop : k.toBytes.drop 32 = k.pub := by simp [Keypair.toBytes, ← hs]
  unfold keypairFromBytes
  rw [if_pos hlen, htake, hdrop, hv, ← hd]
  simp [hlen]

example :
    let c : Curve := ⟨fun s => s.map (· + 1), fun _ => true, fun _ _ _ => true⟩
    let k : Keypair := ⟨List.replicate 32 7, List.replicate 32 8⟩
    keypairFromBytes c k.toBytes = (some k, zeros 64) ∧ k.toBytes.length = 64 := by decide

/-- **A keypair is accepted only if it is 64 bytes whose public half is the valid key derived from
the secret half; a refused buffer is left untouched.** -/
theorem keypair_parse_sound (c : Curve) (buf : Bytes) :
    (∀ k buf', keypairFromBytes c buf = (some k, buf') →
      buf.length = 64 ∧ k.toBytes = buf ∧ k.pub = c.derive k.secret ∧ c.validPoint k.pub = true ∧
      k.secret.length = 32 ∧ buf' = zeros 64) ∧
    (∀ buf', keypairFromBytes c buf = (none, buf') → buf' = buf) := by
  unfold keypairFromBytes
  constructor
  · intro k buf' h
    split at h
    · rename_i hlen
      split at h
      · rename_i hc
        simp only [Bool.and_eq_true, beq_iff_eq] at hc
        cases h
        refine ⟨hlen, by simp [Keypair.toBytes], hc.2.symm, hc.1, by simp [hlen], by rw [hlen]⟩
      · cases h
    · cases h
  · intro buf' h
    split at h
    · split at h
      · cases h
      · cases h; rfl
    · cases h; rfl

example :
    let c : Curve := ⟨fun s => s.map (· + 1), fun _ => true, fun _ _ _ => true⟩
    keypairFromBytes c (List.replicate 32 7 ++ List.replicate 32 9) = (none, List.replicate 32 7 ++ List.replicate 32 9) ∧
    keypairFromBytes c (List.replicate 63 7) = (none, List.replicate 63 7) ∧
    keypairFromBytes c (List.replicate 65 7) = (none, List.replicate 65 7) := by decide

/-- **Secret and public keys obey their length rules.** A secret key is accepted iff it has 32 bytes
(the buffer is wiped on success and untouched otherwise); a public key is accepted iff it has 32
bytes and is a curve point, and is returned unchanged. -/
theorem key_length_rules (c : Curve) (buf : Bytes) :
    (secretFromBytes buf = (some buf, zeros 32) ↔ buf.length = 32) ∧
    (buf.length ≠ 32 → secretFromBytes buf = (none, buf)) ∧
    (∀ k, publicFromBytes c buf = some k ↔ (k = buf ∧ buf.length = 32 ∧ c.validPoint buf = true)) := by
  refine ⟨?_, ?_, ?_⟩
  · unfold secretFromBytes
    constructor
    · intro h; split at h
      · assumption
      · cases h
    · intro h; rw [if_pos h, h]
  · intro h; unfold secretFromBytes; rw [if_neg h]
  · intro k
    unfold publicFromBytes
    constructor
    · intro h
      split at h
      · rename_i hc
        simp only [Bool.and_eq_true, decide_eq_true_eq] at hc
        cases h; exact ⟨rfl, hc.1, hc.2⟩
      · cases h
    · rintro ⟨rfl, hl, hv⟩
      simp [hl, hv]

example :
    let c : Curve := ⟨id, fun k => k.head? != some 0xff, fun _ _ _ => true⟩
    secretFromBytes (List.replicate 32 1) = (some (List.replicate 32 1), zeros 32) ∧
    secretFromBytes (List.replicate 31 1) = (none, List.replicate 31 1) ∧
    publicFromBytes c (List.replicate 32 1) = some (List.replicate 32 1) ∧
    publicFromBytes c (List.replicate 32 0xff) = none ∧ publicFromBytes c (List.replicate 33 1) = none := by decide

/-- **Signature verification is total and never accepts a malformed signature**: `verify` returns
`true` only for a 64-byte signature the curve check accepts; every other input (any length, any
bytes) yields `false` — there is no panic value. -/
theorem verify_total (c : Curve) (key msg sig : Bytes) :
    (verify c key msg sig = true ↔ sig.length = 64 ∧ c.sigValid key msg sig = true) ∧
    (sig.length ≠ 64 → verify c key msg sig = false) := by
  unfold verify
  constructor
  · simp
  · intro h; simp [h]

example :
    let c : Curve := ⟨id, fun _ => true, fun _ _ s => s.head? == some 1⟩
    verify c [] [1, 2] (List.replicate 64 1) = true ∧ verify c [] [1, 2] (List.replicate 64 2) = false ∧
    verify c [] [1, 2] (List.replicate 63 1) = false ∧ verify c [] [1, 2] [] = false ∧
    verify c [] [1, 2] (List.replicate 65 1) = false := by decide

end Keys

#print axioms derive_rule
#print axioms derive_eq_reference
#print axioms ed25519_id_form
#print axioms print_parse
#print axioms parse_print_partial
#print axioms parse_print_witness
#print axioms base58_roundtrip
#print axioms text_roundtrip
#print axioms serde_roundtrip
#print axioms accepts_eq_reference
#print axioms into_multiaddr_total
#print axioms multiaddr_roundtrip
#print axioms parse_total
#print axioms key_bytes_roundtrip
#print axioms keypair_parse_sound
#print axioms key_length_rules
#print axioms verify_total

end Litep2pVerif.Props.C18
