import Litep2pVerif.Proofs.Manager.Caps
import Litep2pVerif.Proofs.Node.Wiring
/-!
# C06 — Connection caps: at most two per peer, configured limits never exceeded

Property theorems only. Model: `Model/Manager/{PeerState,Limits,Dial}.lean` (an operational copy of
`src/transport/manager/{peer_state,limits,mod}.rs`); lemmas and the invariant:
`Proofs/Manager/{Basic,Caps}.lean`. All four theorems hold for EVERY input history — no assumption
on the transport or on the order of events (`ReachAny`, `runG` take arbitrary inputs) — and for
every limit configuration, including `none` and `0`.

`g.live` is the ghost set of connections the manager accepted (an `accept` call was made on the
transport) and that have not been reported closed or rolled back since.
-/
namespace Litep2pVerif.Props.C06
open Litep2pVerif Litep2pVerif.Manager

/-- **Limits are never exceeded.** After every history of API calls, transport events, accept
results and closures, from every configuration: the numbers of counted inbound and outbound
connections are within the configured maxima. -/
theorem limits_inv (cfg : LimitsCfg) (is : List In) :
    let g := runG (G.init cfg) is
    (∀ m, cfg.maxIn = some m → g.m.limits.incoming.length ≤ m) ∧
    (∀ m, cfg.maxOut = some m → g.m.limits.outgoing.length ≤ m) := by
  intro g
  have h : Inv06 g := inv06_reach (reachAny_runG is (ReachAny.init cfg))
  have hc : g.m.limits.cfg = cfg := cfg_runG is (G.init cfg)
  exact ⟨fun m hm => h.inLe m (hc ▸ hm), fun m hm => h.outLe m (hc ▸ hm)⟩

/-- Non-vacuity: limits (1, 1); a second inbound and a second outbound connection are turned away
at the limit, the counters stand at exactly 1 and 1. -/
example :
    let g := runG (G.init ⟨some 1, some 1⟩)
      [.alloc, .alloc, .evEstablished 1 ⟨true, [.ip4 1, .tcp 1], 0⟩ true,
       .evEstablished 2 ⟨true, [.ip4 2, .tcp 2], 1⟩ true,
       .dialAddress [.ip4 3, .tcp 3, .p2p 3], .dialAddress [.ip4 4, .tcp 4, .p2p 4],
       .evEstablished 3 ⟨false, [.ip4 3, .tcp 3, .p2p 3], 2⟩ true,
       .evEstablished 4 ⟨false, [.ip4 4, .tcp 4, .p2p 4], 3⟩ true]
    g.m.limits.incoming = [0] ∧ g.m.limits.outgoing = [2] ∧ stateOf g.m 2 = .disconnected none ∧
      stateOf g.m 4 = .disconnected none := by
  decide

/-- **A connection is counted iff it is open.** In every reachable state an id is in the inbound
(outbound) counter iff inbound (outbound) connections are limited and the connection was accepted
and has not been closed or rolled back since; no id is counted twice. -/
theorem counted_iff_open (cfg : LimitsCfg) (is : List In) :
    let g := runG (G.init cfg) is
    (∀ c, c ∈ g.m.limits.incoming ↔
      (cfg.maxIn.isSome = true ∧ ∃ l ∈ g.live, l.conn = c ∧ l.isListener = true)) ∧
    (∀ c, c ∈ g.m.limits.outgoing ↔
      (cfg.maxOut.isSome = true ∧ ∃ l ∈ g.live, l.conn = c ∧ l.isListener = false)) ∧
    g.m.limits.incoming.Nodup ∧ g.m.limits.outgoing.Nodup := by
  intro g
  have h : Inv06 g := inv06_reach (reachAny_runG is (ReachAny.init cfg))
  have hc : g.m.limits.cfg = cfg := cfg_runG is (G.init cfg)
  exact ⟨fun c => hc ▸ h.inIff c, fun c => hc ▸ h.outIff c, h.inNodup, h.outNodup⟩

/-- **Released exactly once.** Closing a connection lowers the counter of its direction by one if
it was counted and by nothing otherwise (so a second close report releases nothing). -/
theorem released_once {g : G} (h : ReachAny g) (p : Peer) (c : ConnId) :
    let g' := (gstep g (.evClosed p c)).1
    g'.m.limits.incoming.length + (if c ∈ g.m.limits.incoming then 1 else 0) = g.m.limits.incoming.length ∧
    g'.m.limits.outgoing.length + (if c ∈ g.m.limits.outgoing then 1 else 0) = g.m.limits.outgoing.length ∧
    c ∉ g'.m.limits.incoming ∧ c ∉ g'.m.limits.outgoing := by
  intro g'
  have hi := inv06_reach h
  have hl : g'.m.limits = g.m.limits.onConnectionClosed c := by
    show (ghost g _ _ _).m.limits = _; rw [ghost_m]; rfl
  rw [hl]
  refine ⟨length_setRemove _ _ hi.inNodup, length_setRemove _ _ hi.outNodup, ?_, ?_⟩ <;>
    simp [Limits.onConnectionClosed, mem_setRemove]

/-- Non-vacuity: an accepted inbound connection is counted, a rolled-back one (failing `accept`)
and a closed one are not; the accept-failure path releases what it took. -/
example :
    let g := runG (G.init ⟨some 3, none⟩)
      [.alloc, .alloc, .alloc, .evEstablished 1 ⟨true, [], 0⟩ true, .evEstablished 2 ⟨true, [], 1⟩ false,
       .evEstablished 3 ⟨true, [], 2⟩ true, .acceptResult 0 true, .evClosed 1 0]
    g.m.limits.incoming = [2] ∧ g.live = [⟨3, 2, true⟩] := by
  decide

/-- **At most two connections per peer.** In every reachable state the open connections of a peer
carry at most two distinct ids — the two slots of its `Connected` state. -/
theorem two_per_peer {g : G} (h : ReachAny g) (p : Peer) :
    ∃ slots : List ConnId, slots.length ≤ 2 ∧ ∀ l ∈ g.live, l.peer = p → l.conn ∈ slots :=
  ⟨(stateOf g.m p).slots, PeerState.slots_length_le _,
    fun l hl hp => hp ▸ (inv06_reach h).liveSlots l hl⟩

/-- **A surplus connection is rejected without disturbing anything.** With both slots of `p`
taken, a further established connection (either direction) is answered with `reject` only, and the
state of every peer, the limit counters, the pending accepts and the live set stay as they were. -/
theorem two_per_peer_reject (g : G) (p : Peer) (ep : Endpoint) (ok : Bool) (r x : ConnRecord)
    (hfull : stateOf g.m p = .connected r (some (.secondary x)))
    (hcan : g.m.limits.canAccept ep.isListener = true)
    (hpend : alookup ep.conn g.m.pending = none) :
    let g' := (gstep g (.evEstablished p ep ok)).1
    (gstep g (.evEstablished p ep ok)).2.calls = [.reject ep.conn] ∧
    (gstep g (.evEstablished p ep ok)).2.events = [] ∧
    (∀ q, stateOf g'.m q = stateOf g.m q) ∧ g'.m.limits = g.m.limits ∧
    g'.m.pendingAccept = g.m.pendingAccept ∧ g'.live = g.live := by
  have hout : onEstablished g.m p ep ok = (estPre g.m p ep, { calls := [.reject ep.conn] }) := by
    unfold onEstablished
    simp [hpend, hcan, estPre_state, hfull, PeerState.onConnectionEstablished]
  have hgs : (gstep g (.evEstablished p ep ok)).1 =
      ghost g (.evEstablished p ep ok) (estPre g.m p ep) { calls := [.reject ep.conn] } := by
    show ghost g (.evEstablished p ep ok) (onEstablished g.m p ep ok).1 (onEstablished g.m p ep ok).2 = _
    rw [hout]
  intro g'
  have hg' : g' = ghost g (.evEstablished p ep ok) (estPre g.m p ep) { calls := [.reject ep.conn] } := hgs
  refine ⟨by show (onEstablished g.m p ep ok).2.calls = _; rw [hout],
    by show (onEstablished g.m p ep ok).2.events = _; rw [hout], ?_, ?_, ?_, ?_⟩
  · intro q; rw [hg', ghost_m, estPre_state]
  · rw [hg', ghost_m, estPre_limits]
  · rw [hg', ghost_m, estPre_pa]
  · rw [hg', ghost_live_est]; simp

/-- Non-vacuity: a third connection from a peer with two open ones is rejected; the two stay. -/
example :
    let g := runG (G.init ⟨none, none⟩)
      [.alloc, .alloc, .alloc, .evEstablished 1 ⟨true, [], 0⟩ true, .evEstablished 1 ⟨true, [], 1⟩ true]
    stateOf g.m 1 = .connected ⟨[.p2p 1], 0⟩ (some (.secondary ⟨[.p2p 1], 1⟩)) ∧
    (gstep g (.evEstablished 1 ⟨true, [], 2⟩ true)).2.calls = [.reject 2] ∧
    (gstep g (.evEstablished 1 ⟨true, [], 2⟩ true)).1.live = [⟨1, 1, true⟩, ⟨1, 0, true⟩] := by
  decide

/-- **Below the limit means accepted.** If the node keeps no connection with `p`, is below its
inbound limit (or has none) and the connection id is not one of its own pending dials, an inbound
established connection from `p` is accepted: `accept` is called on the transport, `p` becomes
`Connected` through it, and nothing panics. Together with `counted_iff_open` / `released_once`:
capacity freed by a close is available to the next peer. -/
theorem below_limit_accepts (s : Mgr) (p : Peer) (a : Multiaddr) (c : ConnId) (ok : Bool)
    (hfree : (stateOf s p).slots = [])
    (hbelow : ∀ m, s.limits.cfg.maxIn = some m → s.limits.incoming.length < m)
    (hfresh : alookup c s.pending = none) :
    let r := onEstablished s p ⟨true, a, c⟩ ok
    Call.accept c ∈ r.2.calls ∧ r.2.panic = false ∧
    (ok = true → c ∈ (stateOf r.1 p).slots ∧ (p, (⟨true, a, c⟩ : Endpoint)) ∈ r.1.pendingAccept) := by
  intro r
  have hcan : s.limits.canAccept true = true := by
    unfold Limits.canAccept
    simp only [if_true]
    split
    · rename_i m hm; have := hbelow m hm; simp; omega
    · rfl
  have hest := PeerState.est_of_no_slots (stateOf s p) (ConnRecord.new p a c) hfree
  cases est_shape s p ⟨true, a, c⟩ ok with
  | refused hcalls _ _ _ =>
    exfalso; apply hcalls
    unfold onEstablished
    simp [hfresh, hcan, hest]
    split <;> simp
  | accepted hok hcalls _ _ _ hpa hst =>
    refine ⟨hcalls, ?_, fun _ => ⟨?_, ?_⟩⟩
    · show (onEstablished s p ⟨true, a, c⟩ ok).2.panic = false
      unfold onEstablished; simp [hfresh, hcan, hest]; split <;> rfl
    · show c ∈ (stateOf (onEstablished s p ⟨true, a, c⟩ ok).1 p).slots
      rw [hst p]; simp only [if_true]
      exact PeerState.est_accept_mem _ (ConnRecord.new p a c) hest
    · show _ ∈ (onEstablished s p ⟨true, a, c⟩ ok).1.pendingAccept
      rw [hpa]; simp
  | rolledBack hok hcalls _ _ _ _ _ =>
    refine ⟨hcalls, ?_, fun h => by simp [hok] at h⟩
    show (onEstablished s p ⟨true, a, c⟩ ok).2.panic = false
    unfold onEstablished; simp [hfresh, hcan, hest]; split <;> rfl

/-- Non-vacuity: inbound limit 1 reached, the connection closes, the next peer is accepted. -/
example :
    let g := runG (G.init ⟨some 1, none⟩)
      [.alloc, .alloc, .alloc, .evEstablished 1 ⟨true, [], 0⟩ true, .acceptResult 0 true,
       .evEstablished 2 ⟨true, [], 1⟩ true, .evClosed 1 0]
    stateOf g.m 2 = .disconnected none ∧ g.m.limits.incoming = [] ∧
    (onEstablished g.m 2 ⟨true, [], 2⟩ true).2.calls = [.accept 2] := by
  decide

#print axioms limits_inv
#print axioms counted_iff_open
#print axioms released_once
#print axioms two_per_peer
#print axioms two_per_peer_reject
#print axioms below_limit_accepts

end Litep2pVerif.Props.C06

/-! ## Wiring — what `Litep2p::new` hands over (coverage round `node`)

Over the wiring model `Model/Node/Wiring.lean` (`Node.new c` = `Litep2p::new(ConfigBuilder…build())`), which is tied to
the real `ConfigBuilder`/`Litep2p::new` by the `node` area: the adapter prints the ACTUAL registration record of a node built
through the public API, the driver prints the model's, compared field by field on every run. -/
namespace Litep2pVerif.Props.C06.Wiring
open Litep2pVerif Litep2pVerif.Node

/-- A configuration with every kind of protocol (used by the non-vacuity examples). -/
def sample : Config :=
  { keepAliveMs := some 600, limits := some (some 2, none), listen := [1, 2],
    notif := [⟨"/n/a", 1024, "0102", ["/n/old"], 'a', some 64, some 64, none⟩],
    rr := [⟨"/r/a", 256, 800, ["/r/old"], none⟩, ⟨"/r/b", 64, 800, [], some 1⟩],
    user := [⟨"/u/a", .varint none⟩], kad := [⟨[], none, []⟩], ping := some 1, identify := true, bitswap := true,
    known := some [(0, [.listen 0, .closed, .quic, .wrongPeer 0, .noPeer 0])] }

/-- The connection limits the manager enforces are exactly the configured ones (none if the user set none). -/
theorem configured_limits_installed (c : Config) (w : Wired) (h : Node.new c = .ok w) :
    w.limits = c.limits.getD (none, none) := by
  obtain ⟨_, _, rfl⟩ := wire_ok h
  rfl

example : ∃ w, Node.new sample = .ok w ∧ w.limits = (some 2, none) := ⟨_, rfl, rfl⟩
example : ∃ w, Node.new { sample with limits := none } = .ok w ∧ w.limits = (none, none) := ⟨_, rfl, rfl⟩

end Litep2pVerif.Props.C06.Wiring

#print axioms Litep2pVerif.Props.C06.Wiring.configured_limits_installed
