import Litep2pVerif.Proofs.Manager.Caps
import Litep2pVerif.Proofs.Manager.Ids
import Litep2pVerif.Proofs.Conn.Permits
import Litep2pVerif.Proofs.Node.Wiring
/-!
# C06 — Connection caps: at most two per peer, configured limits never exceeded

Property theorems only. Model: `Model/Manager/{PeerState,Limits,Dial}.lean` (an operational copy of
`src/transport/manager/{peer_state,limits,mod}.rs`); lemmas and the invariant:
`Proofs/Manager/{Basic,Caps}.lean`. All four theorems hold for EVERY input history — no assumption
on the transport or on the order of events (`ReachAny`, `runG` take arbitrary inputs) — and for
every limit configuration, including `none` and `0`.

`g.live` is the ghost set of connections the manager accepted (an `accept` call was made on the
transport) and that have not been reported closed or rolled back since.
-/
namespace Litep2pVerif.Props.C06
open Litep2pVerif Litep2pVerif.Manager

/-- **Limits are never exceeded.** After every history of API calls, transport events, accept
results and closures, from every configuration: the numbers of counted inbound and outbound
connections are within the configured maxima. -/
theorem limits_inv (cfg : LimitsCfg) (is : List In) :
    let g := runG (G.init cfg) is
    (∀ m, cfg.maxIn = some m → g.m.limits.incoming.length ≤ m) ∧
    (∀ m, cfg.maxOut = some m → g.m.limits.outgoing.length ≤ m) := by
  intro g
  have h : Inv06 g := inv06_reach (reachAny_runG is (ReachAny.init cfg))
  have hc : g.m.limits.cfg = cfg := cfg_runG is (G.init cfg)
  exact ⟨fun m hm => h.inLe m (hc ▸ hm), fun m hm => h.outLe m (hc ▸ hm)⟩

/-- Non-vacuity: limits (1, 1); a second inbound and a second outbound connection are turned away
at the limit, the counters stand at exactly 1 and 1. -/
example :
    let g := runG (G.init ⟨some 1, some 1⟩)
      [.alloc, .alloc, .evEstablished 1 ⟨true, [.ip4 1, .tcp 1], 0⟩ true,
       .evEstablished 2 ⟨true, [.ip4 2, .tcp 2], 1⟩ true,
       .dialAddress [.ip4 3, .tcp 3, .p2p 3], .dialAddress [.ip4 4, .tcp 4, .p2p 4],
       .evEstablished 3 ⟨false, [.ip4 3, .tcp 3, .p2p 3], 2⟩ true,
       .evEstablished 4 ⟨false, [.ip4 4, .tcp 4, .p2p 4], 3⟩ true]
    g.m.limits.incoming = [0] ∧ g.m.limits.outgoing = [2] ∧ stateOf g.m 2 = .disconnected none ∧
      stateOf g.m 4 = .disconnected none := by
  decide

/-- **A connection is counted iff it is open.** In every reachable state an id is in the inbound
(outbound) counter iff inbound (outbound) connections are limited and the connection was accepted
and has not been closed or rolled back since; no id is counted twice. -/
theorem counted_iff_open (cfg : LimitsCfg) (is : List In) :
    let g := runG (G.init cfg) is
    (∀ c, c ∈ g.m.limits.incoming ↔
      (cfg.maxIn.isSome = true ∧ ∃ l ∈ g.live, l.conn = c ∧ l.isListener = true)) ∧
    (∀ c, c ∈ g.m.limits.outgoing ↔
      (cfg.maxOut.isSome = true ∧ ∃ l ∈ g.live, l.conn = c ∧ l.isListener = false)) ∧
    g.m.limits.incoming.Nodup ∧ g.m.limits.outgoing.Nodup := by
  intro g
  have h : Inv06 g := inv06_reach (reachAny_runG is (ReachAny.init cfg))
  have hc : g.m.limits.cfg = cfg := cfg_runG is (G.init cfg)
  exact ⟨fun c => hc ▸ h.inIff c, fun c => hc ▸ h.outIff c, h.inNodup, h.outNodup⟩

/-- **Released exactly once.** Closing a connection lowers the counter of its direction by one if
it was counted and by nothing otherwise (so a second close report releases nothing). -/
theorem released_once {g : G} (h : ReachAny g) (p : Peer) (c : ConnId) :
    let g' := (gstep g (.evClosed p c)).1
    g'.m.limits.incoming.length + (if c ∈ g.m.limits.incoming then 1 else 0) = g.m.limits.incoming.length ∧
    g'.m.limits.outgoing.length + (if c ∈ g.m.limits.outgoing then 1 else 0) = g.m.limits.outgoing.length ∧
    c ∉ g'.m.limits.incoming ∧ c ∉ g'.m.limits.outgoing := by
  intro g'
  have hi := inv06_reach h
  have hl : g'.m.limits = g.m.limits.onConnectionClosed c := by
    show (ghost g _ _ _).m.limits = _; rw [ghost_m]; rfl
  rw [hl]
  refine ⟨length_setRemove _ _ hi.inNodup, length_setRemove _ _ hi.outNodup, ?_, ?_⟩ <;>
    simp [Limits.onConnectionClosed, mem_setRemove]

/-- Non-vacuity: an accepted inbound connection is counted, a rolled-back one (failing `accept`)
and a closed one are not; the accept-failure path releases what it took. -/
example :
    let g := runG (G.init ⟨some 3, none⟩)
      [.alloc, .alloc, .alloc, .evEstablished 1 ⟨true, [], 0⟩ true, .evEstablished 2 ⟨true, [], 1⟩ false,
       .evEstablished 3 ⟨true, [], 2⟩ true, .acceptResult 0 true, .evClosed 1 0]
    g.m.limits.incoming = [2] ∧ g.live = [⟨3, 2, true⟩] := by
  decide

/-- **At most two connections per peer.** In every reachable state the open connections of a peer
carry at most two distinct ids — the two slots of its `Connected` state. -/
theorem two_per_peer {g : G} (h : ReachAny g) (p : Peer) :
    ∃ slots : List ConnId, slots.length ≤ 2 ∧ ∀ l ∈ g.live, l.peer = p → l.conn ∈ slots :=
  ⟨(stateOf g.m p).slots, PeerState.slots_length_le _,
    fun l hl hp => hp ▸ (inv06_reach h).liveSlots l hl⟩

/-- **A surplus connection is rejected without disturbing anything.** With both slots of `p`
taken, a further established connection (either direction) is answered with `reject` only, and the
state of every peer, the limit counters, the pending accepts and the live set stay as they were. -/
theorem two_per_peer_reject (g : G) (p : Peer) (ep : Endpoint) (ok : Bool) (r x : ConnRecord)
    (hfull : stateOf g.m p = .connected r (some (.secondary x)))
    (hcan : g.m.limits.canAccept ep.isListener = true)
    (hpend : alookup ep.conn g.m.pending = none) :
    let g' := (gstep g (.evEstablished p ep ok)).1
    (gstep g (.evEstablished p ep ok)).2.calls = [.reject ep.conn] ∧
    (gstep g (.evEstablished p ep ok)).2.events = [] ∧
    (∀ q, stateOf g'.m q = stateOf g.m q) ∧ g'.m.limits = g.m.limits ∧
    g'.m.pendingAccept = g.m.pendingAccept ∧ g'.live = g.live := by
  have hout : onEstablished g.m p ep ok = (estPre g.m p ep, { calls := [.reject ep.conn] }) := by
    unfold onEstablished
    simp [hpend, hcan, estPre_state, hfull, PeerState.onConnectionEstablished]
  have hgs : (gstep g (.evEstablished p ep ok)).1 =
      ghost g (.evEstablished p ep ok) (estPre g.m p ep) { calls := [.reject ep.conn] } := by
    show ghost g (.evEstablished p ep ok) (onEstablished g.m p ep ok).1 (onEstablished g.m p ep ok).2 = _
    rw [hout]
  intro g'
  have hg' : g' = ghost g (.evEstablished p ep ok) (estPre g.m p ep) { calls := [.reject ep.conn] } := hgs
  refine ⟨by show (onEstablished g.m p ep ok).2.calls = _; rw [hout],
    by show (onEstablished g.m p ep ok).2.events = _; rw [hout], ?_, ?_, ?_, ?_⟩
  · intro q; rw [hg', ghost_m, estPre_state]
  · rw [hg', ghost_m, estPre_limits]
  · rw [hg', ghost_m, estPre_pa]
  · rw [hg', ghost_live_est]; simp

/-- Non-vacuity: a third connection from a peer with two open ones is rejected; the two stay. -/
example :
    let g := runG (G.init ⟨none, none⟩)
      [.alloc, .alloc, .alloc, .evEstablished 1 ⟨true, [], 0⟩ true, .evEstablished 1 ⟨true, [], 1⟩ true]
    stateOf g.m 1 = .connected ⟨[.p2p 1], 0⟩ (some (.secondary ⟨[.p2p 1], 1⟩)) ∧
    (gstep g (.evEstablished 1 ⟨true, [], 2⟩ true)).2.calls = [.reject 2] ∧
    (gstep g (.evEstablished 1 ⟨true, [], 2⟩ true)).1.live = [⟨1, 1, true⟩, ⟨1, 0, true⟩] := by
  decide

/-- **Below the limit means accepted.** If the node keeps no connection with `p`, is below its
inbound limit (or has none) and the connection id is not one of its own pending dials, an inbound
established connection from `p` is accepted: `accept` is called on the transport, `p` becomes
`Connected` through it, and nothing panics. Together with `counted_iff_open` / `released_once`:
capacity freed by a close is available to the next peer. -/
theorem below_limit_accepts (s : Mgr) (p : Peer) (a : Multiaddr) (c : ConnId) (ok : Bool)
    (hfree : (stateOf s p).slots = [])
    (hbelow : ∀ m, s.limits.cfg.maxIn = some m → s.limits.incoming.length < m)
    (hfresh : alookup c s.pending = none) :
    let r := onEstablished s p ⟨true, a, c⟩ ok
    Call.accept c ∈ r.2.calls ∧ r.2.panic = false ∧
    (ok = true → c ∈ (stateOf r.1 p).slots ∧ (p, (⟨true, a, c⟩ : Endpoint)) ∈ r.1.pendingAccept) := by
  intro r
  have hcan : s.limits.canAccept true = true := by
    unfold Limits.canAccept
    simp only [if_true]
    split
    · rename_i m hm; have := hbelow m hm; simp; omega
    · rfl
  have hest := PeerState.est_of_no_slots (stateOf s p) (ConnRecord.new p a c) hfree
  cases est_shape s p ⟨true, a, c⟩ ok with
  | refused hcalls _ _ _ =>
    exfalso; apply hcalls
    unfold onEstablished
    simp [hfresh, hcan, hest]
    split <;> simp
  | accepted hok hcalls _ _ _ hpa hst =>
    refine ⟨hcalls, ?_, fun _ => ⟨?_, ?_⟩⟩
    · show (onEstablished s p ⟨true, a, c⟩ ok).2.panic = false
      unfold onEstablished; simp [hfresh, hcan, hest]; split <;> rfl
    · show c ∈ (stateOf (onEstablished s p ⟨true, a, c⟩ ok).1 p).slots
      rw [hst p]; simp only [if_true]
      exact PeerState.est_accept_mem _ (ConnRecord.new p a c) hest
    · show _ ∈ (onEstablished s p ⟨true, a, c⟩ ok).1.pendingAccept
      rw [hpa]; simp
  | rolledBack hok hcalls _ _ _ _ _ =>
    refine ⟨hcalls, ?_, fun h => by simp [hok] at h⟩
    show (onEstablished s p ⟨true, a, c⟩ ok).2.panic = false
    unfold onEstablished; simp [hfresh, hcan, hest]; split <;> rfl

/-- Non-vacuity: inbound limit 1 reached, the connection closes, the next peer is accepted. -/
example :
    let g := runG (G.init ⟨some 1, none⟩)
      [.alloc, .alloc, .alloc, .evEstablished 1 ⟨true, [], 0⟩ true, .acceptResult 0 true,
       .evEstablished 2 ⟨true, [], 1⟩ true, .evClosed 1 0]
    stateOf g.m 2 = .disconnected none ∧ g.m.limits.incoming = [] ∧
    (onEstablished g.m 2 ⟨true, [], 2⟩ true).2.calls = [.accept 2] := by
  decide

/-- **Connection ids are unique.** The manager's own dials (`dial`, `dial_address`) and the ids the transports take
for inbound connections (`In.alloc` = `TransportHandle::next_connection_id()` of the handle `transport_handle(..)`
hands out) come from ONE counter, `Mgr.nextConn`. In every state reachable while the transport keeps its contract
(an inbound connection carries an id it took from the counter, a dialed one the id of its dial):
the ids of all live connections — inbound and outbound — are pairwise distinct; each is below the counter, is not an
id still held for a waiting inbound socket, and is shared with no dial in flight (an obligation with the id of a
live connection is that connection's own pending `accept`); the ids of the dials in flight are pairwise distinct
too. Hence the id sets of `ConnectionLimits` (`counted_iff_open`) count connections, and `on_connection_closed(c)`
— which removes `c` from BOTH sets — releases the slot of the one connection that closed and of no other. -/
theorem connection_ids_unique {g : G} (h : Reach g) :
    (∀ l ∈ g.live, ∀ l' ∈ g.live, l.conn = l'.conn → l = l') ∧
    (∀ l ∈ g.live, l.conn < g.m.nextConn ∧ l.conn ∉ g.fresh ∧
      ∀ o ∈ g.owed, o.conn = l.conn → o.phase = .accepting) ∧
    (g.owed.map (·.conn)).Nodup ∧ (∀ o ∈ g.owed, o.conn < g.m.nextConn) ∧
    (∀ c ∈ g.fresh, c < g.m.nextConn ∧ c ∉ g.owed.map (·.conn)) := by
  have hi := invIds_reach h
  have h5 := inv05_reach h
  exact ⟨hi.uniq, fun l hl => ⟨hi.bLive l hl, hi.liveFresh l hl, hi.liveOwed l hl⟩, h5.nodup, h5.bOwed,
    fun c hc => ⟨h5.bFresh c hc, h5.freshOwed c hc⟩⟩

/-- Non-vacuity: a dial (id 0), an inbound connection (id 1, taken by the transport), a second dial (id 2) and a
second inbound connection (id 3), substreams or not in between — the history keeps the contract, four connections
are live under four different ids, and `alloc` / `dial_address` hand out the same counter. -/
example :
    let is : List In :=
      [.dialAddress [.ip4 1, .tcp 1, .p2p 1], .alloc, .evEstablished 2 ⟨true, [.ip4 2, .tcp 2], 1⟩ true,
       .dialAddress [.ip4 3, .tcp 3, .p2p 3], .alloc, .evEstablished 4 ⟨true, [.ip4 4, .tcp 4], 3⟩ true,
       .evEstablished 1 ⟨false, [.ip4 1, .tcp 1, .p2p 1], 0⟩ true,
       .evEstablished 3 ⟨false, [.ip4 3, .tcp 3, .p2p 3], 2⟩ true]
    let g := runG (G.init ⟨some 2, some 3⟩) is
    g.live.map (·.conn) = [2, 0, 3, 1] ∧ g.m.limits.incoming = [3, 1] ∧ g.m.limits.outgoing = [2, 0] ∧
    g.m.nextConn = 4 ∧ (step g.m .alloc).2.res = .conn 4 ∧
    (step g.m (.dialAddress [.ip4 5, .tcp 5, .p2p 5])).2.calls = [.dial 4 [.ip4 5, .tcp 5, .p2p 5]] ∧
    (step g.m (.dialAddress [.ip4 5, .tcp 5, .p2p 5])).1.nextConn = 5 := by
  decide

example : Reach (runG (G.init ⟨some 2, some 2⟩)
      [.dialAddress [.ip4 1, .tcp 1, .p2p 1], .alloc, .evEstablished 2 ⟨true, [.ip4 2, .tcp 2], 1⟩ true,
       .evEstablished 1 ⟨false, [.ip4 1, .tcp 1, .p2p 1], 0⟩ true]) :=
  Reach.step _ (Reach.step _ (Reach.step _ (Reach.step _ (Reach.init _)
    (by decide)) (by decide)) (by decide)) (by decide)

/-- What the uniqueness buys (and what breaks without it): were the inbound connection given the id of the live
outbound one (id 0 — not an id from the counter, so the contract forbids the event), closing it would release
the outbound slot although the outbound connection is still open. -/
example :
    let g := runG (G.init ⟨some 2, some 1⟩)
      [.dialAddress [.ip4 1, .tcp 1, .p2p 1], .evEstablished 1 ⟨false, [.ip4 1, .tcp 1, .p2p 1], 0⟩ true,
       .evEstablished 2 ⟨true, [.ip4 2, .tcp 2], 0⟩ true, .evClosed 2 0]
    g.m.limits.outgoing = [] ∧ stateOf g.m 1 = .connected ⟨[.ip4 1, .tcp 1, .p2p 1], 0⟩ none ∧
    allowed (runG (G.init ⟨some 2, some 1⟩)
      [.dialAddress [.ip4 1, .tcp 1, .p2p 1], .evEstablished 1 ⟨false, [.ip4 1, .tcp 1, .p2p 1], 0⟩ true])
      (.evEstablished 2 ⟨true, [.ip4 2, .tcp 2], 0⟩ true) = false := by
  decide

#print axioms limits_inv
#print axioms connection_ids_unique
#print axioms counted_iff_open
#print axioms released_once
#print axioms two_per_peer
#print axioms two_per_peer_reject
#print axioms below_limit_accepts

end Litep2pVerif.Props.C06

/-! ## Wiring — what `Litep2p::new` hands over (coverage round `node`)

Over the wiring model `Model/Node/Wiring.lean` (`Node.new c` = `Litep2p::new(ConfigBuilder…build())`), which is tied to
the real `ConfigBuilder`/`Litep2p::new` by the `node` area: the adapter prints the ACTUAL registration record of a node built
through the public API, the driver prints the model's, compared field by field on every run. -/
namespace Litep2pVerif.Props.C06.Wiring
open Litep2pVerif Litep2pVerif.Node

/-- A configuration with every kind of protocol (used by the non-vacuity examples). -/
def sample : Config :=
  { keepAliveMs := some 600, limits := some (some 2, none), listen := [1, 2],
    notif := [⟨"/n/a", 1024, "0102", ["/n/old"], 'a', some 64, some 64, none⟩],
    rr := [⟨"/r/a", 256, 800, ["/r/old"], none⟩, ⟨"/r/b", 64, 800, [], some 1⟩],
    user := [⟨"/u/a", .varint none⟩], kad := [⟨[], none, []⟩], ping := some 1, identify := true, bitswap := true,
    known := some [(0, [.listen 0, .closed, .quic, .wrongPeer 0, .noPeer 0])] }

/-- The connection limits the manager enforces are exactly the configured ones (none if the user set none). -/
theorem configured_limits_installed (c : Config) (w : Wired) (h : Node.new c = .ok w) :
    w.limits = c.limits.getD (none, none) := by
  obtain ⟨_, _, rfl⟩ := wire_ok h
  rfl

example : ∃ w, Node.new sample = .ok w ∧ w.limits = (some 2, none) := ⟨_, rfl, rfl⟩
example : ∃ w, Node.new { sample with limits := none } = .ok w ∧ w.limits = (none, none) := ⟨_, rfl, rfl⟩

end Litep2pVerif.Props.C06.Wiring

#print axioms Litep2pVerif.Props.C06.Wiring.configured_limits_installed

/-! ## The other end of `released_once`: the manager IS told (coverage round `mgr2`)

`released_once` / `counted_iff_open` say what the manager does when it is told that a connection closed. That it is
told — exactly once per connection, whatever became of the installed protocols — is a fact about
`ProtocolSet::report_connection_closed` and the connection task (`Model/Conn/{Close,Loop,Permits}.lean`, the model the
real `TcpConnection::start` loop is driven against in the `tcploop` area; C06's check runs that area with protocols
whose receivers are gone, judged by `tcploop.oracle_c06`). -/
namespace Litep2pVerif.Props.C06.Release
open Litep2pVerif Litep2pVerif.Conn

/-- **A connection that ends releases its slot: the manager is told exactly once, dead protocols or not.** For every
run of the connection task — every sequence of loop events, handle operations and shut-downs of the protocols (their
receivers may be dropped at any time, so that telling them fails) and deliveries: the manager is never told twice,
and once `start()` has returned the manager (its receiver exists as long as the node runs) has been told exactly
once. With `released_once` the slot of the connection is then released, once. -/
theorem slot_released_when_connection_ends (s0 : TLoop) (h0 : Fresh s0.loop.ps) (hc : s0.loop.cont = none)
    (hx : s0.loop.exited = none) (ls : List TLabel) :
    let s := (trun s0 ls).loop
    mgrCnt s.ps ≤ 1 ∧ (s.exited.isSome → s.ps.mgr.alive = true → mgrCnt s.ps = 1) :=
  ⟨(trun_pinv ls s0 (h0.pinv hc hx)).reports.2.1,
    fun hex hm => ((trun_pinv ls s0 (h0.pinv hc hx)).reports.2.2 hex).2.2 hm⟩

/-- Non-vacuity: protocol 1 shuts down (its receiver is dropped), then the connection loses its last permit holder
and exits: telling protocol 1 fails, protocol 0 and the manager are told all the same, once. -/
example :
    let s := trun (tinit [true, true] 4) [.recv 0, .recv 1, .dropRx 1, .downgrade 0, .dropHandle 1, .idleExit]
    Fresh (tinit [true, true] 4).loop.ps ∧ s.loop.exited.isSome ∧ s.loop.ps.mgr.alive = true ∧
    mgrCnt s.loop.ps = 1 ∧ cnt s.loop.ps 0 .closed = 1 ∧ cnt s.loop.ps 1 .closed = 0 :=
  ⟨tinit_fresh _ _, by decide⟩

end Litep2pVerif.Props.C06.Release

#print axioms Litep2pVerif.Props.C06.Release.slot_released_when_connection_ends
