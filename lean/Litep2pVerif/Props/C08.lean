import Litep2pVerif.Proofs.Service.Conns
import Litep2pVerif.Proofs.Node.Wiring
/-!
# C08 — Protocols see a well-formed per-peer connection and substream event stream

Property theorems only. Model: `Model/Service/Conns.lean` (the service) and
`Model/Service/Order.lean` (what the rest of litep2p guarantees about its inputs); lemmas:
`Proofs/Service/Conns.lean`. A *history* is a list of `Op` — events arriving on the service's
channel in the order it processes them, calls of `open_substream` with arbitrary outcomes of
`try_get_permit`/`try_send` (so all keep-alive behaviour and all channel states are covered), and
allocations of the shared id counter by others. `trace` is what the protocol observes.
-/
namespace Litep2pVerif.Props.C08
open Litep2pVerif Litep2pVerif.Service

/-- **Alternation.** For EVERY history — feasible or not, including third connections, closes of
unknown connections and repeated ids — the connection events a protocol sees for a peer alternate
established / closed, starting with established. -/
theorem alternation (ops : List Op) (p : Peer) :
    alternates true (connEvents p (trace {} ops)) = true := by
  simpa [connected, cget] using alternation_gen p ops {}

/-- Non-vacuity: two overlapping connections closing in either order, then a third. -/
example : connEvents 1 (trace {} [.inner (.established 1 10), .inner (.established 1 11),
    .inner (.closed 1 10), .inner (.established 1 12), .inner (.established 1 13),
    .inner (.closed 1 13), .inner (.closed 1 11), .inner (.closed 1 12),
    .inner (.established 1 14)]) = [true, false, true] := by decide

/-- **Closed exactly at the last close** (and established exactly at the first open). In a
feasible history, when the close of connection `c` to `p` is processed, `ConnectionClosed{p}` is
emitted iff `c` is the only live connection to `p`; when an established is processed,
`ConnectionEstablished{p}` is emitted iff no connection to `p` is live. -/
theorem closed_iff_last (ops : List Op) (hf : feasible {} {} ops = true)
    (e : Env) (s : State) (p : Peer) (c : ConnId) (o : Obs) :
    ((e, s, Op.inner (.closed p c), o) ∈ esteps {} {} ops →
      (o = .ev (.closed p) ↔ ∀ c', (p, c') ∈ e.live → c' = c)) ∧
    ((e, s, Op.inner (.established p c), o) ∈ esteps {} {} ops →
      (o = .ev (.established p) ↔ ∀ c', (p, c') ∉ e.live)) := by
  constructor
  · intro hx
    obtain ⟨hinv, hok, ho⟩ := esteps_inv ops _ _ inv_init hf _ hx
    simp only at hinv hok ho
    rw [ho]; exact closed_local hinv p c hok
  · intro hx
    obtain ⟨hinv, hok, ho⟩ := esteps_inv ops _ _ inv_init hf _ hx
    simp only at hinv hok ho
    rw [ho]; exact established_local hinv p c

/-- Non-vacuity: a feasible history in which the primary closes first (secondary promoted, no
event) and then the promoted connection closes (event). -/
example :
    let ops := [Op.inner (.established 1 10), .inner (.established 1 11), .inner (.closed 1 10),
      .inner (.closed 1 11)]
    feasible {} {} ops = true ∧ trace {} ops = [.ev (.established 1), .silent, .silent, .ev (.closed 1)] := by
  decide

/-- **Substream events refer to a connected peer.** In a feasible history, whenever the service
emits `SubstreamOpened{p}` the peer `p` is connected (in `connections`, i.e. between the emitted
established and closed); whenever it emits `SubstreamOpenFailure{sid}` the failure answers an
outstanding request to a connected peer; and (for any history) an open request is accepted only
for a connected peer, on its primary connection. -/
theorem substream_refers_connected (ops : List Op) (hf : feasible {} {} ops = true)
    (e : Env) (s : State) (op : Op) (o : Obs) (hx : (e, s, op, o) ∈ esteps {} {} ops) :
    (∀ p d, o = .ev (.subOpened p d) → connected s p = true) ∧
    (∀ sid, o = .ev (.subFailed sid) → ∃ p c, (sid, p, c) ∈ e.outstanding ∧ connected s p = true) ∧
    (∀ sid c, o = .openOk sid c → ∃ p permit send ctx, op = .open p permit send ∧
      connected s p = true ∧ cget s.conns p = some ctx ∧ ctx.primary = c) := by
  obtain ⟨hinv, hok, ho⟩ := esteps_inv ops _ _ inv_init hf _ hx
  simp only at hinv hok ho
  subst ho
  refine ⟨(sub_local hinv op hok).1, (sub_local hinv op hok).2, ?_⟩
  intro sid c h
  obtain ⟨_, _, _, p, permit, send, ctx, hop, hctx, hprim⟩ := step_openOk s op sid c h
  exact ⟨p, permit, send, ctx, hop, by simp [connected, hctx], hctx, hprim⟩

/-- Non-vacuity: an open on the primary answered by a failure, and an inbound substream on the
secondary connection. -/
example :
    let ops := [Op.inner (.established 1 10), .inner (.established 1 11), .open 1 true .ok,
      .inner (.subOpened 1 none 11), .inner (.subFailed 0)]
    feasible {} {} ops = true ∧ trace {} ops =
      [.ev (.established 1), .silent, .openOk 0 10, .ev (.subOpened 1 none), .ev (.subFailed 0)] := by
  decide

/-- **Answered at most once, with the same id.** In a feasible history no substream id is answered
twice (opened and failed count alike), and every answered id is the id of an accepted request. -/
theorem open_answered_at_most_once (ops : List Op) (hf : feasible {} {} ops = true) :
    (answeredIds (trace {} ops)).Nodup ∧
    ∀ sid ∈ answeredIds (trace {} ops), sid ∈ acceptedIds (trace {} ops) := by
  obtain ⟨h1, h2⟩ := at_most_once_gen ops {} {} inv_init hf
  refine ⟨h1, fun sid hs => ?_⟩
  rcases h2 sid hs with h | h
  · simp [outstandingIds] at h
  · exact h

/-- Non-vacuity: two requests, answered in the reverse order, one opened and one failed. -/
example :
    let ops := [Op.inner (.established 1 10), .open 1 true .ok, .open 1 true .ok,
      .inner (.subFailed 1), .inner (.subOpened 1 (some 0) 10)]
    feasible {} {} ops = true ∧ answeredIds (trace {} ops) = [1, 0] ∧
      acceptedIds (trace {} ops) = [0, 1] := by
  decide

/-- **Answered exactly once unless the connection terminates first.** Environment hypothesis
(explicit): the history is feasible and ends quiescent — every connection task has completed each
pending open it received (success, failure or timeout ⇒ failure with the same id,
src/transport/tcp/connection.rs). Then every accepted request `(sid, c)` has been answered (by
`open_answered_at_most_once`: exactly once), or the close of its connection `c` was delivered. -/
theorem open_answered_once_unless_closed (ops : List Op) (_hf : feasible {} {} ops = true)
    (hq : Quiescent (envRun {} {} ops)) (sid : SubId) (c : ConnId)
    (hacc : Obs.openOk sid c ∈ trace {} ops) :
    sid ∈ answeredIds (trace {} ops) ∨ ∃ p, Op.inner (.closed p c) ∈ ops := by
  rcases once_unless_closed_gen ops {} {} sid c (Or.inl hacc) with h | h | ⟨p, h⟩
  · exact Or.inl h
  · exact Or.inr h
  · rw [hq] at h; cases h

/-- Non-vacuity: a quiescent feasible history with one answered request and one request lost with
its connection; and a non-quiescent one (request still pending) showing the hypothesis matters. -/
example :
    let ops := [Op.inner (.established 1 10), .open 1 true .ok, .open 1 true .ok,
      .inner (.subOpened 1 (some 0) 10), .inner (.closed 1 10)]
    feasible {} {} ops = true ∧ (envRun {} {} ops).outstanding = [] ∧
    answeredIds (trace {} ops) = [0] ∧
    (envRun {} {} (ops.take 4)).outstanding = [(1, 1, 10)] := by
  decide

/-- **Ids are fresh.** For EVERY history the ids returned by accepted `open_substream` calls are
strictly increasing — never reused, also across failed sends and allocations by other users of the
shared counter. -/
theorem ids_fresh (ops : List Op) :
    (acceptedIds (trace {} ops)).Pairwise (· < ·) :=
  ids_fresh_gen ops {}

/-- Non-vacuity: a clogged send and a foreign allocation consume ids in between. -/
example : acceptedIds (trace {} [.inner (.established 1 10), .open 1 true .ok, .open 1 true .full,
    .otherAlloc 3, .open 2 true .ok, .open 1 false .ok, .open 1 true .ok]) = [0, 5] := by decide

end Litep2pVerif.Props.C08

#print axioms Litep2pVerif.Props.C08.alternation
#print axioms Litep2pVerif.Props.C08.closed_iff_last
#print axioms Litep2pVerif.Props.C08.substream_refers_connected
#print axioms Litep2pVerif.Props.C08.open_answered_at_most_once
#print axioms Litep2pVerif.Props.C08.open_answered_once_unless_closed
#print axioms Litep2pVerif.Props.C08.ids_fresh

/-! ## Wiring — what `Litep2p::new` hands over (coverage round `node`)

Over the wiring model `Model/Node/Wiring.lean` (`Node.new c` = `Litep2p::new(ConfigBuilder…build())`), which is tied to
the real `ConfigBuilder`/`Litep2p::new` by the `node` area: the adapter prints the ACTUAL registration record of a node built
through the public API, the driver prints the model's, compared field by field on every run. -/
namespace Litep2pVerif.Props.C08.Wiring
open Litep2pVerif Litep2pVerif.Node

/-- A configuration with every kind of protocol (used by the non-vacuity examples). -/
def sample : Config :=
  { keepAliveMs := some 600, limits := some (some 2, none), listen := [1, 2],
    notif := [⟨"/n/a", 1024, "0102", ["/n/old"], 'a'⟩],
    rr := [⟨"/r/a", 256, 800, ["/r/old"], none⟩, ⟨"/r/b", 64, 800, [], some 1⟩],
    user := [⟨"/u/a", .varint none⟩], kad := [⟨[], none⟩], ping := some 1, identify := true, bitswap := true,
    known := some [(0, [.listen 0, .closed, .quic, .wrongPeer 0, .noPeer 0])] }

/-- Identify is told exactly the protocols that were registered (every user protocol among them), and every protocol's
event loop is handed to the executor. -/
theorem identify_told_every_registered_protocol (c : Config) (w : Wired) (h : Node.new c = .ok w) :
    w.identifyProtocols = w.regs.map (·.name) ∧ w.spawned = w.regs.length ∧
    (∀ p ∈ (build c).user, p.name ∈ w.identifyProtocols) ∧
    (∀ p ∈ (build c).notif, p.name ∈ w.identifyProtocols) ∧
    (∀ p ∈ (build c).rr, p.name ∈ w.identifyProtocols) := by
  obtain ⟨_, _, rfl⟩ := wire_ok h
  refine ⟨rfl, rfl, ?_, ?_, ?_⟩
  · intro p hp
    exact List.mem_map.mpr ⟨_, user_mem_registrations _ hp, rfl⟩
  · intro p hp
    exact List.mem_map.mpr ⟨_, notif_mem_registrations _ hp, rfl⟩
  · intro p hp
    exact List.mem_map.mpr ⟨_, rr_mem_registrations _ hp, rfl⟩

example : ∃ w, Node.new sample = .ok w ∧ w.identifyProtocols =
    ["/n/a", "/r/a", "/r/b", "/u/a", pingName, kadName, identifyName, bitswapName] ∧ w.spawned = 8 :=
  ⟨_, rfl, by decide, rfl⟩

end Litep2pVerif.Props.C08.Wiring

#print axioms Litep2pVerif.Props.C08.Wiring.identify_told_every_registered_protocol
