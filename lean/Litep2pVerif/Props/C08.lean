import Litep2pVerif.Proofs.Service.Conns
import Litep2pVerif.Proofs.Node.Wiring
import Litep2pVerif.Proofs.Conn.Outbound
import Litep2pVerif.Proofs.Conn.Wait
/-!
# C08 — Protocols see a well-formed per-peer connection and substream event stream

Property theorems only. Model: `Model/Service/Conns.lean` (the service) and
`Model/Service/Order.lean` (what the rest of litep2p guarantees about its inputs); lemmas:
`Proofs/Service/Conns.lean`. A *history* is a list of `Op` — events arriving on the service's
channel in the order it processes them, calls of `open_substream` with arbitrary outcomes of
`try_get_permit`/`try_send` (so all keep-alive behaviour and all channel states are covered),
calls of `force_close` (again with arbitrary outcomes of the two sends) and of the methods that only delegate to the
manager handle, at ANY point, and allocations of the shared id counter by others. `trace` is what the protocol
observes.
-/
namespace Litep2pVerif.Props.C08
open Litep2pVerif Litep2pVerif.Service

/-- **Alternation.** For EVERY history — feasible or not, including third connections, closes of
unknown connections and repeated ids — the connection events a protocol sees for a peer alternate
established / closed, starting with established. -/
theorem alternation (ops : List Op) (p : Peer) :
    alternates true (connEvents p (trace {} ops)) = true := by
  simpa [connected, cget] using alternation_gen p ops {}

/-- Non-vacuity: two overlapping connections closing in either order, then a third; `force_close` while two
connections overlap, with either close order afterwards. -/
example : connEvents 1 (trace {} [.inner (.established 1 10), .inner (.established 1 11), .forceClose 1 .ok .ok,
    .inner (.closed 1 10), .forceClose 1 .ok .ok, .inner (.closed 1 11), .forceClose 1 .ok .ok,
    .inner (.established 1 12), .inner (.established 1 13), .forceClose 1 .full .closed,
    .inner (.closed 1 13), .inner (.closed 1 12)]) = [true, false, true, false] := by decide

/-- Non-vacuity: two overlapping connections closing in either order, then a third. -/
example : connEvents 1 (trace {} [.inner (.established 1 10), .inner (.established 1 11),
    .inner (.closed 1 10), .inner (.established 1 12), .inner (.established 1 13),
    .inner (.closed 1 13), .inner (.closed 1 11), .inner (.closed 1 12),
    .inner (.established 1 14)]) = [true, false, true] := by decide

/-- **Closed exactly at the last close** (and established exactly at the first open). In a
feasible history, when the close of connection `c` to `p` is processed, `ConnectionClosed{p}` is
emitted iff `c` is the only live connection to `p`; when an established is processed,
`ConnectionEstablished{p}` is emitted iff no connection to `p` is live. -/
theorem closed_iff_last (ops : List Op) (hf : feasible {} {} ops = true)
    (e : Env) (s : State) (p : Peer) (c : ConnId) (o : Obs) :
    ((e, s, Op.inner (.closed p c), o) ∈ esteps {} {} ops →
      (o = .ev (.closed p) ↔ ∀ c', (p, c') ∈ e.live → c' = c)) ∧
    ((e, s, Op.inner (.established p c), o) ∈ esteps {} {} ops →
      (o = .ev (.established p) ↔ ∀ c', (p, c') ∉ e.live)) := by
  constructor
  · intro hx
    obtain ⟨hinv, hok, ho⟩ := esteps_inv ops _ _ inv_init hf _ hx
    simp only at hinv hok ho
    rw [ho]; exact closed_local hinv p c hok
  · intro hx
    obtain ⟨hinv, hok, ho⟩ := esteps_inv ops _ _ inv_init hf _ hx
    simp only at hinv hok ho
    rw [ho]; exact established_local hinv p c

/-- Non-vacuity: a feasible history in which the primary closes first (secondary promoted, no
event) and then the promoted connection closes (event). -/
example :
    let ops := [Op.inner (.established 1 10), .inner (.established 1 11), .inner (.closed 1 10),
      .inner (.closed 1 11)]
    feasible {} {} ops = true ∧ trace {} ops = [.ev (.established 1), .silent, .silent, .ev (.closed 1)] := by
  decide

/-- Non-vacuity (the shape of seeded change C08-e1): `force_close` while two connections overlap; the primary
reports closed first — no event, the secondary is promoted and still delivers a substream; `ConnectionClosed` comes
with the close of the secondary. The same with the secondary closing first. -/
example :
    let ops := [Op.inner (.established 1 10), .inner (.established 1 11), .forceClose 1 .ok .ok,
      .inner (.closed 1 10), .inner (.subOpened 1 none 11), .inner (.closed 1 11)]
    let ops' := [Op.inner (.established 1 10), .inner (.established 1 11), .forceClose 1 .ok .ok,
      .inner (.closed 1 11), .inner (.subOpened 1 none 10), .inner (.closed 1 10)]
    feasible {} {} ops = true ∧ feasible {} {} ops' = true ∧
    trace {} ops = [.ev (.established 1), .silent, .force none [11, 10], .silent, .ev (.subOpened 1 none),
      .ev (.closed 1)] ∧
    trace {} ops' = [.ev (.established 1), .silent, .force none [11, 10], .silent, .ev (.subOpened 1 none),
      .ev (.closed 1)] := by
  decide

/-- **Substream events refer to a connected peer.** In a feasible history, whenever the service
emits `SubstreamOpened{p}` the peer `p` is connected (in `connections`, i.e. between the emitted
established and closed); whenever it emits `SubstreamOpenFailure{sid}` the failure answers an
outstanding request to a connected peer; and (for any history) an open request is accepted only
for a connected peer, on its primary connection. -/
theorem substream_refers_connected (ops : List Op) (hf : feasible {} {} ops = true)
    (e : Env) (s : State) (op : Op) (o : Obs) (hx : (e, s, op, o) ∈ esteps {} {} ops) :
    (∀ p d, o = .ev (.subOpened p d) → connected s p = true) ∧
    (∀ sid, o = .ev (.subFailed sid) → ∃ p c, (sid, p, c) ∈ e.outstanding ∧ connected s p = true) ∧
    (∀ sid c, o = .openOk sid c → ∃ p permit send ctx, op = .open p permit send ∧
      connected s p = true ∧ cget s.conns p = some ctx ∧ ctx.primary = c) := by
  obtain ⟨hinv, hok, ho⟩ := esteps_inv ops _ _ inv_init hf _ hx
  simp only at hinv hok ho
  subst ho
  refine ⟨(sub_local hinv op hok).1, (sub_local hinv op hok).2, ?_⟩
  intro sid c h
  obtain ⟨_, _, _, p, permit, send, ctx, hop, hctx, hprim⟩ := step_openOk s op sid c h
  exact ⟨p, permit, send, ctx, hop, by simp [connected, hctx], hctx, hprim⟩

/-- Non-vacuity: an open on the primary answered by a failure, and an inbound substream on the
secondary connection. -/
example :
    let ops := [Op.inner (.established 1 10), .inner (.established 1 11), .open 1 true .ok,
      .inner (.subOpened 1 none 11), .inner (.subFailed 0)]
    feasible {} {} ops = true ∧ trace {} ops =
      [.ev (.established 1), .silent, .openOk 0 10, .ev (.subOpened 1 none), .ev (.subFailed 0)] := by
  decide

/-- Non-vacuity with `force_close`: the request was accepted before the call, the forcibly closed primary goes
first, the answer to the request is lost with it; an inbound substream of the promoted secondary still refers to a
connected peer; a new request goes to the promoted connection. -/
example :
    let ops := [Op.inner (.established 1 10), .inner (.established 1 11), .open 1 true .ok,
      .forceClose 1 .ok .ok, .inner (.closed 1 10), .inner (.subOpened 1 none 11), .open 1 true .ok,
      .inner (.subFailed 1), .inner (.closed 1 11)]
    feasible {} {} ops = true ∧ trace {} ops =
      [.ev (.established 1), .silent, .openOk 0 10, .force none [11, 10], .silent, .ev (.subOpened 1 none),
       .openOk 1 11, .ev (.subFailed 1), .ev (.closed 1)] := by
  decide

/-- **`force_close` keeps the peer context.** `TransportService::force_close(peer)` sends
`ProtocolCommand::ForceClose` to the connections of the peer's context and changes nothing else: for EVERY history
`pre` before it, every `post` after it and every outcome of the two sends,

1. the service's state (so: `connections`, primary and secondary handle of every peer) is the same before and after
   the call — a connection stays in the context until ITS OWN close report arrives;
2. the state after the whole history is the one without the call, and the protocol observes of everything else
   exactly what it observes without the call;
3. the environment may do exactly the same with and without the call (the forcibly closed connections are still live:
   they may still deliver substream events and will report closed, in either order — `closed_iff_last` and
   `substream_refers_connected` therefore speak about them like about any other connection);
4. who is told: with room in both command channels exactly the connections of the context, secondary first; never a
   connection outside the context; nobody (and `PeerDoesntExist`) if the peer is not connected. -/
theorem force_close_keeps_context (pre post : List Op) (p : Peer) (sec prim : SendRes) :
    (step (run {} pre) (.forceClose p sec prim)).1 = run {} pre ∧
    run {} (pre ++ .forceClose p sec prim :: post) = run {} (pre ++ post) ∧
    trace {} (pre ++ .forceClose p sec prim :: post) =
      trace {} pre ++ (step (run {} pre) (.forceClose p sec prim)).2 :: trace (run {} pre) post ∧
    feasible {} {} (pre ++ .forceClose p sec prim :: post) = feasible {} {} (pre ++ post) ∧
    (cget (run {} pre).conns p = none →
      (step (run {} pre) (.forceClose p sec prim)).2 = .force (some .peerDoesntExist) []) ∧
    (∀ ctx, cget (run {} pre).conns p = some ctx →
      (step (run {} pre) (.forceClose p .ok .ok)).2 = .force none (ctx.secondary.toList ++ [ctx.primary]) ∧
      ∀ r cs, (step (run {} pre) (.forceClose p sec prim)).2 = .force r cs → ∀ c ∈ cs, ctx.has c) := by
  obtain ⟨h1, h2, h3⟩ := forceClose_insert pre post {} {} p sec prim
  exact ⟨step_forceClose_state _ p sec prim, h1, h2, h3, (forceClose_cmds _ p sec prim).1,
    (forceClose_cmds _ p sec prim).2⟩

/-- Non-vacuity: a context with two connections; the call with a clogged primary channel still reaches the secondary
and reports `ChannelClogged`; nothing changed. -/
example :
    let pre := [Op.inner (.established 1 10), .inner (.established 1 11), .open 1 true .ok]
    cget (run {} pre).conns 1 = some ⟨10, some 11⟩ ∧
    step (run {} pre) (.forceClose 1 .ok .full) = (run {} pre, .force (some .channelClogged) [11]) ∧
    step (run {} pre) (.forceClose 1 .ok .ok) = (run {} pre, .force none [11, 10]) ∧
    step (run {} pre) (.forceClose 2 .ok .ok) = (run {} pre, .force (some .peerDoesntExist) []) := by
  decide

/-- **Answered at most once, with the same id.** In a feasible history no substream id is answered
twice (opened and failed count alike), and every answered id is the id of an accepted request. -/
theorem open_answered_at_most_once (ops : List Op) (hf : feasible {} {} ops = true) :
    (answeredIds (trace {} ops)).Nodup ∧
    ∀ sid ∈ answeredIds (trace {} ops), sid ∈ acceptedIds (trace {} ops) := by
  obtain ⟨h1, h2⟩ := at_most_once_gen ops {} {} inv_init hf
  refine ⟨h1, fun sid hs => ?_⟩
  rcases h2 sid hs with h | h
  · simp [outstandingIds] at h
  · exact h

/-- Non-vacuity: two requests, answered in the reverse order, one opened and one failed. -/
example :
    let ops := [Op.inner (.established 1 10), .open 1 true .ok, .open 1 true .ok,
      .inner (.subFailed 1), .inner (.subOpened 1 (some 0) 10)]
    feasible {} {} ops = true ∧ answeredIds (trace {} ops) = [1, 0] ∧
      acceptedIds (trace {} ops) = [0, 1] := by
  decide

/-- **Answered exactly once unless the connection terminates first.** Environment hypothesis
(explicit): the history is feasible and ends quiescent — every connection task has completed each
pending open it received (success, failure or timeout ⇒ failure with the same id,
src/transport/tcp/connection.rs). Then every accepted request `(sid, c)` has been answered (by
`open_answered_at_most_once`: exactly once), or the close of its connection `c` was delivered. -/
theorem open_answered_once_unless_closed (ops : List Op) (_hf : feasible {} {} ops = true)
    (hq : Quiescent (envRun {} {} ops)) (sid : SubId) (c : ConnId)
    (hacc : Obs.openOk sid c ∈ trace {} ops) :
    sid ∈ answeredIds (trace {} ops) ∨ ∃ p, Op.inner (.closed p c) ∈ ops := by
  rcases once_unless_closed_gen ops {} {} sid c (Or.inl hacc) with h | h | ⟨p, h⟩
  · exact Or.inl h
  · exact Or.inr h
  · rw [hq] at h; cases h

/-- Non-vacuity: a quiescent feasible history with one answered request and one request lost with
its connection; and a non-quiescent one (request still pending) showing the hypothesis matters. -/
example :
    let ops := [Op.inner (.established 1 10), .open 1 true .ok, .open 1 true .ok,
      .inner (.subOpened 1 (some 0) 10), .inner (.closed 1 10)]
    feasible {} {} ops = true ∧ (envRun {} {} ops).outstanding = [] ∧
    answeredIds (trace {} ops) = [0] ∧
    (envRun {} {} (ops.take 4)).outstanding = [(1, 1, 10)] := by
  decide

/-- **The connection task answers every open request exactly once unless the connection terminates first** — the
environment hypothesis of `open_answered_once_unless_closed` ("every connection task completes each pending open it
received: success, failure or timeout ⇒ failure with the same id") for the TCP connection task, proved about the
loop model `Model/Conn/Permits.lean` (tied to the real `TcpConnection::start` in the `tcploop` area). Life cycle of a
request of protocol `i`: *requested* (`OpenSubstream` in the command channel) → *yamux open pending*
(`Stage.opening`: in `pending_substreams`, `Control::open_stream()` has not returned — and never does while the
remote leaves `MAX_ACK_BACKLOG` streams unacknowledged) → *negotiating* → *answered*.

1. `handle_protocol_command` moves the oldest request into `pending_substreams` (table entry `⟨outbound, i,
   opening⟩`), permit and all; the loop goes on.
2. For EVERY schedule of everything else — other requests in any number, inbound substreams, answers, handles
   released, channels filling, protocols shutting down, the yamux stream being opened or not — as long as the loop
   has not returned the request is still pending, for the same protocol, unless a transition that ENDS its own
   future occurred (`TLabel.endsNeg k`: negotiated under a main or fallback name, failed, or timed out).
3. The failure / timeout arm is enabled in EITHER pending stage whenever the loop is at its `select!`, and it answers
   the protocol that asked: `SubstreamOpenFailure` for that request goes to `i` — enqueued at once if `i`'s channel
   has room (and the loop is back at its `select!`), else the loop is suspended in exactly that send (re-polled when
   `i` reads, `Model/Conn/Close.lean` `envStep`/`progress`; second example below); the entry leaves
   `pending_substreams`; the loop does not return.
4. Success is answered likewise, `SubstreamOpened` to `i`, whichever of `i`'s names was negotiated.
5. At most once: an entry that has left `pending_substreams` never comes back, for every schedule, and the end of
   its future can not happen again (`negFail k`, `negOk k _`, `negOkFb k _ _`, `yamuxOpened k` do nothing). -/
theorem outbound_open_answered_by_loop :
    (∀ (s : Conn.TLoop) (i : Nat) (q : List Conn.Cmd), s.running = true → s.cmdQ = .openSub i :: q →
      (Conn.tstep s .takeCmd).subs = s.subs ++ [⟨false, some i, .opening⟩] ∧ (Conn.tstep s .takeCmd).cmdQ = q ∧
      (Conn.tstep s .takeCmd).loop.exited = none ∧ (Conn.tstep s .takeCmd).running = true) ∧
    (∀ (s : Conn.TLoop) (ls : List Conn.TLabel) (k : Nat) (x : Conn.Sub),
      s.subs[k]? = some x → x.stage.pending = true → (Conn.trun s ls).loop.exited = none →
      (∃ y, (Conn.trun s ls).subs[k]? = some y ∧ y.stage.pending = true ∧ y.inbound = x.inbound ∧ y.proto = x.proto) ∨
      (∃ l ∈ ls, l.endsNeg k = true)) ∧
    (∀ (s : Conn.TLoop) (k i : Nat) (x : Conn.Sub), s.running = true → s.subs[k]? = some x →
      x.stage.pending = true → x.inbound = false → x.proto = some i → Conn.protoAlive s i = true →
      (Conn.tstep s (.negFail k)).loop.exited = none ∧
      (Conn.tstep s (.negFail k)).subs[k]? = some { x with stage := .gone } ∧
      (Conn.hasRoom s i → (Conn.tstep s (.negFail k)).running = true ∧
        (Conn.tstep s (.negFail k)).loop.ps.log = s.loop.ps.log ++ [.proto i .openFailure] ∧
        (Conn.tstep s (.negFail k)).loop.ps.call = .idle) ∧
      (¬ Conn.hasRoom s i → (Conn.tstep s (.negFail k)).loop.cont = some .substreamReport ∧
        (Conn.tstep s (.negFail k)).loop.ps.call = .protoSends (.substream i false) [i] false ∧
        (Conn.tstep s (.negFail k)).loop.ps.log = s.loop.ps.log)) ∧
    (∀ (s : Conn.TLoop) (k i f : Nat) (x : Conn.Sub), s.running = true → s.subs[k]? = some x →
      x.stage = .negotiating → Conn.protoAlive s i = true →
      Conn.tstep s (.negOkFb k i f) = Conn.tstep s (.negOk k i) ∧
      (Conn.tstep s (.negOk k i)).loop.exited = none ∧
      (Conn.hasRoom s i → (Conn.tstep s (.negOk k i)).running = true ∧
        (Conn.tstep s (.negOk k i)).loop.ps.log = s.loop.ps.log ++ [.proto i .substreamOpened]) ∧
      (¬ Conn.hasRoom s i → (Conn.tstep s (.negOk k i)).loop.cont = some .substreamReport ∧
        (Conn.tstep s (.negOk k i)).loop.ps.call = .protoSends (.substream i true) [i] false)) ∧
    (∀ (s : Conn.TLoop) (ls : List Conn.TLabel) (k : Nat) (x : Conn.Sub),
      s.subs[k]? = some x → x.stage.pending = false →
      ∃ y, (Conn.trun s ls).subs[k]? = some y ∧ y.stage.pending = false ∧
        Conn.tstep (Conn.trun s ls) (.negFail k) = Conn.trun s ls ∧
        (∀ p, Conn.tstep (Conn.trun s ls) (.negOk k p) = Conn.trun s ls) ∧
        (∀ p f, Conn.tstep (Conn.trun s ls) (.negOkFb k p f) = Conn.trun s ls) ∧
        Conn.tstep (Conn.trun s ls) (.yamuxOpened k) = Conn.trun s ls) := by
  refine ⟨fun s i q hr hq => Conn.takeCmd_opens s i q hr hq,
    fun s ls k x hk hx hrun => Conn.trun_pending_or_ended ls s k x hk hx hrun,
    fun s k i x hr hk hx hout hpr hp => Conn.negFail_answers s hr k i x hk hx hout hpr hp,
    fun s k i f x hr hk hx hp => ?_, fun s ls k x hk hx => ?_⟩
  · obtain ⟨h1, h2, h3⟩ := Conn.negOk_live s hr k i x hk hx hp
    exact ⟨rfl, h1, fun hroom => ⟨(h2 hroom).1, (h2 hroom).2.1⟩, fun hroom => ⟨(h3 hroom).1, (h3 hroom).2.1⟩⟩
  · obtain ⟨y, hy, hyp⟩ := Conn.trun_not_pending ls s k x hk hx
    exact ⟨y, hy, hyp, Conn.ended_noop _ k y hy hyp⟩

/-- Non-vacuity (the C08-d2 shape in miniature): a keep-alive protocol takes the connection and asks for two
substreams; the loop takes both requests; the yamux stream of the first is opened, the second one's never is (remote
does not acknowledge). Every handle is released: the two pending requests keep the connection. Both time out — one
from `negotiating`, one from `opening`: two `SubstreamOpenFailure`s reach protocol 0, the loop still runs; a second
"end" of either future changes nothing; with nothing left the idle exit closes the connection. The hypotheses of
parts 2, 3 and 5 hold along the way. -/
example :
    let s0 := Conn.trun (Conn.tinit [true] 4) [.recv 0, .localOpen 0, .localOpen 0, .takeCmd, .takeCmd, .yamuxOpened 0]
    let s1 := Conn.trun s0 [.downgrade 0, .idleExit, .yamuxOpened 1]
    let s2 := Conn.trun s1 [.negFail 1, .negFail 0]
    s0.subs = [⟨false, some 0, .negotiating⟩, ⟨false, some 0, .opening⟩] ∧ s0.running = true ∧
    Conn.protoAlive s0 0 = true ∧ Conn.hasRoom s0 0 ∧
    s1.subs = [⟨false, some 0, .negotiating⟩, ⟨false, some 0, .negotiating⟩] ∧ s1.loop.exited = none ∧ s1.strong = 2 ∧
    s2.subs = [⟨false, some 0, .gone⟩, ⟨false, some 0, .gone⟩] ∧ s2.running = true ∧
    s2.loop.ps.log = [.proto 0 .openFailure, .proto 0 .openFailure] ∧
    Conn.trun s2 [.negFail 0, .negFail 1, .negOk 0 0, .negOkFb 1 0 1, .yamuxOpened 1] = s2 ∧
    (Conn.trun s2 [.idleExit]).loop.exited = some .ok := by
  refine ⟨by decide, by decide, by decide, ⟨⟨[], 4, true⟩, by decide, by decide⟩, by decide, by decide, by decide,
    by decide, by decide, by decide, by decide, by decide⟩

/-- Non-vacuity: a full channel — the failure report is suspended (nothing lost) and arrives when the protocol reads;
and a request refused because the command channel is full is not a request (`ChannelClogged`, nothing is queued). -/
example :
    let s0 := Conn.trun (Conn.tinit [true] 1) [.recv 0, .localOpen 0, .takeCmd, .fill 0]
    let s1 := Conn.tstep s0 (.negFail 0)
    let s2 := Conn.tstep s1 (.recv 0)
    ¬ Conn.hasRoom s0 0 ∧ s1.loop.cont = some .substreamReport ∧ s1.loop.ps.log = [] ∧
    s2.loop.ps.log = [.proto 0 .openFailure] ∧ s2.running = true := by
  refine ⟨?_, by decide, by decide, by decide, by decide⟩
  rintro ⟨c, hc, hlt⟩
  have : c = ⟨[.filler], 1, true⟩ := by
    have h : (Conn.trun (Conn.tinit [true] 1) [.recv 0, .localOpen 0, .takeCmd, .fill 0]).loop.ps.chans[0]? =
        some ⟨[.filler], 1, true⟩ := by decide
    rw [h] at hc; cases hc; rfl
  subst this
  exact absurd hlt (by decide)

/-- **The report of a negotiated substream is queued before anything else the connection task does — hence before the
close report** (f-round, seeded C08-f1; loop model `Model/Conn/Permits.lean` / `Model/Conn/Close.lean`, tied to the real
`TcpConnection::start` + `ProtocolSet::report_substream_open` by the `tcploop` area, family `order`). `ProtocolSet::
report_substream_open` delivers the event by `tx.send(event).await`: a send that SUSPENDS the loop while the protocol's
channel is full — it is not handed to anybody who delivers it later. For every state of a connection reachable from a
fresh one (`PInv`) in which the loop is at its `select!`, and every negotiation `k` that ends for a LIVE protocol `p`
(`negOk k p`; `L` = the ghost log of enqueues at that moment):

1. at that moment nothing has been reported closed, to anybody (no `ConnectionClosed` of this connection is in any
   channel, nor on its way);
2. if `p`'s channel has room the report is enqueued at once (`LDone`: the log is `L ++ [SubstreamOpened → p]`, the loop
   is back at its `select!`);
3. if it is full the loop waits in exactly that send (`LWait`: continuation `substreamReport`, call
   `protoSends (substream p) [p]`, log still `L`, `p` alive), and for EVERY schedule `ls` of everything that can happen
   afterwards — the remote closing, `ForceClose` and other commands arriving, every handle released, timers firing,
   other protocols reading, filling, shutting down — either the loop is still waiting with NOTHING enqueued since, or
   there is a first transition that changed anything about the loop, and it enqueued exactly the report of the
   substream to `p` (the loop being back at its `select!` only then) — or it was `p` itself shutting down
   (`dropRx p`: nobody left to tell). So whatever is enqueued to `p` after the end of the negotiation — in particular
   the close report of ANY exit path — comes after the substream event in `p`'s FIFO channel;
4. while it waits no event of the connection is processed at all: every transition that is not a move of the other end
   of a channel (`TLabel.isChan`) leaves the loop unchanged. -/
theorem substream_reported_before_close (s : Conn.TLoop) (hinv : Conn.PInv s.loop) (hr : s.running = true)
    (k p : Nat) (x : Conn.Sub) (hk : s.subs[k]? = some x) (hx : x.stage = .negotiating)
    (hp : Conn.protoAlive s p = true) :
    let s1 := Conn.tstep s (.negOk k p)
    let L := s.loop.ps.log
    ((∀ j, Conn.cnt s.loop.ps j .closed = 0) ∧ Conn.mgrCnt s.loop.ps = 0) ∧
    (Conn.hasRoom s p → Conn.LDone p L s1.loop) ∧
    (¬ Conn.hasRoom s p → Conn.LWait p L s1.loop ∧ ∀ ls,
      Conn.LWait p L (Conn.trun s1 ls).loop ∨
      ∃ pre l post, ls = pre ++ l :: post ∧ Conn.LWait p L (Conn.trun s1 pre).loop ∧
        (Conn.LDone p L (Conn.trun s1 (pre ++ [l])).loop ∨ l = .dropRx p)) ∧
    (∀ t : Conn.TLoop, Conn.LWait p L t.loop → ∀ l, l.isChan = false → (Conn.tstep t l).loop = t.loop) := by
  intro s1 L
  refine ⟨Conn.running_none_closed s hinv hr, fun hroom => Conn.negOk_done s hr k p x hk hx hp hroom,
    fun hn => ?_, fun t ht l hl => ?_⟩
  · have hw := Conn.negOk_waits s hr k p x hk hx hp hn
    exact ⟨hw, fun ls => Conn.trun_wait ls s1 p L hw⟩
  · apply Conn.tstep_suspended t l _ hl
    unfold Conn.TLoop.running; rw [ht.1]; simp

/-- Non-vacuity (the C08-f1 shape): two protocols take the connection, the remote opens a substream, protocol 0 becomes
busy (its channel of capacity 1 is full of somebody else's message); the negotiation ends for protocol 0 — the
hypotheses hold, the channel has no room: the loop waits. Protocol 1 force-closes, the remote goes away, the idle exit is
tried: the loop has not moved, the command is still queued. Protocol 0 takes the filler: the substream event is enqueued,
the loop runs again, takes the `ForceClose` and reports: protocol 0 sees the substream BEFORE the close report. -/
example :
    let s := Conn.trun (Conn.tinit [true, true] 1) [.recv 0, .recv 1, .accept, .fill 0]
    let s1 := Conn.tstep s (.negOk 0 0)
    let s2 := Conn.trun s1 [.forceClose 1, .takeCmd, .yamuxEof, .idleExit]
    let s3 := Conn.trun s2 [.recv 0]
    let s4 := Conn.trun s3 [.takeCmd, .recv 0, .recv 0]
    Conn.PInv s.loop ∧
    s.running = true ∧ Conn.protoAlive s 0 = true ∧ s.subs[0]? = some ⟨true, none, .negotiating⟩ ∧
    s1.loop.cont = some .substreamReport ∧ s2.loop = s1.loop ∧ s2.cmdQ = [.forceClose] ∧
    s3.loop.ps.log = [.proto 0 .substreamOpened] ∧ s3.running = true ∧
    s4.loop.exited = some .ok ∧
    s4.loop.ps.log = [.proto 0 .substreamOpened, .proto 1 .closed, .proto 0 .closed, .mgr] :=
  ⟨Conn.trun_pinv _ _ ((Conn.tinit_fresh _ _).pinv rfl rfl), by decide⟩

/-- **Ids are fresh.** For EVERY history the ids returned by accepted `open_substream` calls are
strictly increasing — never reused, also across failed sends and allocations by other users of the
shared counter. -/
theorem ids_fresh (ops : List Op) :
    (acceptedIds (trace {} ops)).Pairwise (· < ·) :=
  ids_fresh_gen ops {}

/-- Non-vacuity: a clogged send and a foreign allocation consume ids in between. -/
example : acceptedIds (trace {} [.inner (.established 1 10), .open 1 true .ok, .open 1 true .full,
    .otherAlloc 3, .open 2 true .ok, .open 1 false .ok, .open 1 true .ok]) = [0, 5] := by decide

end Litep2pVerif.Props.C08

#print axioms Litep2pVerif.Props.C08.alternation
#print axioms Litep2pVerif.Props.C08.closed_iff_last
#print axioms Litep2pVerif.Props.C08.substream_refers_connected
#print axioms Litep2pVerif.Props.C08.open_answered_at_most_once
#print axioms Litep2pVerif.Props.C08.open_answered_once_unless_closed
#print axioms Litep2pVerif.Props.C08.ids_fresh
#print axioms Litep2pVerif.Props.C08.force_close_keeps_context

/-! ## Wiring — what `Litep2p::new` hands over (coverage round `node`)

Over the wiring model `Model/Node/Wiring.lean` (`Node.new c` = `Litep2p::new(ConfigBuilder…build())`), which is tied to
the real `ConfigBuilder`/`Litep2p::new` by the `node` area: the adapter prints the ACTUAL registration record of a node built
through the public API, the driver prints the model's, compared field by field on every run. -/
namespace Litep2pVerif.Props.C08.Wiring
open Litep2pVerif Litep2pVerif.Node

/-- A configuration with every kind of protocol (used by the non-vacuity examples). -/
def sample : Config :=
  { keepAliveMs := some 600, limits := some (some 2, none), listen := [1, 2],
    notif := [⟨"/n/a", 1024, "0102", ["/n/old"], 'a', some 64, some 64, none⟩],
    rr := [⟨"/r/a", 256, 800, ["/r/old"], none⟩, ⟨"/r/b", 64, 800, [], some 1⟩],
    user := [⟨"/u/a", .varint none⟩], kad := [⟨[], none, []⟩], ping := some 1, identify := true, bitswap := true,
    known := some [(0, [.listen 0, .closed, .quic, .wrongPeer 0, .noPeer 0])] }

/-- Identify is told exactly the protocols that were registered (every user protocol among them), and every protocol's
event loop is handed to the executor. -/
theorem identify_told_every_registered_protocol (c : Config) (w : Wired) (h : Node.new c = .ok w) :
    w.identifyProtocols = w.regs.map (·.name) ∧ w.spawned = w.regs.length ∧
    (∀ p ∈ (build c).user, p.name ∈ w.identifyProtocols) ∧
    (∀ p ∈ (build c).notif, p.name ∈ w.identifyProtocols) ∧
    (∀ p ∈ (build c).rr, p.name ∈ w.identifyProtocols) := by
  obtain ⟨_, _, rfl⟩ := wire_ok h
  refine ⟨rfl, rfl, ?_, ?_, ?_⟩
  · intro p hp
    exact List.mem_map.mpr ⟨_, user_mem_registrations _ hp, rfl⟩
  · intro p hp
    exact List.mem_map.mpr ⟨_, notif_mem_registrations _ hp, rfl⟩
  · intro p hp
    exact List.mem_map.mpr ⟨_, rr_mem_registrations _ hp, rfl⟩

example : ∃ w, Node.new sample = .ok w ∧ w.identifyProtocols =
    ["/n/a", "/r/a", "/r/b", "/u/a", pingName, kadName, identifyName, bitswapName] ∧ w.spawned = 8 :=
  ⟨_, rfl, by decide, rfl⟩

end Litep2pVerif.Props.C08.Wiring

#print axioms Litep2pVerif.Props.C08.Wiring.identify_told_every_registered_protocol
#print axioms Litep2pVerif.Props.C08.outbound_open_answered_by_loop
#print axioms Litep2pVerif.Props.C08.substream_reported_before_close
