import Litep2pVerif.Proofs.Noise.Transport
import Litep2pVerif.Proofs.Noise.Align
import Litep2pVerif.Proofs.Noise.Teardown
import Litep2pVerif.Generated.Consts
import Litep2pVerif.Proofs.Node.Wiring
/-!
# C02 — Noise transport delivers the exact byte stream or fails

Property theorems only (model: `Model/Noise/Transport.lean`, lemmas and invariants:
`Proofs/Noise/Transport.lean`, alignment invariant and liveness: `Proofs/Noise/Align.lean`). `realParams F W` are the constants regenerated from
`src/crypto/noise/mod.rs` and snow's `constants.rs` on every run; the arithmetic side conditions on
them are discharged by `decide` (`real_params_ok`), so changing a constant re-checks them.

The cipher is a parameter `w : WireOps C` with laws `WireLaws` (hypotheses, never axioms);
`term_model_laws` / `tamper_instances` show that the free term model satisfies every cipher
hypothesis used below.
-/
namespace Litep2pVerif.Props.C02
open Litep2pVerif Litep2pVerif.Noise.Transport

/-- The free term model satisfies the cipher laws (`|enc n p| = |p| + TAGLEN`, ideal integrity
`dec n c = some p ↔ c = enc n p`, injectivity in nonce and plaintext, byte embedding). -/
theorem term_model_laws (F W : Nat) :
    WireLaws (realParams F W) (termWire (realParams F W).T) := by
  exact termLaws _ (show 1 ≤ Consts.SNOW_TAGLEN by decide)

/-- Side conditions on the extracted constants: `NOISE_EXTRA_ENCRYPT_SPACE` is snow's tag length
(and it is ≥ 1), `MAX_FRAME_LEN ≥ 1`, **`MAX_FRAME_LEN + TAGLEN ≤ snow MAXMSGLEN`** (false before the fix
of §8-a: 65520 + 16 > 65535), a `u16::MAX` frame fits behind the read-ahead area, and every
ciphertext length fits the `u16` prefix (`MAXMSGLEN < 65536`). -/
theorem real_params_ok (F W : Nat) :
    WConsts (realParams F W) ∧ (1 ≤ F → AConsts (realParams F W)) := by
  have h1 : Consts.SNOW_TAGLEN = Consts.NOISE_EXTRA_ENCRYPT_SPACE := by decide
  have h2 : 1 ≤ Consts.MAX_NOISE_MSG_LEN - Consts.NOISE_EXTRA_ENCRYPT_SPACE := by decide
  have h3 : Consts.MAX_NOISE_MSG_LEN - Consts.NOISE_EXTRA_ENCRYPT_SPACE + Consts.SNOW_TAGLEN
      ≤ Consts.SNOW_MAXMSGLEN := by decide
  have h4 : 65533 ≤ Consts.MAX_NOISE_MSG_LEN := by decide
  have h5 : 1 ≤ Consts.SNOW_TAGLEN := by decide
  have h6 : Consts.SNOW_MAXMSGLEN < 65536 := by decide
  exact ⟨⟨h1, h2, h3⟩, fun h => ⟨⟨h1, h, h4⟩, ⟨h1, h2, h3⟩, h5, h6⟩⟩

example : (realParams 5 2).MAXF + (realParams 5 2).T = (realParams 5 2).SNOWMAX := by decide

/-- On the constants before the fix (`MAX_NOISE_MSG_LEN = 65536`) snow refuses every full-size
chunk, whatever the output space: the side condition of `write_total` is necessary. -/
theorem write_total_old_constant_witness {C : Type} (w : WireOps C) (n pos space : Nat) :
    let P : Params := { M := 65536, TAG := 16, SNOWMAX := 65535, T := 16, F := 5, W := 2 }
    snowWrite P w n ⟨pos, P.MAXF⟩ space = none := by
  intro P
  unfold snowWrite
  exact if_pos (Or.inl (show 65536 - 16 + 16 > 65535 by decide))

/-- **write_total.** From every reachable writer state (`WSInv`, see `write_stream_eq` for
reachability), for every buffer length `n` and every behaviour of the carrier: `poll_write` never
panics and never fails with `InvalidData`; if the carrier never fails (`Ok(0)`/`Err`) it returns
`Ok(k)` with `k ≤ n` (`1 ≤ k` for a non-empty buffer) or `Pending`, for every `F`, `W`. -/
theorem write_total {C : Type} (w : WireOps C) (F W : Nat) (hl : WireLaws (realParams F W) w)
    (s : WriteSock C) (c : WCarrier C) (frames : List Chunk) (wpos n : Nat)
    (h : WSInv (realParams F W) w s c frames wpos) :
    let r := pollWrite (realParams F W) w s c wpos n
    (∀ m, r.2.2 ≠ .panic m) ∧ r.2.2 ≠ .err .invalidData ∧
    (NoFault c.script → (∀ e, r.2.2 ≠ .err e) ∧ NoFault r.2.1.script) ∧
    (∀ k, r.2.2 = .ok k → k ≤ n ∧ (0 < n → 1 ≤ k)) := by
  intro r
  have hs := pollWrite_spec (realParams F W) w hl (real_params_ok F W).1 s c frames wpos n h
  refine ⟨hs.1, hs.2.1, fun hf => ⟨(hs.2.2.1 hf).2, (hs.2.2.1 hf).1⟩, fun k hk => ?_⟩
  have h4 := hs.2.2.2
  rw [show (pollWrite (realParams F W) w s c wpos n).2.2 = .ok k from hk] at h4
  exact ⟨h4.1, h4.2.1⟩

example : WSInv (realParams 5 2) (termWire 16) (newWriteSock (realParams 5 2) (termWire 16)) ⟨#[], []⟩ [] 0 :=
  WSInv_init _ _

/-- **write_stream_eq.** The writer invariant holds initially and is preserved by `poll_write`
(`Ok`/`Pending`) and `poll_flush`: what the carrier accepted so far, followed by what waits in the
encrypt buffer, is exactly the wire image (2-byte big-endian length, ciphertext under nonces
0,1,2,…) of consecutive chunks of `1 … MAX_FRAME_LEN` bytes covering plaintext positions
`0 … wpos-1`, where `wpos` is the sum of the accepted counts; after `poll_flush = Ok` the carrier
has all of it. -/
theorem write_stream_eq {C : Type} (w : WireOps C) (F W : Nat) (hl : WireLaws (realParams F W) w) :
    WSInv (realParams F W) w (newWriteSock (realParams F W) w) ⟨#[], []⟩ [] 0 ∧
    (∀ s c frames wpos n, WSInv (realParams F W) w s c frames wpos →
      (∀ k, (pollWrite (realParams F W) w s c wpos n).2.2 = .ok k →
        ∃ fr, WSInv (realParams F W) w (pollWrite (realParams F W) w s c wpos n).1
          (pollWrite (realParams F W) w s c wpos n).2.1 (frames ++ fr) (wpos + k)) ∧
      ((pollWrite (realParams F W) w s c wpos n).2.2 = .pending →
        WSInv (realParams F W) w (pollWrite (realParams F W) w s c wpos n).1
          (pollWrite (realParams F W) w s c wpos n).2.1 frames wpos)) ∧
    (∀ s c frames wpos, WSInv (realParams F W) w s c frames wpos →
      (∀ m, (pollFlush s c).2.2 ≠ .panic m) ∧
      ((∀ e, (pollFlush s c).2.2 ≠ .err e) →
        WSInv (realParams F W) w (pollFlush s c).1 (pollFlush s c).2.1 frames wpos) ∧
      (∀ k, (pollFlush s c).2.2 = .ok k →
        (pollFlush s c).2.1.out.toList = wireOf w (realParams F W).T 0 frames)) := by
  refine ⟨WSInv_init _ _, fun s c frames wpos n h => ?_, fun s c frames wpos h => ?_⟩
  · have hs := (pollWrite_spec (realParams F W) w hl (real_params_ok F W).1 s c frames wpos n h).2.2.2
    constructor
    · intro k hk; rw [hk] at hs; exact hs.2.2
    · intro hp; rw [hp] at hs; exact hs.2
  · have hs := pollFlush_spec (realParams F W) w s c frames wpos h
    exact ⟨hs.1, hs.2.2.1, hs.2.2.2⟩

example : FramesFrom (realParams 5 2).MAXF 0 [⟨0, 65519⟩, ⟨65519, 1⟩] :=
  ⟨rfl, by decide, by decide, rfl, by decide, by decide, trivial⟩

/-- **read_no_oob.** For every stream of bytes the carrier may deliver (honest or not — the only
assumption is ciphertext integrity `Authentic`), every chunking / `Pending` / EOF / error script,
every sequence of reader buffer lengths and every `F ≥ 1`: until the first error is returned, no
poll panics — no slice or index of the read path is out of bounds, `reset_read_state` is never
called with `remaining ≥ 2`, no `expect` fails — and the loop terminates (`diverged` never occurs). -/
theorem read_no_oob {C : Type} (w : WireOps C) (F W : Nat) (hF : 1 ≤ F) (hl : WireLaws (realParams F W) w)
    (B : Nat) (frames : List Chunk) (hfr : FramesFrom B 0 frames) (es : List (REvent C))
    (hauth : Authentic w frames (delivered es)) :
    NoPanic (runReader (realParams F W) w (newReadSock (realParams F W) w) ⟨#[], 0, [], false⟩ es) := by
  have hc := ((real_params_ok F W).2 hF).r
  exact (runReader_inv (realParams F W) w hl hc B frames hfr es _ _ (RInv_init _ w hc ⟨#[], 0, [], false⟩ rfl) 0
    (SInv_init _ w frames) (by simpa using hauth) (Nat.zero_le _)).1

/-- **read_stream_eq.** `frames` are the writer's chunks (consecutive, `1 … MAX_FRAME_LEN` bytes,
see `write_stream_eq`), the carrier transports their wire image. For every `F ≥ 1` and every
environment `es` (deliveries in any chunking, scripts for the inner `poll_read`, `close`, polls with any
buffer lengths):

1. if what is delivered is a prefix of the wire, the bytes returned are a prefix of the plaintext
   (positions `0,1,2,…`: in order, no loss, no duplication) and nothing panics;
2. if all of the wire is delivered by a carrier that never fails (`GoodEnv`: script entries are
   `Pending` or chunk caps ≥ 1, `close` only after the last byte), then
   a. the only error the reader can ever see is `UnexpectedEof`, only after `close`, and only after
      **all** of the plaintext has been returned;
   b. if the reader goes on polling with non-empty buffers — `plen frames + scriptLen es` polls suffice,
      one per byte still to come plus one per possible `Pending` — **all** of the plaintext comes out:
      the output equals `0 … plen frames - 1`. -/
theorem read_stream_eq {C : Type} (w : WireOps C) (F W : Nat) (hF : 1 ≤ F)
    (hl : WireLaws (realParams F W) w) (frames : List Chunk) (hfr : FramesFrom (realParams F W).MAXF 0 frames)
    (hauth : Authentic w frames (wireOf w (realParams F W).T 0 frames)) (es : List (REvent C)) :
    (delivered es <+: wireOf w (realParams F W).T 0 frames →
      outBytes (freshRun (realParams F W) w es) <+: List.range (plen frames) ∧
      NoPanic (freshRun (realParams F W) w es)) ∧
    (delivered es = wireOf w (realParams F W).T 0 frames → GoodEnv es →
      (∀ e, ROut.err e ∈ freshRun (realParams F W) w es →
        e = .eof ∧ Closes es ∧ outBytes (freshRun (realParams F W) w es) = List.range (plen frames)) ∧
      (∀ ks : List Nat, (∀ k ∈ ks, 1 ≤ k) → plen frames + scriptLen es ≤ ks.length →
        outBytes (freshRun (realParams F W) w (es ++ ks.map .poll)) = List.range (plen frames))) := by
  have sc := Scene.honest hl ((real_params_ok F W).2 hF) hfr hauth
  have hS : startOf frames frames.length = plen frames := by simp [startOf]
  refine ⟨fun hd => ?_, fun hd hge => ⟨fun e he => ?_, fun ks hk hb => ?_⟩⟩
  · have := fresh_safe sc es hd
    rw [hS] at this; exact this
  · obtain ⟨i1, _, _⟩ := fresh_complete sc es hd hge [] (by simp)
    simp only [List.map_nil, List.append_nil] at i1
    obtain ⟨j1, j2⟩ := i1 e he
    rw [hS] at j1
    cases e with
    | eof => exact ⟨rfl, j2, j1⟩
    | invalidData => simp [Cause] at j2
    | permissionDenied => exact j2.elim
    | carrier => exact j2.elim
  · have := (fresh_complete sc es hd hge ks hk).2.1
    rw [hS] at this; exact this hb

/-- Non-vacuity: the honest wire of two frames is authentic in the term model, and an environment
with chunk caps, a `Pending`, a delivery in two pieces and a final `close` is good. -/
example : Authentic (termWire 16) [⟨0, 3⟩, ⟨3, 2⟩] (wireOf (termWire 16) 16 0 [⟨0, 3⟩, ⟨3, 2⟩]) :=
  Authentic_term_honest 16 (by decide) _
example : GoodEnv ([.script [.chunk 1, .pend], .deliver [.raw 0, .raw 19], .poll 7, .deliver [.ct 0 0 3 0],
    .close, .poll 1] : List (REvent TCell)) := by
  simp [GoodEnv, GoodScript, GoodR, delivered]

/-- **tamper_detected.** Whatever happens to the ciphertext in transit: write the delivered stream as
the wire image of the first `j` frames, intact, followed by `rest`, where `rest` does *not* begin with
the intact frame `j` (`BadAt`; `tamper_cases` shows that this is what modification, truncation,
replay, drop, reordering and insertion of a frame produce; `j = frames.length` covers bytes appended
after the last frame). Under the ideal-AEAD assumption `Authentic` (only the writer's frame `n`
decrypts under nonce `n`; `tamper_instances`), for every `F ≥ 1` and every environment:

1. whatever prefix of the stream is delivered, in any chunking and with any faults of the carrier,
   the reader's output is a prefix of the plaintext of the `j` intact frames — no byte of the tampered
   frame or of any later frame, nothing altered, skipped or repeated — and nothing panics;
2. if the carrier delivers the tampered stream to its end (`GoodEnv`) and either closes (`Closes`) or
   the frame announced by the first two bytes of `rest` is completely there (`CompleteAt`: the reader
   need not wait for more data to judge it — a cut stream on a carrier that stays open is
   indistinguishable from a slow one), and the reader goes on polling with non-empty buffers, the run
   is **exactly the plaintext of the `j` intact frames followed by an error** (`InvalidData`, or
   `UnexpectedEof` if the stream was cut): never silence, never later plaintext. -/
theorem tamper_detected {C : Type} (w : WireOps C) (F W : Nat) (hF : 1 ≤ F)
    (hl : WireLaws (realParams F W) w) (frames : List Chunk) (hfr : FramesFrom (realParams F W).MAXF 0 frames)
    (j : Nat) (hj : j ≤ frames.length) (rest : List C) (hbad : BadAt w frames j rest)
    (hauth : Authentic w frames (wireOf w (realParams F W).T 0 (frames.take j) ++ rest))
    (es : List (REvent C)) :
    (delivered es <+: wireOf w (realParams F W).T 0 (frames.take j) ++ rest →
      outBytes (freshRun (realParams F W) w es) <+: List.range (plen (frames.take j)) ∧
      NoPanic (freshRun (realParams F W) w es)) ∧
    (delivered es = wireOf w (realParams F W).T 0 (frames.take j) ++ rest → GoodEnv es →
      Closes es ∨ CompleteAt w rest →
      ∀ ks : List Nat, (∀ k ∈ ks, 1 ≤ k) → plen (frames.take j) + scriptLen es + 1 ≤ ks.length →
        ∃ pre e, freshRun (realParams F W) w (es ++ ks.map .poll) = pre ++ [.err e] ∧
          (e = .eof ∨ e = .invalidData) ∧ outBytes pre = List.range (plen (frames.take j))) := by
  have sc : Scene (realParams F W) w frames j rest (wireOf w (realParams F W).T 0 (frames.take j) ++ rest) :=
    { laws := hl, consts := (real_params_ok F W).2 hF, frs := hfr, hj := hj, full_eq := rfl, bad := hbad,
      auth := hauth }
  refine ⟨fun hd => fresh_safe sc es hd, fun hd hge hcl ks hk hb => ?_⟩
  obtain ⟨i1, _, i3⟩ := fresh_complete sc es hd hge ks hk
  obtain ⟨pre, e, hpe⟩ := i3 hcl hb
  obtain ⟨j1, j2⟩ := i1 e (by rw [hpe]; simp)
  refine ⟨pre, e, hpe, ?_, ?_⟩
  · cases e with
    | eof => exact Or.inl rfl
    | invalidData => exact Or.inr rfl
    | permissionDenied => exact j2.elim
    | carrier => exact j2.elim
  · rw [hpe, outBytes_append_err] at j1; exact j1

/-- **tamper_cases.** When does `rest` "not begin with the intact frame `j`"? Whenever the ciphertext
of the writer's `j`-th chunk under nonce `j` does not follow the two length bytes — because a byte of
it was modified, because it was cut short, or because another frame (an earlier one = replay, a later
one = drop / reordering, a foreign one = insertion) stands in its place; whenever fewer than two bytes
follow; and whenever there is no frame `j` at all (bytes appended after the last frame). -/
theorem tamper_cases {C : Type} (w : WireOps C) (frames : List Chunk) (j : Nat) (rest : List C) :
    ((∀ ch, frames[j]? = some ch → ¬ w.enc j ch <+: rest.drop 2) → BadAt w frames j rest) ∧
    (rest.length < 2 → BadAt w frames j rest) ∧
    (frames.length ≤ j → BadAt w frames j rest) :=
  ⟨BadAt_of_not_prefix w frames j rest, BadAt_short w frames j rest, BadAt_end w frames j rest⟩

/-- Non-vacuity in the term model, frames `[(0,1), (1,1)]`, tampering at `j = 1`: a flipped tag
byte; truncation by one byte followed by nothing; replay of frame 0; and at `j = 0`: frame 0 dropped
(frame 1 stands in its place) — each satisfies `BadAt`. -/
example : BadAt (termWire 16) [⟨0, 1⟩, ⟨1, 1⟩] 1
    ((frameBytes (termWire 16) 16 1 ⟨1, 1⟩).set 18 (.mod (.ct 1 1 1 16) 1)) :=
  BadAt_of_not_prefix _ _ _ _ (by intro ch h; cases h; decide)
example : BadAt (termWire 16) [⟨0, 1⟩, ⟨1, 1⟩] 1 ((frameBytes (termWire 16) 16 1 ⟨1, 1⟩).take 18) :=
  BadAt_of_not_prefix _ _ _ _ (by intro ch h; cases h; decide)
example : BadAt (termWire 16) [⟨0, 1⟩, ⟨1, 1⟩] 1 (frameBytes (termWire 16) 16 0 ⟨0, 1⟩) :=
  BadAt_of_not_prefix _ _ _ _ (by intro ch h; cases h; decide)
example : BadAt (termWire 16) [⟨0, 1⟩, ⟨1, 1⟩] 0 (frameBytes (termWire 16) 16 1 ⟨1, 1⟩) :=
  BadAt_of_not_prefix _ _ _ _ (by intro ch h; cases h; decide)
/-- ... and the replayed frame is completely there: the error comes without waiting for `close`. -/
example : CompleteAt (termWire 16) (frameBytes (termWire 16) 16 0 ⟨0, 1⟩) :=
  ⟨_, _, _, rfl, by decide, by decide⟩
example : Closes ([.deliver [.raw 0], .close, .poll 1] : List (REvent TCell)) := trivial

/-- **tamper_instances.** In the term model the integrity hypothesis `Authentic` holds for *every*
stream all of whose ciphertext cells stem from the writer's frames — i.e. for every result of
flipping, truncating, duplicating, dropping and swapping frames of the honest wire (cells are only
moved, removed, or replaced by other values) — and in particular for the honest wire itself. -/
theorem tamper_instances (T : Nat) (hT : 1 ≤ T) (frames : List Chunk) :
    (∀ str : List TCell, (∀ n s l i, TCell.ct n s l i ∈ str → frames[n]? = some ⟨s, l⟩) →
      Authentic (termWire T) frames str) ∧
    Authentic (termWire T) frames (wireOf (termWire T) T 0 frames) :=
  ⟨Authentic_term T hT frames, Authentic_term_honest T hT frames⟩

/-- Non-vacuity: a replayed frame followed by a flipped byte is covered. -/
example : Authentic (termWire 16) [⟨0, 1⟩]
    (frameBytes (termWire 16) 16 0 ⟨0, 1⟩ ++ frameBytes (termWire 16) 16 0 ⟨0, 1⟩ ++ [.mod (.ct 0 0 1 3) 1]) := by
  apply Authentic_term 16 (by decide)
  intro n s l i h
  simp [frameBytes, termWire, termEnc] at h
  obtain ⟨j, hj, h1, h2, h3, h4⟩ := h
  subst h1 h2 h3; rfl

/-- **write_read_roundtrip.** Writer ∘ FIFO carrier ∘ reader, from any reachable writer state
(`WSInv`: `wpos` bytes accepted by `poll_write` so far, see `write_stream_eq`):

1. if what the carrier delivers to the reader (any chunking, any `Pending`s, any faults) is a prefix
   of what the writer handed to the carrier, the reader's output is a prefix of the `wpos` accepted
   bytes and the reader never panics;
2. after the writer's `poll_flush` returned `Ok`, if the carrier never fails and delivers everything it
   got, the reader sees no error except `UnexpectedEof` after `close` and after all `wpos` bytes, and
   by polling with non-empty buffers it obtains **exactly the `wpos` bytes accepted by `poll_write`**. -/
theorem write_read_roundtrip {C : Type} (w : WireOps C) (F W : Nat) (hF : 1 ≤ F)
    (hl : WireLaws (realParams F W) w) (s : WriteSock C) (c : WCarrier C) (frames : List Chunk) (wpos : Nat)
    (hw : WSInv (realParams F W) w s c frames wpos)
    (hauth : Authentic w frames (wireOf w (realParams F W).T 0 frames))
    (es : List (REvent C)) :
    (delivered es <+: c.out.toList →
      outBytes (freshRun (realParams F W) w es) <+: List.range wpos ∧ NoPanic (freshRun (realParams F W) w es)) ∧
    ((∃ k, (pollFlush s c).2.2 = .ok k) → delivered es = (pollFlush s c).2.1.out.toList → GoodEnv es →
      (∀ e, ROut.err e ∈ freshRun (realParams F W) w es →
        e = .eof ∧ Closes es ∧ outBytes (freshRun (realParams F W) w es) = List.range wpos) ∧
      (∀ ks : List Nat, (∀ k ∈ ks, 1 ≤ k) → wpos + scriptLen es ≤ ks.length →
        outBytes (freshRun (realParams F W) w (es ++ ks.map .poll)) = List.range wpos)) := by
  have hr := read_stream_eq w F W hF hl frames hw.frs hauth es
  rw [hw.total] at hr
  refine ⟨fun hd => hr.1 ?_, fun ⟨k, hk⟩ hd => hr.2 ?_⟩
  · obtain ⟨t, ht⟩ := hd
    exact ⟨t ++ wtail s, by rw [← List.append_assoc, ht, hw.stream]⟩
  · rw [hd]
    exact (pollFlush_spec (realParams F W) w s c frames wpos hw).2.2.2 k hk

/-- Non-vacuity: in the initial state a flush succeeds at once (nothing to write). -/
example : ∃ k, (pollFlush (newWriteSock (realParams 5 2) (termWire 16)) ⟨#[], []⟩).2.2 = .ok k := ⟨0, rfl⟩

/-- **flush_delivers_everything_accepted.** `poll_flush` = drain the encrypt buffer, then the carrier's own
`poll_flush` (`pollFlushE`). From every reachable writer state (`WSInv`: `wpos` bytes accepted by `poll_write` so far,
in `frames`; see `write_stream_eq`) and for **every schedule of carrier answers** — `e.wc.script` for the inner
`poll_write`s (partial writes, `Pending`, `Ok(0)`, errors), `e.fscript` for the inner `poll_flush` (`Pending`, error):

1. a poll never panics and keeps the invariant unless it reports an error;
2. a `Pending` is the `Pending` of an inner `poll_write` or of the inner `poll_flush` (the call that registered the
   waker) — never an invention of the socket;
3. however many times the caller polls (`flushRun n` = poll while `Pending`, at most `n` times): when `Ready(Ok)`
   comes back, the carrier has accepted **the complete wire image of all `wpos` bytes `poll_write` ever accepted**,
   nothing is left in the encrypt buffer, and the carrier's own flush completed after its last write;
4. if the carrier never fails, `Ready(Ok)` comes after at most one poll per scripted answer plus one, i.e. as soon as
   the carrier accepts the bytes. -/
theorem flush_delivers_everything_accepted {C : Type} (w : WireOps C) (F W : Nat)
    (s : WriteSock C) (e : WEnv C) (frames : List Chunk) (wpos : Nat)
    (h : WSInv (realParams F W) w s e.wc frames wpos) :
    (∀ m, (pollFlushE s e).2.2 ≠ .panic m) ∧
    ((∀ x, (pollFlushE s e).2.2 ≠ .err x) →
      WSInv (realParams F W) w (pollFlushE s e).1 (pollFlushE s e).2.1.wc frames wpos) ∧
    ((pollFlushE s e).2.2 = .pending →
      (drain (drainFuel s) s e.wc).2.2 = .blocked ∨ e.fscript.head? = some .pend) ∧
    (∀ n k, (flushRun n s e).2.2 = .ok k →
      (flushRun n s e).2.1.wc.out.toList = wireOf w (realParams F W).T 0 frames ∧ plen frames = wpos ∧
      (flushRun n s e).1.st = .idle ∧ (flushRun n s e).2.1.flushed = (flushRun n s e).2.1.wc.out.size) ∧
    (GoodWEnv e → ∃ k, (flushRun (e.todo + 1) s e).2.2 = .ok k) := by
  have fp := pollFlushE_spec (realParams F W) w s e frames wpos h
  refine ⟨fp.nopanic, fp.keep, fun hp => (fp.pend hp).1, fun n k hk => ?_, fun g => ?_⟩
  · have := (flushRun_spec (realParams F W) w frames wpos n s e h).2.1 k hk
    exact ⟨this.1, h.total, this.2⟩
  · exact (flushRun_spec (realParams F W) w frames wpos (e.todo + 1) s e h).2.2 g (Nat.lt_succ_self _)

/-- Non-vacuity: a fresh writer over a carrier that stalls, takes 3 bytes, stalls again, and whose own flush is
`Pending` once, is a reachable state with a carrier that never fails; and `flushRun` really polls: with that carrier
the first two polls of an (empty) flush are `Pending`, the third is `Ok`. -/
example : WSInv (realParams 5 2) (termWire 16) (newWriteSock (realParams 5 2) (termWire 16))
    (⟨⟨#[], [.pend, .acc 3, .pend]⟩, [.pend], [.pend], 0, false⟩ : WEnv TCell).wc [] 0 :=
  ⟨⟨by simp [newWriteSock], trivial⟩, trivial, rfl, rfl, by simp [wtail, newWriteSock, wireOf]⟩
example : GoodWEnv (⟨⟨#[], [.pend, .acc 3, .pend]⟩, [.pend], [.pend], 0, false⟩ : WEnv TCell) :=
  ⟨by simp [NoFault, GoodW], by simp [GoodF], by simp [GoodF]⟩
example : (flushRun 1 (⟨#[], .idle, 0⟩ : WriteSock TCell) ⟨⟨#[], []⟩, [.pend], [], 0, false⟩).2.2 = .pending ∧
    (flushRun 2 (⟨#[], .idle, 0⟩ : WriteSock TCell) ⟨⟨#[], []⟩, [.pend], [], 0, false⟩).2.2 = .ok 0 := by
  decide

/-- **close_delivers_everything_accepted.** `poll_close` = `ready!(poll_flush)?`, then the carrier's `poll_close`
(`pollCloseE`). From every reachable writer state whose carrier is still open, for every schedule of carrier answers
(`e.wc.script`, `e.fscript`, `e.cscript`):

1. a poll never panics and keeps the invariant unless it reports an error; a `Pending` is a `Pending` of the carrier;
2. the carrier's write half gets closed **only** by a poll that returns `Ready(Ok)` — never while the flush is
   `Pending` or failed (`closeRun n` = poll while `Pending`, at most `n` times);
3. when `Ready(Ok)` comes back the carrier has accepted the complete wire image of **all `wpos` bytes `poll_write` ever
   accepted**, nothing is left in the encrypt buffer, the carrier is closed — and a reader fed with exactly these bytes by
   a carrier that never fails (any chunking, any `Pending`s) obtains exactly the plaintext `0 … wpos-1`: in order, no
   loss, no duplication (via `read_stream_eq`);
4. if the carrier never fails, `Ready(Ok)` comes after at most one poll per scripted answer plus one. -/
theorem close_delivers_everything_accepted {C : Type} (w : WireOps C) (F W : Nat)
    (s : WriteSock C) (e : WEnv C) (frames : List Chunk) (wpos : Nat)
    (h : WSInv (realParams F W) w s e.wc frames wpos) (hopen : e.closed = false) :
    (∀ m, (pollCloseE s e).2.2 ≠ .panic m) ∧
    ((∀ x, (pollCloseE s e).2.2 ≠ .err x) →
      WSInv (realParams F W) w (pollCloseE s e).1 (pollCloseE s e).2.1.wc frames wpos) ∧
    ((pollCloseE s e).2.2 = .pending →
      (drain (drainFuel s) s e.wc).2.2 = .blocked ∨ e.fscript.head? = some .pend ∨ e.cscript.head? = some .pend) ∧
    (∀ n, (closeRun n s e).2.1.closed = true → ∃ k, (closeRun n s e).2.2 = .ok k) ∧
    (∀ n k, (closeRun n s e).2.2 = .ok k →
      (closeRun n s e).2.1.wc.out.toList = wireOf w (realParams F W).T 0 frames ∧ plen frames = wpos ∧
      (closeRun n s e).1.st = .idle ∧ (closeRun n s e).2.1.closed = true ∧
      (1 ≤ F → WireLaws (realParams F W) w → Authentic w frames (wireOf w (realParams F W).T 0 frames) →
        ∀ es : List (REvent C), delivered es = (closeRun n s e).2.1.wc.out.toList → GoodEnv es →
        ∀ ks : List Nat, (∀ k ∈ ks, 1 ≤ k) → wpos + scriptLen es ≤ ks.length →
          outBytes (freshRun (realParams F W) w (es ++ ks.map .poll)) = List.range wpos)) ∧
    (GoodWEnv e → ∃ k, (closeRun (e.todo + 1) s e).2.2 = .ok k) := by
  have cp := pollCloseE_spec (realParams F W) w s e frames wpos h
  refine ⟨cp.nopanic, cp.keep, fun hp => (cp.pend hp).1, fun n => ?_, fun n k hk => ?_, fun g => ?_⟩
  · exact (closeRun_spec (realParams F W) w frames wpos n s e h hopen).2.1
  · have := (closeRun_spec (realParams F W) w frames wpos n s e h hopen).2.2.1 k hk
    refine ⟨this.1, h.total, this.2.1, this.2.2, fun hF hl hauth es hd hge ks hks hlen => ?_⟩
    have hr := (read_stream_eq w F W hF hl frames h.frs hauth es).2 (by rw [hd, this.1]) hge
    rw [h.total] at hr
    exact hr.2 ks hks hlen
  · exact (closeRun_spec (realParams F W) w frames wpos (e.todo + 1) s e h hopen).2.2.2 g (Nat.lt_succ_self _)

/-- Non-vacuity: teardown under back-pressure in the small — something waits in the encrypt buffer (`Writing 0..2`), the
carrier answers `Pending` to the first inner write: the first `poll_close` is `Pending` and leaves the carrier open with
nothing written; the second one writes the two bytes, closes the carrier and returns `Ok`. -/
example :
    let s : WriteSock TCell := ⟨#[.raw 0, .raw 7], .writing 0 2, 0⟩
    let e : WEnv TCell := ⟨⟨#[], [.pend]⟩, [], [], 0, false⟩
    (closeRun 1 s e).2.2 = .pending ∧ (closeRun 1 s e).2.1.closed = false ∧ (closeRun 1 s e).2.1.wc.out = #[] ∧
    (closeRun 2 s e).2.2 = .ok 0 ∧ (closeRun 2 s e).2.1.closed = true ∧
    (closeRun 2 s e).2.1.wc.out = #[.raw 0, .raw 7] := by
  decide

/-- **write_pending_registered.** No lost wake-up on the write path: for every `W ≥ 1`, from every reachable writer
state and for every behaviour of the carrier, `poll_write` answers `Pending` only if, in this very call, the encrypt
buffer could not be drained because the inner `poll_write` answered `Pending` (the call that registered the caller's
waker) — the claim of the comment at `if total_plaintext == 0` in the code; a socket that returned `Pending` on its own
would never be polled again. (The same fact for `poll_flush` / `poll_close` is item 2 of the two theorems above.) -/
theorem write_pending_registered {C : Type} (w : WireOps C) (F W : Nat) (hW : 1 ≤ W)
    (s : WriteSock C) (c : WCarrier C) (frames : List Chunk) (wpos n : Nat)
    (h : WSInv (realParams F W) w s c frames wpos)
    (hp : (pollWrite (realParams F W) w s c wpos n).2.2 = .pending) :
    (drain (drainFuel s) s c).2.2 = .blocked :=
  pollWrite_pending_blocked (realParams F W) w (real_params_ok F W).1 hW s c wpos n h.inv hp

/-- Non-vacuity: with `W = 1`, a full frame waiting in the encrypt buffer and a carrier that answers `Pending`, a second
write is `Pending` (and the drain was `blocked`); hypotheses and conclusion on a small instance of the same shape. -/
example :
    let P : Params := { M := 20, TAG := 16, SNOWMAX := 20, T := 16, F := 1, W := 1 }
    let s : WriteSock TCell := ⟨Array.replicate 22 (.raw 0), .writing 0 22, 1⟩
    (pollWrite P (termWire 16) s ⟨#[], [.pend]⟩ 4 4).2.2 = .pending ∧
    (drain (drainFuel s) s ⟨#[], [.pend]⟩).2.2 = .blocked := by
  decide

#print axioms term_model_laws
#print axioms real_params_ok
#print axioms write_total_old_constant_witness
#print axioms write_total
#print axioms write_stream_eq
#print axioms read_no_oob
#print axioms read_stream_eq
#print axioms tamper_detected
#print axioms tamper_cases
#print axioms tamper_instances
#print axioms write_read_roundtrip
#print axioms flush_delivers_everything_accepted
#print axioms close_delivers_everything_accepted
#print axioms write_pending_registered

end Litep2pVerif.Props.C02

/-! ## Wiring — the Noise buffer sizes of the TCP transport configuration

Over the wiring model `Model/Node/Wiring.lean` (`Node.new c` = `Litep2p::new(ConfigBuilder…build())`, `notes` / `tcpHeld` =
what the constructed protocol objects / the TCP transport hold, `protocolCodec` = `ProtocolSet::protocol_codec`), tied to
the real code by the `node` area: real nodes built through the public API print what the CONSTRUCTED objects hold and what
a connection's `ProtocolSet` answers for every main and fallback name; the driver prints the model's; compared exactly. -/
namespace Litep2pVerif.Props.C02.Wiring
open Litep2pVerif Litep2pVerif.Node

/-- Kademlia setter calls of the sample: a later call overrides an earlier one; zero bounds. -/
def sampleSets : List KadSet := [.maxRecords 5, .replication 3, .maxRecords 0, .maxProviderKeys 0, .validationMode false]

/-- A configuration with fallback names, zero store bounds and non-default transport settings (non-vacuity examples). -/
def sample : Config :=
  { keepAliveMs := some 600, listen := [1],
    notif := [{ name := "/n/new", max := 32, handshake := "01", fallback := ["/n/a"], mode := 'a', sync := some 7, async := none,
                dial := some false }],
    rr := [{ name := "/r/new", max := 256, timeoutMs := 800, fallback := ["/r/a", "/r/b"], maxInbound := some 3 }],
    user := [⟨"/u/a", .identity 8⟩],
    kad := [{ names := ["/k/2", "/k/1"], max := some 2048,
              sets := sampleSets }],
    ping := some 1, identify := true, bitswap := true, maxParallelDials := some 0,
    tcpSets := [.readAhead 3, .parallelDials 7, .writeBuffer 4] }

/-- The TCP transport is constructed with the Noise read-ahead frame count and write buffer size of the user's
`tcp::config::Config` (a value set last is the value held; the crate defaults when nothing was set): the sizes every
connection's `NoiseSocket` is built with. -/
theorem noise_config_reaches_transport (c : Config) :
    (∀ sets n, c.tcpSets = sets ++ [.readAhead n] → (tcpHeld (build c)).readAhead = n) ∧
    (∀ sets n, c.tcpSets = sets ++ [.writeBuffer n] → (tcpHeld (build c)).writeBuffer = n) ∧
    (c.tcpSets = [] → (tcpHeld (build c)).readAhead = Consts.NODE_NOISE_READ_AHEAD ∧
      (tcpHeld (build c)).writeBuffer = Consts.NODE_NOISE_WRITE_BUFFER) := by
  refine ⟨fun sets n h => ?_, fun sets n h => ?_, fun h => ?_⟩
  · rw [tcpHeld_append (build c) sets _ h]; rfl
  · rw [tcpHeld_append (build c) sets _ h]; rfl
  · simp [tcpHeld, build, h]

example : (tcpHeld (build sample)).readAhead = 3 ∧ (tcpHeld (build sample)).writeBuffer = 4 := by decide

end Litep2pVerif.Props.C02.Wiring

#print axioms Litep2pVerif.Props.C02.Wiring.noise_config_reaches_transport
