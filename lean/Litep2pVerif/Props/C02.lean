import Litep2pVerif.Proofs.Noise.Transport
import Litep2pVerif.Generated.Consts
/-!
# C02 — Noise transport delivers the exact byte stream or fails

Property theorems only (model: `Model/Noise/Transport.lean`, lemmas and invariants:
`Proofs/Noise/Transport.lean`). `realParams F W` are the constants regenerated from
`src/crypto/noise/mod.rs` and snow's `constants.rs` on every run; the arithmetic side conditions on
them are discharged by `decide` (`real_params_ok`), so changing a constant re-checks them.

The cipher is a parameter `w : WireOps C` with laws `WireLaws` (hypotheses, never axioms);
`term_model_laws` / `tamper_instances` show that the free term model satisfies every cipher
hypothesis used below.
-/
namespace Litep2pVerif.Props.C02
open Litep2pVerif Litep2pVerif.Noise.Transport

/-- The free term model satisfies the cipher laws (`|enc n p| = |p| + TAGLEN`, ideal integrity
`dec n c = some p ↔ c = enc n p`, injectivity in nonce and plaintext, byte embedding). -/
theorem term_model_laws (F W : Nat) :
    WireLaws (realParams F W) (termWire (realParams F W).T) := by
  exact termLaws _ (show 1 ≤ Consts.SNOW_TAGLEN by decide)

/-- Side conditions on the extracted constants: `NOISE_EXTRA_ENCRYPT_SPACE` is snow's tag length,
`MAX_FRAME_LEN ≥ 1`, **`MAX_FRAME_LEN + TAGLEN ≤ snow MAXMSGLEN`** (false before the fix of §8-a:
65520 + 16 > 65535), and a `u16::MAX` frame fits behind the read-ahead area. -/
theorem real_params_ok (F W : Nat) :
    WConsts (realParams F W) ∧ (1 ≤ F → RConsts (realParams F W)) := by
  have h1 : Consts.SNOW_TAGLEN = Consts.NOISE_EXTRA_ENCRYPT_SPACE := by decide
  have h2 : 1 ≤ Consts.MAX_NOISE_MSG_LEN - Consts.NOISE_EXTRA_ENCRYPT_SPACE := by decide
  have h3 : Consts.MAX_NOISE_MSG_LEN - Consts.NOISE_EXTRA_ENCRYPT_SPACE + Consts.SNOW_TAGLEN
      ≤ Consts.SNOW_MAXMSGLEN := by decide
  have h4 : 65533 ≤ Consts.MAX_NOISE_MSG_LEN := by decide
  exact ⟨⟨h1, h2, h3⟩, fun h => ⟨h1, h, h4⟩⟩

example : (realParams 5 2).MAXF + (realParams 5 2).T = (realParams 5 2).SNOWMAX := by decide

/-- On the constants before the fix (`MAX_NOISE_MSG_LEN = 65536`) snow refuses every full-size
chunk, whatever the output space: the side condition of `write_total` is necessary. -/
theorem write_total_old_constant_witness {C : Type} (w : WireOps C) (n pos space : Nat) :
    let P : Params := { M := 65536, TAG := 16, SNOWMAX := 65535, T := 16, F := 5, W := 2 }
    snowWrite P w n ⟨pos, P.MAXF⟩ space = none := by
  intro P
  unfold snowWrite
  exact if_pos (Or.inl (show 65536 - 16 + 16 > 65535 by decide))

/-- **write_total.** From every reachable writer state (`WSInv`, see `write_stream_eq` for
reachability), for every buffer length `n` and every behaviour of the carrier: `poll_write` never
panics and never fails with `InvalidData`; if the carrier never fails (`Ok(0)`/`Err`) it returns
`Ok(k)` with `k ≤ n` (`1 ≤ k` for a non-empty buffer) or `Pending`, for every `F`, `W`. -/
theorem write_total {C : Type} (w : WireOps C) (F W : Nat) (hl : WireLaws (realParams F W) w)
    (s : WriteSock C) (c : WCarrier C) (frames : List Chunk) (wpos n : Nat)
    (h : WSInv (realParams F W) w s c frames wpos) :
    let r := pollWrite (realParams F W) w s c wpos n
    (∀ m, r.2.2 ≠ .panic m) ∧ r.2.2 ≠ .err .invalidData ∧
    (NoFault c.script → (∀ e, r.2.2 ≠ .err e) ∧ NoFault r.2.1.script) ∧
    (∀ k, r.2.2 = .ok k → k ≤ n ∧ (0 < n → 1 ≤ k)) := by
  intro r
  have hs := pollWrite_spec (realParams F W) w hl (real_params_ok F W).1 s c frames wpos n h
  refine ⟨hs.1, hs.2.1, fun hf => ⟨(hs.2.2.1 hf).2, (hs.2.2.1 hf).1⟩, fun k hk => ?_⟩
  have h4 := hs.2.2.2
  rw [show (pollWrite (realParams F W) w s c wpos n).2.2 = .ok k from hk] at h4
  exact ⟨h4.1, h4.2.1⟩

example : WSInv (realParams 5 2) (termWire 16) (newWriteSock (realParams 5 2) (termWire 16)) ⟨#[], []⟩ [] 0 :=
  WSInv_init _ _

/-- **write_stream_eq.** The writer invariant holds initially and is preserved by `poll_write`
(`Ok`/`Pending`) and `poll_flush`: what the carrier accepted so far, followed by what waits in the
encrypt buffer, is exactly the wire image (2-byte big-endian length, ciphertext under nonces
0,1,2,…) of consecutive chunks of `1 … MAX_FRAME_LEN` bytes covering plaintext positions
`0 … wpos-1`, where `wpos` is the sum of the accepted counts; after `poll_flush = Ok` the carrier
has all of it. -/
theorem write_stream_eq {C : Type} (w : WireOps C) (F W : Nat) (hl : WireLaws (realParams F W) w) :
    WSInv (realParams F W) w (newWriteSock (realParams F W) w) ⟨#[], []⟩ [] 0 ∧
    (∀ s c frames wpos n, WSInv (realParams F W) w s c frames wpos →
      (∀ k, (pollWrite (realParams F W) w s c wpos n).2.2 = .ok k →
        ∃ fr, WSInv (realParams F W) w (pollWrite (realParams F W) w s c wpos n).1
          (pollWrite (realParams F W) w s c wpos n).2.1 (frames ++ fr) (wpos + k)) ∧
      ((pollWrite (realParams F W) w s c wpos n).2.2 = .pending →
        WSInv (realParams F W) w (pollWrite (realParams F W) w s c wpos n).1
          (pollWrite (realParams F W) w s c wpos n).2.1 frames wpos)) ∧
    (∀ s c frames wpos, WSInv (realParams F W) w s c frames wpos →
      (∀ m, (pollFlush s c).2.2 ≠ .panic m) ∧
      ((∀ e, (pollFlush s c).2.2 ≠ .err e) →
        WSInv (realParams F W) w (pollFlush s c).1 (pollFlush s c).2.1 frames wpos) ∧
      (∀ k, (pollFlush s c).2.2 = .ok k →
        (pollFlush s c).2.1.out.toList = wireOf w (realParams F W).T 0 frames)) := by
  refine ⟨WSInv_init _ _, fun s c frames wpos n h => ?_, fun s c frames wpos h => ?_⟩
  · have hs := (pollWrite_spec (realParams F W) w hl (real_params_ok F W).1 s c frames wpos n h).2.2.2
    constructor
    · intro k hk; rw [hk] at hs; exact hs.2.2
    · intro hp; rw [hp] at hs; exact hs.2
  · have hs := pollFlush_spec (realParams F W) w s c frames wpos h
    exact ⟨hs.1, hs.2.2.1, hs.2.2.2⟩

example : FramesFrom (realParams 5 2).MAXF 0 [⟨0, 65519⟩, ⟨65519, 1⟩] :=
  ⟨rfl, by decide, by decide, rfl, by decide, by decide, trivial⟩

/-- **read_no_oob.** For every stream of bytes the carrier may deliver (honest or not — the only
assumption is ciphertext integrity `Authentic`), every chunking / `Pending` / EOF / error script,
every sequence of reader buffer lengths and every `F ≥ 1`: until the first error is returned, no
poll panics — no slice or index of the read path is out of bounds, `reset_read_state` is never
called with `remaining ≥ 2`, no `expect` fails — and the loop terminates (`diverged` never occurs). -/
theorem read_no_oob {C : Type} (w : WireOps C) (F W : Nat) (hF : 1 ≤ F) (hl : WireLaws (realParams F W) w)
    (B : Nat) (frames : List Chunk) (hfr : FramesFrom B 0 frames) (es : List (REvent C))
    (hauth : Authentic w frames (delivered es)) :
    NoPanic (runReader (realParams F W) w (newReadSock (realParams F W) w) ⟨#[], 0, [], false⟩ es) := by
  have hc := (real_params_ok F W).2 hF
  exact (runReader_inv (realParams F W) w hl hc B frames hfr es _ _ (RInv_init _ w hc ⟨#[], 0, [], false⟩ rfl) 0
    (SInv_init _ w frames) (by simpa using hauth) (Nat.zero_le _)).1

/-- **read_stream_eq (prefix half; see the report for the missing half).** Same quantifiers as
`read_no_oob`: the concatenation of all bytes returned by the reader is a prefix of the writer's
plaintext stream (stream positions `0,1,2,…` in order, without loss, duplication or reordering).
Holds for arbitrary delivered streams, in particular for every prefix of the honest wire. -/
theorem read_stream_eq_partial {C : Type} (w : WireOps C) (F W : Nat) (hF : 1 ≤ F)
    (hl : WireLaws (realParams F W) w) (B : Nat) (frames : List Chunk) (hfr : FramesFrom B 0 frames)
    (es : List (REvent C)) (hauth : Authentic w frames (delivered es)) :
    outBytes (runReader (realParams F W) w (newReadSock (realParams F W) w) ⟨#[], 0, [], false⟩ es)
      <+: List.range (plen frames) := by
  have hc := (real_params_ok F W).2 hF
  obtain ⟨_, m, h1, h2⟩ := runReader_inv (realParams F W) w hl hc B frames hfr es _ _ (RInv_init _ w hc ⟨#[], 0, [], false⟩ rfl) 0
    (SInv_init _ w frames) (by simpa using hauth) (Nat.zero_le _)
  rw [h1, List.range_eq_range']
  have : plen frames = m + (plen frames - m) := by omega
  rw [this, ← List.range'_append_1]
  simp only [Nat.zero_add]
  exact List.prefix_append _ _

/-- Non-vacuity: the honest wire of two frames is authentic in the term model. -/
example : Authentic (termWire 16) [⟨0, 3⟩, ⟨3, 2⟩] (wireOf (termWire 16) 16 0 [⟨0, 3⟩, ⟨3, 2⟩]) :=
  Authentic_term_honest 16 (by decide) _

/-- **tamper_detected (safety half).** Whatever an attacker does to the ciphertext in transit —
modify, truncate, replay, drop, reorder, insert, at any granularity (the delivered stream is
arbitrary; under the ideal-AEAD assumption only the writer's frame `n` decrypts under nonce `n`) —
the reader never returns a byte that differs from the true plaintext stream at that position,
never skips and never repeats one, and never panics. (That an error *follows* is not proved in
Lean; the correspondence run and the oracle check it, see the report.) -/
theorem tamper_detected_partial {C : Type} (w : WireOps C) (F W : Nat) (hF : 1 ≤ F)
    (hl : WireLaws (realParams F W) w) (B : Nat) (frames : List Chunk) (hfr : FramesFrom B 0 frames)
    (es : List (REvent C)) (hauth : Authentic w frames (delivered es)) :
    let outs := runReader (realParams F W) w (newReadSock (realParams F W) w) ⟨#[], 0, [], false⟩ es
    outBytes outs <+: List.range (plen frames) ∧ NoPanic outs :=
  ⟨read_stream_eq_partial w F W hF hl B frames hfr es hauth, read_no_oob w F W hF hl B frames hfr es hauth⟩

/-- **tamper_instances.** In the term model the integrity hypothesis `Authentic` holds for *every*
stream all of whose ciphertext cells stem from the writer's frames — i.e. for every result of
flipping, truncating, duplicating, dropping and swapping frames of the honest wire (cells are only
moved, removed, or replaced by other values) — and in particular for the honest wire itself. -/
theorem tamper_instances (T : Nat) (hT : 1 ≤ T) (frames : List Chunk) :
    (∀ str : List TCell, (∀ n s l i, TCell.ct n s l i ∈ str → frames[n]? = some ⟨s, l⟩) →
      Authentic (termWire T) frames str) ∧
    Authentic (termWire T) frames (wireOf (termWire T) T 0 frames) :=
  ⟨Authentic_term T hT frames, Authentic_term_honest T hT frames⟩

/-- Non-vacuity: a replayed frame followed by a flipped byte is covered. -/
example : Authentic (termWire 16) [⟨0, 1⟩]
    (frameBytes (termWire 16) 16 0 ⟨0, 1⟩ ++ frameBytes (termWire 16) 16 0 ⟨0, 1⟩ ++ [.mod (.ct 0 0 1 3) 1]) := by
  apply Authentic_term 16 (by decide)
  intro n s l i h
  simp [frameBytes, termWire, termEnc] at h
  obtain ⟨j, hj, h1, h2, h3, h4⟩ := h
  subst h1 h2 h3; rfl

/-- **write_read_roundtrip (prefix half).** Writer ∘ FIFO carrier ∘ reader: in any reachable writer
state, if what the carrier delivers to the reader (in any chunking, with any `Pending`s) is a prefix
of what the writer handed to the carrier, then the reader's output is a prefix of the `wpos`
plaintext bytes accepted by `poll_write`, and the reader never panics. -/
theorem write_read_roundtrip_partial {C : Type} (w : WireOps C) (F W : Nat) (hF : 1 ≤ F)
    (hl : WireLaws (realParams F W) w) (s : WriteSock C) (c : WCarrier C) (frames : List Chunk) (wpos : Nat)
    (hw : WSInv (realParams F W) w s c frames wpos)
    (hauth : Authentic w frames (wireOf w (realParams F W).T 0 frames))
    (es : List (REvent C)) (hfifo : delivered es <+: c.out.toList) :
    let outs := runReader (realParams F W) w (newReadSock (realParams F W) w) ⟨#[], 0, [], false⟩ es
    outBytes outs <+: List.range wpos ∧ NoPanic outs := by
  obtain ⟨rest, hrest⟩ := hfifo
  have ha : Authentic w frames (delivered es) := by
    apply Authentic_prefix w frames _ (rest ++ wtail s)
    rw [← List.append_assoc, hrest, hw.stream]
    exact hauth
  have := tamper_detected_partial w F W hF hl _ frames hw.frs es ha
  rw [hw.total] at this
  exact this

#print axioms term_model_laws
#print axioms real_params_ok
#print axioms write_total_old_constant_witness
#print axioms write_total
#print axioms write_stream_eq
#print axioms read_no_oob
#print axioms read_stream_eq_partial
#print axioms tamper_detected_partial
#print axioms tamper_instances
#print axioms write_read_roundtrip_partial

end Litep2pVerif.Props.C02
