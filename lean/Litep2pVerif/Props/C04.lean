import Litep2pVerif.Proofs.Substream.Codec
import Litep2pVerif.Proofs.Substream.Sink
import Litep2pVerif.Proofs.Substream.Varint
import Litep2pVerif.Proofs.Substream.TokioCodec
import Litep2pVerif.Proofs.Node.Wiring
/-!
# C04 — Framed substream messages round-trip exactly within configured limits

Property theorems only. Models: `Model/Substream/Codec.lean` (`Stream::poll_next`,
`read_payload_size`, unsigned-varint loops) and `Model/Substream/Sink.lean` (`Sink`, `send_framed`);
helper lemmas in `Proofs/Substream/`. The models describe the tree after three `fix:` commits (initial
read buffer sized from the codec; `poll_flush` returns `Pending` while frames remain; length-prefix
cursor reset on a length error); on the tree before them `no_oob` and `flush_complete` are false
(see the `example`s marked *pre-fix*).
-/
namespace Litep2pVerif.Props.C04
open Litep2pVerif Litep2pVerif.Substream

/-! ## Receiver: never a panic, bounded allocation -/

/-- **No out-of-bounds slice, no failed debug assertion.** For every codec configuration
(`Identity(n)` for every `n`, `UnsignedVarint(max)` for every `max`), whatever the carrier does
(any bytes in any fragmentation, `Pending`, errors, end of stream, in any order) and however long the
caller keeps polling (also after errors), no `poll_next` call panics. -/
theorem no_oob (codec : Codec) (car : Carrier) : ∀ o ∈ recvAll codec car, o.isPanic = false :=
  recvAllF_no_panic codec _ _ car (rinv_init codec)

/-- Non-vacuity: `Identity(2048)` (above the 1024-byte buffer other codecs start with) receives its
frame; garbage after a length error is answered with errors. -/
example : received (.identity 3) [.data [1, 2], .pending, .data [3, 4, 5, 6]] = [.frame [1, 2, 3], .frame [4, 5, 6]] := by
  decide
example : received (.varint (some 2)) [.data [3, 9, 0x80, 0x80], .err, .data [0x80, 0x80, 0x80, 0x80, 0x80, 0x80, 0x80, 0x80, 1]] =
    [.err .readFailure, .err .readFailure, .eof, .err .readFailure] := by decide
/-- *pre-fix*: the checked slice does catch the defect — with the 1024-byte initial buffer of the old
constructor, `Identity(2048)` panics on the first poll. -/
example : (pollNext (.identity 2048) ⟨1024, [], 0, none, []⟩ [.data [7]]).1.isPanic = true := by decide
/-- *pre-fix*: without the cursor reset, polling again after an over-long prefix indexes past the end of `size_vec`. -/
example : (pollNext (.varint none) ⟨0, [], SIZE_VEC_LEN, none, List.replicate SIZE_VEC_LEN 0x80⟩ [.data [1]]).1.isPanic = true := by decide

/-- **Allocation bound.** With a maximum configured, in every state the reader can reach — whatever
bytes a peer sends — `read_buffer` is never longer than `max` (or the fixed initial buffer), and a
frame body is only ever awaited for an announced size `≤ max`. -/
theorem alloc_bound (m : Nat) (st : RState) (h : Reach (.varint (some m)) st) :
    st.rbLen ≤ Nat.max INITIAL_READ_BUFFER m ∧ ∀ fs, st.cur = some fs → fs ≤ m ∧ st.rbLen = fs := by
  have hinv := reach_inv h
  obtain ⟨ha, hb⟩ := hinv
  refine ⟨ha, ?_⟩
  intro fs hfs
  rw [hfs] at hb
  obtain ⟨h1, _, _, _, h5⟩ := hb
  exact ⟨by simpa [overMax] using h5, h1⟩

/-- Every state `poll_next` passes through is covered by `alloc_bound` (and `no_oob`'s invariant). -/
theorem alloc_bound_covers (codec : Codec) (st : RState) (car : Carrier) (h : Reach codec st) :
    Reach codec (pollNext codec st car).2.1 := reach_pollNextF codec _ st car h

/-- Non-vacuity: a state awaiting a 2-byte body under `max = 2` is reachable. -/
example : Reach (.varint (some 2)) ⟨2, [], 0, some 2, []⟩ :=
  Reach.step (RState.init (.varint (some 2))) 1 (.ok [2]) Reach.init (by rfl) (by intro bs h; cases h; decide)

/-! ## Round trip -/

/-- **Round trip.** For every codec configuration (`Identity(n)`, `n ≥ 1`; `UnsignedVarint(max)`, any
`max`), every list of messages the sender accepts (lengths below 2^64), and every behaviour of a
healthy carrier — the wire bytes cut into arbitrary segments, each inner read returning any
non-empty part of a segment that fits, `Pending` anywhere, the reader polled again after every
`Pending` — the frames the reader returns are exactly the messages, in order, and nothing else. -/
theorem stream_roundtrip (codec : Codec) (hc : codec ≠ .identity 0) (msgs : List Bytes)
    (hm : ∀ m ∈ msgs, accepts codec m = true ∧ m.length < 2 ^ 64)
    (car : Carrier) (hd : DataOnly car) (hb : carBytes car = encodeAll codec msgs) :
    received codec car = msgs.map .frame := by
  unfold received recvAll
  rw [recvAllF_consume codec hc _ _ car (rinv_init codec) hd (by omega), hb]
  refine (consume_all codec hc msgs _ (idle_init codec) (fun m h => ⟨(hm m h).1, ?_⟩)).1
  cases codec with
  | identity n => trivial
  | varint max => exact varintOk _ (hm m h).2

example : received (.varint (some 300)) [.data [3, 1], .pending, .pending, .data [2, 3, 0, 0x82], .data [0x01],
      .data (List.replicate 100 5), .pending, .data (List.replicate 30 5)] =
    [.frame [1, 2, 3], .frame [], .frame (List.replicate 130 5)] ∧
    encodeAll (.varint (some 300)) [[1, 2, 3], [], List.replicate 130 5] = [3, 1, 2, 3, 0, 0x82, 0x01] ++ List.replicate 130 5 := by
  decide

/-- **Oversized incoming length.** With `UnsignedVarint(Some(max))`, a length prefix announcing more
than `max` (followed by anything, fragmented anyhow) makes the first result of the reader an error —
not a frame, not a panic (`no_oob`), and no buffer is allocated for it (`alloc_bound`). -/
theorem oversize_error (m L : Nat) (rest : Bytes) (hL : L < 2 ^ 64) (hbig : m < L)
    (car : Carrier) (hd : DataOnly car) (hb : carBytes car = encodeUsize L ++ rest) :
    (received (.varint (some m)) car).head? = some (.err .readFailure) := by
  unfold received recvAll
  rw [recvAllF_consume _ (by simp) _ _ car (rinv_init _) hd (by omega), hb]
  exact consume_oversize m L rest _ (idle_init _) hL hbig

example : received (.varint (some 10)) [.data [11], .pending, .data [1, 2, 3]] = [.err .readFailure, .frame [2], ] := by decide

/-- **Malformed incoming length.** Ten continuation bytes in a row (no terminating byte within
`usize_buffer`), for every `max` including `None`: the first result of the reader is an error. -/
theorem malformed_len_error (max : Option Nat) (pre : Bytes) (b : Nat) (rest : Bytes)
    (hpre : ∀ x ∈ pre, isLast x = false) (hb : isLast b = false) (hlen : pre.length + 1 = USIZE_LEN)
    (car : Carrier) (hd : DataOnly car) (hbytes : carBytes car = pre ++ [b] ++ rest) :
    (received (.varint max) car).head? = some (.err .readFailure) := by
  unfold received recvAll
  rw [recvAllF_consume _ (by simp) _ _ car (rinv_init _) hd (by omega), hbytes]
  exact consume_overlong max pre b rest _ (idle_init _) hpre hb hlen

example : received (.varint none) [.data (List.replicate 10 0x80), .data [0x80, 0x01]] = [.err .readFailure] ∧
    received (.varint none) [.data [0x80, 0x00, 5]] = [.err .readFailure] := by decide

/-! ## Sender -/

/-- **Oversize refused at the sender.** A message the codec does not admit (`Identity(n)`: length
≠ n; `UnsignedVarint(Some max)`: length > max) is refused by `start_send` with the sink unchanged,
and by `send_framed` before any byte is handed to the carrier. -/
theorem oversize_refused (codec : Codec) (st : WState) (item : Bytes) (evs : List WrEv) (fls : List FlEv)
    (h : accepts codec item = false) :
    startSend codec st item = (.refused, st) ∧ sendFramed codec item evs fls = (.refused, []) := by
  obtain ⟨h1, h2⟩ := startSend_refused codec st item h
  exact ⟨h1, by simp [sendFramed, h2]⟩

example : accepts (.varint (some 2)) [1, 2, 3] = false ∧ accepts (.identity 2) [1] = false ∧
    accepts (.varint (some 2)) [1, 2] = true := by decide

/-- **Stream invariant of the sink.** For every history of `poll_ready`+`start_send` and `poll_flush`
calls and every flow-control behaviour of the carrier (any accepted byte counts, `Pending` anywhere,
any inner flush result; no carrier failure): the bytes handed to the carrier so far, followed by the
bytes still queued, are exactly the concatenated frames of the accepted messages, in order; and
`pending_out_bytes` is the number of queued bytes. -/
theorem sink_stream (codec : Codec) (ops : List SinkOp) (hne : ∀ op ∈ ops, OpNoErr op) :
    (sinkRun codec ops).wire ++ queued (sinkRun codec ops).st = encodeAll codec (sinkRun codec ops).accepted ∧
    (sinkRun codec ops).st.bytes = (queued (sinkRun codec ops).st).length :=
  sinkRun_inv codec ops hne

example :
    let r := sinkRun (.varint (some 3)) [.send [7, 7] [] .ready, .send [1, 2, 3, 4] [] .ready, .send [] [] .ready,
      .flush [.accept 0, .accept 0, .pending] .ready, .flush [.accept 5, .accept 0] .pending]
    r.accepted = [[7, 7], []] ∧ r.wire = [2, 7, 7, 0] ∧ r.last = .pending ∧ r.st = ⟨[], some [], 0⟩ := by decide

/-- **Flush complete.** If `poll_flush` returns `Ready(Ok)` then nothing is queued any more
(`pending_out_frames` empty, `pending_out_frame` none, `pending_out_bytes` 0) and every byte that was
queued has been handed to the carrier, in order. -/
theorem flush_complete (st : WState) (evs : List WrEv) (fl : FlEv) (hne : NoErr evs) (hw : WInv st)
    (h : (pollFlush evs st fl).1 = .ready) :
    (pollFlush evs st fl).2.1.frames = [] ∧ (pollFlush evs st fl).2.1.frame = none ∧
    (pollFlush evs st fl).2.1.bytes = 0 ∧ (pollFlush evs st fl).2.2 = queued st := by
  obtain ⟨h1, h2, h3⟩ := pollFlush_spec evs st fl hne
  obtain ⟨hf, hfs, hq⟩ := queued_of_takeFrame_none (h2 h)
  have hb := h3 hw
  unfold WInv at hb
  rw [hq] at hb h1
  exact ⟨hfs, hf, by simpa using hb, by simpa using h1⟩

/-- Non-vacuity: a flush that meets `Pending` after 3 of 5 bytes is `Pending` (the pre-fix code
returned the inner flush result, `Ready`, here); the next one completes. -/
example : pollFlush [.accept 2, .pending] ⟨[[1, 2, 3, 4, 5]], none, 5⟩ .ready = (.pending, ⟨[], some [4, 5], 2⟩, [1, 2, 3]) ∧
    pollFlush [.accept 9] ⟨[], some [4, 5], 2⟩ .ready = (.ready, ⟨[], none, 0⟩, [4, 5]) := by decide

/-- **send_framed complete.** If `send_framed` returns `Ok`, the bytes handed to the carrier are
exactly the frame of the message — for every behaviour of the carrier. -/
theorem send_framed_complete (codec : Codec) (item : Bytes) (evs : List WrEv) (fls : List FlEv) (w : Bytes)
    (h : sendFramed codec item evs fls = (.ok, w)) : w = encodeMsg codec item ∧ accepts codec item = true := by
  unfold sendFramed at h
  cases hb : framedBufs codec item with
  | none => simp [hb] at h
  | some bufs =>
    obtain ⟨hfl, hacc⟩ := framedBufs_some codec item bufs hb
    simp only [hb] at h
    obtain ⟨h1, h2⟩ := writeAlls_spec evs bufs
    cases hw : writeAlls evs bufs with
    | mk o rest =>
      obtain ⟨w', rest', evs'⟩ := rest
      rw [hw] at h h1 h2
      cases o with
      | done =>
        simp only [Prod.mk.injEq] at h
        have := h2 rfl
        simp only at this h1
        rw [this] at h1
        refine ⟨?_, hacc⟩
        rw [← h.2, ← hfl]; simpa using h1
      | blocked => simp at h
      | failed => simp at h

example : sendFramed (.varint none) [5, 6, 7] [.pending, .accept 0, .accept 0, .pending, .accept 5] [.pending, .ready] =
    (.ok, [3, 5, 6, 7]) := by decide

/-- **Both send paths put the same bytes on the carrier.** A message sent through an empty sink and
flushed to completion hands over the same bytes as a completed `send_framed` of the same message. -/
theorem sink_eq_send_framed (codec : Codec) (item : Bytes) (st' : WState)
    (evs₁ : List WrEv) (fls : List FlEv) (w : Bytes) (evs₂ : List WrEv) (fl : FlEv)
    (hf : sendFramed codec item evs₁ fls = (.ok, w))
    (hs : startSend codec WState.init item = (.ok, st')) (hne : NoErr evs₂)
    (hr : (pollFlush evs₂ st' fl).1 = .ready) :
    (pollFlush evs₂ st' fl).2.2 = w := by
  obtain ⟨hq, _, hwi⟩ := startSend_spec codec _ st' item hs
  obtain ⟨_, _, _, hout⟩ := flush_complete st' evs₂ fl hne (hwi winv_init) hr
  rw [hout, hq, (send_framed_complete codec item evs₁ fls w hf).1]
  simp [WState.init, queued]

example : (startSend (.identity 2) WState.init [8, 9]).1 = .ok ∧
    (pollFlush [.accept 0, .pending, .accept 0] (startSend (.identity 2) WState.init [8, 9]).2 .ready).1 = .pending := by decide

/-- **A completed flush delivers.** End to end: after any history of sink operations whose last one
is a `poll_flush` that returned `Ready(Ok)` (any flow-control behaviour before), a reader fed the
bytes the carrier was given — in any fragmentation, with no further action by the sender — returns
exactly the accepted messages, in order. -/
theorem flush_delivers (codec : Codec) (hc : codec ≠ .identity 0) (ops : List SinkOp) (evs : List WrEv) (fl : FlEv)
    (hne : ∀ op ∈ ops ++ [.flush evs fl], OpNoErr op)
    (hready : (sinkRun codec (ops ++ [.flush evs fl])).last = .ready)
    (hlen : ∀ m ∈ (sinkRun codec (ops ++ [.flush evs fl])).accepted, m.length < 2 ^ 64)
    (car : Carrier) (hd : DataOnly car) (hb : carBytes car = (sinkRun codec (ops ++ [.flush evs fl])).wire) :
    received codec car = (sinkRun codec (ops ++ [.flush evs fl])).accepted.map .frame := by
  have hinv := sinkRun_inv codec (ops ++ [.flush evs fl]) hne
  have hacc := sinkRun_accepts codec (ops ++ [.flush evs fl])
  have hq := sinkRun_flush_ready codec ops evs fl (fun op h => hne op (List.mem_append_left _ h))
    (hne _ (by simp)) hready
  apply stream_roundtrip codec hc _ (fun m h => ⟨hacc m h, hlen m h⟩) car hd
  rw [hb, ← hinv.1, hq]; simp

example :
    let r := sinkRun (.identity 2) [.send [1, 2] [] .ready, .flush [.accept 0, .pending] .ready,
      .send [3, 4] [] .ready, .send [5] [] .ready, .flush [.accept 0, .accept 5] .ready]
    r.last = .ready ∧ r.wire = [1, 2, 3, 4] ∧ r.accepted = [[1, 2], [3, 4]] ∧
    received (.identity 2) [.data [1], .data [2, 3, 4]] = [.frame [1, 2], .frame [3, 4]] := by decide

/-! ## The `tokio_util` codecs of `src/codec/` (`UnsignedVarint` over `unsigned_varint::codec::UviBytes`, `Identity`)

Model: `Model/Substream/TokioCodec.lean` (buffers are byte lists; `reserve` requests are outputs). -/

/-- **decode (encode x) = x.** An item within the maximum is written as its length prefix and its bytes,
and a decoder in its initial state, given those bytes followed by anything, returns exactly the item,
leaves the rest in the buffer and reserves nothing. -/
theorem tokio_uvi_roundtrip (st : UviState) (item dst rest : Bytes) (hl : st.len = none) (hm : item.length ≤ st.max)
    (h64 : item.length < 2 ^ 64) :
    uviEncode st item dst = some (dst ++ encodeUsize item.length ++ item) ∧
    uviDecode st (encodeUsize item.length ++ item ++ rest) = (.frame item, st, rest, none) :=
  ⟨uviEncode_accepts st item dst hm, uviDecode_encode st item rest hl hm h64⟩

example : uviEncode (UviState.new (some 3)) [7, 8, 9] [1] = some [1, 3, 7, 8, 9] ∧
    uviDecode (UviState.new (some 3)) [3, 7, 8, 9, 0x80] = (.frame [7, 8, 9], UviState.new (some 3), [0x80], none) := by decide

/-- **Progress on every prefix.** Cut the encoding of an item at any point before its end: the decoder
answers `None` for the first part — never an error, never a frame — asking `reserve` for no more than
the maximum, and, fed the remainder, returns exactly the item and is back in its initial state with an
empty buffer. -/
theorem tokio_uvi_prefix_need_more (st : UviState) (item : Bytes) (k : Nat) (hl : st.len = none) (hm : item.length ≤ st.max)
    (h64 : item.length < 2 ^ 64) (hk : k < (encodeUsize item.length ++ item).length) :
    ∃ st' buf rsv, uviDecode st ((encodeUsize item.length ++ item).take k) = (.needMore, st', buf, rsv) ∧
      (∀ r, rsv = some r → r ≤ st.max) ∧
      uviDecode st' (buf ++ (encodeUsize item.length ++ item).drop k) = (.frame item, st, [], none) :=
  uviDecode_prefix st item k hl hm h64 hk

example : uviDecode (UviState.new (some 300)) [0x82] = (.needMore, UviState.new (some 300), [0x82], none) ∧
    uviDecode (UviState.new (some 300)) [0x82, 0x01, 5] = (.needMore, { max := 300, len := some 130 }, [5], some 129) := by decide

/-- **Maximum-size rule.** The encoder refuses an item above the maximum (nothing is written); the
decoder answers an announced length above the maximum with an error as soon as the prefix is complete,
whatever follows, and reserves nothing for it. -/
theorem tokio_uvi_max_rule (st : UviState) (item dst : Bytes) (n : Nat) (rest : Bytes) (hl : st.len = none)
    (hn : n < 2 ^ 64) (hbig : st.max < n) (hitem : st.max < item.length) :
    uviEncode st item dst = none ∧
    uviDecode st (encodeUsize n ++ rest) = (.err .permissionDenied, st, rest, none) :=
  ⟨uviEncode_refuses st item dst hitem, uviDecode_oversize st n rest hl hn hbig⟩

example : uviEncode (UviState.new (some 2)) [1, 2, 3] [] = none ∧
    (uviDecode (UviState.new (some 2)) [3, 1, 2, 3]).1 = .err .permissionDenied ∧
    (uviDecode (UviState.new none) [0x81, 0x80, 0x80, 0x40]).1 = .err .permissionDenied ∧
    (uviDecode (UviState.new none) [0xff, 0xff, 0xff, 0x3f]).2.2.2 = some (UVI_DEFAULT_MAX - 1) := by decide

/-- **No allocation beyond the declared maximum.** In every state the decoder can be in (any bytes, any
chunking, also after errors), one `decode` call asks `reserve` for at most `max` bytes, a returned frame
has at most `max` bytes, and the next state is again such a state. (`UnsignedVarint::new(None)` declares
`UviBytes`' default of 128 MiB.) -/
theorem tokio_uvi_alloc_bound (st : UviState) (src : Bytes) (h : UviInv st) :
    UviInv (uviDecode st src).2.1 ∧ (uviDecode st src).2.1.max = st.max ∧
    (∀ r, (uviDecode st src).2.2.2 = some r → r ≤ st.max) ∧
    (∀ f, (uviDecode st src).1 = .frame f → f.length ≤ st.max) :=
  uviDecode_spec st src h

example : UviInv (UviState.new (some 5)) ∧ UviInv (UviState.new none) ∧ (UviState.new none).max = 128 * 1024 * 1024 :=
  ⟨uviInv_new _, uviInv_new _, rfl⟩

/-- **`Identity(n)`**, `n ≥ 1`: a whole frame round-trips (the rest stays buffered); fewer than `n`
buffered bytes are `None` with the buffer untouched; an item of any other length is refused by the
encoder; a returned frame has exactly `n` bytes. -/
theorem tokio_identity_roundtrip (n : Nat) (item rest dst src : Bytes) (hn : 0 < n) (hl : item.length = n) :
    (idEncode n item dst = some (dst ++ item) ∧ idDecode n (item ++ rest) = (.frame item, rest)) ∧
    (src.length < n → idDecode n src = (.needMore, src)) ∧
    (∀ other, other.length ≠ n → idEncode n other dst = none) ∧
    (∀ f, (idDecode n src).1 = .frame f → f.length = n) :=
  ⟨idDecode_encode n item rest dst hn hl, idDecode_short n src, fun o h => idEncode_refuses n o dst h,
    fun f h => idDecode_frame_len n src f h⟩

/-- Non-vacuity, and the *pre-fix* witness: the original encoder accepted the 1-byte item (`len ≤ n`);
the decoder then glues it to the next frame — `decode (encode x) ≠ x`. -/
example : idEncode 3 [1, 2, 3] [9] = some [9, 1, 2, 3] ∧ idEncode 3 [1] [] = none ∧
    idDecode 3 [1, 2] = (.needMore, [1, 2]) ∧ idDecode 3 ([1] ++ [4, 5, 6]) = (.frame [1, 4, 5], [6]) := by decide

#print axioms no_oob
#print axioms alloc_bound
#print axioms oversize_refused
#print axioms sink_stream
#print axioms flush_complete
#print axioms send_framed_complete
#print axioms sink_eq_send_framed
#print axioms stream_roundtrip
#print axioms oversize_error
#print axioms malformed_len_error
#print axioms flush_delivers
#print axioms tokio_uvi_roundtrip
#print axioms tokio_uvi_prefix_need_more
#print axioms tokio_uvi_max_rule
#print axioms tokio_uvi_alloc_bound
#print axioms tokio_identity_roundtrip

end Litep2pVerif.Props.C04

/-! ## Wiring — the framing codec of a substream negotiated under a FALLBACK name (added after seeded C04-e2)

Over the wiring model `Model/Node/Wiring.lean` (`Node.new c` = `Litep2p::new(ConfigBuilder…build())`, `notes` / `tcpHeld` =
what the constructed protocol objects / the TCP transport hold, `protocolCodec` = `ProtocolSet::protocol_codec`), tied to
the real code by the `node` area: real nodes built through the public API print what the CONSTRUCTED objects hold and what
a connection's `ProtocolSet` answers for every main and fallback name; the driver prints the model's; compared exactly. -/
namespace Litep2pVerif.Props.C04.Wiring
open Litep2pVerif Litep2pVerif.Node

/-- Kademlia setter calls of the sample: a later call overrides an earlier one; zero bounds. -/
def sampleSets : List KadSet := [.maxRecords 5, .replication 3, .maxRecords 0, .maxProviderKeys 0, .validationMode false]

/-- A configuration with fallback names, zero store bounds and non-default transport settings (non-vacuity examples). -/
def sample : Config :=
  { keepAliveMs := some 600, listen := [1],
    notif := [{ name := "/n/new", max := 32, handshake := "01", fallback := ["/n/a"], mode := 'a', sync := some 7, async := none,
                dial := some false }],
    rr := [{ name := "/r/new", max := 256, timeoutMs := 800, fallback := ["/r/a", "/r/b"], maxInbound := some 3 }],
    user := [⟨"/u/a", .identity 8⟩],
    kad := [{ names := ["/k/2", "/k/1"], max := some 2048,
              sets := sampleSets }],
    ping := some 1, identify := true, bitswap := true, maxParallelDials := some 0,
    tcpSets := [.readAhead 3, .parallelDials 7, .writeBuffer 4] }

/-- `ProtocolSet::protocol_codec` (what every transport asks when it wraps a freshly negotiated substream) answers, for EVERY
name a registered protocol claims — its main name and each of its fallback names —, the codec that protocol was registered
with: a substream negotiated under a fallback name is framed exactly like one negotiated under the main name (same maximum
size at the sender and the receiver, same framing kind). -/
theorem codec_of_fallback_is_codec_of_main (c : Config) (w : Wired) (h : Node.new c = .ok w) :
    ∀ r ∈ w.regs, ∀ x ∈ r.claims, protocolCodec w.regs x = some r.codec := by
  obtain ⟨hreg, _, rfl⟩ := wire_ok h
  exact fun r hr x hx => (protocolSet_of_claim hreg hr hx).1

example : ∃ w, Node.new sample = .ok w ∧
    ["/r/new", "/r/a", "/r/b", "/n/a", "/k/1", "/u/a"].map (protocolCodec w.regs) =
      [some (.varint (some 256)), some (.varint (some 256)), some (.varint (some 256)), some (.varint (some 32)),
       some (.varint (some 2048)), some (.identity 8)] := ⟨_, rfl, by decide⟩

-- the seeded change (no translation of the fallback name, unbounded varint when the lookup fails) answers differently
example : ∃ w, Node.new sample = .ok w ∧
    ((w.regs.find? (·.name = "/r/a")).map (·.codec)).getD (.varint none) ≠ .varint (some 256) := ⟨_, rfl, by decide⟩

end Litep2pVerif.Props.C04.Wiring

#print axioms Litep2pVerif.Props.C04.Wiring.codec_of_fallback_is_codec_of_main
