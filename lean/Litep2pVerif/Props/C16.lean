import Litep2pVerif.Proofs.Kad.Coordinator
import Litep2pVerif.Proofs.Kad.CoordinatorOwned
import Litep2pVerif.Proofs.Kad.CoordinatorQuorum
import Litep2pVerif.Generated.Consts
/-!
# C16 — Every Kademlia operation started by the user ends with one terminal event

Property theorems only (model: `Model/Kad/Coordinator.lean`, lemmas: `Proofs/Kad/Coordinator.lean`,
`Proofs/Kad/CoordinatorOwned.lean`, `Proofs/Kad/CoordinatorQuorum.lean`).
The model is that of the repaired tree (four `fix:` commits: the unreachable peers of the
PUT_VALUE/ADD_PROVIDER fan-out are failed after tracking starts; `on_connection_established` fails
every kind of action whose substream cannot be opened and tracks the substreams it opens; an
undecodable reply fails the request).

Everything is proved for every schedule of user commands, engine actions, transport events, executor results and
inbound substreams of remote peers (`Reachable`): `waiting_owned` (the ownership invariant, by induction over the transition system
with the auxiliary invariants `ctx ⊆ connected` and uniqueness of the substream ids), `occupied_unreachable`,
`terminal_once`, `terminal_accounted`, `terminal_once_at_quiescence`, `put_quorum_sound` and the clamping rule.
The model driver still re-evaluates `WaitingOwned` on every validated trace (`!waiting-not-owned`): there it
guards the tie between model and code, it is no longer a hypothesis of any theorem.
-/
namespace Litep2pVerif.Props.C16
open Litep2pVerif Litep2pVerif.Kad.Coordinator

theorem count_le_one_of_nodup (l : List (Qid × Bool)) (h : (l.map (·.1)).Nodup) (q : Qid) :
    (l.filter (fun e => e.1 == q)).length ≤ 1 := by
  induction l with
  | nil => simp
  | cons e l ih =>
    simp only [List.map_cons, List.nodup_cons] at h
    simp only [List.filter_cons]
    split
    · rename_i heq
      have hq : e.1 = q := by simpa using heq
      have : l.filter (fun e => e.1 == q) = [] := by
        rw [List.filter_eq_nil_iff]
        intro a ha hc
        have : a.1 = q := by simpa using hc
        exact h.1 (List.mem_map.mpr ⟨a, ha, by rw [this, hq]⟩)
      simp [this]
    · exact ih h.2

theorem count_eq_one_of_mem (l : List (Qid × Bool)) (h : (l.map (·.1)).Nodup) (q : Qid)
    (hq : q ∈ l.map (·.1)) : (l.filter (fun e => e.1 == q)).length = 1 := by
  have h1 := count_le_one_of_nodup l h q
  obtain ⟨e, he, rfl⟩ := List.mem_map.mp hq
  have : e ∈ l.filter (fun e' => e'.1 == e.1) := List.mem_filter.mpr ⟨he, by simp⟩
  have : 0 < (l.filter (fun e' => e'.1 == e.1)).length := List.length_pos_of_mem this
  omega

/-- **At most one terminal event.** In every reachable state (every schedule of user commands,
engine actions, transport events and executor results) each query id has at most one terminal
event. -/
theorem terminal_once (s : State) (h : Reachable s) (q : Qid) :
    (s.events.filter (fun e => e.1 == q)).length ≤ 1 :=
  count_le_one_of_nodup _ (Ledger.reachable h).evNodup q

/-- **Nothing is lost.** Every started operation is either still live in the query engine (and has no
terminal event yet) or has left it with exactly one terminal event. -/
theorem terminal_accounted (s : State) (h : Reachable s) (q : Qid) (hq : q ∈ s.started) :
    (q ∈ ids s.engine ∧ (s.events.filter (fun e => e.1 == q)).length = 0) ∨
    (q ∉ ids s.engine ∧ (s.events.filter (fun e => e.1 == q)).length = 1) := by
  have L := Ledger.reachable h
  rcases (L.accounted q).mp hq with hl | he
  · left
    refine ⟨hl, ?_⟩
    rw [List.length_eq_zero_iff, List.filter_eq_nil_iff]
    intro a ha hc
    have : a.1 = q := by simpa using hc
    exact L.disjoint q (List.mem_map.mpr ⟨a, ha, this⟩) hl
  · right
    exact ⟨L.disjoint q he, count_eq_one_of_mem _ L.evNodup q he⟩

/-- Non-vacuity: a put to two given peers, one of them without dialable address (the fan-out's
`open_substream_or_dial` fails for it); the other is dialed, sent the record, and the operation ends
with exactly one (failure, quorum All) event; the ownership invariant holds along the way. -/
example :
    let ls : List Label :=
      [.cmd (.putToPeers 1 .all),
       .engine (.lookupDone 0 true [1, 2]) [⟨false, .started, false⟩, ⟨false, .err, false⟩],
       .established 1 [true], .subOpened 0, .result ⟨1, 0, .putEat⟩ .assumeOk, .engine (.trackerDone 0) []]
    (run {} ls).events = [(0, false)] ∧ (run {} ls).engine.length = 0 ∧
    waitingOwnedB (run {} (ls.take 2)) = true ∧ waitingOwnedB (run {} (ls.take 4)) = true := by
  decide

theorem quiescent_no_owner (s : State) (hq : Quiescent s) (x : Query) (p : Peer) : ownedB s x p = false := by
  obtain ⟨hd, ho, hf, _⟩ := hq
  unfold ownedB
  simp [hd, ho, hf]

/-- **The ownership invariant.** In every reachable state every peer a live query is waiting for is owned by
at least one outstanding obligation of the environment: a pending dial action whose dial has not been
concluded, a pending substream action whose open is tracked in `pending_substreams` and has not been answered,
or an executor future (of the message kind that belongs to the query's phase). -/
theorem waiting_owned (s : State) (h : Reachable s) : WaitingOwned s := waitingOwned_reachable h

/-- Non-vacuity: a reachable state in which two queries wait for three peers, owned by a dial, a substream
open and an executor future respectively. -/
example :
    let s := run {} [.cmd .findNode, .cmd (.getProviders 5), .engine (.send 0 3) [⟨false, .started, false⟩],
      .established 4 [], .engine (.send 0 4) [⟨true, .err, false⟩], .engine (.send 1 4) [⟨true, .err, false⟩],
      .subOpened 1]
    Reachable s ∧ s.engine.map (fun x => (x.id, x.st.pending)) = [(0, [3, 4]), (1, [4])] ∧
      s.dials.length = 1 ∧ s.actions.length = 1 ∧ s.futs.length = 1 :=
  ⟨reachable_run .init _, by decide⟩

/-- Non-vacuity (inbound substreams are transitions of the system too): peer 4 has a request being served while
query 0 waits for the substream it opened to peer 4; the serving future fails, `disconnect_peer(4, None)` drops the
peer's context and pending action, and the query is told. -/
example :
    let s := run {} [.cmd .findNode, .established 4 [], .inbound 4, .engine (.send 0 4) [⟨true, .err, false⟩],
      .inboundFailed 4]
    Reachable s ∧ s.engine.map (fun x => (x.id, x.st.pending)) = [(0, [])] ∧ s.ctx = [] ∧ s.actions = [] ∧
      s.connected = [4] :=
  ⟨reachable_run .init _, by decide⟩

/-- **`Entry::Occupied` is dead code.** A peer without connection has no per-peer context in the coordinator,
so the branch of `on_connection_established` that discards the pending dial actions ("connection already
exists") cannot be taken: `ConnectionEstablished` is only reported for a peer without connection. -/
theorem occupied_unreachable (s : State) (h : Reachable s) (p : Peer) (hp : p ∉ s.connected) : p ∉ s.ctx :=
  Kad.Coordinator.occupied_unreachable h p hp

/-- Non-vacuity: a reachable state with a context for the connected peer 4 and none for the peer 3 being dialed. -/
example :
    let s := run {} [.cmd .findNode, .engine (.send 0 3) [⟨false, .started, false⟩], .established 4 [],
      .engine (.send 0 4) [⟨true, .err, false⟩]]
    Reachable s ∧ s.connected = [4] ∧ s.ctx = [4] ∧ s.dialing = [3] :=
  ⟨reachable_run .init _, by decide⟩

/-- **Exactly one terminal event at quiescence.** In every reachable state, once the environment has discharged
every obligation — no dial outstanding, no substream open unanswered, no executor future pending — and the
engine has been drained, no query is live any more and every started operation has exactly one terminal
event. -/
theorem terminal_once_at_quiescence (s : State) (h : Reachable s) (hq : Quiescent s) :
    s.engine = [] ∧ ∀ q ∈ s.started, (s.events.filter (fun e => e.1 == q)).length = 1 := by
  have hOwned := waiting_owned s h
  have hempty : s.engine = [] := by
    cases he : s.engine with
    | nil => rfl
    | cons x xs =>
      exfalso
      have hx : x ∈ s.engine := by rw [he]; exact List.mem_cons_self
      have hidle := hq.2.2.2
      unfold engineIdle at hidle
      rw [List.all_eq_true] at hidle
      have h1 := hidle x hx
      unfold WaitingOwned waitingOwnedB at hOwned
      rw [List.all_eq_true] at hOwned
      have h2 := hOwned x hx
      rw [List.all_eq_true] at h2
      cases hp : x.st.pending with
      | nil => simp [hp] at h1
      | cons p ps =>
        have := h2 p (by rw [hp]; exact List.mem_cons_self)
        rw [quiescent_no_owner s hq x p] at this
        exact Bool.false_ne_true this
  refine ⟨hempty, fun q hqs => ?_⟩
  rcases terminal_accounted s h q hqs with ⟨hl, _⟩ | ⟨_, h1⟩
  · rw [hempty] at hl; simp [ids] at hl
  · exact h1

/-- Non-vacuity: the hypotheses hold at the end of a complete run (find_node: one peer queried over a
new connection, it answers, the lookup succeeds). -/
example :
    let s := run {} [.cmd .findNode, .engine (.send 0 3) [⟨false, .started, false⟩], .established 3 [true],
      .subOpened 0, .result ⟨3, 0, .reqResp⟩ .readOk, .engine (.lookupDone 0 true []) []]
    Reachable s ∧ s.dialing = [] ∧ s.opening = [] ∧ s.futs = [] ∧ engineIdle s.engine = true ∧
      s.started = [0] ∧ s.events = [(0, true)] :=
  ⟨reachable_run .init _, by decide⟩

/-- **A put / announcement reports success only with the (clamped) quorum of send successes.**
Every success of the send phase recorded in any reachable state (a `SuccessRec` is logged exactly when
a tracker emits its success event) counted at least `clampQuorum quorum nTargets` *distinct* peers,
and every counted peer had an executor result of a success kind (`SendSuccess`, `AssumeSendSuccess` or
`ReadSuccess`) of a **PUT_VALUE / ADD_PROVIDER future** (`k ≠ reqResp`: futures are tagged with their
message kind) for this query and peer, handled while the tracker was waiting for that peer.

The query id is the same in the lookup phase and in the send phase, and the coordinator reports the
`ReadSuccess` of a lookup-phase FIND_NODE/GET_VALUE request as a send success too; that such a result can
never be counted by the tracker rests on two invariants proved for every schedule
(`Proofs/Kad/CoordinatorQuorum.lean`): during the lookup phase the coordinator holds at most one record (pending
dial action, pending substream action, executor future) per query and peer and none for a peer the lookup
is not waiting for; hence — the engine only hands out fan-out targets the lookup is not waiting for — no
request/response future of the query is in flight for a peer its tracker waits for. -/
theorem put_quorum_sound (s : State) (h : Reachable s) (r : SuccessRec) (hr : r ∈ s.successLog) :
    clampQuorum r.quorum r.nTargets ≤ r.counted.length ∧ r.counted.Nodup ∧
    ∀ p ∈ r.counted, ∃ k, k ≠ .reqResp ∧ (r.q, p, k) ∈ s.sendResults :=
  (QuorumInv.reachable h).log r hr

/-- Non-vacuity: a put to two given peers with quorum N(2): both are dialed, sent the record (one answers,
one stays silent until the read timeout), the operation succeeds and the record lists both. -/
example :
    let s := run {} [.cmd (.putToPeers 1 (.n 2)),
      .engine (.lookupDone 0 true [1, 2]) [⟨false, .started, false⟩, ⟨false, .started, false⟩],
      .established 1 [true], .established 2 [true], .subOpened 0, .subOpened 1,
      .result ⟨1, 0, .putEat⟩ .readOk, .result ⟨2, 0, .putEat⟩ .assumeOk, .engine (.trackerDone 0) []]
    s.events = [(0, true)] ∧ (s.successLog.map (·.counted)) = [[2, 1]] ∧
      s.sendResults = [(0, 2, .putEat), (0, 1, .putEat)] := by
  decide

/-- Non-vacuity (the case the `k ≠ reqResp` clause is about): a `put_record` whose lookup still has a FIND_NODE
request to peer 3 in flight when it ends with target 1; the late `ReadSuccess` of that request is reported as a
send success of query 0 but is not counted, the success rests on the PUT_VALUE future of peer 1. -/
example :
    let s := run {} [.cmd (.putRecord 1 .one), .established 3 [], .engine (.send 0 3) [⟨true, .err, false⟩],
      .subOpened 0, .engine (.lookupDone 0 true [1]) [⟨false, .started, false⟩],
      .result ⟨3, 0, .reqResp⟩ .readOk, .established 1 [true], .subOpened 1,
      .result ⟨1, 0, .putEat⟩ .readOk, .engine (.trackerDone 0) []]
    Reachable s ∧ s.events = [(0, true)] ∧ (s.successLog.map (·.counted)) = [[1]] ∧
      s.sendResults = [(0, 1, .putEat), (0, 3, .reqResp)] :=
  ⟨reachable_run .init _, by decide⟩

/-- **The clamping rule, as coded.** `One ⇒ 1`, `N(n) ⇒ min(n, max(len, 1))`, `All ⇒ max(len, 1)`
with `len` the number of fan-out targets: the required number of successes never exceeds the requested
`n`, is at least 1 (for `n ≥ 1`), and is clamped to the number of discovered peers. -/
theorem quorum_clamp_rule (peers : List Peer) (k : Nat) (hk : 1 ≤ k) :
    (Tracker.new peers .one).peersToSucceed = 1 ∧
    (Tracker.new peers (.n k)).peersToSucceed = min k (max peers.length 1) ∧
    (Tracker.new peers .all).peersToSucceed = max peers.length 1 ∧
    1 ≤ (Tracker.new peers (.n k)).peersToSucceed ∧ (Tracker.new peers (.n k)).peersToSucceed ≤ k ∧
    (peers ≠ [] → (Tracker.new peers (.n k)).peersToSucceed ≤ peers.length) := by
  refine ⟨rfl, rfl, rfl, ?_, ?_, ?_⟩ <;> simp only [Tracker.new, clampQuorum]
  · omega
  · omega
  · intro hne
    have : 0 < peers.length := List.length_pos_iff.mpr hne
    omega

example : (Tracker.new [4, 5] (.n 3)).peersToSucceed = 2 ∧ (Tracker.new [] .all).peersToSucceed = 1 ∧
    (Tracker.new [4, 4] .all).peersToSucceed = 2 ∧ (Tracker.new [4, 4] .all).pending = [4] := by decide

/-- **The settle step covers the executor's timeouts.** The check's `settle` operation advances the
(logical) clock by 16 s per round; the executor's read and write timeouts (regenerated from
`executor.rs` on every run) are shorter, so every silent future has completed afterwards. -/
theorem settle_covers_timeouts :
    Consts.KAD_READ_TIMEOUT_SECS < 16 ∧ Consts.KAD_WRITE_TIMEOUT_SECS < 16 := by decide

#print axioms terminal_once
#print axioms terminal_accounted
#print axioms waiting_owned
#print axioms occupied_unreachable
#print axioms terminal_once_at_quiescence
#print axioms put_quorum_sound
#print axioms quorum_clamp_rule
#print axioms settle_covers_timeouts

end Litep2pVerif.Props.C16
