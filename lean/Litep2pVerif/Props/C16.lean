import Litep2pVerif.Proofs.Kad.Coordinator
import Litep2pVerif.Proofs.Kad.CoordinatorOwned
import Litep2pVerif.Proofs.Kad.CoordinatorQuorum
import Litep2pVerif.Proofs.Kad.Executor
import Litep2pVerif.Proofs.Kad.Serve
import Litep2pVerif.Proofs.Kad.Events
import Litep2pVerif.Generated.Consts
import Litep2pVerif.Proofs.Node.Wiring
/-!
# C16 — Every Kademlia operation started by the user ends with one terminal event

Property theorems only (model: `Model/Kad/Coordinator.lean`, lemmas: `Proofs/Kad/Coordinator.lean`,
`Proofs/Kad/CoordinatorOwned.lean`, `Proofs/Kad/CoordinatorQuorum.lean`).
The model is that of the repaired tree (four `fix:` commits: the unreachable peers of the
PUT_VALUE/ADD_PROVIDER fan-out are failed after tracking starts; `on_connection_established` fails
every kind of action whose substream cannot be opened and tracks the substreams it opens; an
undecodable reply fails the request).

Everything is proved for every schedule of user commands, engine actions, transport events, executor results and
inbound substreams of remote peers (`Reachable`): `waiting_owned` (the ownership invariant, by induction over the transition system
with the auxiliary invariants `ctx ⊆ connected` and uniqueness of the substream ids), `occupied_unreachable`,
`terminal_once`, `terminal_accounted`, `terminal_once_at_quiescence`, `put_quorum_sound` and the clamping rule.
The model driver still re-evaluates `WaitingOwned` on every validated trace (`!waiting-not-owned`): there it
guards the tie between model and code, it is no longer a hypothesis of any theorem.
-/
namespace Litep2pVerif.Props.C16
open Litep2pVerif Litep2pVerif.Kad.Coordinator

theorem pair_eq_of_nodup_fst {α} (l : List (Nat × α)) (h : (l.map (·.1)).Nodup) {a b : Nat × α} (ha : a ∈ l) (hb : b ∈ l)
    (hab : a.1 = b.1 := by rfl) : a = b := by
  induction l with
  | nil => cases ha
  | cons x l ih =>
    simp only [List.map_cons, List.nodup_cons] at h
    rcases List.mem_cons.mp ha with ha | ha <;> rcases List.mem_cons.mp hb with hb | hb
    · rw [ha, hb]
    · exfalso; apply h.1; rw [← ha, hab]; exact List.mem_map.mpr ⟨b, hb, rfl⟩
    · exfalso; apply h.1; rw [← hb, ← hab]; exact List.mem_map.mpr ⟨a, ha, rfl⟩
    · exact ih h.2 ha hb

theorem count_le_one_of_nodup (l : List (Qid × Bool)) (h : (l.map (·.1)).Nodup) (q : Qid) :
    (l.filter (fun e => e.1 == q)).length ≤ 1 := by
  induction l with
  | nil => simp
  | cons e l ih =>
    simp only [List.map_cons, List.nodup_cons] at h
    simp only [List.filter_cons]
    split
    · rename_i heq
      have hq : e.1 = q := by simpa using heq
      have : l.filter (fun e => e.1 == q) = [] := by
        rw [List.filter_eq_nil_iff]
        intro a ha hc
        have : a.1 = q := by simpa using hc
        exact h.1 (List.mem_map.mpr ⟨a, ha, by rw [this, hq]⟩)
      simp [this]
    · exact ih h.2

theorem count_eq_one_of_mem (l : List (Qid × Bool)) (h : (l.map (·.1)).Nodup) (q : Qid)
    (hq : q ∈ l.map (·.1)) : (l.filter (fun e => e.1 == q)).length = 1 := by
  have h1 := count_le_one_of_nodup l h q
  obtain ⟨e, he, rfl⟩ := List.mem_map.mp hq
  have : e ∈ l.filter (fun e' => e'.1 == e.1) := List.mem_filter.mpr ⟨he, by simp⟩
  have : 0 < (l.filter (fun e' => e'.1 == e.1)).length := List.length_pos_of_mem this
  omega

/-- **At most one terminal event.** In every reachable state (every schedule of user commands,
engine actions, transport events and executor results) each query id has at most one terminal
event. -/
theorem terminal_once (s : State) (h : Reachable s) (q : Qid) :
    (s.events.filter (fun e => e.1 == q)).length ≤ 1 :=
  count_le_one_of_nodup _ (Ledger.reachable h).evNodup q

/-- **Nothing is lost.** Every started operation is either still live in the query engine (and has no
terminal event yet) or has left it with exactly one terminal event. -/
theorem terminal_accounted (s : State) (h : Reachable s) (q : Qid) (hq : q ∈ s.started) :
    (q ∈ ids s.engine ∧ (s.events.filter (fun e => e.1 == q)).length = 0) ∨
    (q ∉ ids s.engine ∧ (s.events.filter (fun e => e.1 == q)).length = 1) := by
  have L := Ledger.reachable h
  rcases (L.accounted q).mp hq with hl | he
  · left
    refine ⟨hl, ?_⟩
    rw [List.length_eq_zero_iff, List.filter_eq_nil_iff]
    intro a ha hc
    have : a.1 = q := by simpa using hc
    exact L.disjoint q (List.mem_map.mpr ⟨a, ha, this⟩) hl
  · right
    exact ⟨L.disjoint q he, count_eq_one_of_mem _ L.evNodup q he⟩

/-- Non-vacuity: a put to two given peers, one of them without dialable address (the fan-out's
`open_substream_or_dial` fails for it); the other is dialed, sent the record, and the operation ends
with exactly one (failure, quorum All) event; the ownership invariant holds along the way. -/
example :
    let ls : List Label :=
      [.cmd (.putToPeers 1 .all),
       .engine (.lookupDone 0 true [1, 2]) [⟨false, .started, false⟩, ⟨false, .err, false⟩],
       .established 1 [true], .subOpened 0, .result ⟨1, 0, .putEat⟩ .assumeOk, .engine (.trackerDone 0) []]
    (run {} ls).events = [(0, false)] ∧ (run {} ls).engine.length = 0 ∧
    waitingOwnedB (run {} (ls.take 2)) = true ∧ waitingOwnedB (run {} (ls.take 4)) = true := by
  decide

theorem quiescent_no_owner (s : State) (hq : Quiescent s) (x : Query) (p : Peer) : ownedB s x p = false := by
  obtain ⟨hd, ho, hf, _⟩ := hq
  unfold ownedB
  simp [hd, ho, hf]

/-- **The ownership invariant.** In every reachable state every peer a live query is waiting for is owned by
at least one outstanding obligation of the environment: a pending dial action whose dial has not been
concluded, a pending substream action whose open is tracked in `pending_substreams` and has not been answered,
or an executor future (of the message kind that belongs to the query's phase). -/
theorem waiting_owned (s : State) (h : Reachable s) : WaitingOwned s := waitingOwned_reachable h

/-- Non-vacuity: a reachable state in which two queries wait for three peers, owned by a dial, a substream
open and an executor future respectively. -/
example :
    let s := run {} [.cmd .findNode, .cmd (.getProviders 5), .engine (.send 0 3) [⟨false, .started, false⟩],
      .established 4 [], .engine (.send 0 4) [⟨true, .err, false⟩], .engine (.send 1 4) [⟨true, .err, false⟩],
      .subOpened 1]
    Reachable s ∧ s.engine.map (fun x => (x.id, x.st.pending)) = [(0, [3, 4]), (1, [4])] ∧
      s.dials.length = 1 ∧ s.actions.length = 1 ∧ s.futs.length = 1 :=
  ⟨reachable_run .init _, by decide⟩

/-- Non-vacuity (inbound substreams are transitions of the system too): peer 4 has a request being served while
query 0 waits for the substream it opened to peer 4; the serving future fails, `disconnect_peer(4, None)` drops the
peer's context and pending action, and the query is told. -/
example :
    let s := run {} [.cmd .findNode, .established 4 [], .inbound 4, .engine (.send 0 4) [⟨true, .err, false⟩],
      .inboundFailed 4]
    Reachable s ∧ s.engine.map (fun x => (x.id, x.st.pending)) = [(0, [])] ∧ s.ctx = [] ∧ s.actions = [] ∧
      s.connected = [4] :=
  ⟨reachable_run .init _, by decide⟩

/-- **`Entry::Occupied` is dead code.** A peer without connection has no per-peer context in the coordinator,
so the branch of `on_connection_established` that discards the pending dial actions ("connection already
exists") cannot be taken: `ConnectionEstablished` is only reported for a peer without connection. -/
theorem occupied_unreachable (s : State) (h : Reachable s) (p : Peer) (hp : p ∉ s.connected) : p ∉ s.ctx :=
  Kad.Coordinator.occupied_unreachable h p hp

/-- Non-vacuity: a reachable state with a context for the connected peer 4 and none for the peer 3 being dialed. -/
example :
    let s := run {} [.cmd .findNode, .engine (.send 0 3) [⟨false, .started, false⟩], .established 4 [],
      .engine (.send 0 4) [⟨true, .err, false⟩]]
    Reachable s ∧ s.connected = [4] ∧ s.ctx = [4] ∧ s.dialing = [3] :=
  ⟨reachable_run .init _, by decide⟩

/-- **Exactly one terminal event at quiescence.** In every reachable state, once the environment has discharged
every obligation — no dial outstanding, no substream open unanswered, no executor future pending — and the
engine has been drained, no query is live any more and every started operation has exactly one terminal
event. -/
theorem terminal_once_at_quiescence (s : State) (h : Reachable s) (hq : Quiescent s) :
    s.engine = [] ∧ ∀ q ∈ s.started, (s.events.filter (fun e => e.1 == q)).length = 1 := by
  have hOwned := waiting_owned s h
  have hempty : s.engine = [] := by
    cases he : s.engine with
    | nil => rfl
    | cons x xs =>
      exfalso
      have hx : x ∈ s.engine := by rw [he]; exact List.mem_cons_self
      have hidle := hq.2.2.2
      unfold engineIdle at hidle
      rw [List.all_eq_true] at hidle
      have h1 := hidle x hx
      unfold WaitingOwned waitingOwnedB at hOwned
      rw [List.all_eq_true] at hOwned
      have h2 := hOwned x hx
      rw [List.all_eq_true] at h2
      cases hp : x.st.pending with
      | nil => simp [hp] at h1
      | cons p ps =>
        have := h2 p (by rw [hp]; exact List.mem_cons_self)
        rw [quiescent_no_owner s hq x p] at this
        exact Bool.false_ne_true this
  refine ⟨hempty, fun q hqs => ?_⟩
  rcases terminal_accounted s h q hqs with ⟨hl, _⟩ | ⟨_, h1⟩
  · rw [hempty] at hl; simp [ids] at hl
  · exact h1

/-- Non-vacuity: the hypotheses hold at the end of a complete run (find_node: one peer queried over a
new connection, it answers, the lookup succeeds). -/
example :
    let s := run {} [.cmd .findNode, .engine (.send 0 3) [⟨false, .started, false⟩], .established 3 [true],
      .subOpened 0, .result ⟨3, 0, .reqResp⟩ .readOk, .engine (.lookupDone 0 true []) []]
    Reachable s ∧ s.dialing = [] ∧ s.opening = [] ∧ s.futs = [] ∧ engineIdle s.engine = true ∧
      s.started = [0] ∧ s.events = [(0, true)] :=
  ⟨reachable_run .init _, by decide⟩

/-- **A put / announcement reports success only with the (clamped) quorum of send successes.**
Every success of the send phase recorded in any reachable state (a `SuccessRec` is logged exactly when
a tracker emits its success event) counted at least `clampQuorum quorum nTargets` *distinct* peers,
and every counted peer had an executor result of a success kind (`SendSuccess`, `AssumeSendSuccess` or
`ReadSuccess`) of a **PUT_VALUE / ADD_PROVIDER future** (`k ≠ reqResp`: futures are tagged with their
message kind) for this query and peer, handled while the tracker was waiting for that peer.

The query id is the same in the lookup phase and in the send phase, and the coordinator reports the
`ReadSuccess` of a lookup-phase FIND_NODE/GET_VALUE request as a send success too; that such a result can
never be counted by the tracker rests on two invariants proved for every schedule
(`Proofs/Kad/CoordinatorQuorum.lean`): during the lookup phase the coordinator holds at most one record (pending
dial action, pending substream action, executor future) per query and peer and none for a peer the lookup
is not waiting for; hence — the engine only hands out fan-out targets the lookup is not waiting for — no
request/response future of the query is in flight for a peer its tracker waits for. -/
theorem put_quorum_sound (s : State) (h : Reachable s) (r : SuccessRec) (hr : r ∈ s.successLog) :
    clampQuorum r.quorum r.nTargets ≤ r.counted.length ∧ r.counted.Nodup ∧
    ∀ p ∈ r.counted, ∃ k, k ≠ .reqResp ∧ (r.q, p, k) ∈ s.sendResults :=
  (QuorumInv.reachable h).log r hr

/-- Non-vacuity: a put to two given peers with quorum N(2): both are dialed, sent the record (one answers,
one stays silent until the read timeout), the operation succeeds and the record lists both. -/
example :
    let s := run {} [.cmd (.putToPeers 1 (.n 2)),
      .engine (.lookupDone 0 true [1, 2]) [⟨false, .started, false⟩, ⟨false, .started, false⟩],
      .established 1 [true], .established 2 [true], .subOpened 0, .subOpened 1,
      .result ⟨1, 0, .putEat⟩ .readOk, .result ⟨2, 0, .putEat⟩ .assumeOk, .engine (.trackerDone 0) []]
    s.events = [(0, true)] ∧ (s.successLog.map (·.counted)) = [[2, 1]] ∧
      s.sendResults = [(0, 2, .putEat), (0, 1, .putEat)] := by
  decide

/-- Non-vacuity (the case the `k ≠ reqResp` clause is about): a `put_record` whose lookup still has a FIND_NODE
request to peer 3 in flight when it ends with target 1; the late `ReadSuccess` of that request is reported as a
send success of query 0 but is not counted, the success rests on the PUT_VALUE future of peer 1. -/
example :
    let s := run {} [.cmd (.putRecord 1 .one), .established 3 [], .engine (.send 0 3) [⟨true, .err, false⟩],
      .subOpened 0, .engine (.lookupDone 0 true [1]) [⟨false, .started, false⟩],
      .result ⟨3, 0, .reqResp⟩ .readOk, .established 1 [true], .subOpened 1,
      .result ⟨1, 0, .putEat⟩ .readOk, .engine (.trackerDone 0) []]
    Reachable s ∧ s.events = [(0, true)] ∧ (s.successLog.map (·.counted)) = [[1]] ∧
      s.sendResults = [(0, 1, .putEat), (0, 3, .reqResp)] :=
  ⟨reachable_run .init _, by decide⟩

/-- **The clamping rule, as coded.** `One ⇒ 1`, `N(n) ⇒ min(n, max(len, 1))`, `All ⇒ max(len, 1)`
with `len` the number of fan-out targets: the required number of successes never exceeds the requested
`n`, is at least 1 (for `n ≥ 1`), and is clamped to the number of discovered peers. -/
theorem quorum_clamp_rule (peers : List Peer) (k : Nat) (hk : 1 ≤ k) :
    (Tracker.new peers .one).peersToSucceed = 1 ∧
    (Tracker.new peers (.n k)).peersToSucceed = min k (max peers.length 1) ∧
    (Tracker.new peers .all).peersToSucceed = max peers.length 1 ∧
    1 ≤ (Tracker.new peers (.n k)).peersToSucceed ∧ (Tracker.new peers (.n k)).peersToSucceed ≤ k ∧
    (peers ≠ [] → (Tracker.new peers (.n k)).peersToSucceed ≤ peers.length) := by
  refine ⟨rfl, rfl, rfl, ?_, ?_, ?_⟩ <;> simp only [Tracker.new, clampQuorum]
  · omega
  · omega
  · intro hne
    have : 0 < peers.length := List.length_pos_iff.mpr hne
    omega

example : (Tracker.new [4, 5] (.n 3)).peersToSucceed = 2 ∧ (Tracker.new [] .all).peersToSucceed = 1 ∧
    (Tracker.new [4, 4] .all).peersToSucceed = 2 ∧ (Tracker.new [4, 4] .all).pending = [4] := by decide

/-! ## The executor: every submitted future yields exactly one result, in bounded time -/

/-- **Exactly one result per submitted future.** In every pool reachable by submissions (fresh ids, any method, any
script of the substream: blocked / unblocked / reset writes, replies, EOF, oversized frames at any time) and ticks of
the clock: a submitted future is either still pending or was yielded exactly once — never lost, never twice; the
result is one its method can produce; it was yielded no later than `WRITE_TIMEOUT + READ_TIMEOUT` after the submission,
and once that time has passed the future is no longer pending. -/
theorem executor_exactly_one_result (w r : Nat) (p : Kad.Executor.Pool) (h : Kad.Executor.Reach w r p)
    (id : Nat) (kind : Kad.Executor.Kind) (t : Nat) (hs : (id, kind, t) ∈ p.submitted) :
    (p.delivered.filter (fun d => d.1 == id)).length ≤ 1 ∧
    ((p.delivered.filter (fun d => d.1 == id)).length = 1 ↔ id ∉ p.pending.map (·.id)) ∧
    (t + w + r ≤ p.now → (p.delivered.filter (fun d => d.1 == id)).length = 1) ∧
    (∀ d ∈ p.delivered, d.1 = id → Kad.Executor.Res.allowed kind d.2.1 = true ∧ d.2.2.2 ≤ t + w + r) := by
  have inv := Kad.Executor.PInv.reach h
  have hid : id ∈ p.submitted.map (·.1) := List.mem_map.mpr ⟨_, hs, rfl⟩
  have hnd : (p.pending.map (·.id) ++ p.delivered.map (·.1)).Nodup := inv.perm.nodup_iff.mpr inv.nodup
  have hmem : id ∈ p.pending.map (·.id) ++ p.delivered.map (·.1) := inv.perm.mem_iff.mpr hid
  have hle := Kad.Executor.filter_length_le_one p.delivered (·.1) (List.nodup_append.mp hnd).2.1 id
  have hiff : (p.delivered.filter (fun d => d.1 == id)).length = 1 ↔ id ∉ p.pending.map (·.id) := by
    constructor
    · intro h1 hp
      have : id ∈ p.delivered.map (·.1) := by
        have : 0 < (p.delivered.filter (fun d => d.1 == id)).length := by omega
        obtain ⟨a, ha⟩ := List.exists_mem_of_length_pos this
        have ha' := List.mem_filter.mp ha
        exact List.mem_map.mpr ⟨a, ha'.1, by simpa using ha'.2⟩
      exact (List.nodup_append.mp hnd).2.2 id hp id this rfl
    · intro hp
      have : id ∈ p.delivered.map (·.1) := by
        rcases List.mem_append.mp hmem with h1 | h1
        · exact absurd h1 hp
        · exact h1
      have := Kad.Executor.filter_length_pos p.delivered (·.1) id this
      omega
  refine ⟨hle, hiff, ?_, ?_⟩
  · intro hnow
    apply hiff.mpr
    intro hp
    obtain ⟨f, hf, hfid⟩ := List.mem_map.mp hp
    obtain ⟨_, hlive, t', ht', hb⟩ := inv.pend f hf
    have hsame : t' = t := by
      have h1 : (f.id, f.kind, t') ∈ p.submitted := ht'
      rw [hfid] at h1
      have := pair_eq_of_nodup_fst p.submitted inv.nodup h1 hs
      exact (Prod.mk.inj (Prod.mk.inj this).2).2
    have := Kad.Executor.live_horizon (r := r) hlive
    omega
  · intro d hd hdid
    obtain ⟨k, t', ht', hall, htime⟩ := inv.deliv d hd
    rw [hdid] at ht'
    have := pair_eq_of_nodup_fst p.submitted inv.nodup ht' hs
    have hk : k = kind := (Prod.mk.inj (Prod.mk.inj this).2).1
    have ht : t' = t := (Prod.mk.inj (Prod.mk.inj this).2).2
    subst hk; subst ht
    exact ⟨hall, htime⟩

/-- Non-vacuity: a request whose reply never comes, one that cannot even be written and a plain send, after 30 s. -/
example :
    let p := ((((({} : Kad.Executor.Pool).submit 15 15 1 .reqResp false [(0, .writable)]).submit 15 15 2 .reqEat false []).submit
      15 15 3 .send false [(2, .writable)]).ticks 15 30)
    p.pending.length = 0 ∧ p.delivered = [(3, .sendOk, true, 2), (1, .readFailTimeout, true, 15), (2, .sendFailTimeout, false, 15)] := by
  decide

/-- The executor's methods as the coordinator uses them (`on_outbound_substream`). -/
def futKind : FKind → Kad.Executor.Kind
  | .reqResp => .reqResp
  | .putEat => .reqEat
  | .sendMsg => .send

/-- `QueryResult` as the coordinator's event loop sees it (the failure reason is only logged). -/
def coordRes : Kad.Executor.Res → Res
  | .sendOk => .sendOk | .assumeOk => .assumeOk
  | .sendFailTimeout | .sendFailClosed => .sendFail
  | .readOk => .readOk
  | .readFailTimeout | .readFailClosed => .readFail

/-- **The result table of the coordinator model is the executor's.** Whatever a future of the executor model yields
is a result the coordinator model accepts for that kind of future (`Res.allowed`, so far a hand-written table). -/
theorem executor_results_allowed (k : FKind) (res : Kad.Executor.Res)
    (h : Kad.Executor.Res.allowed (futKind k) res = true) : Res.allowed k (coordRes res) = true := by
  cases k <;> cases res <;> first | rfl | exact absurd h (by decide)

example : Kad.Executor.Res.allowed (futKind .putEat) .assumeOk = true ∧ Res.allowed .putEat (coordRes .assumeOk) = true := by
  decide

/-- Handle one executor result per outstanding future. -/
def drain (s : State) (rs : List (Fut × Res)) : State := rs.foldl (fun s x => execResult s x.1 x.2) s

theorem execResult_obligations (s : State) (f : Fut) (r : Res) (hf : f ∈ s.futs) (ha : Res.allowed f.kind r = true) :
    (execResult s f r).futs = s.futs.erase f ∧ (execResult s f r).dialing = s.dialing ∧
    (execResult s f r).opening = s.opening := by
  unfold execResult
  rw [if_pos ⟨hf, ha⟩]
  cases r <;> exact ⟨rfl, rfl, rfl⟩

theorem drain_spec (rs : List (Fut × Res)) (s : State) (h : Reachable s) (hperm : (rs.map (·.1)).Perm s.futs)
    (hall : ∀ x ∈ rs, Res.allowed x.1.kind x.2 = true) :
    Reachable (drain s rs) ∧ (drain s rs).futs = [] ∧ (drain s rs).dialing = s.dialing ∧
    (drain s rs).opening = s.opening := by
  induction rs generalizing s with
  | nil =>
    have : s.futs = [] := List.Perm.eq_nil (hperm.symm)
    exact ⟨h, this, rfl, rfl⟩
  | cons x rs ih =>
    have hf : x.1 ∈ s.futs := hperm.mem_iff.mp (by simp)
    have ha := hall x List.mem_cons_self
    have ho := execResult_obligations s x.1 x.2 hf ha
    have hr : Reachable (execResult s x.1 x.2) := .step (.result x.1 x.2) h rfl
    have hp : (rs.map (·.1)).Perm (execResult s x.1 x.2).futs := by
      rw [ho.1]
      have := hperm.erase x.1
      simpa using this
    have := ih (execResult s x.1 x.2) hr hp (fun y hy => hall y (List.mem_cons_of_mem _ hy))
    refine ⟨this.1, this.2.1, ?_, ?_⟩
    · rw [show drain s (x :: rs) = drain (execResult s x.1 x.2) rs from rfl, this.2.2.1, ho.2.1]
    · rw [show drain s (x :: rs) = drain (execResult s x.1 x.2) rs from rfl, this.2.2.2, ho.2.2]

/-- **Every query terminates.** Take any reachable state whose dials are concluded and substream opens answered. The
executor yields exactly one allowed result for each outstanding future within `WRITE_TIMEOUT + READ_TIMEOUT`
(`executor_exactly_one_result`, `executor_results_allowed`) — `rs`, in any order. Once the coordinator has handled
them, no executor obligation is left, and as soon as the engine has nothing more to do every operation ever started has
exactly one terminal event. (A lost result would leave its future in `futs` for ever, and with it the query that waits
for the peer — `waiting_owned`.) -/
theorem every_query_terminates (s : State) (h : Reachable s) (hd : s.dialing = []) (ho : s.opening = [])
    (rs : List (Fut × Res)) (hperm : (rs.map (·.1)).Perm s.futs)
    (hall : ∀ x ∈ rs, Res.allowed x.1.kind x.2 = true) (hidle : engineIdle (drain s rs).engine = true) :
    (drain s rs).futs = [] ∧ (drain s rs).engine = [] ∧
    ∀ q ∈ (drain s rs).started, ((drain s rs).events.filter (fun e => e.1 == q)).length = 1 := by
  have hs := drain_spec rs s h hperm hall
  have hq : Quiescent (drain s rs) := ⟨by rw [hs.2.2.1, hd], by rw [hs.2.2.2, ho], hs.2.1, hidle⟩
  have := terminal_once_at_quiescence (drain s rs) hs.1 hq
  exact ⟨hs.2.1, this.1, this.2⟩

/-- Non-vacuity: a lookup whose only request times out. -/
example :
    let s := run {} [.cmd .findNode, .established 4 [], .engine (.send 0 4) [⟨true, .err, false⟩], .subOpened 0]
    s.futs = [⟨4, 0, .reqResp⟩] ∧ s.dialing = [] ∧ s.opening = [] ∧
    (drain s [(⟨4, 0, .reqResp⟩, .readFail)]).futs = [] ∧
    engineIdle (run (drain s [(⟨4, 0, .reqResp⟩, .readFail)]) [.engine (.lookupDone 0 false []) []]).engine = true := by
  decide

/-! ## The event channel: a full channel suspends the coordinator, nothing is dropped -/

section EventChannel
open Litep2pVerif.Kad.Events

/-- **A terminal event is never dropped.** The coordinator hands every event to the user with
`event_tx.send(ev).await` on a bounded channel (`Model/Kad/Events.lean`). For every capacity `cap > 0` and EVERY
schedule of the three parties (the event loop reaching a send, the send running or suspending on the full channel,
the user reading): what the user has read, followed by the channel content, the event held by the suspended send
and the events the suspended loop has not sent yet, is exactly the sequence of events emitted, in emission order
(conservation); the channel never holds more than `cap` events; and a user who keeps reading (`n ≥ pending` reads)
has read exactly the emitted sequence - each event once, in order - with nothing left anywhere. -/
theorem terminal_event_never_dropped {α : Type} (cap : Nat) (hcap : 0 < cap) (sched : List (Step α)) (n : Nat) :
    let c := sched.foldl Chan.step ({ cap := cap } : Chan α)
    c.all = emitted sched ∧ c.queue.length ≤ cap ∧
    (c.pending ≤ n → (Chan.drain n c).got = emitted sched ∧ (Chan.drain n c).pending = 0) := by
  intro c
  have hall : c.all = emitted sched := by
    have := steps_all sched ({ cap := cap } : Chan α)
    simpa [Chan.all] using this
  have hwf : WF c := steps_wf sched (fresh_wf cap hcap)
  have hcapc : c.cap = cap := steps_cap sched _
  refine ⟨hall, hcapc ▸ hwf.len, fun hn => ?_⟩
  have := drain_all n c hwf hn
  exact ⟨this.2.trans hall, this.1⟩

/-- Non-vacuity: capacity 2, five failures emitted while the user does not read (the third send suspends, the loop
waits), then the user reads: all five arrive, in order. -/
example :
    let sched : List (Step Nat) := [.emit 10, .run, .emit 11, .run, .emit 12, .run, .emit 13, .emit 14, .run, .run]
    let c := sched.foldl Chan.step ({ cap := 2 } : Chan Nat)
    c.queue = [10, 11] ∧ c.blocked = some 12 ∧ c.todo = [13, 14] ∧ c.got = [] ∧ c.pending = 5 ∧
    (Chan.drain 5 c).got = [10, 11, 12, 13, 14] := by decide

/-- The contrast (what the seeded change did): with `try_send` the event that finds the channel full is gone. -/
theorem try_send_drops_witness :
    let c := ([10, 11, 12] : List Nat).foldl Chan.emitTry ({ cap := 2 } : Chan Nat)
    (Chan.drain 5 c).got = [10, 11] ∧ (Chan.drain 5 c).pending = 0 := by decide

/-- **Every query terminates, also through a full event channel.** In the situation of `every_query_terminates`
(dials concluded, opens answered, one allowed result per outstanding future handled, engine idle), whatever the
capacity of the event channel and however the sends of the coordinator's events interleave with the user's reads
(the channel may have been full any number of times): once the user has read `n ≥ pending` more events, for every
operation ever started the user has read exactly one terminal event. -/
theorem every_query_terminates_when_user_reads (s : State) (h : Reachable s) (hd : s.dialing = []) (ho : s.opening = [])
    (rs : List (Fut × Res)) (hperm : (rs.map (·.1)).Perm s.futs)
    (hall : ∀ x ∈ rs, Res.allowed x.1.kind x.2 = true) (hidle : engineIdle (drain s rs).engine = true)
    (cap : Nat) (hcap : 0 < cap) (sched : List (Step (Qid × Bool))) (hem : emitted sched = (drain s rs).events)
    (n : Nat) (hn : (sched.foldl Chan.step ({ cap := cap } : Chan (Qid × Bool))).pending ≤ n) :
    ∀ q ∈ (drain s rs).started,
      ((Chan.drain n (sched.foldl Chan.step ({ cap := cap } : Chan (Qid × Bool)))).got.filter (fun e => e.1 == q)).length = 1 := by
  have h1 := (terminal_event_never_dropped cap hcap sched n).2.2 hn
  rw [h1.1, hem]
  exact (every_query_terminates s h hd ho rs hperm hall hidle).2.2

end EventChannel

/-! ## Inbound requests are answered and validated per configuration -/

/-- **Manual validation mode never stores by itself.** For every history of inbound requests and user commands, in
`IncomingRecordValidationMode::Manual` every key of the record store was stored by the user (`store_record`,
`put_record`, `put_record_to_peers` with local update) — an inbound `PUT_VALUE` is acknowledged and reported, not
stored; in automatic mode an acceptable inbound record is stored. -/
theorem manual_validation_never_stores (cfg : Kad.Serve.Cfg) (ops : List Kad.Serve.Op) :
    (cfg.manualValidation = true →
      ∀ k ∈ Kad.Serve.keys (Kad.Serve.run cfg {} ops), k ∈ Kad.Serve.userKeys ops) ∧
    (cfg.manualValidation = false → ∀ (st : Kad.Serve.SState) (p k size : Nat), size < cfg.maxRecordSize →
      st.records.length < cfg.maxRecords → k ∈ Kad.Serve.keys (Kad.Serve.serve cfg st p (.putValue k size)).1) := by
  refine ⟨fun hm k hk => ?_, fun ha st p k size h1 h2 => Kad.Serve.serve_auto_stores cfg ha st p k size h1 (.inr h2)⟩
  rcases Kad.Serve.manual_keys cfg hm ops {} k hk with h | h
  · simp [Kad.Serve.keys] at h
  · exact h

example : Kad.Serve.keys (Kad.Serve.run { manualValidation := true } {}
      [.inbound 1 (.putValue 5 1), .inbound 1 (.getValue (some 5)), .userPut 6 1]) = [6] ∧
    Kad.Serve.keys (Kad.Serve.run {} {} [.inbound 1 (.putValue 5 1)]) = [5] := by decide

/-- **Requests are answered per kind, whatever the configuration**: exactly the `FIND_NODE`, `GET_VALUE`, `PUT_VALUE`
and `GET_PROVIDERS` requests (the latter two kinds of lookups with a key) get a response — the `PUT_VALUE`
acknowledgement also in manual validation mode and when the record is filtered out. -/
theorem inbound_answered_per_kind (cfg : Kad.Serve.Cfg) (st : Kad.Serve.SState) (p : Nat) (req : Kad.Serve.Req) :
    (Kad.Serve.serve cfg st p req).2.1.isSome = req.answered :=
  Kad.Serve.serve_reply_iff cfg st p req

example : (Kad.Serve.serve { manualValidation := true, maxRecordSize := 0 } {} 1 (.putValue 5 9)).2.1 = some (.putValue 5 9) ∧
    (Kad.Serve.serve {} {} 1 (.addProvider 5 1)).2.1 = none := by decide

/-- **Manual routing-table mode never adds by itself.** For every history, in `RoutingTableUpdateMode::Manual` every
peer of the routing table was added by the user (`add_known_peer` / configured known peers). -/
theorem manual_update_never_adds (cfg : Kad.Serve.Cfg) (hm : cfg.manualUpdate = true) (ops : List Kad.Serve.Op) :
    ∀ p ∈ (Kad.Serve.run cfg {} ops).table, p ∈ Kad.Serve.userPeers ops := by
  intro p hp
  rcases Kad.Serve.manual_table cfg hm ops {} p hp with h | h
  · simp at h
  · exact h

example : (Kad.Serve.run { manualUpdate := true } {} [.learn [(2, true)], .addKnown 3 true]).table = [3] ∧
    (Kad.Serve.run {} {} [.learn [(2, true)], .addKnown 3 true]).table = [2, 3] := by decide

/-- **The settle step covers the executor's timeouts.** The check's `settle` operation advances the
(logical) clock by 16 s per round; the executor's read and write timeouts (regenerated from
`executor.rs` on every run) are shorter, so every silent future has completed afterwards. -/
theorem settle_covers_timeouts :
    Consts.KAD_READ_TIMEOUT_SECS < 16 ∧ Consts.KAD_WRITE_TIMEOUT_SECS < 16 := by decide

#print axioms terminal_once
#print axioms terminal_accounted
#print axioms waiting_owned
#print axioms occupied_unreachable
#print axioms terminal_once_at_quiescence
#print axioms put_quorum_sound
#print axioms quorum_clamp_rule
#print axioms settle_covers_timeouts
#print axioms executor_exactly_one_result
#print axioms executor_results_allowed
#print axioms every_query_terminates
#print axioms terminal_event_never_dropped
#print axioms try_send_drops_witness
#print axioms every_query_terminates_when_user_reads
#print axioms manual_validation_never_stores
#print axioms inbound_answered_per_kind
#print axioms manual_update_never_adds

end Litep2pVerif.Props.C16

/-! ## Wiring — the query parameters given to `kademlia::ConfigBuilder`

Over the wiring model `Model/Node/Wiring.lean` (`Node.new c` = `Litep2p::new(ConfigBuilder…build())`, `notes` / `tcpHeld` =
what the constructed protocol objects / the TCP transport hold, `protocolCodec` = `ProtocolSet::protocol_codec`), tied to
the real code by the `node` area: real nodes built through the public API print what the CONSTRUCTED objects hold and what
a connection's `ProtocolSet` answers for every main and fallback name; the driver prints the model's; compared exactly. -/
namespace Litep2pVerif.Props.C16.Wiring
open Litep2pVerif Litep2pVerif.Node

/-- Kademlia setter calls of the sample: a later call overrides an earlier one; zero bounds. -/
def sampleSets : List KadSet := [.maxRecords 5, .replication 3, .maxRecords 0, .maxProviderKeys 0, .validationMode false]

/-- A configuration with fallback names, zero store bounds and non-default transport settings (non-vacuity examples). -/
def sample : Config :=
  { keepAliveMs := some 600, listen := [1],
    notif := [{ name := "/n/new", max := 32, handshake := "01", fallback := ["/n/a"], mode := 'a', sync := some 7, async := none,
                dial := some false }],
    rr := [{ name := "/r/new", max := 256, timeoutMs := 800, fallback := ["/r/a", "/r/b"], maxInbound := some 3 }],
    user := [⟨"/u/a", .identity 8⟩],
    kad := [{ names := ["/k/2", "/k/1"], max := some 2048,
              sets := sampleSets }],
    ping := some 1, identify := true, bitswap := true, maxParallelDials := some 0,
    tcpSets := [.readAhead 3, .parallelDials 7, .writeBuffer 4] }

/-- Every configured Kademlia instance is constructed with the replication factor (handed to the query engine as well), the
record TTL and the routing-table-update / record-validation modes the user's builder calls leave; a value set last is the
value held. -/
theorem kademlia_config_reaches_protocol (c : Config) :
    (∀ k ∈ c.kad, Note.kad (kadBuild k.sets) ∈ notes (build c)) ∧
    ∀ (sets : List KadSet),
      (∀ n, (kadBuild (sets ++ [.replication n])).replication = n) ∧
      (∀ n, (kadBuild (sets ++ [.recordTtl n])).recordTtlMs = n) ∧
      (∀ b, (kadBuild (sets ++ [.updateMode b])).updateAuto = b) ∧
      (∀ b, (kadBuild (sets ++ [.validationMode b])).validationAuto = b) := by
  refine ⟨fun k hk => notes_kad_mem _ hk, fun sets => ⟨fun n => ?_, fun n => ?_, fun b => ?_, fun b => ?_⟩⟩ <;>
    simp only [kadBuild_append, KadSet.apply]

example : Note.kad (kadBuild sampleSets) ∈ notes (build sample) ∧ (kadBuild sampleSets).replication = 3 ∧
    (kadBuild sampleSets).validationAuto = false ∧ (kadBuild sampleSets).updateAuto = true := by decide

end Litep2pVerif.Props.C16.Wiring

#print axioms Litep2pVerif.Props.C16.Wiring.kademlia_config_reaches_protocol
