import Litep2pVerif.Proofs.Notif.Inv
/-!
C11 — notification streams follow a strict open/close protocol towards the user.

Model: `Model/Notif/Peer.lean` (per-peer machine, all handlers), `Model/Notif/Sys.lean` (composition with
the connection tasks, the handshake service, the validation answers and the transport as a labelled
transition system, per peer). `Reach` = every schedule and every environment behaviour allowed by the
guards; `ReachP` = additionally (a) a connection task that started to close finishes before the protocol
handles anything else for that peer and (b) a validation answer reaches the protocol only while the
inbound substream it was given for is the one being validated.

The full statements (over `Reach`) of `grammar_alternation`, `no_failure_while_open` and `no_bug_reachable`
are FALSE of the code: see the `_witness` theorems (replayed on the real component by checks/c11.py,
known findings `stale-connection-task`, `dangling-pending-open`, `stale-validation-answer`).
-/
namespace Litep2pVerif.Notif

/-- The pairs (state, event) on which a handler hits `debug_assert!(false)` — the computed table. -/
def bugSpec (slot : Slot) : Ev → Bool
  | .connEst _ =>
    match slot with
    | none | some .dialing | some (.valPending .clo) => false
    | _ => true
  | .connClosed => slot.isNone
  | .outbound sid _ pendOk =>
    match slot with
    | some (.outInit s) => !(s == sid && pendOk)
    | some (.validating _ .sending _) | some (.validating _ (.opn _) _) => false
    | some (.validating (.init s) _ _) => s != sid
    | some (.closed (some s)) => s != sid
    | _ => true
  | .inbound _ => slot.isNone
  | .openFailure sid found =>
    !found ||
    match slot with
    | some (.outInit _) | some (.validating ..) => false
    | some (.closed pend) => pend != some sid
    | _ => true
  | .hsNegotiated .outbound _ _ _ _ =>
    match slot with
    | some (.validating .neg _ _) => false
    | _ => true
  | .hsNegotiated .inbound _ _ _ _ =>
    match slot with
    | some (.validating _ .reading _) | some (.validating _ .sending _) => false
    | _ => true
  | .hsError =>
    match slot with
    | some (.validating ..) => false
    | _ => true
  | _ => false

set_option maxHeartbeats 4000000 in
/-- Every (state, event) pair yields a state and a list of effects (the handlers are total functions);
a `debug_assert!(false)` fires exactly on the pairs of the table `bugSpec`. -/
theorem bug_table (slot : Slot) (ev : Ev) : Out.bug ∈ (handle slot ev).2 ↔ bugSpec slot ev = true := by
  rcases slot with _ | (_ | c | pend | _ | s | ⟨out, inb, dir⟩ | t)
  all_goals (try cases out)
  all_goals (try cases inb)
  all_goals (try cases pend)
  all_goals (try cases c)
  all_goals cases ev
  all_goals (try (rename Dir => d; cases d))
  all_goals simp only [handle, onConnEstablished, onConnClosed, onOutboundSubstream, onInboundSubstream,
      onSubstreamOpenFailure, onOpenSubstream, onCloseSubstream, onValidationResult, onHsNegotiated,
      onHsError, onDialFailure, onShutdownNotice, onTimer, hsFinal, PState.dropped, OutSt.pendingOpen]
  all_goals (repeat' split)
  all_goals (try simp_all [bugSpec])
  all_goals (try grind)

set_option maxHeartbeats 4000000 in
/-- No handler gets stuck: the only dead state, `Poisoned`, is entered only together with a `bug` effect
(i.e. on a pair of the table). -/
theorem handler_total (slot : Slot) (ev : Ev) (h : (handle slot ev).1 = some .poisoned) :
    bugSpec slot ev = true ∨ slot = some .poisoned := by
  rw [← bug_table]
  revert h
  rcases slot with _ | (_ | c | pend | _ | s | ⟨out, inb, dir⟩ | t)
  all_goals (try cases out)
  all_goals (try cases inb)
  all_goals (try cases pend)
  all_goals (try cases c)
  all_goals cases ev
  all_goals simp only [handle, onConnEstablished, onConnClosed, onOutboundSubstream, onInboundSubstream,
      onSubstreamOpenFailure, onOpenSubstream, onCloseSubstream, onValidationResult, onHsNegotiated,
      onHsError, onDialFailure, onShutdownNotice, onTimer, hsFinal, PState.dropped, OutSt.pendingOpen]
  all_goals (repeat' split)
  all_goals simp_all

example : bugSpec (some (.closed none)) (.connEst none) = true ∧ bugSpec (some .dialing) (.connEst none) = false ∧
    (handle (some (.closed none)) (.connEst none)).1 = some .poisoned := by decide

/-- Opened and closed strictly alternate on the user channel, starting with opened, and no open failure is
reported while a stream is open — `grammar` folds exactly these three rules over the channel.
FULL statement (`∀ s, Reach s → …`) is false: `grammar_alternation_witness`. -/
theorem grammar_alternation_partial {s : PeerSys} (h : ReachP s) : ∃ b, grammar s.log = some b :=
  ⟨_, (inv_reach h).g⟩

theorem grammar_none (l : List UEv) : l.foldl gstep none = none := by
  induction l with
  | nil => rfl
  | cons e r ih => simpa [List.foldl_cons, gstep] using ih

/-- An open failure is never reported while the user's stream is open. -/
theorem no_failure_while_open_partial {s : PeerSys} (h : ReachP s) (pre post : List UEv) (e : Err)
    (hl : s.log = pre ++ .fail e :: post) : grammar pre = some false := by
  obtain ⟨b, hb⟩ := grammar_alternation_partial h
  rw [hl, grammar, List.foldl_append, List.foldl_cons] at hb
  rcases hp : pre.foldl gstep (some false) with _ | b0
  · rw [hp] at hb; simp [gstep, grammar_none] at hb
  · cases b0
    · exact hp
    · rw [hp] at hb; simp [gstep, grammar_none] at hb

/-- When the connection to the peer is lost, every connection task of the peer has been told to shut down
(it is closing or its oneshot has fired) and the slot is not `Open`; and once the tasks have finished, the
user has been told `closed` for every `opened`. -/
theorem closed_on_disconnect {s : PeerSys} (h : ReachP s) :
    (s.tasks = [] → grammar s.log = some false) ∧
    (enabled s .connClosed = true → prompt s .connClosed = true →
      ∀ k ∈ (step s .connClosed).tasks, k.phase ≠ .running ∨ k.signalled = true) := by
  refine ⟨fun ht => by have := (inv_reach h).g; rw [ht] at this; exact this, ?_⟩
  intro he hp k hk
  have hi := inv_step .connClosed (inv_reach h) he hp
  by_cases hph : k.phase = .running
  · right
    by_cases hsig : k.signalled = true
    · exact hsig
    · have hslot := hi.run k hk hph (by simpa using hsig)
      exfalso
      have : ∀ sl : Slot, isOpn (handle sl .connClosed).1 = false := by
        intro sl
        rcases sl with _ | st
        · rfl
        · cases st <;> simp only [handle, onConnClosed, isOpn]
          rename_i out inb dir
          cases out <;> cases inb <;> rfl
      have hs : (step s .connClosed).slot = (handle s.slot .connClosed).1 := by
        have hsim := runHandler_sim s .connClosed
        simp only [step, evOf, post]
        rw [hsim.2.2]
        generalize ((handle s.slot .connClosed).2.filter relevant) = g
        generalize hb : ({ s with slot := (handle s.slot .connClosed).1 } : PeerSys) = base
        have : base.slot = (handle s.slot .connClosed).1 := by rw [← hb]
        rw [← this]
        clear hb this
        induction g generalizing base with
        | nil => rfl
        | cons o r ih => rw [List.foldl_cons, ih]; cases o <;> rfl
      rw [hs] at hslot
      have := this s.slot
      rw [hslot] at this
      simp [isOpn] at this
  · exact .inl hph

/-- Notifications reach the user only between `opened` and `closed`: the handle forwards a notification
only for peers in its `peers` map, which holds exactly the peers whose `opened` it has yielded and whose
`closed` it has not. -/
def handleView (polled : List UEv) : Bool :=
  polled.foldl (fun v e => match e with | .opened .. => true | .closed => false | _ => v) false

theorem view_of_grammar (l : List UEv) : ∀ (v b : Bool), l.foldl gstep (some v) = some b →
    l.foldl (fun v e => match e with | .opened .. => true | .closed => false | _ => v) v = b := by
  induction l with
  | nil => intro v b h; simpa using h
  | cons e r ih =>
    intro v b h
    rw [List.foldl_cons] at h ⊢
    cases e <;> cases v <;> simp only [gstep] at h <;>
      first | exact ih _ _ h | (rw [grammar_none] at h; cases h)

theorem notif_only_while_open (polled : List UEv) (b : Bool) (h : grammar polled = some b) :
    handleView polled = b := view_of_grammar polled false b h

-- ---------------------------------------------------------------- witnesses of the full statements' failure

/-- Run a list of labels; `okActs` checks the guards along the way. -/
def finalActs (l : List Act) (s : PeerSys) : PeerSys := l.foldl step s

def okActs : List Act → PeerSys → Bool
  | [], _ => true
  | a :: rest, s => enabled s a && okActs rest (step s a)

theorem okActs_reach (l : List Act) : ∀ s, Reach s → okActs l s = true → Reach (finalActs l s) := by
  induction l with
  | nil => intro s hr _; exact hr
  | cons a rest ih =>
    intro s hr h
    simp only [okActs, Bool.and_eq_true] at h
    exact ih _ (.step a hr h.1) h.2

/-- One stream opened through an inbound substream accepted by the user. -/
def openOnce (sid pin pout t : Nat) : List Act :=
  [.subInbound pin, .hsNegotiated .inbound 5 false 9, .validation pin true true sid, .hsNegotiated .inbound 1 false 9,
   .subOpened sid pout, .hsNegotiated .outbound 7 false t]

/-- The old task is signalled by the user's close but does not get to report `closed` before a second
stream to the same peer is negotiated and reported: opened, opened. -/
def lateClosed : List Act :=
  [.connEst true 0] ++ openOnce 0 0 1 0 ++ [.cmdClose] ++ openOnce 1 2 3 1

/-- FULL `grammar_alternation` fails: a reachable state whose user channel is not alternating. -/
theorem grammar_alternation_witness : ∃ s, Reach s ∧ grammar s.log = none := by
  refine ⟨finalActs lateClosed {}, okActs_reach lateClosed {} .init ?_, ?_⟩ <;> decide

/-- The stale shutdown notice (DESIGN §8-j): the task saw the remote close, the user closed the stream and
the remote opened a new inbound substream before the task's notice arrived; the notice resets the new
`Validating` state and the handshake event then hits `debug_assert!(false)`. -/
def staleNotice : List Act :=
  [.connEst true 0] ++ openOnce 0 0 1 0 ++
  [.taskSeesClose 0, .cmdClose, .subInbound 2, .taskNotice 0, .notice, .hsNegotiated .inbound 5 false 9]

/-- FULL `no_bug_reachable` fails. -/
theorem no_bug_reachable_witness : ∃ s, Reach s ∧ UEv.bug ∈ s.log := by
  refine ⟨finalActs staleNotice {}, okActs_reach staleNotice {} .init ?_, ?_⟩ <;> decide

/-- `SubstreamOpenFailure` for the outbound substream of an accepted stream leaves
`Closed{pending_open: Some(dead id)}`; the next open request reuses the dead id: nothing is asked of the
transport, nothing is in flight anywhere, and the request is still unanswered. -/
def danglingOpen : List Act :=
  [.connEst true 0, .subInbound 0, .hsNegotiated .inbound 5 false 9, .validation 0 true true 0,
   .hsNegotiated .inbound 1 false 9, .subFailed 0, .cmdOpen true true true 1]

/-- FULL `open_answered_once` (quiescence part) fails: nobody owes anything, yet the protocol owes an answer. -/
theorem open_answered_once_witness : ∃ s, Reach s ∧ s.connected = true ∧ s.requested = [] ∧ s.hsIn = none ∧
    s.hsOut = none ∧ s.validations = [] ∧ s.tasks = [] ∧ s.notices = 0 ∧ owed s.slot = 1 ∧
    (handle s.slot .timer).1 = s.slot := by
  refine ⟨finalActs danglingOpen {}, okActs_reach danglingOpen {} .init ?_, ?_⟩ <;> decide

/-- The user's Accept for inbound substream 0 (whose negotiation has failed meanwhile) is applied to inbound
substream 2, which is opened without ever having been accepted. -/
def staleAccept : List Act :=
  [.connEst true 0, .cmdOpen true true true 0, .subInbound 0, .subOpened 0 1, .hsNegotiated .inbound 5 false 9,
   .hsError .outbound, .subInbound 2, .hsNegotiated .inbound 6 false 9, .validation 0 true true 1,
   .hsNegotiated .inbound 1 false 9, .subOpened 1 3, .hsNegotiated .outbound 7 false 0]

/-- FULL `inbound_after_accept` fails: a stream whose inbound substream is pipe 2 is opened although the
validation request for pipe 2 is still unanswered (the only answer the user gave was for pipe 0). -/
theorem inbound_after_accept_witness : ∃ s, Reach s ∧
    UEv.opened .inbound 7 0 2 ∈ s.log ∧ 2 ∈ s.validations ∧ 0 ∉ s.validations := by
  refine ⟨finalActs staleAccept {}, okActs_reach staleAccept {} .init ?_, ?_, ?_, ?_⟩ <;> decide

-- non-vacuity: the hypotheses of the partial theorems are satisfiable on a state with an open stream
def happy : List Act := [.connEst true 0] ++ openOnce 0 0 1 0 ++ [.cmdClose, .taskSeesSignal 0, .taskNotice 0, .taskReport 0]

def happyOpen : List Act := [.connEst true 0] ++ openOnce 0 0 1 0

def okActsP : List Act → PeerSys → Bool
  | [], _ => true
  | a :: rest, s => enabled s a && prompt s a && freshAnswer s a && okActsP rest (step s a)

theorem okActsP_reach (l : List Act) : ∀ s, ReachP s → okActsP l s = true → ReachP (finalActs l s) := by
  induction l with
  | nil => intro s hr _; exact hr
  | cons a rest ih =>
    intro s hr h
    simp only [okActsP, Bool.and_eq_true] at h
    exact ih _ (.step a hr h.1.1.1 h.1.1.2 h.1.2) h.2

example : ∃ s, ReachP s ∧ grammar s.log = some false ∧ UEv.closed ∈ s.log ∧ s.tasks = [] := by
  refine ⟨finalActs happy {}, okActsP_reach happy {} .init ?_, ?_, ?_, ?_⟩ <;> decide

example : ∃ s, ReachP s ∧ grammar s.log = some true ∧ enabled s .connClosed = true ∧ prompt s .connClosed = true := by
  refine ⟨finalActs happyOpen {}, okActsP_reach happyOpen {} .init ?_, ?_, ?_, ?_⟩ <;> decide

example : ∃ s pre e post, ReachP s ∧ s.log = pre ++ UEv.fail e :: post := by
  refine ⟨finalActs [.connEst true 0, .cmdOpen true true true 0, .subFailed 0] {}, [.request], .rejected, [],
    okActsP_reach _ {} .init ?_, ?_⟩ <;> decide

example : handleView [.opened .inbound 1 0 0] = true ∧ handleView [.opened .inbound 1 0 0, .closed] = false := by decide

#print axioms handler_total
#print axioms bug_table
#print axioms grammar_alternation_partial
#print axioms grammar_alternation_witness
#print axioms no_failure_while_open_partial
#print axioms open_answered_once_witness
#print axioms inbound_after_accept_witness
#print axioms closed_on_disconnect
#print axioms no_bug_reachable_witness
#print axioms notif_only_while_open

end Litep2pVerif.Notif
