import Litep2pVerif.Proofs.Notif.Inv2
import Litep2pVerif.Proofs.Notif.Handle
import Litep2pVerif.Proofs.Notif.Handshake
import Litep2pVerif.Proofs.Node.Wiring
/-!
C11 — notification streams follow a strict open/close protocol towards the user.

Model: `Model/Notif/Peer.lean` (per-peer machine, all handlers), `Model/Notif/Sys.lean` (composition with
the connection tasks, the handshake service, the validation answers and the transport as a labelled
transition system, per peer). `Reach` = every schedule and every environment behaviour allowed by the
guards. `ReachP` = `Reach` minus the two known findings, i.e. every step additionally satisfies

* `prompt` (scheduling), in two parts:
  1. (finding `stale-connection-task`) a connection task that has ENTERED `close_connection` finishes (notice
     delivered, `NotificationStreamClosed` reported) before the protocol handles anything else for that peer —
     false only if `Substream::close()` stays pending inside the task;
  2. (finding `late-closed-report`) a connection task whose shutdown oneshot has fired but which the executor
     has NOT POLLED since may stay unpolled while the protocol handles any further events of that peer
     (disconnect, reconnect, a new negotiation …) — nothing is assumed about when it runs, except that it runs
     before the protocol next reports `opened` or an open failure for that peer (otherwise its
     `NotificationStreamClosed` comes late on the user channel: `grammar_alternation_witness`). A task that is
     merely not scheduled (the `hold` of the adapter/driver) is therefore inside `ReachP`; only a stalled
     `close()` or an `opened` overtaking the old `closed` is outside;
* `freshAnswer` (usage; finding `stale-validation-answer`): a validation answer reaches the protocol only
  while the inbound substream it was given for is the one being validated (or none is).

Which of them a theorem really uses is said at the theorem. The full statements (over `Reach`) are FALSE of
the code: see the `_witness` theorems (replayed on the real component by checks/c11.py).

A third finding, `dangling-pending-open` (`SubstreamOpenFailure` for the outbound substream of an accepted or
simultaneously opened stream left `Closed{pending_open: Some(dead id)}`, and the next open request reused the
dead id and was never answered), is repaired in the code (`fix: notification: do not reuse a pending outbound
substream that already failed to open`); the model mirrors the repaired `on_open_substream`, and
`open_answered_once_partial` needs no hypothesis about it (see `open_after_late_failure`).
-/
namespace Litep2pVerif.Notif

/-- The pairs (state, event) on which a handler hits `debug_assert!(false)` — the computed table. -/
def bugSpec (slot : Slot) : Ev → Bool
  | .connEst _ =>
    match slot with
    | none | some .dialing | some (.valPending .clo) => false
    | _ => true
  | .connClosed => slot.isNone
  | .outbound sid _ pendOk =>
    match slot with
    | some (.outInit s) => !(s == sid && pendOk)
    | some (.validating _ .sending _) | some (.validating _ (.opn _) _) => false
    | some (.validating (.init s) _ _) => s != sid
    | some (.closed (some s)) => s != sid
    | _ => true
  | .inbound _ => slot.isNone
  | .openFailure sid found =>
    !found ||
    match slot with
    | some (.outInit _) | some (.validating ..) => false
    | some (.closed pend) => pend != some sid
    | _ => true
  | .hsNegotiated .outbound _ _ _ _ =>
    match slot with
    | some (.validating .neg _ _) => false
    | _ => true
  | .hsNegotiated .inbound _ _ _ _ =>
    match slot with
    | some (.validating _ .reading _) | some (.validating _ .sending _) => false
    | _ => true
  | .hsError =>
    match slot with
    | some (.validating ..) => false
    | _ => true
  | _ => false

set_option maxHeartbeats 4000000 in
/-- Every (state, event) pair yields a state and a list of effects (the handlers are total functions);
a `debug_assert!(false)` fires exactly on the pairs of the table `bugSpec`. -/
theorem bug_table (slot : Slot) (ev : Ev) : Out.bug ∈ (handle slot ev).2 ↔ bugSpec slot ev = true := by
  rcases slot with _ | (_ | c | pend | _ | s | ⟨out, inb, dir⟩ | t)
  all_goals (try cases out)
  all_goals (try cases inb)
  all_goals (try cases pend)
  all_goals (try cases c)
  all_goals cases ev
  all_goals (try (rename Dir => d; cases d))
  all_goals simp only [handle, onConnEstablished, onConnClosed, onOutboundSubstream, onInboundSubstream,
      onSubstreamOpenFailure, onOpenSubstream, onCloseSubstream, onValidationResult, onHsNegotiated,
      onHsError, onDialFailure, onShutdownNotice, onTimer, hsFinal, PState.dropped, OutSt.pendingOpen]
  all_goals (repeat' split)
  all_goals (try simp_all [bugSpec])
  all_goals (try grind)

example : Out.bug ∈ (handle (some (.closed none)) (.connEst none)).2 ∧ bugSpec (some (.closed none)) (.connEst none) = true ∧
    Out.bug ∉ (handle (some .dialing) (.connEst none)).2 ∧ bugSpec (some .dialing) (.connEst none) = false := by decide

set_option maxHeartbeats 4000000 in
/-- No handler gets stuck: the only dead state, `Poisoned`, is entered only together with a `bug` effect
(i.e. on a pair of the table). -/
theorem handler_total (slot : Slot) (ev : Ev) (h : (handle slot ev).1 = some .poisoned) :
    bugSpec slot ev = true ∨ slot = some .poisoned := by
  rw [← bug_table]
  revert h
  rcases slot with _ | (_ | c | pend | _ | s | ⟨out, inb, dir⟩ | t)
  all_goals (try cases out)
  all_goals (try cases inb)
  all_goals (try cases pend)
  all_goals (try cases c)
  all_goals cases ev
  all_goals simp only [handle, onConnEstablished, onConnClosed, onOutboundSubstream, onInboundSubstream,
      onSubstreamOpenFailure, onOpenSubstream, onCloseSubstream, onValidationResult, onHsNegotiated,
      onHsError, onDialFailure, onShutdownNotice, onTimer, hsFinal, PState.dropped, OutSt.pendingOpen]
  all_goals (repeat' split)
  all_goals simp_all

-- the hypothesis of `handler_total` is satisfiable in both ways: a pair of the table that poisons the state, and
-- the poisoned state staying poisoned without a new `bug`; a pair outside the table does not poison
example : (handle (some (.closed none)) (.connEst none)).1 = some .poisoned ∧
    bugSpec (some (.closed none)) (.connEst none) = true ∧
    (handle (some (.opn 3)) .hsError).1 = some .poisoned ∧ bugSpec (some (.opn 3)) .hsError = true ∧
    (handle (some .poisoned) .cmdClose).1 = some .poisoned ∧ bugSpec (some .poisoned) .cmdClose = false ∧
    (handle (some .dialing) (.connEst none)).1 ≠ some .poisoned ∧ bugSpec (some .dialing) (.connEst none) = false := by
  decide

/-- Opened and closed strictly alternate on the user channel, starting with opened, and no open failure is
reported while a stream is open — `grammar` folds exactly these three rules over the channel.
FULL statement (`∀ s, Reach s → …`) is false: `grammar_alternation_witness`. -/
theorem grammar_alternation_partial {s : PeerSys} (h : ReachP s) : ∃ b, grammar s.log = some b :=
  ⟨_, (inv_reach h).g⟩

theorem grammar_none (l : List UEv) : l.foldl gstep none = none := by
  induction l with
  | nil => rfl
  | cons e r ih => simpa [List.foldl_cons, gstep] using ih

/-- An open failure is never reported while the user's stream is open. -/
theorem no_failure_while_open_partial {s : PeerSys} (h : ReachP s) (pre post : List UEv) (e : Err)
    (hl : s.log = pre ++ .fail e :: post) : grammar pre = some false := by
  obtain ⟨b, hb⟩ := grammar_alternation_partial h
  rw [hl, grammar, List.foldl_append, List.foldl_cons] at hb
  rcases hp : pre.foldl gstep (some false) with _ | b0
  · rw [hp] at hb; simp [gstep, grammar_none] at hb
  · cases b0
    · exact hp
    · rw [hp] at hb; simp [gstep, grammar_none] at hb

/-- When the connection to the peer is lost, every connection task of the peer has been told to shut down
(it is closing or its oneshot has fired) and the slot is not `Open`; and once the tasks have finished, the
user has been told `closed` for every `opened`. -/
theorem closed_on_disconnect {s : PeerSys} (h : ReachP s) :
    (s.tasks = [] → grammar s.log = some false) ∧
    (enabled s .connClosed = true → prompt s .connClosed = true →
      ∀ k ∈ (step s .connClosed).tasks, k.phase ≠ .running ∨ k.signalled = true) := by
  refine ⟨fun ht => by have := (inv_reach h).g; rw [ht] at this; exact this, ?_⟩
  intro he hp k hk
  have hi := inv_step .connClosed (inv_reach h) he hp
  by_cases hph : k.phase = .running
  · right
    by_cases hsig : k.signalled = true
    · exact hsig
    · have hslot := hi.run k hk hph (by simpa using hsig)
      exfalso
      have : ∀ sl : Slot, isOpn (handle sl .connClosed).1 = false := by
        intro sl
        rcases sl with _ | st
        · rfl
        · cases st <;> simp only [handle, onConnClosed, isOpn]
          rename_i out inb dir
          cases out <;> cases inb <;> rfl
      have hs : (step s .connClosed).slot = (handle s.slot .connClosed).1 := by
        have hsim := runHandler_sim s .connClosed
        simp only [step, evOf, post]
        rw [hsim.2.2]
        generalize ((handle s.slot .connClosed).2.filter relevant) = g
        generalize hb : ({ s with slot := (handle s.slot .connClosed).1 } : PeerSys) = base
        have : base.slot = (handle s.slot .connClosed).1 := by rw [← hb]
        rw [← this]
        clear hb this
        induction g generalizing base with
        | nil => rfl
        | cons o r ih => rw [List.foldl_cons, ih]; cases o <;> rfl
      rw [hs] at hslot
      have := this s.slot
      rw [hslot] at this
      simp [isOpn] at this
  · exact .inl hph

/-- Notifications reach the user only between `opened` and `closed`: the handle forwards a notification
only for peers in its `peers` map, which holds exactly the peers whose `opened` it has yielded and whose
`closed` it has not. -/
def handleView (polled : List UEv) : Bool :=
  polled.foldl (fun v e => match e with | .opened .. => true | .closed => false | _ => v) false

theorem view_of_grammar (l : List UEv) : ∀ (v b : Bool), l.foldl gstep (some v) = some b →
    l.foldl (fun v e => match e with | .opened .. => true | .closed => false | _ => v) v = b := by
  induction l with
  | nil => intro v b h; simpa using h
  | cons e r ih =>
    intro v b h
    rw [List.foldl_cons] at h ⊢
    cases e <;> cases v <;> simp only [gstep] at h <;>
      first | exact ih _ _ h | (rw [grammar_none] at h; cases h)

theorem notif_only_while_open (polled : List UEv) (b : Bool) (h : grammar polled = some b) :
    handleView polled = b := view_of_grammar polled false b h

-- ---------------------------------------------------------------- concrete runs (for the examples and witnesses)

/-- Run a list of labels; `okActs` checks the guards along the way. -/
def finalActs (l : List Act) (s : PeerSys) : PeerSys := l.foldl step s

def okActs : List Act → PeerSys → Bool
  | [], _ => true
  | a :: rest, s => enabled s a && okActs rest (step s a)

theorem okActs_reach (l : List Act) : ∀ s, Reach s → okActs l s = true → Reach (finalActs l s) := by
  induction l with
  | nil => intro s hr _; exact hr
  | cons a rest ih =>
    intro s hr h
    simp only [okActs, Bool.and_eq_true] at h
    exact ih _ (.step a hr h.1) h.2

/-- One stream opened through an inbound substream accepted by the user. -/
def openOnce (sid pin pout t : Nat) : List Act :=
  [.subInbound pin, .hsNegotiated .inbound 5 false 9, .validation pin true true sid, .hsNegotiated .inbound 1 false 9,
   .subOpened sid pout, .hsNegotiated .outbound 7 false t]

def happy : List Act := [.connEst true 0] ++ openOnce 0 0 1 0 ++ [.cmdClose, .taskSeesSignal 0, .taskNotice 0, .taskReport 0]

def happyOpen : List Act := [.connEst true 0] ++ openOnce 0 0 1 0

def okActsP : List Act → PeerSys → Bool
  | [], _ => true
  | a :: rest, s => enabled s a && prompt s a && freshAnswer s a && okActsP rest (step s a)

theorem okActsP_reach (l : List Act) : ∀ s, ReachP s → okActsP l s = true → ReachP (finalActs l s) := by
  induction l with
  | nil => intro s hr _; exact hr
  | cons a rest ih =>
    intro s hr h
    simp only [okActsP, Bool.and_eq_true] at h
    exact ih _ (.step a hr h.1.1.1 h.1.1.2 h.1.2) h.2

/-- A reachable state of the restricted system, given by the labels leading to it. -/
theorem reachP_of (l : List Act) (h : okActsP l {} = true) : ReachP (finalActs l {}) := okActsP_reach l {} .init h

-- ---------------------------------------------------------------- the three theorems resting on `Inv2`

/-- No reachable state of the restricted system has fired a `debug_assert!(false)`: the ghost log records every
`bug` output of every handler run so far, and it contains none.
Uses `prompt` only (a stale shutdown notice is the way to a `bug`); `freshAnswer` is not needed for it. FULL statement (`∀ s, Reach s → …`) is false: `no_bug_reachable_witness`. -/
theorem no_bug_reachable_partial {s : PeerSys} (h : ReachP s) : UEv.bug ∉ s.log := (inv2_reach h).nb

example : ∃ s, ReachP s ∧ UEv.opened .inbound 7 0 0 ∈ s.log ∧ UEv.closed ∈ s.log ∧ s.log.length = 5 :=
  ⟨_, reachP_of happy (by decide), by decide, by decide, by decide⟩

/-- … and the next step does not fire one either (the same fact, said about handler outputs). -/
theorem no_bug_next_partial {s : PeerSys} (h : ReachP s) (a : Act) (he : enabled s a = true) :
    Out.bug ∉ outsOf s a := by
  rcases hev : evOf s a with _ | ⟨s1, ev⟩
  · simp [outsOf, hev]
  · have hslot : s1.slot = s.slot := (before_of (inv2_reach h) he hev).slot
    simp only [outsOf, hev, hslot]
    exact bug_pure _ _ _ (pre_of (inv2_reach h) he hev)

example : ∃ s a, ReachP s ∧ enabled s a = true ∧ outsOf s a = [.shutdown 0] :=
  ⟨_, .cmdClose, reachP_of happyOpen (by decide), by decide, by decide⟩

/-- A request to open a stream to a connected peer with no negotiation in progress is answered by exactly one
of opened / open failure.

1. Taken up: in state `Closed` with no live pending substream (`pending_open` is `None`, or names a substream
   that has already failed to open and is no longer in `pending_outbound`) — connected, nothing in progress —
   an open command appends the ghost marker `request` to the user channel (followed at once by `NoConnection` if
   the transport refuses the substream).
2. Safety: on the user channel `request` markers and answers (`opened`, open failure) alternate strictly — no
   answer without a request, no second request before the answer, no second answer (`lfold`, see
   `Proofs/Notif/Env.lean`); an answer is outstanding exactly when the slot says so (`owed`). The ledger counts
   the user's own Reject of the peer's inbound substream as the answer: the code then reports nothing
   (`ValidationResult::Reject` in `on_validation_result`), also when the user's own open request dies with it.
3. Quiescence: once the environment has discharged its obligations — peer connected, no substream request
   unanswered by the transport, no handshake in progress, no validation unanswered, no negotiation timer that
   would change the state — nothing is owed: every request has been answered.

Uses `prompt` only (`freshAnswer` is not needed). FULL statement (over `Reach`) is false:
`open_answered_once_witness`. -/
theorem open_answered_once_partial {s : PeerSys} (h : ReachP s) :
    (∀ pend, s.slot = some (.closed pend) → (∀ x, pend = some x → x ∉ s.pending) → ∀ sd dk ok sid,
      (step s (.cmdOpen sd dk ok sid)).log = s.log ++ [.request] ∨
      (step s (.cmdOpen sd dk ok sid)).log = s.log ++ [.request, .fail .noconn]) ∧
    lfold s.log = some (decide (owed s.slot = 1)) ∧
    (s.connected = true → s.requested = [] → s.hsIn = none → s.hsOut = none → s.validations = [] →
      (handle s.slot .timer).1 = s.slot → owed s.slot = 0) := by
  have hi := inv2_reach h
  refine ⟨?_, ?_, ?_⟩
  · intro pend hs hdead sd dk ok sid
    simp only [step, evOf, post]
    rw [rh_log, hs]
    rcases pend with _ | x
    · cases (ok && s.connected) <;> simp [handle, onOpenSubstream, takesUp, owes, owed, newEvs, tlF]
    · have hx : x ∉ s.pending := hdead x rfl
      cases (ok && s.connected) <;> simp [handle, onOpenSubstream, takesUp, owes, owed, newEvs, tlF, hx]
  · rw [hi.lg]; rcases owed_cases s.slot with h0 | h0 <;> simp [owes, h0]
  · intro hc hrq hin hout hval htimer
    have h1 := hi.c; have h2 := hi.rq; have h3 := hi.ho; have h4 := hi.hi; have h5 := hi.vl; have h6 := hi.wf
    rw [hc] at h1; rw [hrq] at h2; rw [hout] at h3; rw [hin] at h4; rw [hval] at h5
    rcases hsl : s.slot with _ | st
    · rfl
    · rw [hsl] at h1 h2 h3 h4 h5 h6 htimer
      cases st
      case validating out inb dir =>
        cases out
        case closed => simp [owed]
        case init x => simp [pendOf, isClosedSome, slotSid] at h2
        case neg => simp [outNeg] at h3
        case opn hs po =>
          cases inb
          case closed => simp [handle, onTimer] at htimer
          case reading => simp [inbEntry] at h4
          case validating p => have := h5 p (by simp [slotVal]); simp at this
          case sending => simp [inbEntry] at h4
          case opn pi => simp [slotWf] at h6
      case dialing => simp [slotConn] at h1
      case outInit x => simp [pendOf, isClosedSome, slotSid] at h2
      all_goals rfl

/-- The user's own request, the peer's inbound substream, then the transport opens the outbound one: answered by
`opened`; afterwards everything is quiet and nothing is owed. -/
def ownRequest : List Act :=
  [.connEst true 0, .cmdOpen true true true 0, .subInbound 0, .hsNegotiated .inbound 5 false 9,
   .validation 0 true true 1, .hsNegotiated .inbound 1 false 9, .subOpened 0 1, .hsNegotiated .outbound 7 false 0]

/-- The user asks for a stream and then rejects the peer's inbound substream: nothing is reported. -/
def ownReject : List Act :=
  [.connEst true 0, .cmdOpen true true true 0, .subInbound 0, .hsNegotiated .inbound 5 false 9, .validation 0 false true 1]

-- 1: the hypothesis holds after the connection is established; 2 and 3: a request answered by `opened`, all quiet
-- (the hypotheses of 3 hold) and nothing owed; a request whose answer is outstanding, with the transport owing the
-- substream; the Reject path
example : ∃ s, ReachP s ∧ s.slot = some (.closed none) ∧
    (step s (.cmdOpen true true true 0)).log = [.request] ∧ (step s (.cmdOpen true true false 0)).log = [.request, .fail .noconn] :=
  ⟨_, reachP_of [.connEst true 0] (by decide), by decide, by decide, by decide⟩

/-- The repaired path (former finding `dangling-pending-open`): `SubstreamOpenFailure` for the outbound substream
of an accepted stream leaves `Closed{pending_open: Some(0)}` with id 0 dead; the next open request is taken up, a
new substream is requested from the transport, and the transport owes the answer. -/
def lateFailure : List Act :=
  [.connEst true 0, .subInbound 0, .hsNegotiated .inbound 5 false 9, .validation 0 true true 0,
   .hsNegotiated .inbound 1 false 9, .subFailed 0]

theorem open_after_late_failure : ∃ s, ReachP s ∧ s.slot = some (.closed (some 0)) ∧ 0 ∉ s.pending ∧
    (step s (.cmdOpen true true true 1)).log = s.log ++ [.request] ∧
    (step s (.cmdOpen true true true 1)).slot = some (.outInit 1) ∧
    (step s (.cmdOpen true true true 1)).requested = [1] :=
  ⟨_, reachP_of lateFailure (by decide), by decide, by decide, by decide, by decide, by decide⟩

example : ∃ s, ReachP s ∧ s.log = [.request, .validate 5 0, .accepted 0, .opened .outbound 7 0 0] ∧
    lfold s.log = some false ∧ s.connected = true ∧ s.requested = [] ∧ s.hsIn = none ∧ s.hsOut = none ∧
    s.validations = [] ∧ (handle s.slot .timer).1 = s.slot ∧ owed s.slot = 0 :=
  ⟨_, reachP_of ownRequest (by decide), by decide, by decide, by decide, by decide, by decide, by decide, by decide,
    by decide, by decide⟩

example : ∃ s, ReachP s ∧ s.log = [.request] ∧ lfold s.log = some true ∧ owed s.slot = 1 ∧ s.requested = [0] :=
  ⟨_, reachP_of [.connEst true 0, .cmdOpen true true true 0] (by decide), by decide, by decide, by decide, by decide⟩

example : ∃ s, ReachP s ∧ s.log = [.request, .validate 5 0, .rejected 0] ∧ lfold s.log = some false ∧
    s.slot = some (.closed (some 0)) :=
  ⟨_, reachP_of ownReject (by decide), by decide, by decide, by decide⟩

/-- A stream is reported opened only after the user accepted that very inbound substream, or auto-accept applied
to it.

1. On the user channel every `opened` (its last component is the inbound substream the stream runs on) is
   preceded, within its negotiation round — no other `opened`, no open failure and no Reject in between —, by
   the marker `accepted p` or `autoAccepted p` of exactly that substream `p` (`afold`, see
   `Proofs/Notif/Env.lean`).
2. The marker `accepted q` is produced only by the step that delivers the user's Accept given for substream
   `q` (this is where `freshAnswer` is needed: the code applies an answer to whatever substream of that peer is
   under validation).
3. The marker `autoAccepted q` is produced only when the handshake of inbound substream `q` has been read,
   auto-accept is configured, and the user itself has an open request for that peer outstanding.

Uses `prompt` and `freshAnswer`. FULL statement is false: `inbound_after_accept_witness`. -/
theorem inbound_after_accept_partial {s : PeerSys} (h : ReachP s) :
    (∃ c, afold s.log = some c) ∧
    (∀ a q, enabled s a = true → freshAnswer s a = true → Out.accepted q ∈ outsOf s a →
      ∃ ok sid, a = .validation q true ok sid) ∧
    (∀ a q, Out.autoAccepted q ∈ outsOf s a →
      owed s.slot = 1 ∧ s.hsIn = some (q, false) ∧ ∃ hs t, a = .hsNegotiated .inbound hs true t) := by
  have hi := inv2_reach h
  refine ⟨⟨_, hi.ac⟩, ?_, ?_⟩
  · intro a q he hf hq
    rcases hev : evOf s a with _ | ⟨s1, ev⟩
    · simp [outsOf, hev] at hq
    · have hslot : s1.slot = s.slot := (before_of hi he hev).slot
      simp only [outsOf, hev, hslot] at hq
      obtain ⟨hv, r, rfl⟩ := accepted_pure _ _ _ hq
      cases a <;> simp [evOf] at hev
      case hsNegotiated d hs auto t =>
        cases d <;> simp [Option.map] at hev <;> split at hev <;> simp at hev
      case validation p acc ok sid =>
        obtain ⟨-, rfl, -⟩ := hev
        refine ⟨ok, sid, ?_⟩
        simp only [freshAnswer] at hf
        rcases hsl : s.slot with _ | st
        · rw [hsl] at hv; simp [slotVal] at hv
        · rw [hsl] at hv hf
          cases st <;> simp [slotVal] at hv
          rename_i out inb dir
          cases inb <;> simp at hv
          subst hv
          simp at hf
          rw [hf]
  · intro a q hq
    rcases hev : evOf s a with _ | ⟨s1, ev⟩
    · simp [outsOf, hev] at hq
    · simp only [outsOf, hev] at hq
      obtain ⟨hb, ho, hs, t, rfl⟩ := auto_pure _ _ _ hq
      cases a <;> simp [evOf] at hev
      case hsNegotiated d hs' auto t' =>
        cases d
        · rcases hin : s.hsIn with _ | ⟨p, b⟩
          · rw [hin] at hev; simp at hev
          · rw [hin] at hev; simp at hev
            obtain ⟨rfl, rfl, rfl, rfl, rfl⟩ := hev
            have h4 := hi.hi
            rw [hin, hb] at h4
            simp at h4
            refine ⟨by simpa [owes] using ho, by rw [h4], _, _, rfl⟩
        · rcases hout : s.hsOut with _ | p
          · rw [hout] at hev; simp at hev
          · rw [hout] at hev; simp at hev

-- 1: an `opened` preceded by the acceptance of its inbound substream 0; 2: the step delivering the user's Accept
-- for substream 0 produces `accepted 0`; 3: with auto-accept and an own request outstanding, the handshake of
-- inbound substream 0 produces `autoAccepted 0`
example : ∃ s, ReachP s ∧ s.log = [.validate 5 0, .request, .accepted 0, .opened .inbound 7 0 0] ∧ afold s.log = some none :=
  ⟨_, reachP_of happyOpen (by decide), by decide, by decide⟩

example : ∃ s a, ReachP s ∧ enabled s a = true ∧ freshAnswer s a = true ∧ Out.accepted 0 ∈ outsOf s a :=
  ⟨_, .validation 0 true true 0, reachP_of [.connEst true 0, .subInbound 0, .hsNegotiated .inbound 5 false 9] (by decide),
    by decide, by decide, by decide⟩

example : ∃ s a, ReachP s ∧ enabled s a = true ∧ Out.autoAccepted 0 ∈ outsOf s a :=
  ⟨_, .hsNegotiated .inbound 5 true 9, reachP_of [.connEst true 0, .cmdOpen true true true 0, .subInbound 0] (by decide),
    by decide, by decide⟩

-- ---------------------------------------------------------------- witnesses of the full statements' failure

/-- The old task is signalled by the user's close but is not polled (pure scheduling, no stalled `close()`) before a
second stream to the same peer is negotiated and reported: opened, opened. Part 2 of `prompt` excludes exactly
this (finding `late-closed-report`). -/
def lateClosed : List Act :=
  [.connEst true 0] ++ openOnce 0 0 1 0 ++ [.cmdClose] ++ openOnce 1 2 3 1

/-- FULL `grammar_alternation` fails: a reachable state whose user channel is not alternating. -/
theorem grammar_alternation_witness : ∃ s, Reach s ∧ grammar s.log = none := by
  refine ⟨finalActs lateClosed {}, okActs_reach lateClosed {} .init ?_, ?_⟩ <;> decide

/-- The stale shutdown notice (DESIGN §8-j): the task saw the remote close, the user closed the stream and
the remote opened a new inbound substream before the task's notice arrived; the notice resets the new
`Validating` state and the handshake event then hits `debug_assert!(false)`. -/
def staleNotice : List Act :=
  [.connEst true 0] ++ openOnce 0 0 1 0 ++
  [.taskSeesClose 0, .cmdClose, .subInbound 2, .taskNotice 0, .notice, .hsNegotiated .inbound 5 false 9]

/-- FULL `no_bug_reachable` fails. -/
theorem no_bug_reachable_witness : ∃ s, Reach s ∧ UEv.bug ∈ s.log := by
  refine ⟨finalActs staleNotice {}, okActs_reach staleNotice {} .init ?_, ?_⟩ <;> decide

/-- An accepted stream meets a stale shutdown notice: the task of the previous stream saw the remote close, the
user closed that stream, the peer opened a new inbound substream and the user accepted it (taken up: `request`, an
outbound substream requested from the transport, handshake sent); then the old task's notice arrives and resets
`Validating{OutboundInitiated, Open}` to `Closed`; the transport's answer finds nothing to answer for. (An open
*command* cannot be hit this way on the real component: the handle refuses `open_substream` until it has yielded
`NotificationStreamClosed`, which the task reports after its notice. The transition system does not model that
guard of the handle.) -/
def staleRequest : List Act :=
  [.connEst true 0] ++ openOnce 0 0 1 0 ++
  [.taskSeesClose 0, .cmdClose, .subInbound 2, .hsNegotiated .inbound 5 false 9, .validation 2 true true 1,
   .hsNegotiated .inbound 1 false 9, .taskNotice 0, .notice, .taskReport 0, .subFailed 1]

/-- FULL `open_answered_once` fails: everything is quiet and the slot owes nothing, yet the last request on the
user channel has never been answered. -/
theorem open_answered_once_witness : ∃ s, Reach s ∧ s.connected = true ∧ s.requested = [] ∧ s.hsIn = none ∧
    s.hsOut = none ∧ s.validations = [] ∧ s.tasks = [] ∧ s.notices = 0 ∧ (handle s.slot .timer).1 = s.slot ∧
    owed s.slot = 0 ∧ lfold s.log = some true := by
  refine ⟨finalActs staleRequest {}, okActs_reach staleRequest {} .init ?_, ?_⟩ <;> decide

/-- The user's Accept for inbound substream 0 (whose negotiation has failed meanwhile) is applied to inbound
substream 2, which is opened without ever having been accepted. -/
def staleAccept : List Act :=
  [.connEst true 0, .cmdOpen true true true 0, .subInbound 0, .subOpened 0 1, .hsNegotiated .inbound 5 false 9,
   .hsError .outbound, .subInbound 2, .hsNegotiated .inbound 6 false 9, .validation 0 true true 1,
   .hsNegotiated .inbound 1 false 9, .subOpened 1 3, .hsNegotiated .outbound 7 false 0]

/-- FULL `inbound_after_accept` fails: a stream whose inbound substream is pipe 2 is opened although the
validation request for pipe 2 is still unanswered (the only answer the user gave was for pipe 0). -/
theorem inbound_after_accept_witness : ∃ s, Reach s ∧
    UEv.opened .inbound 7 0 2 ∈ s.log ∧ 2 ∈ s.validations ∧ 0 ∉ s.validations := by
  refine ⟨finalActs staleAccept {}, okActs_reach staleAccept {} .init ?_, ?_, ?_, ?_⟩ <;> decide

-- non-vacuity: the hypotheses of the partial theorems are satisfiable on a state with an open stream
example : ∃ s, ReachP s ∧ grammar s.log = some false ∧ UEv.closed ∈ s.log ∧ s.tasks = [] := by
  refine ⟨finalActs happy {}, okActsP_reach happy {} .init ?_, ?_, ?_, ?_⟩ <;> decide

example : ∃ s, ReachP s ∧ grammar s.log = some true ∧ enabled s .connClosed = true ∧ prompt s .connClosed = true := by
  refine ⟨finalActs happyOpen {}, okActsP_reach happyOpen {} .init ?_, ?_, ?_, ?_⟩ <;> decide

example : ∃ s pre e post, ReachP s ∧ s.log = pre ++ UEv.fail e :: post := by
  refine ⟨finalActs [.connEst true 0, .cmdOpen true true true 0, .subFailed 0] {}, [.request], .rejected, [],
    okActsP_reach _ {} .init ?_, ?_⟩ <;> decide

example : handleView [.opened .inbound 1 0 0] = true ∧ handleView [.opened .inbound 1 0 0, .closed] = false := by decide

/-- A task held across a reconnect: the stream is open, the connection is lost (the task is signalled) and
re-established, the peer opens a new inbound substream and its handshake is read and announced to the user — all
before the executor polls the old task. Then the old task runs (closes quietly, reports `closed`) and the new
negotiation completes. -/
def heldAcrossReconnect : List Act :=
  [.connEst true 0] ++ openOnce 0 0 1 0 ++
  [.connClosed, .connEst true 1, .subInbound 2, .hsNegotiated .inbound 5 false 9,
   .taskSeesSignal 0, .taskNotice 0, .taskReport 0,
   .validation 2 true true 1, .hsNegotiated .inbound 1 false 9, .subOpened 1 3, .hsNegotiated .outbound 7 false 1]

-- the restricted system contains schedules in which a signalled task is not polled while the protocol handles a
-- disconnect, a reconnect and the start of a new negotiation (part 2 of `prompt` is not vacuous), and all the
-- partial theorems speak about them
example : ∃ s, ReachP s ∧ grammar s.log = some true ∧ UEv.closed ∈ s.log ∧ s.slot = some (.opn 1) ∧
    UEv.bug ∉ s.log ∧ lfold s.log = some false :=
  ⟨_, reachP_of heldAcrossReconnect (by decide), by decide, by decide, by decide, by decide, by decide⟩

example : ∃ s, ReachP s ∧ Busy s = true ∧ InClose s = false ∧ s.connected = true ∧
    s.slot = some (.validating .closed (.validating 2) .inbound) :=
  ⟨_, reachP_of (heldAcrossReconnect.take 11) (by decide), by decide, by decide, by decide, by decide⟩

/-! ### The handle's batch commands (`open_substream_batch`, `try_open_substream_batch`, `close_substream_batch`)

`Model/Notif/Handle.lean`: the handle splits the peers it is given into those that have a stream in its view
(`toIgnore`) and the others (`toAdd`, a set), sends ONE command for the latter, and the protocol runs
`on_open_substream` once per peer of the set, in the set's iteration order (`batchOpen`, any order). -/
section Batch
open NotifHandle

/-- **Every peer of a batch gets its own, exactly-one `on_open_substream`, whatever the iteration order of the
set**: a peer named in the call is either already in the handle's view — then it is in `toIgnore` (what
`open_substream_batch` returns as `Err`; `try_open_substream_batch` does not report it) and its world is
untouched — or its world makes exactly the step a single `open_substream` makes, with its own arguments; the
worlds of all other peers are untouched. Duplicates in the call count once. -/
theorem batch_open_answers_each (ms : Multi) (view peers : List Nat) (order : List (Nat × OpenArgs))
    (hset : ∀ p, p ∈ order.map (·.1) ↔ p ∈ toAdd view peers) (hn : (order.map (·.1)).Nodup) :
    (∀ p ∈ peers,
      (p ∈ view ∧ p ∈ toIgnore view peers ∧ getP (batchOpen ms order) p = getP ms p) ∨
      (p ∉ view ∧ ∃ a, (p, a) ∈ order ∧ getP (batchOpen ms order) p = step (getP ms p) a.act)) ∧
    (∀ q, q ∉ peers → getP (batchOpen ms order) q = getP ms q) := by
  refine ⟨fun p hp => ?_, fun q hq => ?_⟩
  · by_cases hv : p ∈ view
    · refine .inl ⟨hv, (mem_toIgnore view peers p).2 ⟨hp, hv⟩, batchOpen_other order ms p ?_⟩
      rw [hset, mem_toAdd]
      exact fun h => h.2 hv
    · have hm : p ∈ order.map (·.1) := (hset p).2 ((mem_toAdd view peers p).2 ⟨hp, hv⟩)
      obtain ⟨⟨p', a⟩, hm', rfl⟩ := List.mem_map.1 hm
      exact .inr ⟨hv, a, hm', batchOpen_each order ms p' a hn hm'⟩
  · refine batchOpen_other order ms q ?_
    rw [hset, mem_toAdd]
    exact fun h => hq h.1

/-- … hence the answer ledger of `open_answered_once_partial` holds for every peer after a batch (each single
step being one the restricted system allows). -/
theorem batch_open_answered_once (ms : Multi) (order : List (Nat × OpenArgs)) (hn : (order.map (·.1)).Nodup)
    (hr : ∀ p, ReachP (getP ms p))
    (he : ∀ x ∈ order, enabled (getP ms x.1) x.2.act = true ∧ prompt (getP ms x.1) x.2.act = true) (p : Nat) :
    lfold (getP (batchOpen ms order) p).log = some (decide (owed (getP (batchOpen ms order) p).slot = 1)) :=
  (open_answered_once_partial (batchOpen_reachP order ms hn hr he p)).2.1

/-- The batch results, exactly as the code computes them: `open_substream_batch` sends the command also when it
returns `Err(to_ignore)`; the `try_` variant returns the peers it did NOT send a command for when the channel is
full and says nothing about the ignored ones; nothing to close ⇒ no command. -/
theorem batch_results (view peers : List Nat) :
    openBatch view peers false = (some (.openSet (toAdd view peers)),
      if (toIgnore view peers).isEmpty then .ok else .ignored (toIgnore view peers)) ∧
    openBatch view peers true = (none, .blocked) ∧
    tryOpenBatch view peers true = (none, .full (toAdd view peers)) ∧
    tryOpenBatch view peers false = (some (.openSet (toAdd view peers)), .ok) ∧
    ((toIgnore view peers).isEmpty = true → ∀ full, closeBatch view peers full = (none, .ok) ∧
      tryCloseBatch view peers full = (none, .none)) := by
  refine ⟨rfl, rfl, rfl, rfl, fun h full => ?_⟩
  simp [closeBatch, tryCloseBatch, h]

def twoPeers : Multi := [(1, finalActs [.connEst true 0] {}), (2, finalActs [.connEst true 0] {})]

-- non-vacuity: peer 1 and 2 connected and idle, peer 2 already in the handle's view: `open_substream_batch([2,1,1,3])`
example : toAdd [2] [2, 1, 1, 3] = [1, 3] ∧ toIgnore [2] [2, 1, 1, 3] = [2] ∧
    (getP (batchOpen twoPeers [(3, ⟨false, false, false, 9⟩), (1, ⟨true, true, true, 7⟩)]) 1).slot = some (.outInit 7) ∧
    (getP (batchOpen twoPeers [(3, ⟨false, false, false, 9⟩), (1, ⟨true, true, true, 7⟩)]) 3).log = [.request, .fail .dialfail] ∧
    (getP (batchOpen twoPeers [(3, ⟨false, false, false, 9⟩), (1, ⟨true, true, true, 7⟩)]) 2).slot = some (.closed none) := by
  decide

example : openBatch [2] [2, 1, 1, 3] false = (some (.openSet [1, 3]), .ignored [2]) ∧
    tryOpenBatch [2] [2, 1] true = (none, .full [1]) ∧ tryCloseBatch [2] [1, 3] false = (none, .none) ∧
    closeBatch [2] [1, 2, 2] false = (some (.closeSet [2]), .ok) := by decide

end Batch

/-! ### The handshake service (`HandshakeService`, negotiation.rs) — `Model/Notif/Handshake.lean` -/
section Handshake
open NotifHs

/-- **Handshake bytes over the limit are refused by both sides, never truncated.**
Reading (either direction): the first unread frame of the substream is handed over unchanged if it is within
the limit, and the entry fails — nothing is handed over, nothing is consumed — if it is above.
Sending (accepted inbound substream or outbound substream): a local handshake above the limit (it is read when
it is to be sent, so `set_handshake` counts up to that moment) makes the entry fail with nothing written.
Whatever the service hands to the protocol, in any poll of any history and for any iteration order of its hash
map, is within the limit. -/
theorem handshake_bounded (maxSize : Nat) (hsLocal : List Nat) :
    (∀ (f : List Nat) (rest : List (List Nat)) (e : Entry), e.state = .readHandshake → e.expired = false →
      e.sub.reset = false → e.sub.toLocal = f :: rest →
      (f.length > maxSize → entryPoll maxSize hsLocal e = (e, .error)) ∧
      (f.length ≤ maxSize →
        entryPoll maxSize hsLocal e = ({ e with sub := { e.sub with toLocal := rest } }, .ready f))) ∧
    (∀ (e : Entry), (e.state = .sendHandshake ∨ e.state = .sinkReady) → e.expired = false →
      hsLocal.length > maxSize →
      (entryPoll maxSize hsLocal e).2 = .error ∧ (entryPoll maxSize hsLocal e).1.sub = e.sub) ∧
    (∀ (s : Service) (order : List Key), ReadyBounded maxSize s →
      ReadyBounded maxSize (poll maxSize hsLocal s order).1 ∧
      ∀ p d hs, (poll maxSize hsLocal s order).2 = some (.negotiated p d hs) → hs.length ≤ maxSize) :=
  ⟨fun f rest e h1 h2 h3 h4 => read_bounded maxSize hsLocal f rest e h1 h2 h3 h4,
   fun e h1 h2 h3 => send_bounded maxSize hsLocal e h1 h2 h3,
   fun s order h => poll_bounded maxSize hsLocal s order h⟩

/-- A handed-over handshake is the empty marker of a sent handshake or exactly the first unread frame of that
entry's substream; every frame an entry writes is the local handshake, within the limit. -/
theorem handshake_exact (maxSize : Nat) (hsLocal : List Nat) (e : Entry) :
    (∀ hs, (entryPoll maxSize hsLocal e).2 = .ready hs →
      hs.length ≤ maxSize ∧ (hs = [] ∨ ∃ rest, e.sub.toLocal = hs :: rest)) ∧
    (entryPoll maxSize hsLocal e).1.key = e.key :=
  entryPoll_spec maxSize hsLocal e

/-- The order inside one `poll_next`: a queued result goes out before any I/O (`pop_event`); an entry whose timer
has fired fails before its substream is looked at; removing an entry (repaired defect) removes the results queued
for it. -/
theorem handshake_poll_order (maxSize : Nat) (hsLocal : List Nat) :
    (∀ (s : Service) (order : List Key) (ev : Event), (popEvent s.entries s.ready).2 = some ev →
      (poll maxSize hsLocal s order).2 = some ev ∧ subsAfter maxSize hsLocal s order = s.entries) ∧
    (∀ e : Entry, e.expired = true → entryPoll maxSize hsLocal e = (e, .error)) ∧
    (∀ (s : Service) (k : Key), ∀ r ∈ (s.remove k).ready, r.1 ≠ k) :=
  ⟨fun s order ev h => ready_first maxSize hsLocal s order ev h,
   fun e h => expired_fails maxSize hsLocal e h,
   fun s k => remove_purges s k⟩

/-- The defect that was repaired (`fix: notification handshake service drops queued results of removed
substreams`): the peer's inbound handshake `[7]` is read and queued in the same poll in which its outbound
substream fails; the protocol removes both entries; with the OLD removal the queued result survives (the empty
service is not polled) and the peer's NEXT inbound substream — on which nothing has arrived yet — is handed out
at once with the old handshake. With the repaired removal the new substream stays pending. -/
def staleIn : Entry := { peer := 1, dir := .inbound, state := .readHandshake, sub := { toLocal := [[7]] } }
def staleOut : Entry := { peer := 1, dir := .outbound, state := .readHandshake, sub := { reset := true } }
def staleSvc : Service := (poll 64 [1] { entries := [staleIn, staleOut] } [(1, .inbound), (1, .outbound)]).1
def freshIn : Entry := { peer := 1, dir := .inbound, state := .readHandshake }

theorem handshake_stale_result_witness :
    (poll 64 [1] { entries := [staleIn, staleOut] } [(1, .inbound), (1, .outbound)]).2 = some (.error 1 .outbound) ∧
    (poll 64 [1] (((staleSvc.removeOld (1, .outbound)).removeOld (1, .inbound)).insert freshIn) [(1, .inbound)]).2
      = some (.negotiated 1 .inbound [7]) ∧
    (poll 64 [1] (((staleSvc.remove (1, .outbound)).remove (1, .inbound)).insert freshIn) [(1, .inbound)]).2 = none := by
  decide

-- non-vacuity
example : entryPoll 4 [1, 2] { peer := 1, dir := .outbound, state := .sendHandshake, sub := { toLocal := [[9, 9, 9, 9, 9]] } }
    = ({ peer := 1, dir := .outbound, state := .readHandshake, sub := { toLocal := [[9, 9, 9, 9, 9]], toRemote := [[1, 2]] } }, .error) := by
  decide
example : (entryPoll 4 [1, 2, 3, 4, 5] { peer := 1, dir := .inbound, state := .sendHandshake }).2 = .error ∧
    (entryPoll 5 [1, 2, 3, 4, 5] { peer := 1, dir := .inbound, state := .sendHandshake }).2 = .ready [] := by decide
example : ReadyBounded 4 { entries := [staleIn], ready := [((1, .inbound), [1, 2, 3, 4])] } := by
  intro r hr; simp at hr; subst hr; decide
example : (popEvent [staleIn] [((2, .inbound), [5]), ((1, .inbound), [6])]).2 = some (.negotiated 1 .inbound [6]) ∧
    (entryPoll 4 [] { staleIn with expired := true }).2 = .error := by decide

end Handshake

#print axioms handler_total
#print axioms bug_table
#print axioms grammar_alternation_partial
#print axioms grammar_alternation_witness
#print axioms no_failure_while_open_partial
#print axioms open_answered_once_witness
#print axioms inbound_after_accept_witness
#print axioms closed_on_disconnect
#print axioms no_bug_reachable_witness
#print axioms no_bug_reachable_partial
#print axioms no_bug_next_partial
#print axioms open_answered_once_partial
#print axioms open_after_late_failure
#print axioms inbound_after_accept_partial
#print axioms notif_only_while_open
#print axioms batch_open_answers_each
#print axioms batch_open_answered_once
#print axioms batch_results
#print axioms handshake_bounded
#print axioms handshake_exact
#print axioms handshake_poll_order
#print axioms handshake_stale_result_witness

end Litep2pVerif.Notif

/-! ## Wiring — what `Litep2p::new` hands over (coverage round `node`)

Over the wiring model `Model/Node/Wiring.lean` (`Node.new c` = `Litep2p::new(ConfigBuilder…build())`), which is tied to
the real `ConfigBuilder`/`Litep2p::new` by the `node` area: the adapter prints the ACTUAL registration record of a node built
through the public API, the driver prints the model's, compared field by field on every run. -/
namespace Litep2pVerif.Props.C11.Wiring
open Litep2pVerif Litep2pVerif.Node

/-- A configuration with every kind of protocol (used by the non-vacuity examples). -/
def sample : Config :=
  { keepAliveMs := some 600, limits := some (some 2, none), listen := [1, 2],
    notif := [⟨"/n/a", 1024, "0102", ["/n/old"], 'a', some 64, some 64, none⟩],
    rr := [⟨"/r/a", 256, 800, ["/r/old"], none⟩, ⟨"/r/b", 64, 800, [], some 1⟩],
    user := [⟨"/u/a", .varint none⟩], kad := [⟨[], none, []⟩], ping := some 1, identify := true, bitswap := true,
    known := some [(0, [.listen 0, .closed, .quic, .wrongPeer 0, .noPeer 0])] }

/-- Every configured notification protocol is registered under its own name with its OWN codec and maximum notification
size, its own fallback names, as a keep-alive protocol — and no other registration bears that name. -/
theorem notification_registered_with_own_codec_and_size (c : Config) (w : Wired) (h : Node.new c = .ok w) :
    ∀ p ∈ (build c).notif, ∃ r ∈ w.regs, r.name = p.name ∧ r.codec = .varint (some p.max) ∧ r.fallback = p.fallback ∧
      r.keepAlive = true ∧ ∀ r' ∈ w.regs, r'.name = p.name → r' = r := by
  intro p hp
  obtain ⟨hreg, _, rfl⟩ := wire_ok h
  refine ⟨_, notif_mem_registrations _ hp, rfl, rfl, rfl, rfl, ?_⟩
  intro r' hr' he
  cases hr : registerAll [] (registrations (build c)) with
  | none => exact absurd hr hreg
  | some t => exact unique_by_name (registerAll_names hr).1 (notif_mem_registrations _ hp) hr' he

example : ∃ w, Node.new sample = .ok w ∧
    (w.regs.filter (fun r => r.name = "/n/a")).map (fun r => (r.codec, r.fallback)) = [(.varint (some 1024), ["/n/old"])] :=
  ⟨_, rfl, by decide⟩

/-- Every configured notification protocol object is constructed with its OWN channel sizes (the crate defaults when the
setters were not called), auto-accept and dialing switches and handshake bytes. -/
theorem notification_config_reaches_protocol (c : Config) :
    ∀ p ∈ (build c).notif,
      Note.notif p.name (p.sync.getD Consts.NODE_NOTIF_SYNC_CHANNEL_SIZE) (p.async.getD Consts.NODE_NOTIF_ASYNC_CHANNEL_SIZE)
        (p.mode == 'a') (p.dial.getD true) p.handshake ∈ notes (build c) :=
  fun _ hp => notes_notif_mem _ hp

example : Note.notif "/n/a" 64 64 true true "0102" ∈ notes (build sample) := by decide

end Litep2pVerif.Props.C11.Wiring

#print axioms Litep2pVerif.Props.C11.Wiring.notification_registered_with_own_codec_and_size
#print axioms Litep2pVerif.Props.C11.Wiring.notification_config_reaches_protocol
