import Litep2pVerif.Proofs.Manager.LedgerStep
import Litep2pVerif.Proofs.Node.Wiring
import Litep2pVerif.Proofs.Manager.Proto
import Litep2pVerif.Proofs.Manager.Facade
import Litep2pVerif.Proofs.Tcp.Poll
/-!
# C05 — Every dial attempt ends in exactly one outcome and never wedges the peer

Property theorems only. Model: `Model/Manager/{PeerState,Limits,Dial}.lean` (operational copy of
`src/transport/manager/{peer_state,limits,mod}.rs` **after** the two repairs `fix: dial_address
rejects addresses with components after the first /p2p` (finding (f)) and `fix: report a dial
failure and clear the dial record when connection limits reject a dialed connection` (finding
(d))). Lemmas and the invariant: `Proofs/Manager/{Basic,Addr,Ledger,LedgerStep}.lean`.

`Reach g`: `g` is reachable from an initial manager (any limit configuration) by inputs the
environment contract `allowed` admits — any API call at any time; transport events only for
outstanding obligations (`g.owed`: one per `dial`/`open`/`negotiate`/`accept` call, removed by its
terminal event or by `cancel`), reporting the peer the transport parsed from the dialed address;
inbound connections with ids taken from the shared counter; `accept` succeeds; a connection closes
only after it was accepted. The transport's `dial`/`open`/`negotiate` return `Ok`: for `dial` this is
`dial_address_parses_for_tcp` below (finding (e) is unreachable with TCP), `TcpTransport::open`
has no error return and `negotiate` only fails for an id it did not report (finding (g), latent).

Ghost state (functions of inputs and outputs only): `g.ledger` — one `Attempt` per API call that
made the manager call `dial`/`open` on the transport; `g.log` — every event `next()` returned;
`outcome g a` — reports in the log that conclude `a` (`ConnectionEstablished` for the connection that
carries `a`: its own, or the inbound one that superseded it while opening; `DialFailure`/`OpenFailure`
for its own id); `inflight g a` — 1 iff the environment still owes the event that concludes `a`.

**Protocol level** (`Model/Manager/Proto.lean`, lemmas `Proofs/Manager/Proto.lean`): `PS` wraps `G` with
the bounded event channel of every installed protocol, the command channel, and the manager step
that is suspended inside `next()` on a blocking `send()` to a full channel (`todo`, `held`). `PReach`:
reachable by contract-abiding base inputs (refused while the manager is blocked), protocol dial
requests through `TransportManagerHandle::dial` / `dial_address`, anything filling a channel, a
protocol draining its channel, and the two internal steps "the manager takes the next command" and
"the blocked send is polled again" — in every order, for every number and order of protocols and
every channel capacity. Ghost: `sent j` / `recv j` (what entered / left channel `j`), `done` (the
fate of every processed command), `pall ps j` = what protocol `j` was sent or is still being sent.

**Facade level** (`Model/Manager/Facade.lean`, lemmas `Proofs/Manager/Facade.lean`): `Litep2p::dial` /
`dial_address` forward to the manager (`facadeDial`, `facadeDialAddress`); `facadeEvent` is the `match`
of `Litep2p::next_event` over every `TransportEvent` shape (`none` = the `_ => {}` arm: dropped, poll
again); `facadeEvents l` = what the user is handed for the events `l` the manager returned;
`concluding g a` = the manager reports that conclude attempt `a`; `uoutcome g a` = how many user
events they become.
-/
namespace Litep2pVerif.Props.C05
open Litep2pVerif Litep2pVerif.Manager

/-- **Never two reports.** An accepted dial attempt never gets two reports: not two failures, not a
connection and a failure. -/
theorem no_dup_outcome {g : G} (h : Reach g) (a : Attempt) (ha : a ∈ g.ledger) : outcome g a ≤ 1 := by
  rcases ((inv05_reach h).ledger a ha).2 with ⟨_, h0⟩ | ⟨_, h1⟩ <;> omega

/-- **Exactly one outcome, never silence.** In every reachable state, for every accepted attempt:
either the transport still owes the event that concludes it and nothing was reported yet, or it
owes nothing and exactly one report was made. -/
theorem dial_ledger {g : G} (h : Reach g) (a : Attempt) (ha : a ∈ g.ledger) :
    outcome g a + inflight g a = 1 := by
  unfold inflight
  rcases ((inv05_reach h).ledger a ha).2 with ⟨hin, h0⟩ | ⟨hnot, h1⟩
  · rw [if_pos (any_conn_iff.2 hin)]; omega
  · rw [if_neg (fun hc => hnot (any_conn_iff.1 hc))]; omega

/-- Non-vacuity, and the history of finding (d): outbound limit 1, two concurrent dials, both
connections establish. The second is rejected by the limit; (after the fix) its attempt is
concluded by a `DialFailure`, nothing is in flight, and both attempts have exactly one report. -/
example :
    let g := runG (G.init ⟨none, some 1⟩)
      [.dialAddress [.ip4 1, .tcp 1, .p2p 1], .dialAddress [.ip4 2, .tcp 2, .p2p 2],
       .evEstablished 1 ⟨false, [.ip4 1, .tcp 1, .p2p 1], 0⟩ true,
       .evEstablished 2 ⟨false, [.ip4 2, .tcp 2, .p2p 2], 1⟩ true,
       .acceptResult 0 true]
    g.ledger = [⟨2, 1, 1⟩, ⟨1, 0, 0⟩] ∧ g.owed = [] ∧
    outcome g ⟨2, 1, 1⟩ = 1 ∧ outcome g ⟨1, 0, 0⟩ = 1 ∧ stateOf g.m 2 = .disconnected none ∧
    g.log = [.dialFailure 1 [.ip4 2, .tcp 2, .p2p 2] .negotiation,
             .established 1 ⟨false, [.ip4 1, .tcp 1, .p2p 1], 0⟩] := by
  decide

/-- The same history is admitted by the environment contract, i.e. the state is `Reach`able. -/
example : Reach (runG (G.init ⟨none, some 1⟩)
      [.dialAddress [.ip4 1, .tcp 1, .p2p 1], .dialAddress [.ip4 2, .tcp 2, .p2p 2],
       .evEstablished 1 ⟨false, [.ip4 1, .tcp 1, .p2p 1], 0⟩ true,
       .evEstablished 2 ⟨false, [.ip4 2, .tcp 2, .p2p 2], 1⟩ true,
       .acceptResult 0 true]) :=
  Reach.step _ (Reach.step _ (Reach.step _ (Reach.step _ (Reach.step _ (Reach.init _)
    (by decide)) (by decide)) (by decide)) (by decide)) (by decide)

/-- **A quiescent peer can be dialed again.** If the transport owes nothing for `p` (all network
activity for `p` has concluded) and the manager keeps no connection slot for `p`, then `p` is
`Disconnected` without dial record — so `can_dial` says yes and a dial is really attempted: `dial`
calls `open` on the transport whenever an address is known and there is outbound capacity, and
`dial_address` calls `dial` for every well-formed TCP address of `p`. (Every open connection of `p`
occupies a slot: C06 `two_per_peer`.) -/
theorem quiescent_dialable {g : G} (h : Reach g) (p : Peer)
    (hquiet : ∀ o ∈ g.owed, o.peer ≠ p) (hnoconn : (stateOf g.m p).slots = []) :
    stateOf g.m p = .disconnected none ∧
    (∀ ch cap, p ≠ localPeer → g.m.limits.onDialAddress = some cap →
      (selectAddrs (g.m.peers p).addresses cap ch).isEmpty = false →
      (dial g.m p ch).2.res = .ok ∧
      (dial g.m p ch).2.calls = [.open g.m.nextConn (selectAddrs (g.m.peers p).addresses cap ch)]) ∧
    (∀ first port cap, first.isIpOrDns = true → g.m.limits.onDialAddress = some cap →
      [first, .tcp port, .p2p p] ∉ listenAddrs →
      (dialAddress g.m [first, .tcp port, .p2p p]).2.res = .ok ∧
      (dialAddress g.m [first, .tcp port, .p2p p]).2.calls =
        [.dial g.m.nextConn [first, .tcp port, .p2p p]]) := by
  have hi := inv05_reach h
  have hidle : stateOf g.m p = .disconnected none := by
    cases hs : stateOf g.m p with
    | connected r sec =>
      rw [hs] at hnoconn
      cases sec with
      | none => simp [PeerState.slots] at hnoconn
      | some x => cases x <;> simp [PeerState.slots] at hnoconn
    | opening as c ts => exact absurd rfl (hquiet _ (hi.openTracked p as c ts hs))
    | dialing d =>
      exact absurd rfl (hquiet _ (hi.dialTracked p d.conn (by rw [hs]; simp [PeerState.holdsDial])))
    | disconnected d =>
      cases d with
      | none => rfl
      | some d =>
        exact absurd rfl (hquiet _ (hi.dialTracked p d.conn (by rw [hs]; simp [PeerState.holdsDial])))
  refine ⟨hidle, ?_, ?_⟩
  · intro ch cap hloc hcap hne
    unfold dial
    simp [hcap, hloc, hidle, PeerState.canDial, hne]
  · intro first port cap hip hcap hnl
    unfold dialAddress
    simp [hcap, lastPeer, hnl, dialAddrTransport, hip, hidle, PeerState.dialSingleAddress, PeerState.canDial]

/-- Non-vacuity: after a failed dial by peer id (open failure) the peer is quiescent and the next
`dial` is attempted with a new connection id. -/
example :
    let g := runG (G.init ⟨none, none⟩)
      [.addKnown 1 [[.ip4 1, .tcp 1, .p2p 1]], .dial 1 [], .evOpenFailure 0 [([.ip4 1, .tcp 1, .p2p 1], .timeout)]]
    g.owed = [] ∧ stateOf g.m 1 = .disconnected none ∧
    (dial g.m 1 []).2.calls = [.open 1 [[.ip4 1, .tcp 1, .p2p 1]]] ∧ outcome g ⟨1, 0, 0⟩ = 1 := by
  decide

/-- **`dial_address` is total on every multiaddress shape.** Whatever the state and the address:
no panic, and either (1) an error is returned, no call is made and no peer state, pending
connection, limit counter or pending accept changes; or (2) `Ok` is returned because the peer named
by the last `/p2p` already has a dial in progress, again without any change; or (3) an attempt
starts: the peer was idle, `dial` is called once with a new connection id, the peer is `Dialing`
with that id, the id is pending for that peer — and the peer the TCP transport will verify is the
same peer (finding (f) repaired). -/
theorem addr_total (s : Mgr) (a : Multiaddr) :
    let r := dialAddress s a
    r.2.panic = false ∧
    ((∃ e, r.2.res = .err e ∧ r.2.calls = [] ∧ r.2.events = [] ∧ (∀ q, stateOf r.1 q = stateOf s q) ∧
        r.1.pending = s.pending ∧ r.1.limits = s.limits ∧ r.1.pendingAccept = s.pendingAccept) ∨
     (∃ p, r.2.res = .ok ∧ r.2.calls = [] ∧ r.2.events = [] ∧ lastPeer a = some p ∧
        (stateOf s p).canDial = .dialingInProgress ∧ (∀ q, stateOf r.1 q = stateOf s q) ∧
        r.1.pending = s.pending) ∨
     (∃ p, r.2.res = .ok ∧ r.2.calls = [.dial s.nextConn a] ∧ lastPeer a = some p ∧
        tcpParse a = some (some p) ∧ stateOf s p = .disconnected none ∧
        stateOf r.1 p = .dialing ⟨a, s.nextConn⟩ ∧ (∀ q, q ≠ p → stateOf r.1 q = stateOf s q) ∧
        alookup s.nextConn r.1.pending = some p)) := by
  intro r
  obtain ⟨hshape, hpanic⟩ := dialAddress_shape' s a r rfl
  refine ⟨hpanic, ?_⟩
  cases hshape with
  | refused e hres hcalls hev hst hpend hlim hpa _ =>
    exact Or.inl ⟨e, hres, hcalls, hev, hst, hpend, hlim, hpa⟩
  | joined p hres hcalls hev hremote hbusy hst hpend _ _ _ =>
    exact Or.inr (Or.inl ⟨p, hres, hcalls, hev, hremote, hbusy, hst, hpend⟩)
  | started p hres hcalls hev hremote htcp hidle hst hpend _ _ _ =>
    refine Or.inr (Or.inr ⟨p, hres, hcalls, hremote, htcp, hidle, ?_, ?_, ?_⟩)
    · rw [hst p, if_pos rfl]
    · intro q hq; rw [hst q, if_neg hq]
    · rw [hpend, alookup_ainsert, if_pos rfl]

/-- Non-vacuity: the address of finding (f) (`…/p2p/1/p2p/2`) and other adversarial shapes are
refused without touching any state; a well-formed address starts an attempt. -/
example :
    (dialAddress (Mgr.init {}) [.ip4 5, .tcp 5, .p2p 1, .p2p 2]).2.res = .err .transportNotSupported ∧
    (dialAddress (Mgr.init {}) [.ip4 5, .tcp 5, .p2p 1, .other 0, .p2p 2]).2.res = .err .transportNotSupported ∧
    (dialAddress (Mgr.init {}) [.ip4 5, .tcp 5]).2.res = .err .peerIdMissing ∧
    (dialAddress (Mgr.init {}) [.p2p 1]).2.res = .err .transportNotSupported ∧
    (dialAddress (Mgr.init {}) []).2.res = .err .peerIdMissing ∧
    (dialAddress (Mgr.init {}) [.ip4 5, .tcp 5, .ws, .p2p 1]).2.res = .err .transportNotSupported ∧
    (dialAddress (Mgr.init {}) [.ip4 99, .tcp 99, .p2p 0]).2.res = .err .triedToDialSelf ∧
    (dialAddress (Mgr.init {}) [.dns 5, .tcp 5, .p2p 1]).2.calls = [.dial 0 [.dns 5, .tcp 5, .p2p 1]] := by
  decide

/-- **Finding (e) is unreachable with TCP.** Every address `dial_address` hands to the transport
is accepted by the TCP address parser, so `TcpTransport::dial` returns `Ok` and the peer cannot be
left `Dialing` by a failing call. -/
theorem dial_address_parses_for_tcp (a : Multiaddr) (t : Transport) (h : dialAddrTransport a = some t) :
    tcpParse a ≠ none := by
  obtain ⟨first, port, p, rfl, hip⟩ := dialAddrTransport_shape h
  rw [tcpParse_of_shape _ _ _ hip]; simp

/-- **Finding (f) repaired.** For every address `dial_address` lets through, the peer the TCP
transport dials and verifies (first `/p2p`) is the peer the manager keeps the dial record for (last
`/p2p`). -/
theorem dial_address_peers_agree (a : Multiaddr) (t : Transport) (h : dialAddrTransport a = some t) :
    ∃ p, lastPeer a = some p ∧ tcpParse a = some (some p) := by
  obtain ⟨first, port, p, rfl, hip⟩ := dialAddrTransport_shape h
  exact ⟨p, lastPeer_of_shape _ _ _, tcpParse_of_shape _ _ _ hip⟩

example : dialAddrTransport [.ip6 3, .tcp 7, .p2p 4] = some .tcp ∧
    tcpParse [.ip4 5, .tcp 5, .p2p 1, .p2p 2] = some (some 1) ∧ lastPeer [.ip4 5, .tcp 5, .p2p 1, .p2p 2] = some 2 ∧
    dialAddrTransport [.ip4 5, .tcp 5, .p2p 1, .p2p 2] = none := by
  decide

/-- **The synchronous part of the real TCP transport accepts whatever the manager hands it.** Every
`Transport::dial` call `dial_address` makes and every `Transport::open` call `dial` makes — in every
state, for every address / address-book content, ports 0 and 65535, unspecified, broadcast and loopback
hosts included (the model's addresses are arbitrary numbers) — passes the synchronous checks of
`TcpTransport::dial` / `open` (`tcpDialSync`, `tcpOpenSync`: the address parser, nothing else). So the
`?` after `Transport::dial` in `dial_address`, which would leave the peer `Dialing` with no pending
connection (wedged: every later dial answers `Ok` "dialing in progress"), is never taken. The adapter
runs the REAL `TcpTransport::dial` / `open` behind the scripted transport: a synchronous refusal the
real transport gains is a disagreement with this model on the refused address. -/
theorem transport_dial_total_on_accepted_shapes (s : Mgr) :
    (∀ a c a', Call.dial c a' ∈ (dialAddress s a).2.calls → tcpDialSync a' = true) ∧
    (∀ p ch c as, Call.open c as ∈ (dial s p ch).2.calls → tcpOpenSync as = true) := by
  refine ⟨fun a c a' h => ?_, fun _ _ _ _ _ => rfl⟩
  cases dialAddress_shape s a with
  | refused e _ hcalls _ _ _ _ _ _ => rw [hcalls] at h; cases h
  | joined p _ hcalls _ _ _ _ _ _ _ _ => rw [hcalls] at h; cases h
  | started p _ hcalls _ _ htcp _ _ _ _ _ _ =>
    rw [hcalls, List.mem_singleton] at h
    injection h with _ ha
    rw [ha, tcpDialSync, htcp]; rfl

/-- Non-vacuity: port 0 on an unspecified host, port 65535 on a "broadcast" host (`ip4 99999` in the
harness's numbering) and a DNS name on port 0 are handed to the transport and pass its synchronous
part; a `/ws` address never reaches it. -/
example :
    (dialAddress (Mgr.init {}) [.ip4 0, .tcp 0, .p2p 1]).2.calls = [.dial 0 [.ip4 0, .tcp 0, .p2p 1]] ∧
    tcpDialSync [.ip4 0, .tcp 0, .p2p 1] = true ∧
    (dialAddress (Mgr.init {}) [.ip4 99999, .tcp 65535, .p2p 2]).2.calls = [.dial 0 [.ip4 99999, .tcp 65535, .p2p 2]] ∧
    tcpDialSync [.dns6 3, .tcp 0, .p2p 3] = true ∧
    (dialAddress (Mgr.init {}) [.ip4 5, .tcp 0, .ws, .p2p 1]).2.calls = [] ∧
    tcpDialSync [.ip4 5, .udp 0, .p2p 1] = false := by
  decide

/-! ## Dial requests of the protocols -/

theorem poutcome_eq {ps : PS} (h : PInv ps) {j : Nat} (hj : j ∈ ps.order) (a : Attempt) :
    poutcome ps j a = outcome ps.g a := by
  unfold poutcome pall
  rw [h.tied j hj]
  exact h.rep a

theorem eq_singleton_of_length_le_one {α : Type} {l : List α} {d : α} (hl : l.length ≤ 1) (hd : d ∈ l) : l = [d] := by
  match l, hl, hd with
  | [x], _, hd => simp at hd; rw [hd]

/-- **Every accepted dial request of a protocol ends in exactly one outcome, for every protocol.**
In every reachable state, for every installed protocol `j`:

1. every request that was accepted (`TransportManagerHandle::dial` / `dial_address` returned `Ok` and
   queued a command; they are numbered `0 .. nextReq-1`) is *either* still in the command channel
   (the manager has not got to it) *or* was processed, exactly once;
2. a processed request `d` either
   * `started c`: made the manager start the attempt `a` with connection id `c` for the requested
     peer — and for that attempt protocol `j` was/is being sent exactly one report
     (`ConnectionEstablished{peer}` of the connection carrying it or `DialFailure{peer, addresses}`)
     once the transport owes nothing for it, none before: `poutcome ps j a + inflight ps.g a = 1`;
   * `failed`: the queued dial failed (node at its connection limit, unsupported transport, own
     address, no address, ...): protocol `j` was/is being sent exactly one failure report for it,
     `failEv d` = `DialFailure{peer, []}` for `DialPeer` (fix `e94cf63`) and
     `DialFailure{peer of the trailing /p2p, [address]}` for `DialAddress` (fix `transport manager
     reports a dial failure to the protocols when a queued DialAddress command fails`);
   * `joined` / `connected`: no report of its own (see `protocol_dial_joins` for what a joined
     request is concluded by; `connected`: the connection's own `ConnectionEstablished`);
   * never `silent`: no processed request ended with a merely logged error (the handle only queues
     addresses that end in `/p2p`, so there is always a peer to report the failure for);
3. the same ledger holds for every attempt the manager ever started, whoever asked for it — never
   two reports, never both a connection and a failure;
4. `pall` is real delivery: when the manager is not blocked, what protocol `j` was sent is exactly
   what it took out of its channel followed by what sits in the channel — after a drain, everything. -/
theorem protocol_dial_ledger {ps : PS} (h : PReach ps) (j : Nat) (hj : j ∈ ps.order) :
    (∀ k, k < ps.nextReq →
      (ps.done.filter (fun d => d.cmd.k == k)).length + (ps.cmds.filter (fun c => c.k == k)).length = 1) ∧
    (∀ d ∈ ps.done,
      (∀ c, d.fate = .started c →
        ∃ a ∈ ps.g.ledger, a.conn = c ∧ a.peer = cmdPeer d.cmd ∧ poutcome ps j a + inflight ps.g a = 1) ∧
      (d.fate = .failed → pfailures ps j d.cmd.k = [failEv d]) ∧
      (d.fate ≠ .failed → pfailures ps j d.cmd.k = []) ∧
      d.fate ≠ .silent) ∧
    (∀ a ∈ ps.g.ledger, poutcome ps j a + inflight ps.g a = 1 ∧ poutcome ps j a ≤ 1) ∧
    (ps.todo = [] → pall ps j = ps.recv j ++ (ps.chans j).filterMap slotEv) := by
  have hi := pinv_reach h
  refine ⟨?_, ?_, ?_, ?_⟩
  · intro k hk
    have := hi.acct k
    rwa [if_pos hk] at this
  · intro d hd
    have hone : (ps.done.filter (fun d' => d'.cmd.k == d.cmd.k)).length ≤ 1 := by
      have := hi.acct d.cmd.k
      split at this <;> omega
    have hmem : d ∈ ps.done.filter (fun d' => d'.cmd.k == d.cmd.k) := List.mem_filter.2 ⟨hd, by simp⟩
    have hsingle := eq_singleton_of_length_le_one hone hmem
    have hpf : pfailures ps j d.cmd.k =
        ((ps.done.filter (fun d' => d'.cmd.k == d.cmd.k)).filter (fun d' => d'.fate == .failed)).map failEv := by
      unfold pfailures pall
      rw [hi.tied j hj, hi.failedEv d.cmd.k, List.filter_filter]
      congr 1
      apply List.filter_congr
      intro x _
      rw [Bool.and_comm]
    rw [hsingle] at hpf
    refine ⟨?_, ?_, ?_, hi.noSilent d hd⟩
    · intro c hc
      obtain ⟨a, ha, h1, h2⟩ := hi.started d hd c hc
      exact ⟨a, ha, h1, h2, by rw [poutcome_eq hi hj]; exact dial_ledger hi.reach a ha⟩
    · intro hf; rw [hpf]; simp [hf]
    · intro hf; rw [hpf]; simp [hf]
  · intro a ha
    rw [poutcome_eq hi hj]
    exact ⟨dial_ledger hi.reach a ha, no_dup_outcome hi.reach a ha⟩
  · intro hidle
    unfold pall
    rw [hidle, ← hi.split j]
    simp [pend]

/-- Non-vacuity: two protocols with channels of capacity 1, protocol 0 dials peer 1, the channel of
protocol 1 is full when the open failure arrives: the manager is suspended on protocol 1, protocol 0
already has its report; after protocol 1 drained its channel the send completes, `next()` returns
the `OpenFailure`, and both protocols were sent exactly one `DialFailure{1, [address]}`. -/
example :
    let ps := runP (PS.init ⟨none, none⟩ 1 [0, 1])
      [.base (.addKnown 1 [[.ip4 1, .tcp 1, .p2p 1]]), .pdial 0 1, .runCmd [], .pfill 1,
       .base (.evOpenFailure 0 [([.ip4 1, .tcp 1, .p2p 1], .timeout)])]
    let ps' := runP ps [.pdrain 1, .resume]
    ps.done = [⟨.dialPeer 0 0 1, .started 0⟩] ∧ ps.g.ledger = [⟨1, 0, 0⟩] ∧
    ps.todo = [(1, ⟨.df, 1, 0, [[.ip4 1, .tcp 1, .p2p 1]], .conn 0⟩)] ∧
    ps.held = [.openFailure 0 [([.ip4 1, .tcp 1, .p2p 1], .timeout)]] ∧
    ps.chans 0 = [.ev ⟨.df, 1, 0, [[.ip4 1, .tcp 1, .p2p 1]], .conn 0⟩] ∧ ps.chans 1 = [.fill] ∧
    poutcome ps 0 ⟨1, 0, 0⟩ = 1 ∧ poutcome ps 1 ⟨1, 0, 0⟩ = 1 ∧ inflight ps.g ⟨1, 0, 0⟩ = 0 ∧
    ps'.todo = [] ∧ ps'.chans 1 = [.ev ⟨.df, 1, 0, [[.ip4 1, .tcp 1, .p2p 1]], .conn 0⟩] ∧
    (pstep (pstep ps (.pdrain 1)).1 .resume).2.out.events = [.openFailure 0 [([.ip4 1, .tcp 1, .p2p 1], .timeout)]] := by
  decide

/-- The suspended state of that history is `PReach`able. -/
example : PReach (runP (PS.init ⟨none, none⟩ 1 [0, 1])
      [.base (.addKnown 1 [[.ip4 1, .tcp 1, .p2p 1]]), .pdial 0 1, .runCmd [], .pfill 1,
       .base (.evOpenFailure 0 [([.ip4 1, .tcp 1, .p2p 1], .timeout)])]) :=
  PReach.step _ (PReach.step _ (PReach.step _ (PReach.step _ (PReach.step _ (PReach.init _ _ _ (by decide))
    (by decide)) (by decide)) (by decide)) (by decide)) (by decide)

/-- Non-vacuity of the `failed` case (the repair `e94cf63`): at the outgoing-connection limit the
queued `DialPeer` fails and the protocol is sent `DialFailure{1, []}` — exactly once. -/
example :
    let ps := runP (PS.init ⟨none, some 0⟩ 2 [0])
      [.base (.addKnown 1 [[.ip4 1, .tcp 1, .p2p 1]]), .pdial 0 1, .runCmd []]
    ps.done = [⟨.dialPeer 0 0 1, .failed⟩] ∧ ps.cmds = [] ∧
    pfailures ps 0 0 = [⟨.df, 1, 0, [], .cmd 0⟩] ∧ ps.chans 0 = [.ev ⟨.df, 1, 0, [], .cmd 0⟩] := by
  decide

/-- **A request that joins a dial in progress.** If `TransportManagerHandle::dial` answers `Ok`
without queueing a command, or the manager finds a dial in progress when it gets to the queued
command, then the peer's state says so and the transport owes the terminal event of an attempt
for that peer (`∃ o ∈ owed, o.peer = p`, not an accept): that attempt is in the ledger of
`protocol_dial_ledger`, so its one report goes to every protocol, the requesting one included. -/
theorem protocol_dial_joins {ps : PS} (h : PReach ps) (p : Peer)
    (hbusy : (stateOf ps.g.m p).canDial = .dialingInProgress) :
    (∀ j, (handleDial ps j p).1 = ps ∨ p = localPeer) ∧
    ∃ o ∈ ps.g.owed, o.peer = p ∧ o.phase ≠ .accepting := by
  have hi := inv05_reach (pinv_reach h).reach
  refine ⟨?_, ?_⟩
  · intro j
    unfold handleDial
    by_cases hl : p = localPeer
    · exact Or.inr hl
    · left; simp [hl, hbusy]
  · cases hs : stateOf ps.g.m p with
    | connected r sec => rw [hs] at hbusy; simp [PeerState.canDial] at hbusy
    | opening as c ts => exact ⟨_, hi.openTracked p as c ts hs, rfl, by simp⟩
    | dialing d =>
      exact ⟨_, hi.dialTracked p d.conn (by rw [hs]; simp [PeerState.holdsDial]), rfl, by simp⟩
    | disconnected d =>
      cases d with
      | none => rw [hs] at hbusy; simp [PeerState.canDial] at hbusy
      | some d => exact ⟨_, hi.dialTracked p d.conn (by rw [hs]; simp [PeerState.holdsDial]), rfl, by simp⟩

example :
    let ps := runP (PS.init ⟨none, none⟩ 1 [0])
      [.base (.addKnown 1 [[.ip4 1, .tcp 1, .p2p 1]]), .pdial 0 1, .runCmd [], .pdial 0 1]
    (stateOf ps.g.m 1).canDial = .dialingInProgress ∧ ps.cmds = [] ∧ ps.nextReq = 1 ∧
    ps.g.owed = [⟨0, .opening, 1⟩] := by
  decide

theorem runSends_mono (cap : Nat) (x : Slot) (j : Nat) : ∀ (l : List (Nat × PEv)) (ch : Nat → List Slot)
    (st : Nat → List PEv), x ∈ ch j → x ∈ (runSends cap ch st l).1 j
  | [], _, _, h => by simpa [runSends] using h
  | (i, e) :: t, ch, st, h => by
    simp only [runSends]
    split
    · apply runSends_mono cap x j t
      by_cases hij : j = i <;> simp [pushAt, hij, h]
      subst hij; exact Or.inl h
    · exact h

/-- **A full channel delays the report but never loses it.** Let the manager be suspended inside
`next()` on the blocking send of notification `e` to protocol `j` (its `try_send` found the channel
full). Then (1) `e` is among what protocol `j` is being sent; (2) whatever happens next — any
operation of the application or the environment (refused: the manager is blocked), any protocol
dialing, filling or draining any channel, any internal step — either leaves the blocked send
exactly where it is or puts `e` into the channel of protocol `j`; (3) as soon as protocol `j` has
drained its channel the send completes: `e` is in the channel, and if nothing else blocks, `next()`
returns the held events. (`protocol_dial_ledger` adds: in every reachable state every protocol was or
is being sent every report exactly once.) -/
theorem protocol_notified_despite_full_channel (ps : PS) (j : Nat) (e : PEv) (t : List (Nat × PEv))
    (hs : ps.todo = (j, e) :: t) :
    e ∈ pend ps.todo j ∧
    (∀ i, (pstep ps i).1.todo = ps.todo ∨ Slot.ev e ∈ (pstep ps i).1.chans j) ∧
    (0 < ps.cap →
      Slot.ev e ∈ (pstep (pstep ps (.pdrain j)).1 .resume).1.chans j ∧
      ((pstep (pstep ps (.pdrain j)).1 .resume).1.todo = [] →
        (pstep (pstep ps (.pdrain j)).1 .resume).2.out.events = ps.held)) := by
  have hres : ∀ ps' : PS, ps'.todo = (j, e) :: t → (ps'.chans j).length < ps'.cap →
      Slot.ev e ∈ (resume ps').1.chans j ∧ ((resume ps').1.todo = [] → (resume ps').2.out.events = ps'.held) := by
    intro ps' hs' hroom
    have hm := runSends_mono ps'.cap (.ev e) j t (pushAt ps'.chans j (.ev e)) (pushAt ps'.sent j e)
      (by simp [pushAt])
    unfold resume
    rw [hs']
    simp only [hroom, if_true]
    split <;> rename_i heq <;> rw [heq] at hm
    · exact ⟨hm, fun _ => rfl⟩
    · exact ⟨hm, fun h => by simp at h⟩
  refine ⟨by rw [hs, pend_cons]; simp, ?_, ?_⟩
  · intro i
    have hne : (!ps.todo.isEmpty) = true := by rw [hs]; rfl
    cases i with
    | base i => left; simp [pstep, pbase, hne]
    | pdial j' p => left; simp only [pstep, handleDial]; (repeat' split) <;> rfl
    | pdialAddr j' a => left; simp only [pstep, handleDialAddress]; (repeat' split) <;> rfl
    | pfill j' => left; rfl
    | pdrain j' => left; rfl
    | runCmd ch => left; simp [pstep, runCmd, hne]
    | resume =>
      by_cases hroom : (ps.chans j).length < ps.cap
      · exact Or.inr (hres ps hs hroom).1
      · left; simp [pstep, resume, hs, hroom]
  · intro hcap
    have hd : (pstep ps (.pdrain j)).1.todo = (j, e) :: t := hs
    exact hres _ hd (by simp [pstep, pdrain]; exact hcap)

/-- Non-vacuity: the suspended state of the history above satisfies the hypothesis. -/
example :
    (runP (PS.init ⟨none, none⟩ 1 [0, 1])
      [.base (.addKnown 1 [[.ip4 1, .tcp 1, .p2p 1]]), .pdial 0 1, .runCmd [], .pfill 1,
       .base (.evOpenFailure 0 [([.ip4 1, .tcp 1, .p2p 1], .timeout)])]).todo =
      (1, ⟨.df, 1, 0, [[.ip4 1, .tcp 1, .p2p 1]], .conn 0⟩) :: [] := by
  decide

/-- Non-vacuity of the `failed` case for `dial_address` requests (formerly the defect "a queued
`DialAddress` that fails is only logged", now repaired): at the outgoing-connection limit the
request is accepted, the queued command fails, and the protocol is sent
`DialFailure{1, [address]}` — exactly once. An address that does not end in `/p2p` is refused by the
handle and queues nothing. -/
example :
    let ps := runP (PS.init ⟨none, some 0⟩ 2 [0]) [.pdialAddr 0 [.ip4 1, .tcp 1, .p2p 1], .runCmd []]
    ps.done = [⟨.dialAddress 0 0 [.ip4 1, .tcp 1, .p2p 1], .failed⟩] ∧ ps.cmds = [] ∧ ps.todo = [] ∧
    pfailures ps 0 0 = [⟨.df, 1, 0, [[.ip4 1, .tcp 1, .p2p 1]], .cmd 0⟩] ∧
    failEv ⟨.dialAddress 0 0 [.ip4 1, .tcp 1, .p2p 1], .failed⟩ = ⟨.df, 1, 0, [[.ip4 1, .tcp 1, .p2p 1]], .cmd 0⟩ ∧
    ps.chans 0 = [.ev ⟨.df, 1, 0, [[.ip4 1, .tcp 1, .p2p 1]], .cmd 0⟩] ∧
    (pstep (PS.init ⟨none, none⟩ 2 [0]) (.pdialAddr 0 [.ip4 1, .tcp 1, .p2p 1, .ws])).2.hres = some (some .nopeerid) ∧
    (pstep (PS.init ⟨none, none⟩ 2 [0]) (.pdialAddr 0 [.ip4 1, .tcp 1, .p2p 1, .ws])).1.cmds = [] := by
  decide

/-! ## The `Litep2p` facade -/

/-- **Every concluded dial is reported to the user of `Litep2p`, exactly once.** `Litep2p::dial` and
`Litep2p::dial_address` are the manager's `dial` / `dial_address` (so the ledger of accepted attempts is
the ledger of the dials the facade accepted and started). In every reachable state, for every such
attempt `a`:

1. at the facade (`Litep2p::next_event` polled until the manager is idle) the attempt has exactly one
   user event once the transport owes nothing for it, and none before: `uoutcome g a + inflight g a = 1`
   — never silence, never a duplicate;
2. that user event is one of `ConnectionEstablished` / `DialFailure` / `ListDialFailures` (never a
   `ConnectionClosed`), and it carries exactly what the manager reported: peer and endpoint, or the
   failed address and its error, or the whole `(address, error)` list — whatever its length, **the empty
   list included** (`OpenFailure { errors: [] }`, the overall dial deadline of `TcpTransport::open`,
   is `ListDialFailures { errors: [] }`, not silence);
3. observation — outcomes that produce NO user event: none. Every event `TransportManager::next()` can
   return (its four `return Some(..)` sites = the constructors of `Ev`) is translated; the `_ => {}`
   arm of `next_event` only catches `PendingInboundConnection` / `ConnectionOpened`, which the manager
   consumes itself and never returns;
4. the facade is a one-to-one translation: as many user events as the manager returned events.

(An accepted `dial` that starts no attempt of its own because one is in progress — `Ok` with
`dialingInProgress` — is concluded by that attempt's single report: `addr_total` case 2,
`protocol_dial_joins`.) -/
theorem facade_reports_every_outcome {g : G} (h : Reach g) (a : Attempt) (ha : a ∈ g.ledger) :
    ((∀ s p ch, facadeDial s p ch = dial s p ch) ∧ (∀ s ad, facadeDialAddress s ad = dialAddress s ad)) ∧
    uoutcome g a + inflight g a = 1 ∧
    (∀ e ∈ concluding g a,
      ∃ u, facadeEvent e.toT = some u ∧ u.isDialOutcome = true ∧ u.carries e = true) ∧
    (∀ e : Ev, (facadeEvent e.toT).isSome = true) ∧
    (facadeEvents g.log).length = g.log.length := by
  refine ⟨⟨fun _ _ _ => rfl, fun _ _ => rfl⟩, ?_, ?_, facadeEvent_toT_isSome, facadeEvents_length _⟩
  · rw [uoutcome_eq_outcome]; exact dial_ledger h a ha
  · intro e he
    have hr : reports a e = 1 := by
      have := (List.mem_filter.1 he).2
      simpa using this
    exact facade_of_report a e hr

/-- Non-vacuity, and the history of the missed change: a dial by peer id whose `open` ends with an
`OpenFailure` that carries NO per-address error (overall dial deadline). The manager concludes the
attempt (peer `Disconnected`, nothing owed, nothing pending) and the user is handed
`ListDialFailures { errors: [] }` — one report. -/
example :
    let g := runG (G.init ⟨none, none⟩)
      [.addKnown 1 [[.ip4 1, .tcp 1, .p2p 1]], .dial 1 [], .evOpenFailure 0 []]
    g.ledger = [⟨1, 0, 0⟩] ∧ g.owed = [] ∧ g.m.pending = [] ∧ stateOf g.m 1 = .disconnected none ∧
    g.log = [.openFailure 0 []] ∧ facadeEvents g.log = [.listDialFailures []] ∧
    uoutcome g ⟨1, 0, 0⟩ = 1 ∧ inflight g ⟨1, 0, 0⟩ = 0 := by
  decide

example : Reach (runG (G.init ⟨none, none⟩)
      [.addKnown 1 [[.ip4 1, .tcp 1, .p2p 1]], .dial 1 [], .evOpenFailure 0 []]) :=
  Reach.step _ (Reach.step _ (Reach.step _ (Reach.init _) (by decide)) (by decide)) (by decide)

/-- Non-vacuity of the other shapes: a dial by address that fails (`DialFailure`), one that is
established (`ConnectionEstablished`, followed by a `ConnectionClosed` that concludes nothing), an open
failure with several errors; while an attempt is in flight the user has been told nothing. -/
example :
    let g := runG (G.init ⟨none, none⟩)
      [.dialAddress [.ip4 1, .tcp 1, .p2p 1], .evDialFailure 0 [.ip4 1, .tcp 1, .p2p 1] .timeout,
       .dialAddress [.ip4 2, .tcp 2, .p2p 2], .evEstablished 2 ⟨false, [.ip4 2, .tcp 2, .p2p 2], 1⟩ true,
       .acceptResult 1 true, .evClosed 2 1,
       .addKnown 3 [[.ip4 3, .tcp 3, .p2p 3], [.dns 3, .tcp 3, .p2p 3]], .dial 3 [],
       .evOpenFailure 2 [([.ip4 3, .tcp 3, .p2p 3], .timeout), ([.dns 3, .tcp 3, .p2p 3], .address)],
       .dialAddress [.ip4 1, .tcp 1, .p2p 1]]
    facadeEvents g.log =
      [.dialFailure [.ip4 1, .tcp 1, .p2p 1] .timeout, .established 2 ⟨false, [.ip4 2, .tcp 2, .p2p 2], 1⟩,
       .closed 2 1,
       .listDialFailures [([.ip4 3, .tcp 3, .p2p 3], .timeout), ([.dns 3, .tcp 3, .p2p 3], .address)]] ∧
    g.ledger.map (uoutcome g) = [0, 1, 1, 1] ∧ g.ledger.map (inflight g) = [1, 0, 0, 0] := by
  decide

#print axioms no_dup_outcome
#print axioms dial_ledger
#print axioms quiescent_dialable
#print axioms addr_total
#print axioms dial_address_parses_for_tcp
#print axioms dial_address_peers_agree
#print axioms transport_dial_total_on_accepted_shapes
#print axioms protocol_dial_ledger
#print axioms protocol_dial_joins
#print axioms protocol_notified_despite_full_channel
#print axioms facade_reports_every_outcome

end Litep2pVerif.Props.C05

/-! ## Wiring — what `Litep2p::new` hands over (coverage round `node`)

Over the wiring model `Model/Node/Wiring.lean` (`Node.new c` = `Litep2p::new(ConfigBuilder…build())`), which is tied to
the real `ConfigBuilder`/`Litep2p::new` by the `node` area: the adapter prints the ACTUAL registration record of a node built
through the public API, the driver prints the model's, compared field by field on every run. -/
namespace Litep2pVerif.Props.C05.Wiring
open Litep2pVerif Litep2pVerif.Node

/-- A configuration with every kind of protocol (used by the non-vacuity examples). -/
def sample : Config :=
  { keepAliveMs := some 600, limits := some (some 2, none), listen := [1, 2],
    notif := [⟨"/n/a", 1024, "0102", ["/n/old"], 'a', some 64, some 64, none⟩],
    rr := [⟨"/r/a", 256, 800, ["/r/old"], none⟩, ⟨"/r/b", 64, 800, [], some 1⟩],
    user := [⟨"/u/a", .varint none⟩], kad := [⟨[], none, []⟩], ping := some 1, identify := true, bitswap := true,
    known := some [(0, [.listen 0, .closed, .quic, .wrongPeer 0, .noPeer 0])] }

/-- The listen addresses a node reports are the configured ones, in the configured order, each with the node's own peer
id; the known addresses given in the configuration are in the manager's address book (those it can dial: TCP with the
peer's own id), so the peer can be dialed by id. -/
theorem known_and_listen_addresses_installed (c : Config) (w : Wired) (h : Node.new c = .ok w) :
    w.listen = c.listen.map (fun o => (o, true)) ∧
    w.known = (c.known.getD []).map (fun (j, ks) => (j, ks.filter AddrKind.stored)) := by
  obtain ⟨_, _, rfl⟩ := wire_ok h
  exact ⟨rfl, rfl⟩

example : ∃ w, Node.new sample = .ok w ∧ w.listen = [(1, true), (2, true)] ∧ w.known = [(0, [.listen 0, .closed])] :=
  ⟨_, rfl, rfl, by decide⟩

/-- `Litep2p::new` registers the user protocols in `HashMap` order: whether registration succeeds does not depend on
that order (two registrations clash iff they claim a common name). -/
theorem registration_order_irrelevant {regs regs' : List Registration} (p : regs.Perm regs') :
    registerAll [] regs ≠ none ↔ registerAll [] regs' ≠ none :=
  clashFree_perm p

example : registerAll [] (registrations (build sample)) ≠ none ∧
    registerAll [] (registrations (build sample)).reverse ≠ none := by decide

end Litep2pVerif.Props.C05.Wiring

#print axioms Litep2pVerif.Props.C05.Wiring.known_and_listen_addresses_installed
#print axioms Litep2pVerif.Props.C05.Wiring.registration_order_irrelevant

/-! ## The transport's event stream (`impl Stream for TcpTransport`, coverage round `tcp3`)

The manager's theorems above assume that the transport reports one terminal event per obligation. For the TCP
transport that rests on `poll_next`: the outcome of a dial is a READY result sitting in `pending_connections` /
`pending_raw_connections`, next to results that yield no event (failed inbound negotiations, results of cancelled
`open`s). Model: `Model/Tcp/Poll.lean` (`pollNext` = one `poll_next`: drain until an event or nothing ready;
`none` = `Poll::Pending`), lemmas `Proofs/Tcp/Poll.lean`. -/
namespace Litep2pVerif.Props.C05.TcpPoll
open Litep2pVerif.Tcp.Poll

/-- **The waker contract of `poll_next`.** When `poll_next` returns `Pending`, no ready result is left in the listener,
`pending_raw_connections` or `pending_connections` — in particular no reportable one (`due t = []`): everything still
queued is a future that is not ready and therefore has its wake-up registered. (A ready result left behind would have
no wake-up: the dial it concludes would stay silent until something unrelated polls the transport.) -/
theorem poll_next_reports_every_ready_result (t t' : T) (h : pollNext t = (none, t')) :
    t'.accepted = 0 ∧ t'.raw = [] ∧ t'.conns = [] ∧ due t = [] :=
  pollNext_pending t t' h

/-- Non-vacuity: a failed inbound negotiation (id 7, unknown to `pending_dials`) is swallowed and `Pending` is returned
with empty queues; and the statement is not a tautology of the shape of the model — the variant that polls
`pending_connections` once per `poll_next` (`if let` instead of `while let`) returns `Pending` with the failure of
dial 0 still queued. -/
example : pollNext { conns := [.err 7], dials := [0] } = (none, { conns := [], dials := [0] }) := by decide
example : (pollConnsOnce [.err 7, .err 0] [0] []).1 = none ∧ (pollConnsOnce [.err 7, .err 0] [0] []).2.1 = [.err 0] := by
  decide

/-- **Every ready result is reported.** An executor that polls again after every item and stops at `Pending` collects
exactly the events the queued results stand for (`due`: one `PendingInboundConnection` per accepted socket, one
`ConnectionOpened`/`OpenFailure` per live `open`, one `ConnectionEstablished` per negotiated connection, one
`DialFailure` per failed dial — in every order and mixture with results that yield no event) and leaves nothing
queued — without any wake-up from outside. -/
theorem executor_collects_every_due_event (n : Nat) (t : T) (h : size t < n) :
    (drain n t).1 = due t ∧ size (drain n t).2 = 0 :=
  drain_collects n t h

example : (drain 9 { conns := [.err 7, .err 8, .err 0, .ok 3], dials := [0], raw := [.canceled 5, .failed 4, .connected 6],
                     handles := [(5, true), (4, false), (6, false)], accepted := 1 }).1
    = [.pendingInbound 0, .openFailure 4, .opened 6, .dialFailure 0, .established 3] := by decide

/-- A failed dial that is queued is reported by the very next `poll_next`s, whatever is queued ahead of it. -/
theorem queued_dial_failure_is_due (t : T) (id : Id) (pre post : List ConnRes) (hc : t.conns = pre ++ .err id :: post)
    (hd : id ∈ t.dials) (hpre : ∀ r ∈ pre, r ≠ .ok id ∧ r ≠ .err id) : Ev.dialFailure id ∈ due t :=
  mem_due_of_queued_dial_failure t id pre post hc hd hpre

example : Ev.dialFailure 0 ∈ due { conns := [.err 7, .ok 8, .err 0], dials := [0] } := by decide

/-- **The overall deadline of `TcpTransport::open` reports a failure.** For every address list (stalling, refusing,
answering nodes in any order), every `connection_open_timeout` and every deadline multiplier, when the manager does not
cancel: (1) the future `open` queued never resolves to `Canceled` — the deadline arm (reached whenever the stalled
attempts add up to the deadline) resolves it to `Failed` like the exhausted list; (2) the executor gets exactly one
terminal event for the attempt, `OpenFailure` or `ConnectionOpened`; (3) the cancel handle is consumed and nothing stays
queued; (4) if no address answers the event is `OpenFailure` (never silence). (5) `Canceled` — the one result `poll_next`
swallows — comes out only if `Transport::cancel(id)` was called before the result was ready. -/
theorem open_deadline_reports_failure (id : Id) (timeout mult : Nat) (addrs : List AddrKind) :
    openFuture id timeout mult addrs none ≠ .canceled id ∧
    ((drain 2 (afterOpen id timeout mult addrs none)).1 = [.openFailure id] ∨
      (drain 2 (afterOpen id timeout mult addrs none)).1 = [.opened id]) ∧
    ((drain 2 (afterOpen id timeout mult addrs none)).2.handles = [] ∧
      size (drain 2 (afterOpen id timeout mult addrs none)).2 = 0) ∧
    (AddrKind.answer ∉ addrs → (drain 2 (afterOpen id timeout mult addrs none)).1 = [.openFailure id]) ∧
    (∀ c, openFuture id timeout mult addrs c = .canceled id →
      ∃ t, c = some t ∧ t < (openRun id timeout (mult * timeout) addrs 0).2) := by
  obtain ⟨h1, h2, h3, h4, h5⟩ := afterOpen_outcome id timeout mult addrs
  exact ⟨h1, h2, ⟨h3, h4⟩, h5, fun c hc => openFuture_canceled id timeout mult addrs c hc⟩

/-- Non-vacuity: three stalling addresses, 300 ms, multiplier 2 — the deadline (600) interrupts the second attempt and
the result is `Failed` at 600, reported as `OpenFailure`; a stall then an answering node is `ConnectionOpened`; a cancel
at 100 is silence; and the statement is not a tautology of the model's shape: the variant whose deadline arm returns
`Canceled` (`openRunSilent`, the seeded change) gives the executor nothing. -/
example : openRun 7 300 600 [.stall, .stall, .stall] 0 = (.failed 7, 600) ∧
    (drain 2 (afterOpen 7 300 2 [.stall, .stall, .stall] none)).1 = [.openFailure 7] ∧
    (drain 2 (afterOpen 7 300 2 [.stall, .answer] none)).1 = [.opened 7] ∧
    (drain 2 (afterOpen 7 300 2 [.stall, .stall, .stall] (some 100))).1 = [] ∧
    (openRunSilent 7 300 600 [.stall, .stall, .stall] 0).1 = .canceled 7 ∧
    (drain 2 { raw := [(openRunSilent 7 300 600 [.stall, .stall, .stall] 0).1], handles := [(7, false)] }).1 = [] := by decide

end Litep2pVerif.Props.C05.TcpPoll

#print axioms Litep2pVerif.Props.C05.TcpPoll.poll_next_reports_every_ready_result
#print axioms Litep2pVerif.Props.C05.TcpPoll.executor_collects_every_due_event
#print axioms Litep2pVerif.Props.C05.TcpPoll.queued_dial_failure_is_due
#print axioms Litep2pVerif.Props.C05.TcpPoll.open_deadline_reports_failure
