import Litep2pVerif.Proofs.Manager.LedgerStep
/-!
# C05 — Every dial attempt ends in exactly one outcome and never wedges the peer

Property theorems only. Model: `Model/Manager/{PeerState,Limits,Dial}.lean` (operational copy of
`src/transport/manager/{peer_state,limits,mod}.rs` **after** the two repairs `fix: dial_address
rejects addresses with components after the first /p2p` (finding (f)) and `fix: report a dial
failure and clear the dial record when connection limits reject a dialed connection` (finding
(d))). Lemmas and the invariant: `Proofs/Manager/{Basic,Addr,Ledger,LedgerStep}.lean`.

`Reach g`: `g` is reachable from an initial manager (any limit configuration) by inputs the
environment contract `allowed` admits — any API call at any time; transport events only for
outstanding obligations (`g.owed`: one per `dial`/`open`/`negotiate`/`accept` call, removed by its
terminal event or by `cancel`), reporting the peer the transport parsed from the dialed address;
inbound connections with ids taken from the shared counter; `accept` succeeds; a connection closes
only after it was accepted. The transport's `dial`/`open`/`negotiate` return `Ok`: for `dial` this is
`dial_address_parses_for_tcp` below (finding (e) is unreachable with TCP), `TcpTransport::open`
has no error return and `negotiate` only fails for an id it did not report (finding (g), latent).

Ghost state (functions of inputs and outputs only): `g.ledger` — one `Attempt` per API call that
made the manager call `dial`/`open` on the transport; `g.log` — every event `next()` returned;
`outcome g a` — reports in the log that conclude `a` (`ConnectionEstablished` for the connection that
carries `a`: its own, or the inbound one that superseded it while opening; `DialFailure`/`OpenFailure`
for its own id); `inflight g a` — 1 iff the environment still owes the event that concludes `a`.
-/
namespace Litep2pVerif.Props.C05
open Litep2pVerif Litep2pVerif.Manager

/-- **Never two reports.** An accepted dial attempt never gets two reports: not two failures, not a
connection and a failure. -/
theorem no_dup_outcome {g : G} (h : Reach g) (a : Attempt) (ha : a ∈ g.ledger) : outcome g a ≤ 1 := by
  rcases ((inv05_reach h).ledger a ha).2 with ⟨_, h0⟩ | ⟨_, h1⟩ <;> omega

/-- **Exactly one outcome, never silence.** In every reachable state, for every accepted attempt:
either the transport still owes the event that concludes it and nothing was reported yet, or it
owes nothing and exactly one report was made. -/
theorem dial_ledger {g : G} (h : Reach g) (a : Attempt) (ha : a ∈ g.ledger) :
    outcome g a + inflight g a = 1 := by
  unfold inflight
  rcases ((inv05_reach h).ledger a ha).2 with ⟨hin, h0⟩ | ⟨hnot, h1⟩
  · rw [if_pos (any_conn_iff.2 hin)]; omega
  · rw [if_neg (fun hc => hnot (any_conn_iff.1 hc))]; omega

/-- Non-vacuity, and the history of finding (d): outbound limit 1, two concurrent dials, both
connections establish. The second is rejected by the limit; (after the fix) its attempt is
concluded by a `DialFailure`, nothing is in flight, and both attempts have exactly one report. -/
example :
    let g := runG (G.init ⟨none, some 1⟩)
      [.dialAddress [.ip4 1, .tcp 1, .p2p 1], .dialAddress [.ip4 2, .tcp 2, .p2p 2],
       .evEstablished 1 ⟨false, [.ip4 1, .tcp 1, .p2p 1], 0⟩ true,
       .evEstablished 2 ⟨false, [.ip4 2, .tcp 2, .p2p 2], 1⟩ true,
       .acceptResult 0 true]
    g.ledger = [⟨2, 1, 1⟩, ⟨1, 0, 0⟩] ∧ g.owed = [] ∧
    outcome g ⟨2, 1, 1⟩ = 1 ∧ outcome g ⟨1, 0, 0⟩ = 1 ∧ stateOf g.m 2 = .disconnected none ∧
    g.log = [.dialFailure 1 [.ip4 2, .tcp 2, .p2p 2] .negotiation,
             .established 1 ⟨false, [.ip4 1, .tcp 1, .p2p 1], 0⟩] := by
  decide

/-- The same history is admitted by the environment contract, i.e. the state is `Reach`able. -/
example : Reach (runG (G.init ⟨none, some 1⟩)
      [.dialAddress [.ip4 1, .tcp 1, .p2p 1], .dialAddress [.ip4 2, .tcp 2, .p2p 2],
       .evEstablished 1 ⟨false, [.ip4 1, .tcp 1, .p2p 1], 0⟩ true,
       .evEstablished 2 ⟨false, [.ip4 2, .tcp 2, .p2p 2], 1⟩ true,
       .acceptResult 0 true]) :=
  Reach.step _ (Reach.step _ (Reach.step _ (Reach.step _ (Reach.step _ (Reach.init _)
    (by decide)) (by decide)) (by decide)) (by decide)) (by decide)

/-- **A quiescent peer can be dialed again.** If the transport owes nothing for `p` (all network
activity for `p` has concluded) and the manager keeps no connection slot for `p`, then `p` is
`Disconnected` without dial record — so `can_dial` says yes and a dial is really attempted: `dial`
calls `open` on the transport whenever an address is known and there is outbound capacity, and
`dial_address` calls `dial` for every well-formed TCP address of `p`. (Every open connection of `p`
occupies a slot: C06 `two_per_peer`.) -/
theorem quiescent_dialable {g : G} (h : Reach g) (p : Peer)
    (hquiet : ∀ o ∈ g.owed, o.peer ≠ p) (hnoconn : (stateOf g.m p).slots = []) :
    stateOf g.m p = .disconnected none ∧
    (∀ ch cap, p ≠ localPeer → g.m.limits.onDialAddress = some cap →
      (selectAddrs (g.m.peers p).addresses cap ch).isEmpty = false →
      (dial g.m p ch).2.res = .ok ∧
      (dial g.m p ch).2.calls = [.open g.m.nextConn (selectAddrs (g.m.peers p).addresses cap ch)]) ∧
    (∀ first port cap, first.isIpOrDns = true → g.m.limits.onDialAddress = some cap →
      [first, .tcp port, .p2p p] ∉ listenAddrs →
      (dialAddress g.m [first, .tcp port, .p2p p]).2.res = .ok ∧
      (dialAddress g.m [first, .tcp port, .p2p p]).2.calls =
        [.dial g.m.nextConn [first, .tcp port, .p2p p]]) := by
  have hi := inv05_reach h
  have hidle : stateOf g.m p = .disconnected none := by
    cases hs : stateOf g.m p with
    | connected r sec =>
      rw [hs] at hnoconn
      cases sec with
      | none => simp [PeerState.slots] at hnoconn
      | some x => cases x <;> simp [PeerState.slots] at hnoconn
    | opening as c ts => exact absurd rfl (hquiet _ (hi.openTracked p as c ts hs))
    | dialing d =>
      exact absurd rfl (hquiet _ (hi.dialTracked p d.conn (by rw [hs]; simp [PeerState.holdsDial])))
    | disconnected d =>
      cases d with
      | none => rfl
      | some d =>
        exact absurd rfl (hquiet _ (hi.dialTracked p d.conn (by rw [hs]; simp [PeerState.holdsDial])))
  refine ⟨hidle, ?_, ?_⟩
  · intro ch cap hloc hcap hne
    unfold dial
    simp [hcap, hloc, hidle, PeerState.canDial, hne]
  · intro first port cap hip hcap hnl
    unfold dialAddress
    simp [hcap, lastPeer, hnl, dialAddrTransport, hip, hidle, PeerState.dialSingleAddress, PeerState.canDial]

/-- Non-vacuity: after a failed dial by peer id (open failure) the peer is quiescent and the next
`dial` is attempted with a new connection id. -/
example :
    let g := runG (G.init ⟨none, none⟩)
      [.addKnown 1 [[.ip4 1, .tcp 1, .p2p 1]], .dial 1 [], .evOpenFailure 0 [([.ip4 1, .tcp 1, .p2p 1], .timeout)]]
    g.owed = [] ∧ stateOf g.m 1 = .disconnected none ∧
    (dial g.m 1 []).2.calls = [.open 1 [[.ip4 1, .tcp 1, .p2p 1]]] ∧ outcome g ⟨1, 0, 0⟩ = 1 := by
  decide

/-- **`dial_address` is total on every multiaddress shape.** Whatever the state and the address:
no panic, and either (1) an error is returned, no call is made and no peer state, pending
connection, limit counter or pending accept changes; or (2) `Ok` is returned because the peer named
by the last `/p2p` already has a dial in progress, again without any change; or (3) an attempt
starts: the peer was idle, `dial` is called once with a new connection id, the peer is `Dialing`
with that id, the id is pending for that peer — and the peer the TCP transport will verify is the
same peer (finding (f) repaired). -/
theorem addr_total (s : Mgr) (a : Multiaddr) :
    let r := dialAddress s a
    r.2.panic = false ∧
    ((∃ e, r.2.res = .err e ∧ r.2.calls = [] ∧ r.2.events = [] ∧ (∀ q, stateOf r.1 q = stateOf s q) ∧
        r.1.pending = s.pending ∧ r.1.limits = s.limits ∧ r.1.pendingAccept = s.pendingAccept) ∨
     (∃ p, r.2.res = .ok ∧ r.2.calls = [] ∧ r.2.events = [] ∧ lastPeer a = some p ∧
        (stateOf s p).canDial = .dialingInProgress ∧ (∀ q, stateOf r.1 q = stateOf s q) ∧
        r.1.pending = s.pending) ∨
     (∃ p, r.2.res = .ok ∧ r.2.calls = [.dial s.nextConn a] ∧ lastPeer a = some p ∧
        tcpParse a = some (some p) ∧ stateOf s p = .disconnected none ∧
        stateOf r.1 p = .dialing ⟨a, s.nextConn⟩ ∧ (∀ q, q ≠ p → stateOf r.1 q = stateOf s q) ∧
        alookup s.nextConn r.1.pending = some p)) := by
  intro r
  obtain ⟨hshape, hpanic⟩ := dialAddress_shape' s a r rfl
  refine ⟨hpanic, ?_⟩
  cases hshape with
  | refused e hres hcalls hev hst hpend hlim hpa _ =>
    exact Or.inl ⟨e, hres, hcalls, hev, hst, hpend, hlim, hpa⟩
  | joined p hres hcalls hev hremote hbusy hst hpend _ _ _ =>
    exact Or.inr (Or.inl ⟨p, hres, hcalls, hev, hremote, hbusy, hst, hpend⟩)
  | started p hres hcalls hev hremote htcp hidle hst hpend _ _ _ =>
    refine Or.inr (Or.inr ⟨p, hres, hcalls, hremote, htcp, hidle, ?_, ?_, ?_⟩)
    · rw [hst p, if_pos rfl]
    · intro q hq; rw [hst q, if_neg hq]
    · rw [hpend, alookup_ainsert, if_pos rfl]

/-- Non-vacuity: the address of finding (f) (`…/p2p/1/p2p/2`) and other adversarial shapes are
refused without touching any state; a well-formed address starts an attempt. -/
example :
    (dialAddress (Mgr.init {}) [.ip4 5, .tcp 5, .p2p 1, .p2p 2]).2.res = .err .transportNotSupported ∧
    (dialAddress (Mgr.init {}) [.ip4 5, .tcp 5, .p2p 1, .other 0, .p2p 2]).2.res = .err .transportNotSupported ∧
    (dialAddress (Mgr.init {}) [.ip4 5, .tcp 5]).2.res = .err .peerIdMissing ∧
    (dialAddress (Mgr.init {}) [.p2p 1]).2.res = .err .transportNotSupported ∧
    (dialAddress (Mgr.init {}) []).2.res = .err .peerIdMissing ∧
    (dialAddress (Mgr.init {}) [.ip4 5, .tcp 5, .ws, .p2p 1]).2.res = .err .transportNotSupported ∧
    (dialAddress (Mgr.init {}) [.ip4 99, .tcp 99, .p2p 0]).2.res = .err .triedToDialSelf ∧
    (dialAddress (Mgr.init {}) [.dns 5, .tcp 5, .p2p 1]).2.calls = [.dial 0 [.dns 5, .tcp 5, .p2p 1]] := by
  decide

/-- **Finding (e) is unreachable with TCP.** Every address `dial_address` hands to the transport
is accepted by the TCP address parser, so `TcpTransport::dial` returns `Ok` and the peer cannot be
left `Dialing` by a failing call. -/
theorem dial_address_parses_for_tcp (a : Multiaddr) (t : Transport) (h : dialAddrTransport a = some t) :
    tcpParse a ≠ none := by
  obtain ⟨first, port, p, rfl, hip⟩ := dialAddrTransport_shape h
  rw [tcpParse_of_shape _ _ _ hip]; simp

/-- **Finding (f) repaired.** For every address `dial_address` lets through, the peer the TCP
transport dials and verifies (first `/p2p`) is the peer the manager keeps the dial record for (last
`/p2p`). -/
theorem dial_address_peers_agree (a : Multiaddr) (t : Transport) (h : dialAddrTransport a = some t) :
    ∃ p, lastPeer a = some p ∧ tcpParse a = some (some p) := by
  obtain ⟨first, port, p, rfl, hip⟩ := dialAddrTransport_shape h
  exact ⟨p, lastPeer_of_shape _ _ _, tcpParse_of_shape _ _ _ hip⟩

example : dialAddrTransport [.ip6 3, .tcp 7, .p2p 4] = some .tcp ∧
    tcpParse [.ip4 5, .tcp 5, .p2p 1, .p2p 2] = some (some 1) ∧ lastPeer [.ip4 5, .tcp 5, .p2p 1, .p2p 2] = some 2 ∧
    dialAddrTransport [.ip4 5, .tcp 5, .p2p 1, .p2p 2] = none := by
  decide

#print axioms no_dup_outcome
#print axioms dial_ledger
#print axioms quiescent_dialable
#print axioms addr_total
#print axioms dial_address_parses_for_tcp
#print axioms dial_address_peers_agree

end Litep2pVerif.Props.C05
