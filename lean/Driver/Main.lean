import Litep2pVerif.Driver.Loop
import Litep2pVerif.Driver.C17
open Litep2pVerif.Driver

def main (args : List String) : IO UInt32 := do
  let stdin ← IO.getStdin
  let stdout ← IO.getStdout
  match args with
  | ["c17"] => loop C17.init C17.step stdin stdout C17.init false; return 0
  | _ => IO.eprintln "usage: model_driver <area>"; return 2
