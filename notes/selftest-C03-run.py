#!/usr/bin/env python3
"""Self-test of the C03 check: apply one change to the repo worktree, run `./verif.py check <PID>`, restore.
usage: selftest.py [ids...]   (default: all)"""
import subprocess, sys, os, re, json, time, glob
REPO = '/tmp/w/c03c/repo'; VERIF = '/tmp/w/c03c/verif'
LD = 'src/multistream_select/length_delimited.rs'; LS = 'src/multistream_select/listener_select.rs'
DS = 'src/multistream_select/dialer_select.rs'; PR = 'src/multistream_select/protocol.rs'
NG = 'src/multistream_select/negotiated.rs'; PS = 'src/protocol/protocol_set.rs'

def rep(path, old, new):
    p = os.path.join(REPO, path); s = open(p).read()
    assert s.count(old) >= 1, (path, old[:70])
    open(p, 'w').write(s.replace(old, new, 1))

def patch(name):
    subprocess.run(['git', '-C', REPO, 'apply', f'/verif/seeded/{name}/patch.diff'], check=True)

FLUSH_OLD = """        // Write all buffered frame data to the underlying I/O stream.
        match LengthDelimited::poll_write_buffer(self.as_mut(), cx) {
            Poll::Ready(Ok(())) => {}
            Poll::Ready(Err(err)) => return Poll::Ready(Err(err)),
            Poll::Pending => return Poll::Pending,
        }

        let this = self.project();
        debug_assert!(this.write_buffer.is_empty());

        // Flush the underlying I/O stream.
        this.inner.poll_flush(cx)"""

MUT = {
 'M1': ('C03', 'reader keeps a 64-byte minimum read buffer (reads past the frame)', lambda: rep(LD,
        "this.read_buffer.resize(len as usize, 0);", "this.read_buffer.resize((len as usize).max(DEFAULT_BUFFER_SIZE), 0);")),
 'M2': ('C03', 'listener matches by prefix', lambda: rep(LS, "if &p == proto {", "if p.as_ref().starts_with(proto.as_ref()) {")),
 'M3': ('C03', 'V1Lazy settles optimistically on every proposal', lambda: rep(DS,
        "if this.protocols.peek().is_some() {", "if this.protocols.peek().is_some() && *this.version == Version::V1 {")),
 'M4': ('C03', 'off-by-one in the frame bound of start_send', lambda: rep(LD, "Ok(len) if len <= MAX_FRAME_SIZE => len,", "Ok(len) if len < MAX_FRAME_SIZE => len,")),
 'M5': ('C03', 'ls response length prefix without + 1', lambda: rep(PR,
        "encoded.extend(uvi::encode::usize(p.0.as_ref().len() + 1, &mut buf)); // +1 for '\\n'",
        "encoded.extend(uvi::encode::usize(p.0.as_ref().len(), &mut buf));")),
 'M6': ('C03', 'message-based dialer does not reverse the fallback list', lambda: rep(DS, "        fallback_names.reverse();\n", "")),
 'M7': ('C03', 'LengthDelimitedReader::poll_write does not write pending negotiation frames first', lambda: rep(LD,
        """        // We need to flush any data previously written with the `LengthDelimited`.
        match LengthDelimited::poll_write_buffer(this.as_mut(), cx) {
            Poll::Ready(Ok(())) => {}
            Poll::Ready(Err(err)) => return Poll::Ready(Err(err)),
            Poll::Pending => return Poll::Pending,
        }
        debug_assert!(this.write_buffer.is_empty());

        this.project().inner.poll_write(cx, buf)""",
        """        this.project().inner.poll_write(cx, buf)""")),
 'M8': ('C03', 'dialer accepts any confirmed protocol', lambda: rep(DS,
        "Message::Protocol(ref p) if p.as_ref() == protocol.as_ref() => {", "Message::Protocol(ref p) if !p.as_ref().is_empty() => {")),
 'M9': ('C03', 'report_substream_open drops the fallback', lambda: rep(PS,
        "Some(main_protocol) => (main_protocol.clone(), Some(protocol)),", "Some(main_protocol) => (main_protocol.clone(), None),")),
 'M10': ('C03', 'fallback map never consulted', lambda: rep(PS,
        "match self.fallback_names.get(&protocol) {", "match self.fallback_names.get(&protocol).filter(|_| false) {")),
 'M11': ('C03', 'MSG_PROTOCOL_NA = no\\n', lambda: rep(PR, 'const MSG_PROTOCOL_NA: &[u8] = b"na\\n";', 'const MSG_PROTOCOL_NA: &[u8] = b"no\\n";')),
 'M12': ('C03', 'MSG_MULTISTREAM_1_0 = /multistream/1.0.1', lambda: rep(PR,
        'pub const MSG_MULTISTREAM_1_0: &[u8] = b"/multistream/1.0.0\\n";', 'pub const MSG_MULTISTREAM_1_0: &[u8] = b"/multistream/1.0.1\\n";')),
 'M13': ('C03', 'message-based dialer accepts a prefix of its proposal', lambda: rep(DS,
        "if self.protocol.as_bytes() == protocol.as_ref() {", "if self.protocol.as_bytes().starts_with(protocol.as_ref()) {")),
 'M14': ('C03', 'message-based listener prepends the header to every answer', lambda: rep(LS,
        "Message::Protocol(protocol) if header_received => (protocol, false),", "Message::Protocol(protocol) if header_received => (protocol, true),")),
 # ---- the flush class (write-behind carrier)
 'F0': ('C03', 'seeded C03-c2: LengthDelimited::poll_flush returns Ready when its write buffer is empty', lambda: patch('C03-c2')),
 'F1': ('C03', 'LengthDelimited::poll_flush: inner flush only attempted once (Pending from the inner flush is mapped to Ready)', lambda: rep(LD,
        "        // Flush the underlying I/O stream.\n        this.inner.poll_flush(cx)",
        "        // Flush the underlying I/O stream.\n        match this.inner.poll_flush(cx) {\n            Poll::Pending => Poll::Ready(Ok(())),\n            other => other,\n        }")),
 'F2': ('C03', 'Negotiated::poll_flush (Expecting): negotiation frames written out but inner stream not flushed', lambda: rep(NG,
        "            StateProj::Expecting { io, .. } => io.poll_flush(cx),\n            StateProj::Invalid => panic!(\"Negotiated: Invalid state\"),\n        }\n    }\n\n    fn poll_close",
        "            StateProj::Expecting { io, .. } => {\n                let _ = io;\n                Poll::Ready(Ok(()))\n            }\n            StateProj::Invalid => panic!(\"Negotiated: Invalid state\"),\n        }\n    }\n\n    fn poll_close")),
 'F3': ('C03', 'Negotiated::poll_flush (Completed) does not flush the inner stream', lambda: rep(NG,
        "            StateProj::Completed { io } => io.poll_flush(cx),\n            StateProj::Expecting { io, .. } => io.poll_flush(cx),",
        "            StateProj::Completed { io } => {\n                let _ = io;\n                Poll::Ready(Ok(()))\n            }\n            StateProj::Expecting { io, .. } => io.poll_flush(cx),")),
 'F4': ('C03', "MessageIO::poll_flush only writes the buffer out (poll_write_buffer), the inner stream is never flushed", lambda: rep(PR,
        "    fn poll_flush(self: Pin<&mut Self>, cx: &mut Context<'_>) -> Poll<Result<(), Self::Error>> {\n        self.project().inner.poll_flush(cx).map_err(From::from)\n    }\n\n    fn poll_close(self: Pin<&mut Self>, cx: &mut Context<'_>) -> Poll<Result<(), Self::Error>> {\n        self.project().inner.poll_close(cx).map_err(From::from)\n    }\n}\n\nimpl<R> Stream for MessageIO<R>",
        "    fn poll_flush(self: Pin<&mut Self>, cx: &mut Context<'_>) -> Poll<Result<(), Self::Error>> {\n        self.project().inner.poll_write_buffer(cx).map_err(From::from)\n    }\n\n    fn poll_close(self: Pin<&mut Self>, cx: &mut Context<'_>) -> Poll<Result<(), Self::Error>> {\n        self.project().inner.poll_close(cx).map_err(From::from)\n    }\n}\n\nimpl<R> Stream for MessageIO<R>")),
 'F7': ('C03', "listener returns the Negotiated stream although the flush of its confirmation is still Pending", lambda: rep(LS,
        """                        Poll::Pending => {
                            *this.state = State::Flush { io, protocol };
                            return Poll::Pending;
                        }
                        Poll::Ready(Ok(())) => {
                            // If a protocol has been selected, finish negotiation.""",
        """                        Poll::Pending => {
                            if let Some(protocol) = protocol {
                                let io = Negotiated::completed(io.into_inner());
                                return Poll::Ready(Ok((protocol, io)));
                            }
                            *this.state = State::Flush { io, protocol };
                            return Poll::Pending;
                        }
                        Poll::Ready(Ok(())) => {
                            // If a protocol has been selected, finish negotiation.""")),
 'F5': ('C03', 'dialer FlushProtocol gives up after one Pending (moves on to AwaitProtocol)', lambda: rep(DS,
        """                    Poll::Pending => {
                        *this.state = State::FlushProtocol {
                            io,
                            protocol,
                            header_received,
                        };
                        return Poll::Pending;
                    }""",
        """                    Poll::Pending => {
                        *this.state = State::AwaitProtocol {
                            io,
                            protocol,
                            header_received,
                        };
                        return Poll::Pending;
                    }""")),
 'F6': ('C03', 'LengthDelimited::poll_close closes without writing the buffered frames', lambda: rep(LD,
        """    fn poll_close(mut self: Pin<&mut Self>, cx: &mut Context<'_>) -> Poll<Result<(), Self::Error>> {
        // Write all buffered frame data to the underlying I/O stream.
        match LengthDelimited::poll_write_buffer(self.as_mut(), cx) {
            Poll::Ready(Ok(())) => {}
            Poll::Ready(Err(err)) => return Poll::Ready(Err(err)),
            Poll::Pending => return Poll::Pending,
        }
""", """    fn poll_close(mut self: Pin<&mut Self>, cx: &mut Context<'_>) -> Poll<Result<(), Self::Error>> {
""")),
 # ---- earlier seeded changes
 'S-a1': ('C03', 'seeded C03-a1', lambda: patch('C03-a1')),
 'S-a2': ('C03', 'seeded C03-a2', lambda: patch('C03-a2')),
 'S-b1': ('C03', 'seeded C03-b1', lambda: patch('C03-b1')),
 'S-b2': ('C03', 'seeded C03-b2', lambda: patch('C03-b2')),
 'S-c1': ('C03', 'seeded C03-c1', lambda: patch('C03-c1')),
 'S19-a1': ('C19', 'seeded C19-a1', lambda: patch('C19-a1')),
 'S19-b2': ('C19', 'seeded C19-b2', lambda: patch('C19-b2')),
 # ---- harmless
 'H1': ('C03', 'harmless: decode compares with ls before na', lambda: rep(PR,
        """        if msg == MSG_PROTOCOL_NA {
            return Ok(Message::NotAvailable);
        }

        if msg == MSG_LS {
            return Ok(Message::ListProtocols);
        }
""", """        if msg == MSG_LS {
            return Ok(Message::ListProtocols);
        }

        if msg == MSG_PROTOCOL_NA {
            return Ok(Message::NotAvailable);
        }
""")),
 'H2': ('C03', 'harmless: DEFAULT_BUFFER_SIZE 64 -> 256', lambda: rep(LD, "const DEFAULT_BUFFER_SIZE: usize = 64;", "const DEFAULT_BUFFER_SIZE: usize = 256;")),
 'H3': ('C03', 'harmless: mapping of report_substream_open as if let', lambda: rep(PS,
        """        let (protocol, fallback) = match self.fallback_names.get(&protocol) {
            Some(main_protocol) => (main_protocol.clone(), Some(protocol)),
            None => (protocol, None),
        };""", """        let (protocol, fallback) = if let Some(main_protocol) = self.fallback_names.get(&protocol) {
            (main_protocol.clone(), Some(protocol))
        } else {
            (protocol, None)
        };""")),
 'H4': ('C03', 'harmless: poll_flush skips poll_write_buffer when the write buffer is empty but still flushes the inner stream', lambda: rep(LD,
        FLUSH_OLD, """        // Write all buffered frame data to the underlying I/O stream (nothing to do if there is none).
        if !self.as_mut().project().write_buffer.is_empty() {
            match LengthDelimited::poll_write_buffer(self.as_mut(), cx) {
                Poll::Ready(Ok(())) => {}
                Poll::Ready(Err(err)) => return Poll::Ready(Err(err)),
                Poll::Pending => return Poll::Pending,
            }
        }

        // Flush the underlying I/O stream.
        self.project().inner.poll_flush(cx)""")),
 'H5': ('C03', 'harmless: Negotiated::poll_close uses ready! on a separately bound flush result', lambda: rep(NG,
        "        ready!(self.as_mut().poll_flush(cx).map_err(Into::<io::Error>::into)?);",
        "        let flushed = self.as_mut().poll_flush(cx);\n        ready!(flushed.map_err(Into::<io::Error>::into)?);")),
}

def main():
    ids = sys.argv[1:] or list(MUT)
    rows = []
    for k in ids:
        pid, what, f = MUT[k]
        st = subprocess.run(['git', '-C', REPO, 'status', '--porcelain'], capture_output=True, text=True).stdout.strip()
        assert st == '', 'repo worktree not clean: ' + st
        t0 = time.time()
        try:
            f()
            p = subprocess.run(['./verif.py', 'check', pid], cwd=VERIF, capture_output=True, text=True)
            out = [l for l in (p.stdout + p.stderr).split('\n') if 'WARNING' not in l and l.strip()]
            viol = [l for l in out if l.startswith('#') or 'VIOLATION' in l or 'KNOWN' in l or 'MISMATCH' in l.upper() or 'proof' in l.lower()]
            rows.append((k, pid, what, p.returncode, round(time.time() - t0, 1), viol[:6]))
            rep_files = [l.split('replay=')[1] for l in out if 'replay=' in l]
            detail = ''
            if rep_files:
                try:
                    d = json.load(open(rep_files[0].strip()))
                    detail = json.dumps({'kind': d.get('kind'), 'violation': {x: str(y)[:260] for x, y in (d.get('violation') or {}).items()},
                                         'case': [c[:260] for c in d.get('case', [])][:3], 'impl': [c[:200] for c in d.get('impl', [])][:3]})
                except Exception as e:
                    detail = 'replay unreadable: ' + str(e)
            print(f'== {k} [{pid}] {what}\n   exit={p.returncode} {round(time.time()-t0,1)}s')
            for l in viol[:6]:
                print('   ' + l[:300])
            if detail:
                print('   replay: ' + detail[:1500])
            sys.stdout.flush()
        finally:
            subprocess.run(['git', '-C', REPO, 'checkout', '--', '.'], check=True)
    print('\nSUMMARY')
    for r in rows:
        print(f'{r[0]:7} {r[1]} exit={r[3]} {r[4]}s  {r[2]}')

main()
