#!/usr/bin/env python3
"""Self-test mutations of round node2: writes /tmp/w/node2/mut/<name>.diff against the repo worktree."""
import difflib, os
R = "/tmp/w/node2/repo"
OUT = "/tmp/w/node2/mut"
MUTS = {}
def mut(name, owner, what, path, old, new):
    MUTS[name] = (owner, what)
    src = open(os.path.join(R, path)).read()
    assert src.count(old) == 1, (name, src.count(old))
    dst = src.replace(old, new)
    d = difflib.unified_diff(src.splitlines(True), dst.splitlines(True), "a/" + path, "b/" + path)
    open(os.path.join(OUT, name + ".diff"), "w").write("".join(d))

PS = "src/protocol/protocol_set.rs"
mut("m1", "C04", "ProtocolSet::new keeps only the FIRST fallback name of each protocol in its fallback map", PS,
    """                context
                    .fallback_names
                    .iter()
                    .map(|fallback| (fallback.clone(), protocol.clone()))""",
    """                context
                    .fallback_names
                    .iter()
                    .take(1)
                    .map(|fallback| (fallback.clone(), protocol.clone()))""")
mut("m2", "C19", "protocol_codec: a varint limit is one byte larger on substreams negotiated under a fallback name", PS,
    """        self.protocols
            .get(self.fallback_names.get(protocol).map_or(protocol, |protocol| protocol))
            .expect("protocol to exist")
            .codec""",
    """        let codec = self
            .protocols
            .get(self.fallback_names.get(protocol).map_or(protocol, |protocol| protocol))
            .expect("protocol to exist")
            .codec;
        match (self.fallback_names.contains_key(protocol), codec) {
            (true, ProtocolCodec::UnsignedVarint(Some(max))) => ProtocolCodec::UnsignedVarint(Some(max + 1)),
            _ => codec,
        }""")
mut("h1", "C04", "harmless: protocol_codec written as a match on the fallback lookup", PS,
    """        self.protocols
            .get(self.fallback_names.get(protocol).map_or(protocol, |protocol| protocol))
            .expect("protocol to exist")
            .codec""",
    """        let main = match self.fallback_names.get(protocol) {
            Some(main) => main,
            None => protocol,
        };
        match self.protocols.get(main) {
            Some(context) => context.codec,
            None => panic!("protocol to exist"),
        }""")
TCP = "src/transport/tcp/mod.rs"
mut("m3", "C10", "TcpTransport::open walks the address list backwards", TCP,
    """        let futures = futures::stream::iter(addresses.into_iter().map(move |address| {""",
    """        let futures = futures::stream::iter(addresses.into_iter().rev().map(move |address| {""")
mut("m4", "C10", "Litep2p::new no longer overrides the TCP config's max_parallel_dials with the top-level setting", "src/lib.rs",
    """        if let Some(mut config) = litep2p_config.tcp.take() {
            config.max_parallel_dials = litep2p_config.max_parallel_dials;""",
    """        if let Some(mut config) = litep2p_config.tcp.take() {
            config.max_parallel_dials = config.max_parallel_dials.max(1);""")
mut("m5", "C10", "with_max_parallel_dials clamps to at least 2", "src/config.rs",
    """        self.max_parallel_dials = max_parallel_dials.max(1);""",
    """        self.max_parallel_dials = max_parallel_dials.max(2);""")
mut("h2", "C10", "harmless: open() collects the addresses into a VecDeque first", TCP,
    """        let futures = futures::stream::iter(addresses.into_iter().map(move |address| {""",
    """        let addresses: std::collections::VecDeque<Multiaddr> = addresses.into_iter().collect();
        let futures = futures::stream::iter(addresses.into_iter().map(move |address| {""")
KC = "src/protocol/libp2p/kademlia/config.rs"
mut("m6", "C17", "with_max_provider_keys sets max_provider_addresses", KC,
    """        self.memory_store_config.max_provider_keys = max_provider_keys;""",
    """        self.memory_store_config.max_provider_addresses = max_provider_keys;""")
mut("m7", "C16", "Kademlia::new builds its query engine with the default replication factor", "src/protocol/libp2p/kademlia/mod.rs",
    """            engine: QueryEngine::new(local_peer_id, config.replication_factor, PARALLELISM_FACTOR),""",
    """            engine: QueryEngine::new(local_peer_id, 20, PARALLELISM_FACTOR),""")
mut("m8", "C16", "kademlia ConfigBuilder::build passes the default record TTL", KC,
    """            self.validation_mode,
            self.record_ttl,
            self.memory_store_config,""",
    """            self.validation_mode,
            DEFAULT_TTL,
            self.memory_store_config,""")
mut("m8b", "C17", "kademlia ConfigBuilder::build caps max_records at the default", KC,
    """    pub fn build(self) -> (Config, KademliaHandle) {
        Config::new(""",
    """    pub fn build(mut self) -> (Config, KademliaHandle) {
        self.memory_store_config.max_records = self.memory_store_config.max_records.min(DEFAULT_MAX_RECORDS);
        Config::new(""")
mut("h3", "C17", "harmless: build() copies the store configuration field by field", KC,
    """            self.record_ttl,
            self.memory_store_config,
            self.max_message_size,
        )
    }
}""",
    """            self.record_ttl,
            MemoryStoreConfig {
                max_records: self.memory_store_config.max_records,
                max_record_size_bytes: self.memory_store_config.max_record_size_bytes,
                max_provider_keys: self.memory_store_config.max_provider_keys,
                max_provider_addresses: self.memory_store_config.max_provider_addresses,
                max_providers_per_key: self.memory_store_config.max_providers_per_key,
                provider_refresh_interval: self.memory_store_config.provider_refresh_interval,
                provider_ttl: self.memory_store_config.provider_ttl,
            },
            self.max_message_size,
        )
    }
}""")
mut("m9", "C11", "notification ConfigBuilder::build passes the channel sizes in the wrong order", "src/protocol/notification/config.rs",
    """            self.sync_channel_size,
            self.async_channel_size,
            self.should_dial,
        )""",
    """            self.async_channel_size,
            self.sync_channel_size,
            self.should_dial,
        )""")
mut("m10", "C13", "request-response ConfigBuilder::build drops the inbound-request bound", "src/protocol/request_response/config.rs",
    """            self.timeout.take().expect("timeout to exist"),
            self.max_concurrent_inbound_request,""",
    """            self.timeout.take().expect("timeout to exist"),
            None,""")
mut("m11", "C09", "ping ConfigBuilder::with_max_failure is ignored", "src/protocol/libp2p/ping/config.rs",
    """        self.max_failures = max_failures;
        self""",
    """        let _ = max_failures;
        self""")
mut("m12", "C08", "Identify::new always uses the default user agent", "src/protocol/libp2p/identify.rs",
    """            user_agent: config.user_agent.unwrap_or(DEFAULT_AGENT.to_string()),""",
    """            user_agent: config.user_agent.map_or(DEFAULT_AGENT.to_string(), |_| DEFAULT_AGENT.to_string()),""")
mut("m13", "C02", "TcpTransport::new raises the Noise read-ahead frame count to at least the default", TCP,
    """        // start tcp listeners for all listen addresses""",
    """        config.noise_read_ahead_frame_count =
            config.noise_read_ahead_frame_count.max(crate::crypto::noise::MAX_READ_AHEAD_FACTOR);
        // start tcp listeners for all listen addresses""")
mut("m14", "C20", "bitswap Config::new uses the batch size as the codec bound", "src/protocol/libp2p/bitswap/config.rs",
    """                codec: ProtocolCodec::UnsignedVarint(Some(MAX_MESSAGE_SIZE)),""",
    """                codec: ProtocolCodec::UnsignedVarint(Some(MAX_BATCH_SIZE)),""")
import json
json.dump(MUTS, open(os.path.join(OUT, "index.json"), "w"), indent=1)
print(len(MUTS), "mutations")
