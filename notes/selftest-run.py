import subprocess, sys, os, re, json, time
REPO=os.environ.get('ST_REPO','/tmp/w/c05b/repo'); VERIF=os.environ.get('ST_VERIF','/tmp/w/c05b/verif')
MGR='src/transport/manager/mod.rs'; PS='src/transport/manager/peer_state.rs'; LIM='src/transport/manager/limits.rs'
def rep(path, old, new, count=1):
    p=os.path.join(REPO,path); s=open(p).read()
    assert s.count(old)>=1, (path, old[:60])
    s=s.replace(old,new,count); open(p,'w').write(s)
def revert(commit):
    subprocess.run(['git','-C',REPO,'revert','--no-commit',commit],check=True,capture_output=True)

MUT = {
 # ---- C05
 'M1 revert fix (d) (limit-rejected dial: no rollback, no event)': ('C05', lambda: revert('c2e6232')),
 'M2 revert fix (f) (dial_address accepts trailing components)': ('C05', lambda: revert('5c78197')),
 'M3 PeerState::on_dial_failure keeps Dialing state (state not reset)': ('C05', lambda: rep(PS,
   """            Self::Dialing { dial_record } =>
                if dial_record.connection_id == connection_id {
                    *self = Self::Disconnected { dial_record: None };
                    return true;
                },""","""            Self::Dialing { dial_record } =>
                if dial_record.connection_id == connection_id {
                    return true;
                },""")),
 'M4 OpenFailure of the last transport not reported (dropped return)': ('C05', lambda: rep(MGR,
   "                                    return Some(TransportEvent::OpenFailure { connection_id, errors: grouped_errors });",
   "                                    let _ = grouped_errors;")),
 'M5 dial(): pending_connections.insert forgotten': ('C05', lambda: rep(MGR,
   """        self.pending_connections.insert(connection_id, peer);

        Ok(())
    }

    /// Dial peer using `Multiaddr`.""","""        let _ = peer;

        Ok(())
    }

    /// Dial peer using `Multiaddr`.""")),
 'M6 on_connection_opened: pending entry not re-inserted after negotiate': ('C05', lambda: rep(MGR,
   "                self.pending_connections.insert(connection_id, peer);\n\n                Ok(())\n            }\n            Err(err) => {",
   "                let _ = peer;\n\n                Ok(())\n            }\n            Err(err) => {")),
 # ---- C05, protocol-notification paths (round c05b)
 'P1 seeded C05-a2: OpenFailure notification is try_send only (lost when the protocol channel is full)': ('C05', lambda:
   subprocess.run(['git','-C',REPO,'apply','/verif/seeded/C05-a2/patch.diff'],check=True)),
 'P2 revert fix e94cf63 (failed queued DialPeer is only logged)': ('C05', lambda: revert('e94cf63')),
 'P3 TransportEvent::DialFailure: blocking fallback dropped when the protocol channel is clogged': ('C05', lambda: rep(MGR,
   """                                                        let _ = context
                                                            .tx
                                                            .send(InnerTransportEvent::DialFailure {
                                                                peer,
                                                                addresses: vec![address.clone()],
                                                            })
                                                            .await;""",
   """                                                        let _ = &context.tx;""")),
 'P4 limit-rejected dialed connection: protocols are not told (loop removed)': ('C05', lambda: rep(MGR,
   """                                        for context in self.protocols.values() {
                                            let event = InnerTransportEvent::DialFailure {
                                                peer,
                                                addresses: vec![address.clone()],
                                            };
                                            if let Err(error) = context.tx.try_send(event) {
                                                let _ = context.tx.send(error.into_inner()).await;
                                            }
                                        }
""", "")),
 'P5 OpenFailure: only the first installed protocol is told (take(1))': ('C05', lambda: rep(MGR,
   """                                    for (protocol, context) in &self.protocols {
                                        let _ = match context""",
   """                                    for (protocol, context) in self.protocols.iter().take(1) {
                                        let _ = match context""")),
 'P6 failed queued DialPeer reported also for AlreadyConnected (condition dropped)': ('C05', lambda: rep(MGR,
   "                                if !std::matches!(error, Error::AlreadyConnected) {",
   "                                if true {")),
 'P7 revert fix e5e6517 (failed queued DialAddress is only logged, handle accepts /p2p anywhere)': ('C05', lambda: revert('e5e6517')),
 # ---- C06
 'N1 can_accept_connection: incoming >= max  ->  > max (off by one)': ('C06', lambda: rep(LIM,
   """        if is_listener {
            if let Some(max_incoming_connections) = self.config.max_incoming_connections {
                if self.incoming_connections.len() >= max_incoming_connections {""","""        if is_listener {
            if let Some(max_incoming_connections) = self.config.max_incoming_connections {
                if self.incoming_connections.len() > max_incoming_connections {""")),
 'N2 on_connection_closed does not release outgoing ids': ('C06', lambda: rep(LIM,
   "        self.outgoing_connections.remove(&connection_id);\n    }", "    }")),
 'N3 accept() error: rollback call removed': ('C06', lambda: rep(MGR,
   """                                            // already closed or the connection is dropped before the accept call.
                                            self.on_connection_closed(peer, endpoint.connection_id());""",
   """                                            // already closed or the connection is dropped before the accept call.""")),
 'N4 PeerState accepts a third connection (replaces the secondary)': ('C06', lambda: rep(PS,
   """            Self::Connected {
                record,
                secondary: None,
            } => {
                *self = Self::Connected {
                    record: record.clone(),
                    secondary: Some(SecondaryOrDialing::Secondary(connection)),
                };""","""            Self::Connected {
                record,
                secondary: None | Some(SecondaryOrDialing::Secondary(_)),
            } => {
                *self = Self::Connected {
                    record: record.clone(),
                    secondary: Some(SecondaryOrDialing::Secondary(connection)),
                };""")),
 'N5 accept_established_connection counts inbound as outbound (swapped flag)': ('C06', lambda: rep(LIM,
   """        if is_listener {
            if self.config.max_incoming_connections.is_some() {
                self.incoming_connections.insert(connection_id);""","""        if !is_listener {
            if self.config.max_incoming_connections.is_some() {
                self.incoming_connections.insert(connection_id);""")),
 # ---- harmless
 'H1 can_dial rewritten with matches!/if (same behaviour)': ('C05', lambda: rep(PS,
   """        match self {
            // The peer is already connected, no need to dial again.
            Self::Connected { .. } => StateDialResult::AlreadyConnected,""","""        if matches!(self, Self::Disconnected { dial_record: None }) {
            return StateDialResult::Ok;
        }
        match self {
            // The peer is already connected, no need to dial again.
            Self::Connected { .. } => StateDialResult::AlreadyConnected,""")),
 'H2 dial_address takes the connection id only after the peer state allowed the dial (raw ids change)': ('C05', lambda: (rep(MGR,
   """        let connection_id = self.next_connection_id();
        let dial_record = ConnectionRecord {
            address: address_record.address().clone(),
            connection_id,
        };

        {""","""        let connection_id;

        {"""), rep(MGR,
   """            match context.state.dial_single_address(dial_record) {""",
   """            if !matches!(context.state.can_dial(), StateDialResult::Ok) {
                return match context.state.can_dial() {
                    StateDialResult::AlreadyConnected => Err(Error::AlreadyConnected),
                    _ => Ok(()),
                };
            }
            connection_id = ConnectionId::from(self.next_connection_id.fetch_add(1usize, Ordering::Relaxed));
            let dial_record = ConnectionRecord {
                address: address_record.address().clone(),
                connection_id,
            };
            match context.state.dial_single_address(dial_record) {"""))),
 'H5 OpenFailure: protocols notified with send().await only (no try_send first; same behaviour)': ('C05', lambda: rep(MGR,
   """                                        let _ = match context
                                            .tx
                                            .try_send(InnerTransportEvent::DialFailure {
                                                peer,
                                                addresses: addresses.clone(),
                                            }) {
                                            Ok(_) => Ok(()),
                                            Err(_) => {""",
   """                                        let _ = match Err::<(), ()>(()) {
                                            Ok(_) => Ok(()),
                                            Err(_) => {""")),
 'H6 DialPeer arm: error handling through a helper variable and let-else (same behaviour)': ('C05', lambda: rep(MGR,
   """                                if !std::matches!(error, Error::AlreadyConnected) {
                                    for context in self.protocols.values() {""",
   """                                let silent = std::matches!(error, Error::AlreadyConnected);
                                if !silent {
                                    for context in self.protocols.values().collect::<Vec<_>>() {""")),
 'H3 limits: comparisons rewritten (!(len < max)), both removals in one expression': ('C06', lambda: (rep(LIM,
   "if self.incoming_connections.len() >= max_incoming_connections {", "if !(self.incoming_connections.len() < max_incoming_connections) {", 99),
   rep(LIM, "        self.incoming_connections.remove(&connection_id);\n        self.outgoing_connections.remove(&connection_id);", "        let _ = (\n            self.incoming_connections.remove(&connection_id),\n            self.outgoing_connections.remove(&connection_id),\n        );"))),
 'H4 on_connection_established: limits check through a local closure, accept bookkeeping reordered': ('C06', lambda: rep(MGR,
   """        if connection_accepted {
            self.connection_limits
                .accept_established_connection(endpoint.connection_id(), endpoint.is_listener());
""","""        if connection_accepted {
            let (id, inbound) = (endpoint.connection_id(), endpoint.is_listener());
            self.connection_limits.accept_established_connection(id, inbound);
""")),
}
only = sys.argv[1:] 
res=[]
for name,(pid,fn) in MUT.items():
    if only and not any(name.startswith(o) for o in only): continue
    subprocess.run(['git','-C',REPO,'reset','--hard','-q','HEAD'],check=True)
    try:
        fn()
    except Exception as e:
        res.append((name,pid,'PATCH-FAILED '+repr(e),'')); print(res[-1],flush=True); continue
    t=time.time()
    pids=[pid] if not name.startswith('H') else ['C05','C06']
    for q in pids:
        p=subprocess.run(['./verif.py','check',q],cwd=VERIF,capture_output=True,text=True)
        out=(p.stdout+p.stderr).strip().splitlines()
        tail=[l for l in out if l.startswith('VIOLATION') or l.startswith('#') or 'quick:' in l]
        detail=''
        m=[l for l in out if l.startswith('VIOLATION')]
        if m:
            rp=re.search(r'replay=(\S+)',m[0]).group(1)
            j=json.load(open(rp))
            detail=json.dumps({'kind':j.get('kind'),'violation':(j.get('violation') or {}).get('kind'),'msg':(j.get('violation') or {}).get('msg'),'case':j.get('case'),'broken':j.get('broken',j.get('no_longer_checks'))})[:1500]
        res.append((name,q,'exit %d'%p.returncode,' | '.join(tail),detail,round(time.time()-t,1)))
        print(res[-1],flush=True)
subprocess.run(['git','-C',REPO,'reset','--hard','-q','HEAD'],check=True)
json.dump(res,open(os.environ.get('ST_OUT','/tmp/w/c05b/st/results.json'),'w'),indent=1)
