#!/bin/bash
w=$1; r=$2; shift; shift
export CONFIRM_TGT=/tmp/confirm/tgt$w
for it in "$@"; do p=${it%%:*}; n=${it##*:}; python3 /verif/tools/confirm_seeded.py /tmp/mut/${p}${r}/out $n ${p}-${r}$n 2>&1 | tail -1 | cut -c1-160; done
