#!/usr/bin/env python3
"""From an lcov file: per anchored source file, the functions never entered and the uncovered line ranges."""
import sys, json, re, collections, os
anch = set()
for l in open(os.path.join(os.path.dirname(os.path.abspath(__file__)), "..", "properties.jsonl")):
    p = json.loads(l)
    for f in p["anchors"]["files"]:
        anch.add(f)
cur = None
fn_hits = collections.defaultdict(dict); fn_line = collections.defaultdict(dict); lines = collections.defaultdict(dict)
for l in open(sys.argv[1]):
    l = l.strip()
    if l.startswith("SF:"):
        cur = l[3:].split("/repo/")[-1]
    elif l.startswith("FN:"):
        ln, name = l[3:].split(",", 1); fn_line[cur][name] = int(ln.split(",")[0])
    elif l.startswith("FNDA:"):
        h, name = l[5:].split(",", 1); fn_hits[cur][name] = fn_hits[cur].get(name, 0) + int(h)
    elif l.startswith("DA:"):
        ln, h = l[3:].split(",")[:2]; lines[cur][int(ln)] = lines[cur].get(int(ln), 0) + int(h)
def demangle(n):
    m = re.findall(r"\d+([A-Za-z_][A-Za-z0-9_]*)", n)
    return "::".join(x for x in m[-3:]) if m else n
for f in sorted(lines):
    if f not in anch:
        continue
    tot = len(lines[f]); cov = sum(1 for v in lines[f].values() if v)
    print(f"== {f}: {cov}/{tot} lines ({100*cov//max(tot,1)}%)")
    src = open(os.path.join(os.environ.get("VERIF_REPO", os.path.normpath(os.path.join(os.path.dirname(os.path.abspath(__file__)), "..", "..", "repo"))), f)).read().split("\n")
    # uncovered ranges outside #[cfg(test)] mod tests
    test_start = next((i + 1 for i, s in enumerate(src) if re.match(r"\s*mod tests?\s*\{", s)), 10**9)
    unc = sorted(n for n, v in lines[f].items() if not v and n < test_start)
    rng = []
    for n in unc:
        if rng and n <= rng[-1][1] + 2: rng[-1][1] = n
        else: rng.append([n, n])
    for a, b in rng:
        if b - a >= 2:
            print(f"   {a}-{b}: {src[a-1].strip()[:100]}")
