#!/bin/bash
# tools/merge_all.sh cNN [PID ...] : merge branch cNN of /repo and /verif, regenerate, build, commit, run the checks PID...
b=$1; shift
cd /verif
git add -A && git commit -q -m "evidence/seeded updates before merging $b" 2>/dev/null
tools/merge_branch.sh $b > /tmp/merge_$b.log 2>&1
tools/fix_verif_mod.py
ru=$(git -C /repo diff --name-only --diff-filter=U | grep -v src/verif/mod.rs)
if [ -n "$ru" ]; then echo "REPO CONFLICTS: $ru"; exit 1; fi
(cd harness && cargo build 2>&1 | grep -E "^error" -A8 | head -30)
git -C /repo add -A src && git -C /repo commit -q --no-edit 2>/dev/null || git -C /repo commit -q -m "verif hooks: registry after merging the $b adapter"
tools/post_merge.sh > /tmp/post_$b.log 2>&1
vu=$(git diff --name-only --diff-filter=U | grep -v -E "MANIFEST.json|Main.lean|Consts.lean|^evidence/")
if [ -n "$vu" ]; then echo "VERIF CONFLICTS: $vu"; exit 1; fi
git add -A && git commit -q --no-edit
for p in "$@"; do ./verif.py check $p; done
