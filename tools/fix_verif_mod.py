#!/usr/bin/env python3
"""After a union merge of /repo/src/verif/mod.rs: rebuild areas() from the new_box arms, drop duplicate lines of
`pub mod`/`mod` declarations."""
import re
p = '/repo/src/verif/mod.rs'
s = open(p).read()
s = re.sub(r"<<<<<<< [^\n]*\n(.*?)=======\n(.*?)>>>>>>> [^\n]*\n", lambda m: m.group(1) + m.group(2), s, flags=re.S)
m = re.search(r"pub fn new_box\(area: &str\).*?\n\}\n", s, flags=re.S)
names = sorted(set(re.findall(r'^\s*"(\w+)" =>', m.group(0), flags=re.M)))
a = re.search(r"pub fn areas\(\) -> Vec<&'static str> \{\n(.*?)\n\}\n", s, flags=re.S)
body = "    vec![\n" + "".join(f'        "{n}",\n' for n in names) + "    ]"
s = s[:a.start(1)] + body + s[a.end(1):]
seen, out = set(), []
for line in s.split("\n"):
    if re.match(r"^(pub(\(crate\))? )?mod \w+;$", line):
        if line in seen:
            continue
        seen.add(line)
    out.append(line)
open(p, 'w').write("\n".join(out))
print("areas:", names)
