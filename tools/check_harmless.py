#!/usr/bin/env python3
"""Run the quick check of the owning property against every behaviour-preserving refactoring kept under
/verif/harmless/<P>-r<n>/ (patch.diff, meta.json): apply to /repo, run, undo. A check that exits non-zero on one of
them raised a FALSE ALARM (or the refactoring is not harmless after all: look at the replay). Results go into
harmless/<name>/result.json.   usage: tools/check_harmless.py [name ...]"""
import json, os, subprocess, sys, glob, time
V = os.path.dirname(os.path.dirname(os.path.abspath(__file__)))
REPO = os.path.normpath(os.path.join(V, "..", "repo"))
names = sys.argv[1:] or sorted(os.path.basename(d) for d in glob.glob(os.path.join(V, "harmless", "*")) if os.path.isdir(d))
if subprocess.run(["git", "-C", REPO, "status", "--porcelain"], capture_output=True, text=True).stdout.strip():
    sys.exit("repo working tree not clean")
bad = 0
for n in names:
    d = os.path.join(V, "harmless", n)
    pid = json.load(open(os.path.join(d, "meta.json")))["property"]
    r = subprocess.run(["git", "-C", REPO, "apply", os.path.join(d, "patch.diff")], capture_output=True, text=True)
    if r.returncode:
        print(n, "PATCH-DOES-NOT-APPLY", r.stderr.strip()[:100]); continue
    try:
        t = time.time()
        p = subprocess.run([os.path.join(V, "verif.py"), "check", pid], capture_output=True, text=True, cwd=V)
        lines = [l for l in p.stdout.split("\n") if l.strip() and not l.startswith("KNOWN-FINDING")]
        res = {"property": pid, "exit": p.returncode, "last_lines": lines[-3:], "seconds": round(time.time() - t, 1)}
    finally:
        subprocess.run(["git", "-C", REPO, "checkout", "--", "."], check=True)
    json.dump(res, open(os.path.join(d, "result.json"), "w"), indent=1)
    print(n, "quiet" if p.returncode == 0 else "ALARM", (lines[-2] if p.returncode else lines[-1])[:200], flush=True)
    bad += p.returncode != 0
subprocess.run(["git", "-C", V, "checkout", "--", "evidence"])
print(bad, "alarms of", len(names))
