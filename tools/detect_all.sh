#!/bin/bash
# Re-run the quick check of every seeded change (applies each patch to /repo, runs the property's check, undoes it).
cd /verif
for d in seeded/*/; do n=$(basename $d); python3 tools/confirm_seeded.py --detect $n 2>&1 | grep -v KNOWN | tail -1 | cut -c1-160; done
python3 - <<'PY'
import json,glob
tot=det=0
for f in sorted(glob.glob('/verif/seeded/*/meta.json')):
    m=json.load(open(f)); d=m.get('detection',{}).get('quick',{})
    tot+=1; det+=bool(d.get('detected'))
    if not d.get('detected'): print('MISSED', f.split('/')[-2])
print(det,'/',tot,'detected')
PY
