#!/bin/bash
# Seed robustness of the detections: every seeded change with VERIF_SEED 2 and 3.
cd /verif
for sd in 2 3; do for d in seeded/*/; do n=$(basename $d); python3 tools/confirm_seeded.py --detect $n quick $sd 2>&1 | grep -v KNOWN | tail -1 | cut -c1-40; done; done
