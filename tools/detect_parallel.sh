#!/bin/bash
# tools/detect_parallel.sh N [name ...] : run the quick check of the seeded changes (default: all) in N sandbox copies
# /tmp/detK/{repo,verif} (git worktrees of the committed HEADs of /repo and /verif; build output copied), in parallel;
# results are merged back into /verif/seeded/*/meta.json. /repo and /verif themselves are not touched while it runs.
N=${1:-3}; shift
V=/verif; R=/repo
names=${@:-$(ls $V/seeded)}
for k in $(seq 1 $N); do
  rm -rf /tmp/det$k; git -C $R worktree prune; git -C $V worktree prune
  mkdir -p /tmp/det$k
  git -C $R worktree add --detach /tmp/det$k/repo HEAD >/dev/null 2>&1
  git -C $V worktree add --detach /tmp/det$k/verif HEAD >/dev/null 2>&1
  cp -r $V/lean/.lake /tmp/det$k/verif/lean/.lake
  mkdir -p /tmp/det$k/verif/harness && cp -r $V/harness/target /tmp/det$k/verif/harness/target
  cp $V/harness/Cargo.lock /tmp/det$k/verif/harness/ 2>/dev/null
done
i=0
for n in $names; do k=$((i % N + 1)); echo $n >> /tmp/det$k/list; i=$((i+1)); done
for k in $(seq 1 $N); do
  ( cd /tmp/det$k/verif; for n in $(cat /tmp/det$k/list); do python3 tools/confirm_seeded.py --detect $n 2>&1 | grep -v KNOWN | tail -1 | cut -c1-200; done > /tmp/det$k/log 2>&1 ) &
done
wait
for k in $(seq 1 $N); do
  for n in $(cat /tmp/det$k/list); do cp /tmp/det$k/verif/seeded/$n/meta.json $V/seeded/$n/meta.json; done
  cat /tmp/det$k/log
  git -C $R worktree remove --force /tmp/det$k/repo; git -C $V worktree remove --force /tmp/det$k/verif; rm -rf /tmp/det$k
done
python3 - <<'PY'
import json,glob
tot=det=0
for f in sorted(glob.glob('/verif/seeded/*/meta.json')):
    m=json.load(open(f)); d=m.get('detection',{}).get('quick',{})
    tot+=1; det+=bool(d.get('detected'))
    if not d.get('detected'): print('MISSED', f.split('/')[-2])
print(det,'/',tot,'detected')
PY
