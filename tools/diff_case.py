#!/usr/bin/env python3
"""Run one case (ops on stdin or in a file, without the leading `case`) on the harness and on the model driver and
print the two transcripts side by side: tools/diff_case.py CNN [file]"""
import sys, os, subprocess, importlib
ROOT = os.path.dirname(os.path.dirname(os.path.abspath(__file__)))
sys.path.insert(0, ROOT)
pid = sys.argv[1]
plug = importlib.import_module("checks." + pid.lower())
ops = [l.strip() for l in (open(sys.argv[2]) if len(sys.argv) > 2 else sys.stdin) if l.strip() and l.strip() != "case"]
H = os.environ.get("VERIF_HARNESS_BIN") or os.path.join(ROOT, "harness/target/debug/harness")
D = os.path.join(ROOT, "lean/.lake/build/bin/model_driver")


def run(b, lines):
    out = subprocess.run([b, plug.AREA], input="\n".join(["case"] + lines) + "\n", capture_output=True, text=True).stdout.split("\n")
    return out[1:1 + len(lines)]


impl = run(H, ops)
mops = plug.model_lines(ops, impl) if hasattr(plug, "model_lines") else ops
model = run(D, mops)
norm = getattr(plug, "normalize", lambda x: x)
bad = 0
for o, a, b in zip(ops, impl, model):
    same = norm(a) == norm(b)
    bad += not same
    print(("   " if same else "!! ") + f"{o:28} | {a}" + ("" if same else f"\n{'':31} | MODEL {b}"))
for v in plug.oracle(ops, impl):
    print("VIOLATION", v)
sys.exit(1 if bad else 0)
