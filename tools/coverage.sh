#!/bin/bash
# Support tool (not a registered check): which lines of /repo/src do the quick tiers of all checks drive?
# Builds a coverage-instrumented harness with the nightly toolchain in /tmp/verif-cov, runs every quick check
# against it, and writes notes/coverage.txt (per-file line coverage) and notes/coverage-uncovered.txt
# (functions of the anchored files never entered). Evidence files are restored afterwards.
set -u
TIER=${1:-quick}
COV=/tmp/verif-cov
BIN=$(dirname $(rustup which --toolchain nightly rustc))/../lib/rustlib/x86_64-unknown-linux-gnu/bin
mkdir -p $COV/prof; rm -f $COV/prof/*
cd /verif/harness
RUSTFLAGS="-C instrument-coverage --cfg litep2p_verif -Awarnings" CARGO_TARGET_DIR=$COV/target CARGO_NET_OFFLINE=true \
  cargo +nightly build --offline 2>&1 | tail -1
cd /verif
for i in $(seq -w 1 20); do
  VERIF_HARNESS_BIN=$COV/target/debug/harness LLVM_PROFILE_FILE=$COV/prof/%m-%p.profraw ./verif.py check C$i --tier $TIER 2>&1 | tail -1 | cut -c1-120
done
git checkout -- evidence
$BIN/llvm-profdata merge -sparse $COV/prof/*.profraw -o $COV/all.profdata
$BIN/llvm-cov report $COV/target/debug/harness -instr-profile=$COV/all.profdata --ignore-filename-regex='(\.cargo|rustc|/verif/|src/verif/)' > notes/coverage.txt
$BIN/llvm-cov export $COV/target/debug/harness -instr-profile=$COV/all.profdata --ignore-filename-regex='(\.cargo|rustc|/verif/|src/verif/)' -format=lcov > $COV/all.lcov
python3 tools/coverage_report.py $COV/all.lcov > notes/coverage-uncovered.txt
rm -f $COV/prof/*
