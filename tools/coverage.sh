#!/bin/bash
# Support tool (not a registered check): which lines of the repo's src/ do the checks drive?
#   tools/coverage.sh [tier] [PID ...]        (default: quick, all 20 properties)
# Builds a coverage-instrumented harness with the nightly toolchain in a scratch directory ($VERIF_COV, default
# /tmp/verif-cov-<name of the verif directory's parent>), runs the checks against it and writes
# notes/coverage.txt (per-file line coverage) and notes/coverage-uncovered.txt (uncovered line ranges of the
# files the properties are anchored in). Evidence files are restored afterwards.
set -u
V=$(cd $(dirname $0)/.. && pwd)
TIER=${1:-quick}; shift
PIDS=${@:-$(seq -f 'C%02g' 1 20)}
COV=${VERIF_COV:-/tmp/verif-cov-$(basename $(dirname $V))}
BIN=$(dirname $(rustup which --toolchain nightly rustc))/../lib/rustlib/x86_64-unknown-linux-gnu/bin
mkdir -p $COV/prof; rm -f $COV/prof/*
cd $V/harness
LLVM_PROFILE_FILE=$COV/build-%p.profraw RUSTFLAGS="-C instrument-coverage --cfg litep2p_verif -Awarnings" \
  CARGO_TARGET_DIR=$COV/target CARGO_NET_OFFLINE=true cargo +nightly build --offline 2>&1 | tail -1
cd $V
for p in $PIDS; do
  VERIF_HARNESS_BIN=$COV/target/debug/harness LLVM_PROFILE_FILE=$COV/prof/%m-%p.profraw ./verif.py check $p --tier $TIER 2>&1 | tail -1 | cut -c1-120
done
git checkout -- evidence
$BIN/llvm-profdata merge -sparse $COV/prof/*.profraw -o $COV/all.profdata
IGN='(\.cargo|rustc|/verif/|src/verif/|/target/)'
$BIN/llvm-cov report $COV/target/debug/harness -instr-profile=$COV/all.profdata --ignore-filename-regex="$IGN" > notes/coverage.txt
$BIN/llvm-cov export $COV/target/debug/harness -instr-profile=$COV/all.profdata --ignore-filename-regex="$IGN" -format=lcov > $COV/all.lcov
python3 tools/coverage_report.py $COV/all.lcov > notes/coverage-uncovered.txt
rm -f $COV/prof/* $COV/build-*.profraw
echo "wrote notes/coverage.txt notes/coverage-uncovered.txt (scratch: $COV — remove it when done)"
