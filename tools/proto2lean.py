#!/usr/bin/env python3
"""Translator: the `.proto` files litep2p compiles with prost-build  →  the Lean wire model.

Run on every check (verif.py calls `generate()`), like extract_consts.py. It reads the list of
`.proto` files from /repo/build.rs, parses them (a small recursive-descent parser for the subset
litep2p uses; anything else fails loudly with file:line and the proof stage reports the tie as
broken), applies prost's mapping from schema to Rust struct and to wire behaviour, and writes

  lean/Litep2pVerif/Generated/Schemas.lean        structures, `X.merge`, `X.mergeFrom`, `X.decode`,
                                                  `X.encode`, `X.WF`               (model, import-free)
  lean/Litep2pVerif/Proofs/Wire/Sizes.lean        `X.size`, `X.merge_size`, `X.merge_consumes`, `X.decode_size`
  lean/Litep2pVerif/Proofs/Wire/RoundtripGen.lean `X.roundtrip`: decode (encode m) = some m, per message

Files are rewritten only when their content changes (lake cache). prost-build regenerates the Rust
structs from the same files at every cargo build, so model and code move together; what the
translator transcribes are prost's RULES, tied to the real prost by the C19 differential run.

prost's rules and where they are (prost 0.13.5, prost-derive 0.13.5, prost-build 0.14.4 as locked in
/repo/Cargo.lock; paths relative to ~/.cargo/registry/src/*/):

 R1  label → field kind. prost-build-0.14.4/src/code_generator.rs:1083-1096 (`optional`): a field is
     `Option<_>` iff it is `proto3_optional`, or has label optional and is message-typed, or has label
     optional in a proto2 file. :453-470: `required` and `repeated` are passed on as attributes.
     prost-derive-0.13.5/src/field/scalar.rs:80-86: no label → `Kind::Plain`, optional →
     `Kind::Optional`, required → `Kind::Required`, repeated → `Kind::Packed` for numeric types
     (packed option unset: proto3 default true; code_generator.rs:463-470 writes `packed="false"`
     for proto2) else `Kind::Repeated`.
 R2  decode of one field. prost-derive-0.13.5/src/lib.rs:117-131, 183-196: `match tag { known =>
     merge into the field, _ => skip_field(wire_type, tag, buf, ctx) }`.
     scalar.rs:140-159: Plain/Required → `merge(wire_type, &mut field)` (overwrites: last occurrence
     wins; `required` is NOT enforced — there is no presence check anywhere), Optional →
     `merge(.., field.get_or_insert_with(Default::default))` (⇒ `Some(last value)`), Repeated →
     `merge_repeated` (prost-0.13.5/src/encoding.rs:527-539: decode one value, push).
     field/message.rs:93-108: singular message → `message::merge(.., field.get_or_insert_with(
     Default::default))` — MERGED into the existing value; repeated message → `merge_repeated`
     (encoding.rs:828-841: decode into a fresh default, push).
 R3  scalar conversions. encoding.rs:246-273 (`varint!`): wire type must be Varint
     (`check_wire_type`, encoding/wire_type.rs:41) else error; value = `decode_varint as $ty`:
     :353-358 `bool` ↦ `value != 0`, `int32` ↦ `as i32`, `int64` ↦ `as i64`, `uint32` ↦ `as u32`,
     `uint64` ↦ identity. Enumerations are `i32` fields handled by the `int32` module
     (scalar.rs:558, :564). bytes: encoding.rs:696-723 (LengthDelimited, length ≤ remaining, replace);
     string: :563-600 (bytes + `str::from_utf8`).
 R4  nested messages. encoding.rs:797-817 `message::merge`: LengthDelimited, `ctx.limit_reached()?`,
     `merge_loop` over exactly the delimited slice (:139-164) with `ctx.enter_recursion()`;
     `RECURSION_LIMIT = 100` (lib.rs:30). Unknown fields: `skip_field` (:166-200), groups recurse.
 R5  defaults. scalar.rs:778 / :209: the default of an enumeration field is `Enum::default()` = the
     FIRST declared value (prost-derive Enumeration derive); numeric 0, bool false, bytes/string empty,
     Optional → None, repeated → empty.
 R6  encode. prost-derive-0.13.5/src/lib.rs:86-90: fields are SORTED BY TAG before `encode_raw`
     is generated (not declaration order). scalar.rs:108-137: Plain → written iff `!= default`;
     Optional → iff `Some`; Required/Repeated → always / each element. field/message.rs:74-91:
     Optional message iff `Some` (a default-valued message is still written), Repeated each.
     encoding.rs:787-795 `message::encode`: key, `encoded_len` as varint, `encode_raw`.
     encoding.rs:265-268: varint scalars are written as `value as u64` (i32/i64 sign-extended).
 R7  names. prost-build converts field names to snake_case and escapes keywords (`Type` → `r#type`);
     the Lean model uses lowerCamelCase of the same name (table `LEAN_NAMES`, `FIELD_RENAMES`).

Not modelled (the translator refuses them): `oneof`, `map`, groups, extensions, options (incl.
`[packed=…]`, `[default=…]`), `import`, `reserved`, services, fixed-width and zig-zag scalars, float,
repeated numeric scalars (packed encoding; no schema of litep2p has one), recursive message types,
`required` message fields.
"""
import hashlib
import json
import os
import re
import sys

HERE = os.path.dirname(os.path.abspath(__file__))
REPO = os.environ.get("VERIF_REPO", os.path.normpath(os.path.join(HERE, "..", "..", "repo")))
LEAN = os.path.normpath(os.path.join(HERE, "..", "lean", "Litep2pVerif"))
OUT_SCHEMAS = os.path.join(LEAN, "Generated", "Schemas.lean")
OUT_SIZES = os.path.join(LEAN, "Proofs", "Wire", "Sizes.lean")
OUT_ROUNDTRIP = os.path.join(LEAN, "Proofs", "Wire", "RoundtripGen.lean")

# fully-qualified proto name → Lean structure name (anything else: Package + path, CamelCase)
LEAN_NAMES = {
    "kademlia.Record": "KRecord", "kademlia.Peer": "KPeer", "kademlia.Message": "KMessage",
    "identify.Identify": "Identify",
    "keys_proto.PublicKey": "PublicKeyPb", "keys_proto.PrivateKey": "PrivateKeyPb",
    "noise.NoiseExtensions": "NoiseExtensions", "noise.NoiseHandshakePayload": "NoisePayload",
    "noise.Exchange": "NoiseExchange",
    "bitswap.Wantlist.Entry": "BsEntry", "bitswap.Wantlist": "BsWantlist", "bitswap.Block": "BsBlock",
    "bitswap.BlockPresence": "BsPresence", "bitswap.Message": "BsMessage",
    "webrtc.Message": "WebRtcMessage",
}
FIELD_RENAMES = {"prefix": "pfx"}          # Lean keywords
LEAN_KEYWORDS = {"prefix", "end", "from", "at", "then", "else", "if", "do", "in", "let", "have", "show", "fun", "open",
                 "import", "def", "theorem", "structure", "class", "instance", "where", "with", "match", "return",
                 "namespace", "section", "variable", "universe", "local", "private", "protected", "mutual", "infix",
                 "notation", "macro", "syntax", "deriving", "example", "axiom", "by", "calc", "for", "unless", "try"}
SCALARS = {"bytes", "string", "uint32", "int32", "bool", "uint64", "int64"}
UNSUPPORTED_SCALARS = {"double", "float", "sint32", "sint64", "fixed32", "fixed64", "sfixed32", "sfixed64"}
MAX_TAG = 2 ** 29 - 1


class ProtoError(Exception):
    pass


# ------------------------------------------------------------------ lexer

TOKEN = re.compile(r"""\s+|//[^\n]*|/\*.*?\*/|(?P<id>[A-Za-z_][A-Za-z0-9_.]*)|(?P<int>-?(?:0[xX][0-9a-fA-F]+|\d+))
                       |(?P<str>"(?:[^"\\\n]|\\.)*"|'(?:[^'\\\n]|\\.)*')|(?P<sym>[{}=;\[\](),<>])""", re.S | re.X)


def lex(text, fname):
    toks, pos, line = [], 0, 1
    while pos < len(text):
        m = TOKEN.match(text, pos)
        if not m or m.end() == pos:
            raise ProtoError(f"{fname}:{line}: unexpected character {text[pos]!r}")
        for kind in ("id", "int", "str", "sym"):
            if m.group(kind) is not None:
                toks.append((kind, m.group(kind), line))
        line += text.count("\n", pos, m.end())
        pos = m.end()
    toks.append(("eof", "", line))
    return toks


# ------------------------------------------------------------------ parser (AST: dicts)

class Parser:
    def __init__(self, text, fname):
        self.f = fname
        self.t = lex(text, fname)
        self.i = 0

    def peek(self):
        return self.t[self.i]

    def fail(self, msg, line=None):
        raise ProtoError(f"{self.f}:{line or self.peek()[2]}: {msg}")

    def next(self):
        tok = self.t[self.i]
        self.i += 1
        return tok

    def expect(self, kind, val=None):
        k, v, ln = self.next()
        if k != kind or (val is not None and v != val):
            self.fail(f"expected {val or kind}, found {v or k!r}", ln)
        return v

    def file(self):
        out = {"file": self.f, "syntax": None, "package": None, "messages": [], "enums": []}
        while True:
            k, v, ln = self.peek()
            if k == "eof":
                break
            if k == "sym" and v == ";":
                self.next()
            elif k == "id" and v == "syntax":
                self.next()
                self.expect("sym", "=")
                s = self.expect("str")[1:-1]
                if s not in ("proto2", "proto3"):
                    self.fail(f"unsupported syntax {s!r}", ln)
                out["syntax"] = s
                self.expect("sym", ";")
            elif k == "id" and v == "package":
                self.next()
                out["package"] = self.expect("id")
                self.expect("sym", ";")
            elif k == "id" and v == "message":
                out["messages"].append(self.message())
            elif k == "id" and v == "enum":
                out["enums"].append(self.enum())
            else:
                self.fail(f"unsupported top-level statement {v!r} (outside the translated subset)", ln)
        if out["syntax"] is None:
            self.fail("no `syntax` statement (protoc would assume proto2; state it explicitly)", 1)
        if out["package"] is None:
            self.fail("no `package` statement", 1)
        return out

    def enum(self):
        ln0 = self.expect("id", "enum") and self.peek()[2]
        name = self.expect("id")
        self.expect("sym", "{")
        vals = []
        while True:
            k, v, ln = self.peek()
            if k == "sym" and v == "}":
                self.next()
                break
            if k == "sym" and v == ";":
                self.next()
                continue
            if k != "id" or v in ("option", "reserved"):
                self.fail(f"unsupported enum body statement {v!r}", ln)
            vname = self.next()[1]
            self.expect("sym", "=")
            num = int(self.expect("int"), 0)
            if self.peek()[1] == "[":
                self.fail("enum value options are outside the translated subset")
            self.expect("sym", ";")
            vals.append((vname, num))
        if not vals:
            self.fail(f"enum {name} has no values", ln0)
        return {"name": name, "values": vals, "line": ln0}

    def message(self):
        self.expect("id", "message")
        ln0 = self.peek()[2]
        name = self.expect("id")
        if "." in name:
            self.fail(f"dotted message name {name!r}", ln0)
        self.expect("sym", "{")
        out = {"name": name, "fields": [], "messages": [], "enums": [], "line": ln0}
        while True:
            k, v, ln = self.peek()
            if k == "sym" and v == "}":
                self.next()
                break
            if k == "sym" and v == ";":
                self.next()
                continue
            if k != "id":
                self.fail(f"unexpected {v!r} in message {name}", ln)
            if v == "message":
                out["messages"].append(self.message())
                continue
            if v == "enum":
                out["enums"].append(self.enum())
                continue
            if v in ("oneof", "map", "group", "extensions", "extend", "option", "reserved"):
                self.fail(f"`{v}` is outside the translated subset", ln)
            label = None
            if v in ("optional", "required", "repeated"):
                label = self.next()[1]
                k, v, ln = self.peek()
                if k != "id":
                    self.fail("field type expected", ln)
            ftype = self.next()[1]
            if ftype in ("map", "group") or self.peek()[1] == "<":
                self.fail(f"`{ftype}` fields are outside the translated subset", ln)
            fname = self.expect("id")
            self.expect("sym", "=")
            tag = int(self.expect("int"), 0)
            if self.peek()[1] == "[":
                self.fail("field options ([packed], [default], …) are outside the translated subset")
            self.expect("sym", ";")
            out["fields"].append({"label": label, "type": ftype, "name": fname, "tag": tag, "line": ln})
        return out


# ------------------------------------------------------------------ prost mapping → IR

def snake(name):
    """heck's snake_case as prost-build applies it to field names (enough for identifiers)."""
    s = re.sub(r"([a-z0-9])([A-Z])", r"\1_\2", name)
    s = re.sub(r"([A-Z]+)([A-Z][a-z])", r"\1_\2", s)
    return s.lower()


def lower_camel(name):
    parts = [p for p in snake(name).split("_") if p]
    return parts[0] + "".join(p[:1].upper() + p[1:] for p in parts[1:])


def upper_camel(name):
    return "".join(p[:1].upper() + p[1:] for p in snake(name).split("_") if p)


def build_ir(files):
    """files: parsed ASTs. Returns (messages in dependency order, stats)."""
    decls = {}      # fq name → ("message"|"enum", ast, file ast)
    order = []

    def walk(pfx, node, fast):
        for e in node["enums"]:
            fq = pfx + "." + e["name"]
            if fq in decls:
                raise ProtoError(f"{fast['file']}:{e['line']}: duplicate definition of {fq}")
            decls[fq] = ("enum", e, fast)
        for m in node["messages"]:
            fq = pfx + "." + m["name"]
            if fq in decls:
                raise ProtoError(f"{fast['file']}:{m['line']}: duplicate definition of {fq}")
            decls[fq] = ("message", m, fast)
            order.append(fq)
            walk(fq, m, fast)

    for f in files:
        walk(f["package"], f, f)

    def resolve(scope, tname, fast, line):
        if tname.startswith("."):
            cands = [tname[1:]]
        else:
            parts = scope.split(".")
            cands = [".".join(parts[:i] + [tname]) for i in range(len(parts), 0, -1)] + [tname]
        for c in cands:
            if c in decls:
                return c
        raise ProtoError(f"{fast['file']}:{line}: unknown type {tname!r}")

    def lean_name(fq):
        if fq in LEAN_NAMES:
            return LEAN_NAMES[fq]
        return "".join(upper_camel(p) for p in fq.split("."))

    msgs = {}
    for fq in order:
        _, m, fast = decls[fq]
        proto3 = fast["syntax"] == "proto3"
        fields, seen_tags, seen_names = [], {}, {}
        for fd in m["fields"]:
            where = f"{fast['file']}:{fd['line']}"
            tag = fd["tag"]
            if not (1 <= tag <= MAX_TAG) or 19000 <= tag <= 19999:
                raise ProtoError(f"{where}: field number {tag} out of range")
            if tag in seen_tags:
                raise ProtoError(f"{where}: field number {tag} used twice in {fq}")
            seen_tags[tag] = True
            lname = lower_camel(fd["name"])
            lname = FIELD_RENAMES.get(lname, lname)
            if lname in LEAN_KEYWORDS:
                raise ProtoError(f"{where}: field name {fd['name']!r} is a Lean keyword; add it to FIELD_RENAMES")
            if lname in seen_names:
                raise ProtoError(f"{where}: field name {fd['name']!r} collides with another field after renaming")
            seen_names[lname] = True
            t = fd["type"]
            dflt = None
            if t in SCALARS:
                ty = t
            elif t in UNSUPPORTED_SCALARS:
                raise ProtoError(f"{where}: scalar type `{t}` is outside the translated subset")
            else:
                target = resolve(fq, t, fast, fd["line"])
                if decls[target][0] == "enum":
                    ty = "enum"
                    dflt = decls[target][1]["values"][0][1]           # R5: first declared value
                    if proto3 and dflt != 0:
                        raise ProtoError(f"{where}: first value of proto3 enum {target} must be 0")
                else:
                    ty = "msg:" + target
            label = fd["label"]
            if proto3:
                if label == "required":
                    raise ProtoError(f"{where}: `required` is not allowed in proto3")
                if label is None:
                    kind = "optional" if ty.startswith("msg:") else "plain"      # R1
                else:
                    kind = label
            else:
                if label is None:
                    raise ProtoError(f"{where}: proto2 field without a label")
                kind = label
            if kind == "repeated" and ty not in ("bytes", "string") and not ty.startswith("msg:"):
                raise ProtoError(f"{where}: repeated numeric scalar (packed encoding) is outside the translated subset")
            if kind == "required" and ty.startswith("msg:"):
                raise ProtoError(f"{where}: `required` message field is outside the translated subset")
            fields.append({"name": lname, "proto_name": fd["name"], "tag": tag, "ty": ty, "kind": kind, "dflt": dflt})
        msgs[fq] = {"fq": fq, "lean": lean_name(fq), "fields": fields, "file": fast["file"], "syntax": fast["syntax"]}
    names = {}
    for fq, m in msgs.items():
        if m["lean"] in names:
            raise ProtoError(f"Lean name {m['lean']} for both {names[m['lean']]} and {fq}; extend LEAN_NAMES")
        names[m["lean"]] = fq
    # dependency order, cycle check, nesting depth, who is nested
    done, out, nested = {}, [], set()

    def visit(fq, stack):
        if fq in done:
            return
        if fq in stack:
            raise ProtoError(f"{msgs[fq]['file']}: recursive message type {' -> '.join(stack + [fq])} is outside the subset")
        nest = 0
        for fd in msgs[fq]["fields"]:
            if fd["ty"].startswith("msg:"):
                sub = fd["ty"][4:]
                visit(sub, stack + [fq])
                nested.add(sub)
                fd["sub"] = msgs[sub]["lean"]
                nest = max(nest, 1 + msgs[sub]["nest"])
        msgs[fq]["nest"] = nest
        done[fq] = True
        out.append(msgs[fq])

    for fq in order:
        visit(fq, [])
    for m in out:
        m["root"] = m["fq"] not in nested
    return out


# ------------------------------------------------------------------ Lean emission

LEAN_TYPE = {"bytes": "List Nat", "string": "List Nat", "uint32": "Nat", "uint64": "Nat", "int32": "Int", "int64": "Int",
             "enum": "Int", "bool": "Bool"}
READER = {"bytes": "fieldBytes", "string": "fieldString", "uint32": "fieldVarint", "uint64": "fieldVarint",
          "int32": "fieldVarint", "int64": "fieldVarint", "enum": "fieldVarint", "bool": "fieldVarint"}
CONV = {"bytes": "v", "string": "v", "uint32": "toU32 v", "uint64": "v", "int32": "toI32 v", "int64": "toI64 v",
        "enum": "toI32 v", "bool": "v != 0"}
ENC = {"bytes": "encBytesField", "string": "encStringField", "uint32": "encUInt32Field", "uint64": "encUInt64Field",
       "int32": "encInt32Field", "int64": "encInt64Field", "enum": "encInt32Field", "bool": "encBoolField"}
OK = {"bytes": "okBytes", "string": "okString", "uint32": "okU32", "uint64": "okU64", "int32": "okI32", "int64": "okI64",
      "enum": "okI32", "bool": "okBool"}
SCALAR_LAW = {"bytes": "Scalar.bytes", "string": "Scalar.string", "uint32": "Scalar.uint32", "uint64": "Scalar.uint64",
              "int32": "Scalar.int32", "int64": "Scalar.int64", "enum": "Scalar.int32", "bool": "Scalar.bool"}


def is_msg(fd):
    return fd["ty"].startswith("msg:")


def base_default(fd):
    ty = fd["ty"]
    if ty in ("bytes", "string"):
        return "[]"
    if ty == "bool":
        return "false"
    if ty == "enum":
        return str(fd["dflt"]) if fd["dflt"] >= 0 else f"({fd['dflt']})"
    return "0"


def field_type_default(fd):
    base = fd["sub"] if is_msg(fd) else LEAN_TYPE[fd["ty"]]
    wrap = base if " " not in base else f"({base})"
    if fd["kind"] == "optional":
        return f"Option {wrap}", "none"
    if fd["kind"] == "repeated":
        return f"List {wrap}", "[]"
    return base, base_default(fd)


def merge_arm(m, fd):
    f, tag = fd["name"], fd["tag"]
    if is_msg(fd):
        sub = fd["sub"]
        if fd["kind"] == "optional":
            return (f"  | {tag} => (fieldMessage ({sub}.mergeFrom (m.{f}.getD {{}})) depth wt bs).map\n"
                    f"      fun (v, rest) => ({{ m with {f} := some v }}, rest)")
        return (f"  | {tag} => (fieldMessage {sub}.decode depth wt bs).map\n"
                f"      fun (v, rest) => ({{ m with {f} := m.{f} ++ [v] }}, rest)")
    cv = CONV[fd["ty"]]
    if fd["kind"] == "optional":
        val = f"some {cv}" if cv == "v" else f"some ({cv})"
    elif fd["kind"] == "repeated":
        val = f"m.{f} ++ [{cv}]"
    else:
        val = cv
    return f"  | {tag} => ({READER[fd['ty']]} wt bs).map fun (v, rest) => ({{ m with {f} := {val} }}, rest)"


def elem_encoder(fd):
    if is_msg(fd):
        return f"(fun v => encMessageField {fd['tag']} ({fd['sub']}.encode v))"
    return f"({ENC[fd['ty']]} {fd['tag']})"


def encode_seg(fd):
    e = elem_encoder(fd)
    if fd["kind"] == "plain":
        return f"encPlain {e} {base_default(fd)} m.{fd['name']}"
    if fd["kind"] == "required":
        return f"{e[1:-1]} m.{fd['name']}"
    if fd["kind"] == "optional":
        return f"encOpt {e} m.{fd['name']}"
    return f"encRep {e} m.{fd['name']}"


def elem_ok(fd):
    if is_msg(fd):
        return f"(okMsg {fd['sub']}.WF {fd['sub']}.encode)"
    return OK[fd["ty"]]


def wf_conj(fd):
    p = elem_ok(fd)
    if fd["kind"] in ("plain", "required"):
        return f"{p} m.{fd['name']}"
    if fd["kind"] == "optional":
        return f"optAll {p} m.{fd['name']}"
    return f"listAll {p} m.{fd['name']}"


def sorted_fields(m):
    return sorted(m["fields"], key=lambda fd: fd["tag"])          # R6


def nest_right(segs):
    if not segs:
        return "[]"
    out = segs[-1]
    for s in reversed(segs[:-1]):
        out = f"{s} ++\n  ({out})"
    return out


def render_schemas(msgs, sources):
    L = ["import Litep2pVerif.Model.Wire.Protobuf",
         "/-! GENERATED by tools/proto2lean.py from the `.proto` files of /repo — do not edit.",
         "",
         "The protobuf messages litep2p decodes from the network, as prost generates them: one structure per",
         "message, `X.merge` = the generated `merge_field` (scalar/optional fields — last occurrence wins;",
         "repeated — appended; singular message fields — merged into the existing value; unknown tags — skipped;",
         "known tag with another wire type — error), `X.mergeFrom init depth bytes` = `merge` into `init` with",
         "`depth` recursion budget left, `X.decode` = `X::decode`, `X.encode` = `encode_raw` (fields in tag order),",
         "`X.WF` = what the Rust types guarantee of a value (integer ranges, UTF-8, lengths below 2^64).",
         "",
         "Sources:"]
    for s in sources:
        L.append(f"  {s['file']}  ({s['syntax']}, {s['messages']} messages, {s['fields']} fields)")
    L += ["-/", "namespace Litep2pVerif.Wire", ""]
    cur = None
    for m in msgs:
        if m["file"] != cur:
            cur = m["file"]
            L += [f"/-! ## {cur} ({m['syntax']}) -/", ""]
        X = m["lean"]
        L.append(f"/-- `{m['fq']}` -/")
        L.append(f"structure {X} where")
        for fd in m["fields"]:
            ty, d = field_type_default(fd)
            L.append(f"  {fd['name']} : {ty} := {d}")
        L.append("  deriving Repr, DecidableEq")
        L.append("")
        L.append(f"def {X}.merge (depth : Nat) (m : {X}) (tag wt : Nat) (bs : List Nat) : Option ({X} × List Nat) :=")
        L.append("  match tag with")
        for fd in m["fields"]:
            L.append(merge_arm(m, fd))
        L.append("  | _ => fieldSkip m depth wt tag bs")
        L.append("")
        L.append(f"def {X}.mergeFrom (init : {X}) (depth : Nat) (bs : List Nat) : Option {X} :=")
        L.append(f"  decodeLoop ({X}.merge depth) bs.length init bs")
        L.append("")
        if m["root"]:
            L.append(f"/-- `{m['fq']}::decode` (a top-level message: the full recursion budget). -/")
            L.append(f"def {X}.decode (bs : List Nat) : Option {X} :=")
            L.append(f"  decodeLoop ({X}.merge recursionLimit) bs.length {{}} bs")
        else:
            L.append(f"/-- `{m['fq']}` decoded as an element of a repeated field, `depth` levels of budget left. -/")
            L.append(f"def {X}.decode (depth : Nat) (bs : List Nat) : Option {X} :=")
            L.append(f"  decodeLoop ({X}.merge depth) bs.length {{}} bs")
        L.append("")
        L.append(f"/-- `encode_raw`: fields in tag order. -/")
        L.append(f"def {X}.encode (m : {X}) : List Nat :=")
        L.append("  " + nest_right([encode_seg(fd) for fd in sorted_fields(m)]))
        L.append("")
        conj = [wf_conj(fd) for fd in sorted_fields(m)]
        L.append(f"def {X}.WF (m : {X}) : Prop :=")
        L.append("  " + (" ∧\n  ".join(conj) if conj else "True"))
        L.append("")
        L.append(f"instance : DecidablePred {X}.WF := fun m => by unfold {X}.WF; infer_instance")
        L.append("")
    L += ["end Litep2pVerif.Wire", ""]
    return "\n".join(L)


def size_kind(fd):
    if is_msg(fd):
        return ("optmsg:" if fd["kind"] == "optional" else "repmsg:") + fd["sub"]
    base = fd["ty"] if fd["ty"] in ("bytes", "string") else "varint"
    return {"plain": "", "required": "", "optional": "opt", "repeated": "rep"}[fd["kind"]] + base


def size_table(msgs):
    """The table `M` of the former tools/emit_wire_sizes.py, derived from the parse."""
    return {m["lean"]: dict(root=m["root"], fields=[(fd["name"], size_kind(fd)) for fd in m["fields"]]) for m in msgs}


def render_sizes(msgs):
    M = size_table(msgs)
    out = ["import Litep2pVerif.Proofs.Wire.Protobuf",
           "/-! GENERATED by tools/proto2lean.py from the `.proto` files of /repo — do not edit.",
           "Size measures of the decoded messages and the proof that every `merge` step grows the measure by at",
           "most the bytes it consumes; hence `decode bs = some m → m.size ≤ bs.length` for every schema. `size`",
           "counts every byte of every bytes/string field plus one per repeated element. -/",
           "namespace Litep2pVerif.Wire", "",
           "def sumLen (l : List (List Nat)) : Nat := (l.map (fun a => a.length + 1)).sum",
           "@[simp] theorem sumLen_nil : sumLen [] = 0 := rfl",
           "@[simp] theorem sumLen_append (l : List (List Nat)) (v : List Nat) : sumLen (l ++ [v]) = sumLen l + (v.length + 1) := by",
           "  simp [sumLen]",
           "def sumBy {α : Type} (f : α → Nat) (l : List α) : Nat := (l.map (fun a => f a + 1)).sum",
           "@[simp] theorem sumBy_nil {α : Type} (f : α → Nat) : sumBy f [] = 0 := rfl",
           "@[simp] theorem sumBy_append {α : Type} (f : α → Nat) (l : List α) (v : α) : sumBy f (l ++ [v]) = sumBy f l + (f v + 1) := by",
           "  simp [sumBy]", ""]

    def term(name, ty, var="m"):
        if ty in ("bytes", "string"):
            return f"{var}.{name}.length"
        if ty in ("optbytes", "optstring"):
            return f"({var}.{name}.getD []).length"
        if ty in ("repbytes", "repstring"):
            return f"sumLen {var}.{name}"
        if ty.startswith("optmsg:"):
            return f"({var}.{name}.getD {{}}).size"
        if ty.startswith("repmsg:"):
            return f"sumBy {ty.split(':')[1]}.size {var}.{name}"
        return None

    for name, d in M.items():
        terms = [t for t in (term(f, ty) for f, ty in d["fields"]) if t]
        out.append(f"def {name}.size (m : {name}) : Nat :=\n  " + (" + ".join(terms) if terms else "0"))
        out.append(f"theorem {name}.size_default : ({{}} : {name}).size = 0 := by decide")
        out.append(f"theorem {name}.merge_size {{depth : Nat}} {{m m' : {name}}} {{tag wt : Nat}} {{bs rest : List Nat}}\n"
                   f"    (h : {name}.merge depth m tag wt bs = some (m', rest)) : m'.size + rest.length ≤ m.size + bs.length := by")
        out.append(f"  unfold {name}.merge at h\n  split at h")
        for f, ty in d["fields"]:
            out.append("  · simp only [Option.map_eq_some_iff, Prod.mk.injEq, Prod.exists] at h\n    obtain ⟨v, r0, hv, rfl, rfl⟩ := h")
            if ty in ("bytes", "optbytes", "repbytes"):
                out.append(f"    have := fieldBytes_spec hv; simp [{name}.size]; omega")
            elif ty in ("string", "optstring", "repstring"):
                out.append(f"    have := fieldString_spec hv; simp [{name}.size]; omega")
            elif ty.endswith("varint"):
                out.append(f"    have := fieldVarint_spec hv; simp [{name}.size]; omega")
            elif ty.startswith("repmsg:"):
                sub = ty.split(":")[1]
                out.append(f"    obtain ⟨payload, hs, hl⟩ := fieldMessage_spec hv\n    have := {sub}.decode_size hs\n    simp [{name}.size]; omega")
            elif ty.startswith("optmsg:"):
                sub = ty.split(":")[1]
                out.append(f"    obtain ⟨payload, hs, hl⟩ := fieldMessage_spec hv\n    have := {sub}.mergeFrom_size hs\n    simp [{name}.size]; omega")
        out.append("  · obtain ⟨rfl, hl⟩ := fieldSkip_spec h\n    omega")
        out.append(f"theorem {name}.merge_consumes {{depth : Nat}} {{m m' : {name}}} {{tag wt : Nat}} {{bs rest : List Nat}}\n"
                   f"    (h : {name}.merge depth m tag wt bs = some (m', rest)) : rest.length ≤ bs.length := by")
        out.append(f"  unfold {name}.merge at h\n  split at h")
        for f, ty in d["fields"]:
            out.append("  · simp only [Option.map_eq_some_iff, Prod.mk.injEq, Prod.exists] at h\n    obtain ⟨v, r0, hv, rfl, rfl⟩ := h")
            if ty in ("bytes", "optbytes", "repbytes"):
                out.append("    have := fieldBytes_spec hv; omega")
            elif ty in ("string", "optstring", "repstring"):
                out.append("    have := fieldString_spec hv; omega")
            elif ty.endswith("varint"):
                out.append("    have := fieldVarint_spec hv; omega")
            else:
                out.append("    obtain ⟨payload, hs, hl⟩ := fieldMessage_spec hv\n    omega")
        out.append("  · obtain ⟨rfl, hl⟩ := fieldSkip_spec h\n    omega")
        out.append(f"theorem {name}.mergeFrom_size {{init m : {name}}} {{depth : Nat}} {{bs : List Nat}}\n"
                   f"    (h : {name}.mergeFrom init depth bs = some m) : m.size ≤ init.size + bs.length :=\n"
                   f"  decodeLoop_measure _ {name}.size (fun _ _ _ _ _ _ hm => {name}.merge_size hm) _ _ _ _ h")
        if d["root"]:
            out.append(f"theorem {name}.decode_size {{m : {name}}} {{bs : List Nat}}\n    (h : {name}.decode bs = some m) : m.size ≤ bs.length := by")
        else:
            out.append(f"theorem {name}.decode_size {{m : {name}}} {{depth : Nat}} {{bs : List Nat}}\n"
                       f"    (h : {name}.decode depth bs = some m) : m.size ≤ bs.length := by")
        out.append(f"  have := decodeLoop_measure _ {name}.size (fun _ _ _ _ _ _ hm => {name}.merge_size hm) _ _ _ _ h\n"
                   f"  rw [{name}.size_default] at this; omega")
        out.append("")
    out.append("end Litep2pVerif.Wire")
    return "\n".join(out) + "\n"


def render_roundtrip(msgs):
    L = ["import Litep2pVerif.Proofs.Wire.Roundtrip",
         "/-! GENERATED by tools/proto2lean.py from the `.proto` files of /repo — do not edit.",
         "Per message `X`: `X.roundtrip : nest ≤ depth → m.WF → X.mergeFrom {} depth (X.encode m) = some m`, one",
         "generic field lemma of `Proofs/Wire/Roundtrip.lean` per field in tag order; the state after the k-th field",
         "is `{}` with the first k fields set, every side condition on it is `rfl`. -/",
         "namespace Litep2pVerif.Wire", ""]
    for m in msgs:
        X = m["lean"]
        fs = sorted_fields(m)
        L.append(f"/-- Static nesting depth of `{X}` (recursion budget its decoder needs). -/")
        L.append(f"def {X}.nest : Nat := {m['nest']}")
        L.append(f"theorem {X}.roundtrip (depth : Nat) (hd : {X}.nest ≤ depth) (m : {X}) (h : m.WF) :")
        L.append(f"    {X}.mergeFrom {{}} depth ({X}.encode m) = some m := by")
        L.append(f"  have hc : Consumes ({X}.merge depth) := fun _ _ _ _ _ _ h => {X}.merge_consumes h")
        L.append(f"  have hd' : {m['nest']} ≤ depth := hd")
        if fs:
            names = ", ".join(f"w{i}" for i in range(len(fs)))
            L.append(f"  obtain ⟨{names}⟩ := h" if len(fs) > 1 else f"  have w0 := h")
        L.append(f"  unfold {X}.mergeFrom")
        L.append(f"  rw [← List.append_nil ({X}.encode m)]")
        L.append(f"  simp only [{X}.encode, List.append_assoc]")
        for i, fd in enumerate(fs):
            f, tag = fd["name"], fd["tag"]
            lens = f"⟨fun st => st.{f}, fun st v => {{ st with {f} := v }}, fun _ _ => rfl, fun _ _ _ => rfl, fun _ => rfl⟩"
            if is_msg(fd):
                sub = fd["sub"]
                if fd["kind"] == "optional":
                    L.append(f"  refine (run_optmsg hc {sub}.mergeFrom {sub}.encode {sub}.WF {{}} depth (by omega)\n"
                             f"    (fun v hv => {sub}.roundtrip (depth - 1) (by unfold {sub}.nest; omega) v hv) {tag} (by omega)\n"
                             f"    {lens}\n    (fun _ _ => rfl) _ m.{f} _ rfl w{i}).trans ?_")
                    continue
                law = (f"(Scalar.msg {sub}.decode {sub}.encode {sub}.WF depth (by omega)\n"
                       f"    (fun v hv => {sub}.roundtrip (depth - 1) (by unfold {sub}.nest; omega) v hv))")
            else:
                law = SCALAR_LAW[fd["ty"]]
            lemma = {"plain": "run_plain", "required": "run_req", "optional": "run_opt", "repeated": "run_rep"}[fd["kind"]]
            extra = f" {base_default(fd)}" if fd["kind"] == "plain" else ""
            hget = "" if fd["kind"] == "required" else " rfl"
            L.append(f"  refine ({lemma} hc {law} {tag} (by omega)\n    {lens}\n"
                     f"    (fun _ _ => rfl){extra} _ m.{f} _{hget} w{i}).trans ?_")
        L.append("  exact run_done _ _ _ (by cases m; rfl)")
        if m["root"]:
            L.append(f"theorem {X}.decode_encode (m : {X}) (h : m.WF) : {X}.decode ({X}.encode m) = some m :=")
            L.append(f"  {X}.roundtrip recursionLimit (by decide) m h")
        else:
            L.append(f"theorem {X}.decode_encode (depth : Nat) (hd : {X}.nest ≤ depth) (m : {X}) (h : m.WF) :")
            L.append(f"    {X}.decode depth ({X}.encode m) = some m := {X}.roundtrip depth hd m h")
        L.append("")
    L += ["end Litep2pVerif.Wire", ""]
    return "\n".join(L)


# ------------------------------------------------------------------ driver

def proto_list():
    src = open(os.path.join(REPO, "build.rs")).read()
    m = re.search(r"compile_protos\s*\(\s*&\[(.*?)\]", src, re.S)
    if not m:
        raise ProtoError("build.rs: compile_protos(&[...]) not found")
    files = re.findall(r'"([^"]+\.proto)"', m.group(1))
    if not files:
        raise ProtoError("build.rs: no .proto file in compile_protos")
    return files


def translate():
    files = proto_list()
    asts, sources = [], []
    for rel in files:
        path = os.path.join(REPO, rel)
        if not os.path.exists(path):
            raise ProtoError(f"{rel}: listed in build.rs but missing")
        text = open(path).read()
        ast = Parser(text, rel).file()
        asts.append(ast)
        sources.append({"file": rel, "sha256": hashlib.sha256(text.encode()).hexdigest(), "syntax": ast["syntax"]})
    msgs = build_ir(asts)
    for s in sources:
        mine = [m for m in msgs if m["file"] == s["file"]]
        s["messages"] = len(mine)
        s["fields"] = sum(len(m["fields"]) for m in mine)
    return msgs, sources


def write_if_changed(path, text):
    os.makedirs(os.path.dirname(path), exist_ok=True)
    old = open(path).read() if os.path.exists(path) else None
    if old != text:
        open(path, "w").write(text)
        return True
    return False


def generate():
    """Returns (info, error). On error nothing is written (the previous generated files stay, so the
    rest still builds) and the caller reports the tie as broken."""
    try:
        msgs, sources = translate()
    except (ProtoError, OSError) as e:
        return None, str(e)
    changed = [os.path.relpath(p, LEAN) for p, t in ((OUT_SCHEMAS, render_schemas(msgs, sources)),
                                                     (OUT_SIZES, render_sizes(msgs)),
                                                     (OUT_ROUNDTRIP, render_roundtrip(msgs))) if write_if_changed(p, t)]
    info = {"proto_files": sources, "messages": len(msgs), "fields": sum(len(m["fields"]) for m in msgs),
            "lean_names": {m["fq"]: m["lean"] for m in msgs}, "rewritten": changed,
            "prost": "rules of prost 0.13.5 / prost-derive 0.13.5 / prost-build 0.14.4 (see tools/proto2lean.py)"}
    return info, None


if __name__ == "__main__":
    info, err = generate()
    if err:
        print("proto2lean: " + err, file=sys.stderr)
        sys.exit(1)
    print(json.dumps(info, indent=1))
