#!/usr/bin/env python3
"""Print the prompt for an independent mutation agent for property <id> and prepare its worktree."""
import json, os, subprocess, sys
pid = sys.argv[1]
tag = sys.argv[2] if len(sys.argv) > 2 else "a"
root = os.path.dirname(os.path.dirname(os.path.abspath(__file__)))
prop = [json.loads(l) for l in open(os.path.join(root, "properties.jsonl")) if json.loads(l)["id"] == pid][0]
wt = f"/tmp/mut/{pid}{tag}/repo"
out = f"/tmp/mut/{pid}{tag}/out"
os.makedirs(out, exist_ok=True)
if not os.path.exists(wt):
    # worktree of the current /repo HEAD (so that patches apply to it), with the cfg-guarded verification adapters
    # removed in a scratch commit: the agent must not see what the checks drive
    subprocess.run(["git", "-C", "/repo", "worktree", "add", "--detach", wt, "HEAD"], check=True, capture_output=True)
    subprocess.run(["git", "-C", wt, "rm", "-rq", "src/verif"], check=True, capture_output=True)
    subprocess.run(["git", "-C", wt, "commit", "-qm", "scratch: without src/verif"], check=True, capture_output=True)
text = open(os.environ.get("MUT_PROMPT", os.path.join(root, "tools", "mutation_prompt.md"))).read()
print(text)
print(f"\nProperty {pid}: {prop['title']}\n\nStatement: {prop['statement']}\n\nQuantified over: {prop['quantifier']['text']}\n\n"
      f"Why the existing tests cannot settle it: {prop['why_tests_cant']}\n\n"
      f"Files where the behaviour lives: {', '.join(prop['anchors']['files'])}\n\n"
      f"Your worktree: {wt}\nYour cargo target dir: /tmp/mut/{pid}{tag}/tgt\nYour output directory: {out}\n")
