#!/bin/bash
# Merge an agent's branches (repo + verif) into the main working copies. Usage: tools/merge_branch.sh cNN
set -u
b=$1
echo "== repo"
git -C /repo status --porcelain | grep -v '^??' && { echo "/repo dirty"; exit 1; }
git -C /repo merge --no-edit $b 2>&1 | tail -5
echo "== verif"
git -C /verif merge --no-edit $b 2>&1 | tail -8
echo "== conflicts:"
git -C /repo diff --name-only --diff-filter=U
git -C /verif diff --name-only --diff-filter=U
