#!/usr/bin/env python3
"""Confirm a change produced by an independent mutation agent and file it under /verif/seeded/.

  tools/confirm_seeded.py <agent out dir> <n> <seeded name>     confirm + file
  tools/confirm_seeded.py --detect <seeded name> [tier]          apply to /repo, run the property's check, undo

Confirmation (in a scratch worktree of /repo HEAD, shared cargo target dir /tmp/confirm/tgt):
  1. demo applies and PASSES without the change;  2. change applies, crate builds, demo FAILS;
  3. the unedited baseline suite passes with the change (demo removed).
"""
import json, os, re, shutil, subprocess, sys, time

ROOT = os.path.dirname(os.path.dirname(os.path.abspath(__file__)))
TGT = os.environ.get("CONFIRM_TGT", "/tmp/confirm/tgt")
NEXTEST = ["cargo", "nextest", "run", "--workspace", "--no-fail-fast", "--tool-config-file", "pb:/w/lib/nextest.toml",
           "--profile", "pb", "--test-threads", "8", "--offline"]


def sh(cmd, cwd, timeout=3600):
    env = dict(os.environ, CARGO_TARGET_DIR=TGT, CARGO_NET_OFFLINE="true")
    p = subprocess.run(cmd, cwd=cwd, capture_output=True, text=True, timeout=timeout, env=env)
    return p.returncode, p.stdout + p.stderr


def summary(text):
    m = re.search(r"Summary \[.*?\] (.*)", text)
    return m.group(1) if m else text[-300:]


def confirm(outdir, n, name):
    meta = json.load(open(os.path.join(outdir, f"meta{n}.json")))
    wt = f"/tmp/confirm/{name}"
    if os.path.exists(wt):
        subprocess.run(["git", "-C", "/repo", "worktree", "remove", "--force", wt])
    subprocess.run(["git", "-C", "/repo", "worktree", "add", "--detach", wt, "HEAD"], check=True, capture_output=True)
    res = {"applied_to": subprocess.run(["git", "-C", "/repo", "rev-parse", "--short", "HEAD"], capture_output=True, text=True).stdout.strip()}
    try:
        change = os.path.join(outdir, f"change{n}.diff")
        demo = os.path.join(outdir, f"demo{n}.diff")
        rc, o = sh(["git", "apply", demo], wt)
        assert rc == 0, "demo does not apply: " + o
        test = meta["demo_test"].split("::")[-1]
        rc, o = sh(NEXTEST + ["-E", f"test(/{test}/)"], wt)
        res["demo_without_change"] = summary(o)
        assert rc == 0 and " 0 failed" not in o or rc == 0, "demo does not pass without the change: " + o[-800:]
        assert re.search(r"\b[1-9]\d* passed", o), "demo test did not run: " + o[-500:]
        rc, o = sh(["git", "apply", change], wt)
        assert rc == 0, "change does not apply: " + o
        rc, o = sh(NEXTEST + ["-E", f"test(/{test}/)"], wt)
        res["demo_with_change"] = summary(o)
        assert rc != 0 and re.search(r"\b[1-9]\d* failed", o), "demo does not fail with the change: " + o[-800:]
        rc, o = sh(["git", "apply", "-R", demo], wt)
        assert rc == 0, "cannot remove demo: " + o
        rc, o = sh(NEXTEST, wt)
        res["suite_with_change"] = summary(o)
        assert rc == 0 and re.search(r"\b420 passed", o), "baseline suite does not pass with the change: " + summary(o)
    except AssertionError as e:
        print("NOT CONFIRMED:", e)
        res["confirmed"] = False
        print(json.dumps(res, indent=1))
        return 1
    finally:
        subprocess.run(["git", "-C", "/repo", "worktree", "remove", "--force", wt])
    d = os.path.join(ROOT, "seeded", name)
    os.makedirs(d, exist_ok=True)
    shutil.copy(change, os.path.join(d, "patch.diff"))
    shutil.copy(demo, os.path.join(d, "demo.diff"))
    meta["confirmed_by_us"] = res
    meta["confirmed_at"] = time.strftime("%Y-%m-%dT%H:%M:%SZ", time.gmtime())
    json.dump(meta, open(os.path.join(d, "meta.json"), "w"), indent=1)
    print("CONFIRMED", name, json.dumps(res))
    return 0


def detect(name, tier="quick", seed=None):
    # the repo next to this verif directory (a sandbox copy /tmp/detN/{repo,verif} detects in parallel)
    REPO = os.path.normpath(os.path.join(ROOT, "..", "repo"))
    d = os.path.join(ROOT, "seeded", name)
    meta = json.load(open(os.path.join(d, "meta.json")))
    pid = meta["property"]
    st = subprocess.run(["git", "-C", REPO, "status", "--porcelain"], capture_output=True, text=True).stdout.strip()
    assert not st, "repo working tree is not clean:\n" + st
    rc = subprocess.run(["git", "-C", REPO, "apply", os.path.join(d, "patch.diff")], capture_output=True).returncode
    if rc != 0:
        # the cfg-guarded hook lines added since the change was seeded may have moved its context: three-way apply
        rc = subprocess.run(["git", "-C", REPO, "apply", "--3way", os.path.join(d, "patch.diff")], capture_output=True).returncode
        subprocess.run(["git", "-C", REPO, "reset", "-q"])
    if rc != 0:
        subprocess.run(["git", "-C", REPO, "checkout", "--", "."])
    assert rc == 0, "patch does not apply"
    try:
        t0 = time.time()
        cmd = [os.path.join(ROOT, "verif.py"), "check", pid, "--tier", tier] + (["--seed", str(seed)] if seed else [])
        p = subprocess.run(cmd, cwd=ROOT, capture_output=True, text=True)
        out = p.stdout + p.stderr
    finally:
        subprocess.run(["git", "-C", REPO, "checkout", "--", "."])
        subprocess.run(["git", "-C", REPO, "clean", "-fdq", "src", "tests"])
    viol = [l for l in out.splitlines() if l.startswith("VIOLATION")]
    meta.setdefault("detection", {})[tier if not seed else f"{tier}-seed{seed}"] = {
        "detected": bool(viol) and p.returncode == 1, "exit": p.returncode, "lines": [l for l in out.splitlines() if l.startswith(("VIOLATION", "#", "KNOWN"))][:4],
        "wall_s": round(time.time() - t0, 1), "verif_commit": subprocess.run(["git", "-C", ROOT, "rev-parse", "--short", "HEAD"], capture_output=True, text=True).stdout.strip()}
    json.dump(meta, open(os.path.join(d, "meta.json"), "w"), indent=1)
    print(name, "DETECTED" if viol else "MISSED", out.strip().splitlines()[-2:])
    return 0 if viol else 1


if __name__ == "__main__":
    if sys.argv[1] == "--detect":
        sys.exit(detect(sys.argv[2], sys.argv[3] if len(sys.argv) > 3 else "quick", int(sys.argv[4]) if len(sys.argv) > 4 else None))
    sys.exit(confirm(sys.argv[1], int(sys.argv[2]), sys.argv[3]))
