#!/usr/bin/env python3
"""Resolve git conflict markers by keeping both sides (ours first). For registry-style files."""
import re, sys
for p in sys.argv[1:]:
    s = open(p).read()
    s = re.sub(r"<<<<<<< [^\n]*\n(.*?)=======\n(.*?)>>>>>>> [^\n]*\n", lambda m: m.group(1) + m.group(2), s, flags=re.S)
    open(p, "w").write(s)
