#!/bin/bash
# After `git merge cNN` in /verif: regenerate the generated files, commit the merge, run the merged property's check.
cd /verif
for f in MANIFEST.json lean/Driver/Main.lean lean/Litep2pVerif/Generated/Consts.lean $(git diff --name-only --diff-filter=U | grep "^evidence/"); do
  git checkout --theirs -- $f 2>/dev/null
done
python3 -c "import verif; verif.gen_main()"
python3 tools/extract_consts.py >/dev/null
python3 tools/gen_manifest.py
git diff --name-only --diff-filter=U
