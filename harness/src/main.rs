//! Executor for the line protocol: `harness <area>` reads operation lines on stdin and prints one
//! observation line per operation on stdout, driving the real litep2p component behind the
//! adapter `litep2p::verif::new_box(area)`.
//!
//! `case ...` starts a fresh component. A panic inside the real code is reported as
//! `panic <message>`; the rest of that case is answered `skipped`.

mod local;

struct Counting;

unsafe impl std::alloc::GlobalAlloc for Counting {
    unsafe fn alloc(&self, l: std::alloc::Layout) -> *mut u8 {
        litep2p::verif::alloc_note(l.size());
        std::alloc::System.alloc(l)
    }
    unsafe fn dealloc(&self, p: *mut u8, l: std::alloc::Layout) {
        litep2p::verif::dealloc_note(l.size());
        std::alloc::System.dealloc(p, l)
    }
    unsafe fn realloc(&self, p: *mut u8, l: std::alloc::Layout, n: usize) -> *mut u8 {
        litep2p::verif::dealloc_note(l.size());
        litep2p::verif::alloc_note(n);
        std::alloc::System.realloc(p, l, n)
    }
}

#[global_allocator]
static GLOBAL: Counting = Counting;

use std::io::{BufRead, Write};
use std::panic::{catch_unwind, AssertUnwindSafe};

fn main() {
    let area = std::env::args().nth(1).expect("usage: harness <area>");
    if area == "--areas" {
        println!("{}", litep2p::verif::areas().join(" "));
        return;
    }
    std::panic::set_hook(Box::new(|_| {}));
    let stdin = std::io::stdin();
    let stdout = std::io::stdout();
    let mut out = std::io::BufWriter::new(stdout.lock());
    let make = |a: &str| local::new_box(a).or_else(|| litep2p::verif::new_box(a));
    let mut boxed = make(&area);
    if boxed.is_none() {
        eprintln!("unknown area {area}");
        std::process::exit(2);
    }
    let mut poisoned = false;
    for line in stdin.lock().lines() {
        let line = line.expect("stdin");
        let trimmed = line.trim();
        if trimmed.is_empty() || trimmed.starts_with('#') {
            continue;
        }
        if trimmed == "case" || trimmed.starts_with("case ") {
            // a poisoned box may panic again on drop
            let old = boxed.take();
            let _ = catch_unwind(AssertUnwindSafe(move || drop(old)));
            boxed = make(&area);
            poisoned = false;
            writeln!(out, "case").unwrap();
            continue;
        }
        if poisoned {
            writeln!(out, "skipped").unwrap();
            continue;
        }
        let b = boxed.as_mut().unwrap();
        let res = catch_unwind(AssertUnwindSafe(|| b.step(trimmed)));
        match res {
            Ok(s) => writeln!(out, "{}", s.replace('\n', "\\n")).unwrap(),
            Err(e) => {
                let msg = if let Some(s) = e.downcast_ref::<&str>() {
                    s.to_string()
                } else if let Some(s) = e.downcast_ref::<String>() {
                    s.clone()
                } else {
                    "?".to_string()
                };
                poisoned = true;
                writeln!(out, "panic {}", msg.replace('\n', " ")).unwrap();
            }
        }
        if trimmed.ends_with(" !flush") {
            out.flush().unwrap();
        }
    }
    out.flush().unwrap();
}
