//! Executor for the line protocol: `harness <area>` reads operation lines on stdin and prints one
//! observation line per operation on stdout, driving the real litep2p component behind the
//! adapter `litep2p::verif::new_box(area)`.
//!
//! `case ...` starts a fresh component. A panic inside the real code is reported as
//! `panic <message>`; the rest of that case is answered `skipped`.

mod local;

struct Counting;

unsafe impl std::alloc::GlobalAlloc for Counting {
    unsafe fn alloc(&self, l: std::alloc::Layout) -> *mut u8 {
        litep2p::verif::alloc_note(l.size());
        std::alloc::System.alloc(l)
    }
    unsafe fn dealloc(&self, p: *mut u8, l: std::alloc::Layout) {
        litep2p::verif::dealloc_note(l.size());
        std::alloc::System.dealloc(p, l)
    }
    unsafe fn realloc(&self, p: *mut u8, l: std::alloc::Layout, n: usize) -> *mut u8 {
        litep2p::verif::dealloc_note(l.size());
        litep2p::verif::alloc_note(n);
        std::alloc::System.realloc(p, l, n)
    }
}

#[global_allocator]
static GLOBAL: Counting = Counting;

/// Tracing subscriber that enables every callsite and formats every recorded field into a null
/// sink: the field expressions of litep2p's `tracing::…!` macros are evaluated (and their `Debug`
/// / `Display` impls run) exactly as under `RUST_LOG=trace`, without producing output.
/// `VERIF_TRACE=0` switches it off.
struct EvalAll;

struct NullFmt;

impl std::fmt::Write for NullFmt {
    fn write_str(&mut self, _: &str) -> std::fmt::Result {
        Ok(())
    }
}

struct NullVisit;

impl tracing::field::Visit for NullVisit {
    fn record_debug(&mut self, _: &tracing::field::Field, value: &dyn std::fmt::Debug) {
        use std::fmt::Write as _;
        let _ = write!(NullFmt, "{:?}", value);
    }
}

impl tracing::Subscriber for EvalAll {
    fn enabled(&self, _: &tracing::Metadata<'_>) -> bool {
        true
    }
    fn new_span(&self, attrs: &tracing::span::Attributes<'_>) -> tracing::span::Id {
        attrs.record(&mut NullVisit);
        tracing::span::Id::from_u64(1)
    }
    fn record(&self, _: &tracing::span::Id, values: &tracing::span::Record<'_>) {
        values.record(&mut NullVisit);
    }
    fn record_follows_from(&self, _: &tracing::span::Id, _: &tracing::span::Id) {}
    fn event(&self, event: &tracing::Event<'_>) {
        event.record(&mut NullVisit);
    }
    fn enter(&self, _: &tracing::span::Id) {}
    fn exit(&self, _: &tracing::span::Id) {}
}

use std::io::{BufRead, Write};
use std::panic::{catch_unwind, AssertUnwindSafe};

fn main() {
    let area = std::env::args().nth(1).expect("usage: harness <area>");
    if area == "--areas" {
        println!("{}", litep2p::verif::areas().join(" "));
        return;
    }
    std::panic::set_hook(Box::new(|_| {}));
    if std::env::var("VERIF_TRACE").map(|v| v != "0").unwrap_or(true) {
        let _ = tracing::subscriber::set_global_default(EvalAll);
    }
    let stdin = std::io::stdin();
    let stdout = std::io::stdout();
    let mut out = std::io::BufWriter::new(stdout.lock());
    let make = |a: &str| local::new_box(a).or_else(|| litep2p::verif::new_box(a));
    let mut boxed = make(&area);
    if boxed.is_none() {
        eprintln!("unknown area {area}");
        std::process::exit(2);
    }
    let mut poisoned = false;
    for line in stdin.lock().lines() {
        let line = line.expect("stdin");
        let trimmed = line.trim();
        if trimmed.is_empty() || trimmed.starts_with('#') {
            continue;
        }
        if trimmed == "case" || trimmed.starts_with("case ") {
            // a poisoned box may panic again on drop
            let old = boxed.take();
            let _ = catch_unwind(AssertUnwindSafe(move || drop(old)));
            boxed = make(&area);
            poisoned = false;
            writeln!(out, "case").unwrap();
            continue;
        }
        if poisoned {
            writeln!(out, "skipped").unwrap();
            continue;
        }
        let b = boxed.as_mut().unwrap();
        let res = catch_unwind(AssertUnwindSafe(|| b.step(trimmed)));
        match res {
            Ok(s) => writeln!(out, "{}", s.replace('\n', "\\n")).unwrap(),
            Err(e) => {
                let msg = if let Some(s) = e.downcast_ref::<&str>() {
                    s.to_string()
                } else if let Some(s) = e.downcast_ref::<String>() {
                    s.clone()
                } else {
                    "?".to_string()
                };
                poisoned = true;
                writeln!(out, "panic {}", msg.replace('\n', " ")).unwrap();
            }
        }
        if trimmed.ends_with(" !flush") {
            out.flush().unwrap();
        }
    }
    out.flush().unwrap();
}
