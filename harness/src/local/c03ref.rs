//! C03 reference comparison: the real litep2p dialer (listener) runs against the listener (dialer)
//! of the reference implementation `multistream-select` 0.13.0 (rust-libp2p) over the C03 adapter's
//! scripted in-memory duplex.
//!
//! `refneg role=dial|listen ver=v1|lazy dialer=.. listener=.. dpay=.. lpay=.. dr= dw= lr= lw= order=`
//! `role` names the side played by litep2p; the other side is the reference. Every other operation
//! is answered by litep2p's own `c03` adapter. The reference side's error is printed as `err` (its
//! error type is not litep2p's); the wire logs are not printed.

use futures::{AsyncReadExt, AsyncWriteExt};
use litep2p::verif::{
    c03x::{io_kind, lp_dial_task, lp_listen_task, run_pair, End, Task, TaskOut},
    hex, kv, unhex, VerifBox,
};
use multistream_select as ms;

pub struct RefNeg {
    pub litep2p: Box<dyn VerifBox>,
}

fn hx(b: &[u8]) -> String {
    if b.is_empty() {
        "-".into()
    } else {
        hex(b)
    }
}

fn unhx(s: &str) -> Vec<u8> {
    if s == "-" {
        Vec::new()
    } else {
        unhex(s)
    }
}

fn list(s: &str) -> Vec<Vec<u8>> {
    if s == "-" || s.is_empty() {
        Vec::new()
    } else {
        s.split(',').map(unhx).collect()
    }
}

/// The same test application as the adapter's `after`, on the reference's `Negotiated`.
async fn after(name: String, mut io: ms::Negotiated<End>, pay: Vec<u8>) -> TaskOut {
    if let Err(e) = io.write_all(&pay).await {
        return (format!("err:app-write:{}", io_kind(e.kind())), Vec::new());
    }
    if let Err(e) = io.flush().await {
        return (format!("err:app-flush:{}", io_kind(e.kind())), Vec::new());
    }
    let mut io = match io.complete().await {
        Ok(io) => io,
        Err(_) => return ("err".into(), Vec::new()),
    };
    if let Err(e) = io.close().await {
        return (format!("err:app-close:{}", io_kind(e.kind())), Vec::new());
    }
    let mut buf = Vec::new();
    if let Err(e) = io.read_to_end(&mut buf).await {
        return (format!("err:app-read:{}", io_kind(e.kind())), buf);
    }
    (format!("ok:{}", hx(name.as_bytes())), buf)
}

fn ref_dial_task(io: End, protos: Vec<String>, lazy: bool, pay: Vec<u8>) -> Task {
    let version = if lazy { ms::Version::V1Lazy } else { ms::Version::V1 };
    Box::pin(async move {
        match ms::dialer_select_proto(io, protos, version).await {
            Err(_) => ("err".into(), Vec::new()),
            Ok((name, io)) => after(name, io, pay).await,
        }
    })
}

fn ref_listen_task(io: End, protos: Vec<String>, pay: Vec<u8>) -> Task {
    Box::pin(async move {
        match ms::listener_select_proto(io, protos).await {
            Err(_) => ("err".into(), Vec::new()),
            Ok((name, io)) => after(name, io, pay).await,
        }
    })
}

fn strings(v: &[Vec<u8>]) -> Option<Vec<String>> {
    v.iter().map(|b| String::from_utf8(b.clone()).ok()).collect()
}

impl VerifBox for RefNeg {
    fn step(&mut self, line: &str) -> String {
        let t: Vec<&str> = line.split_whitespace().collect();
        let ["refneg", rest @ ..] = t.as_slice() else {
            return self.litep2p.step(line);
        };
        let a = kv(rest);
        let lazy = match a.get("ver").copied().unwrap_or("v1") {
            "v1" => false,
            "lazy" => true,
            _ => return "bad-op".into(),
        };
        let dnames = list(a.get("dialer").copied().unwrap_or("-"));
        let lnames = list(a.get("listener").copied().unwrap_or("-"));
        let dpay = unhx(a.get("dpay").copied().unwrap_or("-"));
        let lpay = unhx(a.get("lpay").copied().unwrap_or("-"));
        let out = match a.get("role").copied() {
            Some("dial") => {
                let Some(names) = strings(&lnames) else {
                    return "bad-op".into();
                };
                run_pair(
                    &a,
                    |io| lp_dial_task(io, dnames, lazy, dpay),
                    |io| ref_listen_task(io, names, lpay),
                )
            }
            Some("listen") => {
                let Some(names) = strings(&dnames) else {
                    return "bad-op".into();
                };
                run_pair(
                    &a,
                    |io| ref_dial_task(io, names, lazy, dpay),
                    |io| lp_listen_task(io, lnames, lpay),
                )
            }
            _ => return "bad-op".into(),
        };
        // drop the wire logs
        out.split(' ').filter(|f| !f.starts_with("dw=") && !f.starts_with("lw=")).collect::<Vec<_>>().join(" ")
    }
}
