//! C18 reference area: the same operations as `litep2p/src/verif/c18.rs`, answered by
//! `libp2p-identity` 0.2.14 (and `multiaddr` 0.18.2, whose `PeerId` is the same type).
//! `-` means "the reference has no such operation / is not applicable to this input".

use libp2p_identity::{ParseError, PeerId, PublicKey};
use litep2p::verif::{hex, unhex as crate_unhex, VerifBox};
use multiaddr::{Multiaddr, Protocol};

use std::str::FromStr;

pub struct RefBox;

pub struct Both {
    pub litep2p: Box<dyn VerifBox>,
    pub reference: RefBox,
}

impl VerifBox for Both {
    fn step(&mut self, line: &str) -> String {
        let a = self.litep2p.step(line);
        if a == "bad-op" {
            return a;
        }
        format!("{} | {}", a, self.reference.step(line))
    }
}

/// Byte-string arguments are written `0x<hex>` (so that the empty string is a token).
fn is_hex(s: &str) -> bool {
    s.strip_prefix("0x")
        .map_or(false, |s| s.len() % 2 == 0 && s.bytes().all(|b| b.is_ascii_hexdigit()))
}

fn unhex(s: &str) -> Vec<u8> {
    crate_unhex(&s[2..])
}

fn parse_err(e: ParseError) -> String {
    match e {
        ParseError::B58(_) => "err b58".to_string(),
        ParseError::UnsupportedCode(_) => "err code".to_string(),
        ParseError::InvalidMultihash(_) => "err multihash".to_string(),
        _ => "err other".to_string(),
    }
}

impl VerifBox for RefBox {
    fn step(&mut self, line: &str) -> String {
        let t: Vec<&str> = line.split_whitespace().collect();
        match t.as_slice() {
            ["frombytes", data, ..] if is_hex(data) => match PeerId::from_bytes(&unhex(data)) {
                Ok(peer) => format!("ok {}", hex(&peer.to_bytes())),
                Err(e) => parse_err(e),
            },
            // The reference derives ids from key objects only: applicable iff the blob is the
            // canonical protobuf encoding of a key type this build supports.
            ["frompk", data, ..] if is_hex(data) => {
                let blob = unhex(data);
                match PublicKey::try_decode_protobuf(&blob) {
                    Ok(key) if key.encode_protobuf() == blob =>
                        format!("ok {}", hex(&PeerId::from_public_key(&key).to_bytes())),
                    _ => "-".to_string(),
                }
            }
            ["edid", key, ..] if is_hex(key) =>
                match libp2p_identity::ed25519::PublicKey::try_from_bytes(&unhex(key)) {
                    Ok(key) => {
                        let public = PublicKey::from(key);
                        format!("ok {}", hex(&public.to_peer_id().to_bytes()))
                    }
                    Err(_) => "err badkey".to_string(),
                },
            ["fromstr", text, ..] if is_hex(text) => match String::from_utf8(unhex(text)) {
                Ok(s) => match PeerId::from_str(&s) {
                    Ok(peer) => format!("ok {}", hex(&peer.to_bytes())),
                    Err(e) => parse_err(e),
                },
                Err(_) => "bad-op".to_string(),
            },
            // What `multiaddr` itself accepts as a `/p2p` component, in text and in binary form.
            ["tomultiaddr", data, ..] if is_hex(data) => {
                let bytes = unhex(data);
                let text = format!("/ip4/127.0.0.1/tcp/30333/p2p/{}", bs58::encode(&bytes).into_string());
                let from_text = text.parse::<Multiaddr>().ok().and_then(|a| match a.iter().last() {
                    Some(Protocol::P2p(peer)) => Some(peer),
                    _ => None,
                });
                // binary: /ip4 (4) ‖ /tcp (6) ‖ /p2p (421 = a5 03) ‖ varint length ‖ bytes
                let mut raw = vec![0x04, 127, 0, 0, 1, 0x06, 0x76, 0x7d, 0xa5, 0x03];
                let mut n = bytes.len();
                loop {
                    let b = (n & 0x7f) as u8;
                    n >>= 7;
                    if n == 0 {
                        raw.push(b);
                        break;
                    }
                    raw.push(b | 0x80);
                }
                raw.extend_from_slice(&bytes);
                let from_binary = Multiaddr::try_from(raw).ok().and_then(|a| match a.iter().last() {
                    Some(Protocol::P2p(peer)) => Some(peer),
                    _ => None,
                });
                match (from_text, from_binary) {
                    (Some(a), Some(b)) if a == b => format!("ok {}", hex(&a.to_bytes())),
                    (None, None) => "err multiaddr".to_string(),
                    (a, b) => format!("err diverge {:?} {:?}", a, b),
                }
            }
            // ---- ed25519 key material. Each answer is followed by ` | <facts>`: what the curve library says
            // about the parts of the input (inputs of the model).
            ["kpbytes", data, ..] if is_hex(data) => {
                use libp2p_identity::ed25519;
                let original = unhex(data);
                let mut buffer = original.clone();
                let result = match ed25519::Keypair::try_from_bytes(&mut buffer) {
                    Ok(kp) => format!(
                        "ok pub={} sec={} zeroed={} rt={} c=1",
                        hex(&kp.public().to_bytes()),
                        hex(kp.secret().as_ref()),
                        buffer.iter().all(|b| *b == 0) as u8,
                        (kp.to_bytes()[..] == original[..]) as u8
                    ),
                    Err(_) => format!("err kept={}", (buffer == original) as u8),
                };
                let derive = if original.len() >= 32 {
                    match ed25519::SecretKey::try_from_bytes(original[..32].to_vec()) {
                        Ok(sk) => hex(&ed25519::Keypair::from(sk).public().to_bytes()),
                        Err(_) => "-".to_string(),
                    }
                } else {
                    "-".to_string()
                };
                let valid = original.len() == 64 && ed25519::PublicKey::try_from_bytes(&original[32..]).is_ok();
                format!("{result} | derive={derive} valid={}", valid as u8)
            }
            ["skbytes", data, ..] if is_hex(data) => {
                use libp2p_identity::ed25519;
                let original = unhex(data);
                let mut buffer = original.clone();
                match ed25519::SecretKey::try_from_bytes(&mut buffer) {
                    Ok(sk) => {
                        let sec = hex(sk.as_ref());
                        let public = hex(&ed25519::Keypair::from(sk).public().to_bytes());
                        format!(
                            "ok sec={sec} pub={public} zeroed={} | derive={public}",
                            buffer.iter().all(|b| *b == 0) as u8
                        )
                    }
                    Err(_) => format!("err kept={} | derive=-", (buffer == original) as u8),
                }
            }
            ["pkbytes", data, ..] if is_hex(data) =>
                match libp2p_identity::ed25519::PublicKey::try_from_bytes(&unhex(data)) {
                    Ok(key) => format!("ok {} c=1 | valid=1", hex(&key.to_bytes())),
                    Err(_) => format!("err badkey | valid={}", 0),
                },
            ["pkproto", data, ..] if is_hex(data) => match PublicKey::try_decode_protobuf(&unhex(data)) {
                Ok(key) => match key.try_into_ed25519() {
                    Ok(key) => format!("ok {}", hex(&key.to_bytes())),
                    Err(_) => "err type".to_string(),
                },
                Err(_) => "err".to_string(),
            },
            ["edverify", key, msg, sig, ..] if is_hex(key) && is_hex(msg) && is_hex(sig) =>
                match libp2p_identity::ed25519::PublicKey::try_from_bytes(&unhex(key)) {
                    Ok(key) => key.verify(&unhex(msg), &unhex(sig)).to_string(),
                    Err(_) => "err badkey".to_string(),
                },
            ["edsign", sk, msg, ..] if is_hex(sk) && is_hex(msg) => {
                use libp2p_identity::ed25519;
                match ed25519::SecretKey::try_from_bytes(unhex(sk)) {
                    Ok(sk) => {
                        let kp = ed25519::Keypair::from(sk);
                        let sig = kp.sign(&unhex(msg));
                        format!("ok {} v={}", hex(&sig), kp.public().verify(&unhex(msg), &sig) as u8)
                    }
                    Err(_) => "err badkey".to_string(),
                }
            }
            ["conv", data, ..] if is_hex(data) => match PeerId::from_bytes(&unhex(data)) {
                Ok(peer) => format!("ok {}", hex(&peer.to_bytes())),
                Err(_) => "err multihash".to_string(),
            },
            ["b58dec", text, ..] | ["b58enc", text, ..] | ["serde", text, ..] if is_hex(text) => "-".to_string(),
            ["deser", "hr" | "bin", data, ..] if is_hex(data) => "-".to_string(),
            _ => "bad-op".to_string(),
        }
    }
}
