//! Areas implemented in the harness crate itself (reference implementations from the cargo
//! registry, e.g. `libp2p-identity`, that the litep2p crate does not depend on). Same line
//! protocol as `litep2p::verif`.

use litep2p::verif::VerifBox;

mod c18ref;
mod c03ref;

pub fn new_box(area: &str) -> Option<Box<dyn VerifBox>> {
    match area {
        // reference only
        "c18ref" => Some(Box::new(c18ref::RefBox)),
        // litep2p adapter and reference side by side: `<litep2p observation> | <reference observation>`
        "c18" => Some(Box::new(c18ref::Both {
            litep2p: litep2p::verif::new_box("c18")?,
            reference: c18ref::RefBox,
        })),
        // litep2p adapter; `refneg` runs litep2p against `multistream-select` 0.13.0
        "c03" => Some(Box::new(c03ref::RefNeg { litep2p: litep2p::verif::new_box("c03")? })),
        _ => None,
    }
}
