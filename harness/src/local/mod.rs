//! Areas implemented in the harness crate itself (reference implementations from the cargo
//! registry, e.g. `libp2p-identity`, that the litep2p crate does not depend on). Same line
//! protocol as `litep2p::verif`.

use litep2p::verif::VerifBox;

pub fn new_box(_area: &str) -> Option<Box<dyn VerifBox>> {
    None
}
